(* Properties/C10.v — Iterator steps return exactly the samples inside the reported view.
   Only statements, each closed by [exact] (short glue allowed), each followed by
   Print Assumptions. *)
From Coq Require Import ZArith List Bool Lia.
From Synnax Require Import Generated.Consts_C10 Cesium.Store Cesium.IndexSearch Cesium.Distance Cesium.Stamp
     Cesium.UnaryIter Cesium.UnaryWrite Cesium.Read Monitors.Mon_C10
     Cesium.IndexSearchProofs Cesium.UnaryIterViews Cesium.UnaryIterViewsRun Cesium.LegacyWitness.
Import ListNotations.
Local Open Scope Z_scope.

(* The sentinel span and the default chunk size of the model are the ones of the Go source. *)
Theorem C10_consts_agree : AUTO = go_auto_span /\ DEFAULT_CHUNK = go_default_chunk.
Proof. split; reflexivity. Qed.
Print Assumptions C10_consts_agree.

(* search_spec — index.Domain.search on a strictly increasing stamp list: Exactly i iff the
   stamp is the i-th sample, otherwise Between (k-1) k where k samples lie before it. *)
Theorem C10_search_spec : forall l ts, inc l ->
  isearch ts l = Ok (if mem ts l then AP (cnt_lt ts l) (cnt_lt ts l)
                     else AP (cnt_lt ts l - 1) (cnt_lt ts l)) /\
  (mem ts l = true -> znth l (cnt_lt ts l) = Some ts).
Proof.
  intros l ts S. split.
  - rewrite (isearch_spec l ts S). unfold search_result. destruct (mem ts l); reflexivity.
  - apply inc_mem_at. exact S.
Qed.
Print Assumptions C10_search_spec.

(* Views: for every stored layout (P index domains, D data domains, any data type kind), chunk
   size, valid bounds and every command sequence with non-negative spans, each step that does
   not report an error has its view inside the bounds, and consecutive steps in one direction
   have adjacent views: view'.start = view.end going forward, view'.end = view.start going
   backward (clauses (2) and (3) of the monitor, [views_trace]). *)
Theorem C10_views_adjacent_and_bounded : forall P D var chunk b cmds,
  valid_bounds b -> Forall cmd_ok cmds ->
  views_trace b None (combine cmds (u_run P D var chunk false (u_open b) cmds)) = true.
Proof. exact views_adjacent_and_bounded. Qed.
Print Assumptions C10_views_adjacent_and_bounded.

(* A step never clears an accumulated error and never changes the bounds; its view is the
   requested span range clipped to the bounds. *)
Theorem C10_step_view : forall P D var i span,
  u_view (step_fwd P D var i span) = bound_by (span_range (t_e (u_view i)) span) (u_b i) /\
  u_view (step_bwd P D var i span) = bound_by (span_range (t_s (u_view i)) (-1 * span)) (u_b i) /\
  u_b (step_fwd P D var i span) = u_b i /\ u_b (step_bwd P D var i span) = u_b i /\
  (errored i = true -> errored (step_fwd P D var i span) = true /\ errored (step_bwd P D var i span) = true).
Proof.
  intros. destruct (step_fwd_view P D var i span) as (A & B & C).
  destruct (step_bwd_view P D var i span) as (A' & B' & C'). auto 10.
Qed.
Print Assumptions C10_step_view.

(* The stepping code of the pinned upstream tree does not satisfy the statement (finding F1,
   repaired in /repo by e87d2c5; the model's [legacy = false] is the repaired code): automatic
   steps from a view that does not start on a sample return a sample outside the view and
   return it again; a forward walk skips the rest of a domain after a view without samples; a
   step back after the domain iterator was exhausted loses samples.  The same sequences satisfy
   the monitor with the repaired code. *)
Theorem C10_legacy_steps_refuted :
  w_ok true 2 w_auto = false /\ w_ok true 2 w_skip = false /\ w_ok true 2 w_back = false /\
  w_ok false 2 w_auto = true /\ w_ok false 2 w_skip = true /\ w_ok false 2 w_back = true.
Proof.
  pose proof legacy_auto_refuted. pose proof legacy_skip_refuted. pose proof legacy_back_refuted.
  pose proof fixed_witnesses_ok. tauto.
Qed.
Print Assumptions C10_legacy_steps_refuted.

(* Known finding F24 (not repaired): backwardStamp reads one stamp past the previous domain
   when the wanted sample is the first of the current one, so Prev(AutoSpan) reports EOF. *)
Theorem C10_auto_prev_eof_refuted : stamp w_idx3 110 (-1) false = Err EEOF.
Proof. exact backward_stamp_eof. Qed.
Print Assumptions C10_auto_prev_eof_refuted.

(* Non-vacuity: a two-domain layout whose writer started before its first sample, valid
   bounds, a sequence mixing directions, automatic and explicit spans across the gap; the
   hypotheses of the theorems hold and the full monitor accepts the model's observations. *)
Definition ex_cmds : list cmd :=
  [SeekFirst; NextAuto; Next 4; Next 20; Prev 9; PrevAuto; SeekLE 31; Next 100; SetBounds (TR 13 33); SeekLast; Prev 5; Prev 100].
Example C10_nonvacuous :
  valid_bounds w_bounds /\ Forall cmd_ok ex_cmds /\
  w_ok false 2 ex_cmds = true /\
  length (filter (fun o => o_valid o) (w_obs false 2 ex_cmds)) = 7%nat.
Proof.
  split; [unfold valid_bounds, w_bounds, MINI64, MAXTS; simpl; lia|].
  split; [repeat constructor; unfold valid_bounds, MINI64, MAXTS; simpl; lia|].
  vm_compute. auto.
Qed.
