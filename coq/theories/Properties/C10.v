(* Properties/C10.v — Iterator steps return exactly the samples inside the reported view.
   Only statements, each closed by [exact] (short glue allowed), each followed by
   Print Assumptions. *)
From Coq Require Import ZArith List Bool Lia.
From Synnax Require Import Cesium.LayoutOk Generated.Consts_C10 Cesium.Store Cesium.IndexSearch Cesium.Distance Cesium.Stamp
     Cesium.UnaryIter Cesium.UnaryWrite Cesium.Read Monitors.Mon_C10
     Cesium.IndexSearchProofs Cesium.UnaryIterViews Cesium.UnaryIterViewsRun Cesium.LegacyWitness
     Cesium.DomIterProofs Cesium.DistanceProofs Cesium.UnaryIterExact Cesium.SliceProofs Cesium.UnaryIterSpec Cesium.UnaryIterRun
     Cesium.TruthProofs Cesium.ReadProofs Cesium.ReadProofsBwd Cesium.LayoutCheck.
From Synnax Require Common.Telem Common.TelemSrc.
Import ListNotations.
Local Open Scope Z_scope.

(* The sentinel span and the default chunk size of the model are the ones of the Go source. *)
Theorem C10_consts_agree : AUTO = go_auto_span /\ DEFAULT_CHUNK = go_default_chunk.
Proof. split; reflexivity. Qed.
Print Assumptions C10_consts_agree.

(* search_spec — index.Domain.search on a strictly increasing stamp list: Exactly i iff the
   stamp is the i-th sample, otherwise Between (k-1) k where k samples lie before it. *)
Theorem C10_search_spec : forall l ts, inc l ->
  isearch ts l = Ok (if mem ts l then AP (cnt_lt ts l) (cnt_lt ts l)
                     else AP (cnt_lt ts l - 1) (cnt_lt ts l)) /\
  (mem ts l = true -> znth l (cnt_lt ts l) = Some ts).
Proof.
  intros l ts S. split.
  - rewrite (isearch_spec l ts S). unfold search_result. destruct (mem ts l); reflexivity.
  - apply inc_mem_at. exact S.
Qed.
Print Assumptions C10_search_spec.

(* Views: for every stored layout (P index domains, D data domains, any data type kind), chunk
   size, valid bounds and every command sequence with non-negative spans, each step that does
   not report an error has its view inside the bounds, and consecutive steps in one direction
   have adjacent views: view'.start = view.end going forward, view'.end = view.start going
   backward (clauses (2) and (3) of the monitor, [views_trace]). *)
Theorem C10_views_adjacent_and_bounded : forall P D var chunk b cmds,
  valid_bounds b -> Forall cmd_ok cmds ->
  views_trace b None (combine cmds (u_run P D var chunk false (u_open b) cmds)) = true.
Proof. exact views_adjacent_and_bounded. Qed.
Print Assumptions C10_views_adjacent_and_bounded.

(* A step never clears an accumulated error and never changes the bounds; its view is the
   requested span range clipped to the bounds. *)
Theorem C10_step_view : forall P D var i span,
  u_view (step_fwd P D var i span) = bound_by (span_range (t_e (u_view i)) span) (u_b i) /\
  u_view (step_bwd P D var i span) = bound_by (span_range (t_s (u_view i)) (-1 * span)) (u_b i) /\
  u_b (step_fwd P D var i span) = u_b i /\ u_b (step_bwd P D var i span) = u_b i /\
  (errored i = true -> errored (step_fwd P D var i span) = true /\ errored (step_bwd P D var i span) = true).
Proof.
  intros. destruct (step_fwd_view P D var i span) as (A & B & C).
  destruct (step_bwd_view P D var i span) as (A' & B' & C'). auto 10.
Qed.
Print Assumptions C10_step_view.

(* Step exactness.  [layout_assoc P D] is the stored content of the channel: every data domain
   paired, sample by sample, with the index stamps of its range.  [layout_ok P D]: all index
   stamps ascend, the data domains are sorted, non-overlapping and non-empty, and for every data
   domain Distance resolves every prefix of its range to the number of index stamps in it
   ([dist_ok]) and the domain holds one sample per index stamp of its range.  [dist_ok] is
   proved for every data domain that starts inside an index domain and ends within the run of
   immediately contiguous index domains beginning there (C10_layout_check_sound, the decidable
   [layout_okb]; index file rollovers inside a data domain included).
   For every such layout, every data type kind, chunk size, valid bounds and EVERY command
   sequence (seeks, explicit and automatic steps in both directions, SetBounds): after each
   command that does not report an error, Value() is exactly the stored samples whose stamps lie
   in View(), in order, and Valid() <-> a series was returned.
   _partial: the hypothesis [layout_ok] stays visible — that every history of legal writes
   yields such a layout is observed by the correspondence (all generated layouts satisfy
   layout_okb), not proved (see C01); the per-series clause of the monitor (each series carries
   the samples of its own range) is proved only structurally (C10_step_frame). *)
Theorem C10_step_exact_partial : forall P D var chunk b cmds,
  layout_ok P D -> valid_bounds b -> Forall cmd_ok cmds ->
  Forall (fun o => o_err o = 0 ->
            UnaryIterSpec.frame_data (o_frame o) = read_spec (layout_assoc P D) (o_view o) /\
            o_valid o = negb (match o_frame o with [] => true | _ => false end))
         (u_run P D var chunk false (u_open b) cmds).
Proof. exact step_exact_all. Qed.
Print Assumptions C10_step_exact_partial.

(* the frame of one step, structurally: in order, the series sliced from every domain that
   overlaps the view, wherever earlier commands left the domain iterator *)
Theorem C10_step_frame : forall P D var b v i,
  t_s v < t_e v -> t_s b <= t_s v /\ t_e v <= t_e b -> lay D ->
  u_view i = v -> di_b (u_di i) = b -> u_err i = None -> u_frame i = [] ->
  Forall (good P var v) D ->
  u_frame (fwd_body P D var i) = contribs P var v D /\ u_frame (bwd_body P D var i) = contribs P var v D.
Proof.
  intros P D var b v i Hv Hb HD V B E F G. split.
  - apply (fwd_body_frame P D var b v Hv Hb HD i V B E F G).
  - apply (bwd_body_frame P D var b v Hv Hb HD i V B E F G).
Qed.
Print Assumptions C10_step_frame.

(* the sample offset the iterator picks from a Distance approximation is the number of index
   stamps in the range, whichever of the two ends fall between samples *)
Theorem C10_distance_count : forall P k q a t,
  lay P -> znth P k = Some q -> inc (d_data q) ->
  t_s (d_tr q) <= a < t_e (d_tr q) -> a <= t <= t_e (d_tr q) ->
  exists da, distance P (TR a t) true = Ok da /\
             pick_sample_offset da = cnt_lt t (d_data q) - cnt_lt a (d_data q).
Proof. intros P k q a t HP Hq Hi Ha Ht. exact (distance_one_domain P k q HP Hq Hi a t Ha Ht). Qed.
Print Assumptions C10_distance_count.

(* Full traversal: SeekFirst, then forward steps of any spans (explicit and automatic mixed),
   none reporting an error, until the view reaches the end of the bounds: the values returned,
   concatenated, are exactly the stored samples of the bounds — each once, in order.
   _partial: same layout hypothesis. *)
Theorem C10_full_traversal_partial : forall P D var chunk b steps,
  layout_ok P D -> valid_bounds b -> Forall fwd_cmd steps ->
  let os := u_run P D var chunk false (u_open b) (SeekFirst :: steps) in
  Forall (fun o => o_err o = 0) os ->
  t_e (o_view (last os (observe (u_open b) true))) = t_e b ->
  concat (map (fun o => UnaryIterSpec.frame_data (o_frame o)) os) = read_spec (layout_assoc P D) b.
Proof. exact full_traversal_fwd. Qed.
Print Assumptions C10_full_traversal_partial.

(* ... and backwards: SeekLast, then backward steps of any spans, none reporting an error, until
   the view reaches the start of the bounds (bounds start >= 0): the values, taken in reverse
   step order, are exactly the stored samples of the bounds.  (The premise "no error" is where
   the known finding F24 bites: Prev(AutoSpan) may report a spurious error.) *)
Theorem C10_full_traversal_backward_partial : forall P D var chunk b steps,
  layout_ok P D -> valid_bounds b -> 0 <= t_s b -> Forall bwd_cmd steps ->
  let os := u_run P D var chunk false (u_open b) (SeekLast :: steps) in
  Forall (fun o => o_err o = 0) os ->
  t_s (o_view (last os (observe (u_open b) true))) = t_s b ->
  concat (map (fun o => UnaryIterSpec.frame_data (o_frame o)) (rev os)) = read_spec (layout_assoc P D) b.
Proof. exact full_traversal_bwd. Qed.
Print Assumptions C10_full_traversal_backward_partial.

(* the layout hypothesis holds for every layout accepted by the decidable check: well-formed
   index, sorted data domains, each data domain within a contiguous run of index domains *)
Theorem C10_layout_check_sound : forall P D, layout_okb P D = true -> layout_ok P D.
Proof. exact layout_okb_sound. Qed.
Print Assumptions C10_layout_check_sound.

(* The stepping code of the pinned upstream tree does not satisfy the statement (finding F1,
   repaired in /repo by e87d2c5; the model's [legacy = false] is the repaired code): automatic
   steps from a view that does not start on a sample return a sample outside the view and
   return it again; a forward walk skips the rest of a domain after a view without samples; a
   step back after the domain iterator was exhausted loses samples.  The same sequences satisfy
   the monitor with the repaired code. *)
Theorem C10_legacy_steps_refuted :
  w_ok true 2 lw_auto = false /\ w_ok true 2 lw_skip = false /\ w_ok true 2 lw_back = false /\
  w_ok false 2 lw_auto = true /\ w_ok false 2 lw_skip = true /\ w_ok false 2 lw_back = true.
Proof.
  pose proof legacy_auto_refuted. pose proof legacy_skip_refuted. pose proof legacy_back_refuted.
  pose proof fixed_witnesses_ok. tauto.
Qed.
Print Assumptions C10_legacy_steps_refuted.

(* Known finding F24 (not repaired): backwardStamp cannot resolve a chunk whose boundary falls on
   the first sample of an index domain: with a predecessor it reads one stamp past that
   domain's end (EOF); in the first domain the lower bound would need a domain before it
   (Discontinuous).  Prev(AutoSpan) then reports an error although samples remain. *)
Theorem C10_auto_prev_eof_refuted :
  stamp w_idx3 110 (-1) false = Err EEOF /\ stamp w_idx3 51 (-6) false = Err EDisc.
Proof. split; [exact backward_stamp_eof|exact backward_stamp_first]. Qed.
Print Assumptions C10_auto_prev_eof_refuted.

(* Non-vacuity: a two-domain layout whose writer started before its first sample, valid
   bounds, a sequence mixing directions, automatic and explicit spans across the gap; the
   hypotheses of the theorems hold and the full monitor accepts the model's observations. *)
Definition ex_cmds : list cmd :=
  [SeekFirst; NextAuto; Next 4; Next 20; Prev 9; PrevAuto; SeekLE 31; Next 100; SetBounds (TR 13 33); SeekLast; Prev 5; Prev 100].
Example C10_nonvacuous :
  layout_okb w_idx w_dat = true /\ layout_assoc w_idx w_dat = w_truth /\
  valid_bounds w_bounds /\ Forall cmd_ok ex_cmds /\
  w_ok false 2 ex_cmds = true /\
  length (filter (fun o => o_valid o) (w_obs false 2 ex_cmds)) = 7%nat.
Proof.
  split; [vm_compute; reflexivity|]. split; [vm_compute; reflexivity|].
  split; [unfold valid_bounds, w_bounds, MINI64, MAXTS; simpl; lia|].
  split; [repeat constructor; unfold valid_bounds, MINI64, MAXTS; simpl; lia|].
  vm_compute. auto.
Qed.

(* ---- tie to the source by translation: the interval algebra (x/go/telem TimeRange / TimeStamp, x/go/clamp) that the
   cesium models are written over (Common/Telem.v) is EQUAL to the Gallina that translator/go2coq regenerates from
   the Go source on every run (Generated/Src_Telem.v; proofs in Common/TelemSrc.v). *)
Theorem C10_interval_algebra_from_source :
  (forall tr ts, TelemSrc.S.TimeRange_ContainsStamp (TelemSrc.src tr) ts = Telem.contains_stamp tr ts) /\
  (forall tr rng, TelemSrc.S.TimeRange_ContainsRange (TelemSrc.src tr) (TelemSrc.src rng) = Telem.contains_range tr rng) /\
  (forall tr rng, TelemSrc.S.TimeRange_OverlapsWith (TelemSrc.src tr) (TelemSrc.src rng) = Telem.overlaps_with tr rng) /\
  (forall tr b, TelemSrc.S.TimeRange_BoundBy (TelemSrc.src tr) (TelemSrc.src b) = TelemSrc.src (Telem.bound_by tr b)) /\
  (forall tr, TelemSrc.S.TimeRange_MakeValid (TelemSrc.src tr) = TelemSrc.src (Telem.tr_make_valid tr)) /\
  (forall tr, TelemSrc.S.TimeRange_Span (TelemSrc.src tr) = Telem.tr_span tr) /\
  (forall tr rng, TelemSrc.S.TimeRange_Intersection (TelemSrc.src tr) (TelemSrc.src rng) =
                  TelemSrc.src (Telem.tr_intersection tr rng)) /\
  (forall tr o, TelemSrc.S.TimeRange_Union (TelemSrc.src tr) (TelemSrc.src o) = TelemSrc.src (Telem.tr_union tr o)) /\
  (forall ts span, TelemSrc.int64 ts -> TelemSrc.int64 span ->
                   TelemSrc.S.TimeStamp_SpanRange ts span = TelemSrc.src (Telem.ts_span_range ts span)) /\
  (TelemSrc.S.TimeStampMin = Telem.ts_min /\ TelemSrc.S.TimeStampMax = Telem.ts_max).
Proof. exact TelemSrc.telem_from_source. Qed.
Print Assumptions C10_interval_algebra_from_source.
