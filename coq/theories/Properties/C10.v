(* Properties/C10.v — Iterator steps return exactly the samples inside the reported view.
   (statements only; under construction) *)
From Coq Require Import ZArith List.
From Synnax Require Import Generated.Consts_C10 Cesium.Store Cesium.UnaryIter Cesium.Read.
Local Open Scope Z_scope.

Theorem C10_consts_agree : AUTO = go_auto_span /\ DEFAULT_CHUNK = go_default_chunk.
Proof. split; reflexivity. Qed.
Print Assumptions C10_consts_agree.
