(* Properties/C09.v — Concurrent cesium use is equivalent to a serial order (logical core).
   Data-race freedom and deadlock freedom are properties of the Go runtime: they are
   OBSERVED by the harness (race detector, watchdog), not proved (see DESIGN.md §8 C09). *)
From stdpp Require Import gmap.
From Coq Require Import ZArith.
From Synnax Require Import Common.Commute Cesium.Serial Cesium.SerialProofs.
From Synnax Require Cesium.Domain Cesium.DomainProofs Cesium.DomainCommute.
Local Open Scope Z_scope.

(* Two operations that report success and are independent — they touch different channels,
   or they are a write and a delete (or two writes, or two deletes) on the same channel group
   over disjoint stamps/regions, or one of them is a read/iterator/streamer/GC — commute. *)
Theorem C09_independent_commute : forall x y st,
  independent x y = true -> step (step st x) y = step (step st y) x.
Proof. exact step_commute. Qed.
Print Assumptions C09_independent_commute.

(* Every interleaving (any number of threads, any lengths, any schedule) of threads whose
   cross-thread operations are pairwise independent leaves exactly the content that running
   the threads one after another leaves. *)
Theorem C09_serialisable : forall ts l st,
  interleave_all ts l -> cross_independent ts = true ->
  run st l = run st (concat ts).
Proof. exact serialisable. Qed.
Print Assumptions C09_serialisable.

(* The generic fact behind it: with arbitrary per-step outputs, an interleaving of commuting
   threads yields the same final state and the same multiset of (action, output) pairs. *)
Theorem C09_interleaving_generic :
  forall (S O A : Type) (step : S -> A -> S * O) (ts : list (list A)) (l : list A),
  interleave_all ts l -> cross_commute step ts ->
  forall s, fst (Commute.run step s l) = fst (Commute.run step s (concat ts)) /\
            Permutation.Permutation (snd (Commute.run step s l)) (snd (Commute.run step s (concat ts))).
Proof. exact @interleave_all_serial. Qed.
Print Assumptions C09_interleaving_generic.

(* Pointer level (the domain index of ONE channel, model of C03): two writers whose commits both
   succeed in both orders — i.e. on disjoint time regions — leave the identical index (same pointers,
   same order, same files and offsets), whichever commits first. *)
Theorem C09_index_inserts_commute : forall ps p q a ab b ba,
  DomainProofs.idx_ok ps -> DomainProofs.ptr_wf p -> DomainProofs.ptr_wf q ->
  Domain.insert ps p = inl a -> Domain.insert a q = inl ab ->
  Domain.insert ps q = inl b -> Domain.insert b p = inl ba ->
  ab = ba.
Proof. exact DomainCommute.insert_commute. Qed.
Print Assumptions C09_index_inserts_commute.

(* Non-vacuity: two threads (a writer producing new domains on group 1; a thread deleting an
   older range of group 1 and creating/dropping a private channel) are cross-independent,
   have a non-trivial interleaving, and the run changes the store. *)
Definition ex_t1 := [Write 1 [1000; 1010]; Write 1 [2000]].
Definition ex_t2 := [Delete 1 120 155 false; Create 1001; PWrite 1001 [5; 6]; DelChan 1001].
Definition ex_st := run (init_store [1]) [Write 1 [100; 110; 120; 130; 140; 150; 160]].
Definition ex_l := [Write 1 [1000; 1010]; Delete 1 120 155 false; Create 1001; Write 1 [2000];
                    PWrite 1001 [5; 6]; DelChan 1001].
Example C09_nonvacuous :
  cross_independent [ex_t1; ex_t2] = true /\
  interleave_all [ex_t1; ex_t2] ex_l /\
  bool_decide (run ex_st ex_l = ex_st) = false /\
  bool_decide (run ex_st ex_l = run ex_st (ex_t1 ++ ex_t2)) = true.
Proof.
  split; [vm_compute; reflexivity|]. split.
  - eapply ia_cons with (r := ex_t2).
    + eapply ia_cons with (r := []); [constructor|].
      unfold ex_t2. repeat constructor.
    + unfold ex_t1, ex_t2, ex_l. repeat constructor.
  - split; vm_compute; reflexivity.
Qed.
