(* Properties/C09.v — Concurrent cesium use is equivalent to a serial order (logical core).
   Data-race freedom and deadlock freedom are properties of the Go runtime: they are
   OBSERVED by the harness (race detector, watchdog), not proved (see DESIGN.md §8 C09). *)
From stdpp Require Import gmap.
From Coq Require Import ZArith.
From Synnax Require Import Common.Commute Cesium.Serial Cesium.SerialProofs.
From Synnax Require Cesium.Domain Cesium.DomainProofs Cesium.DomainCommute.
From Synnax Require Cesium.PersistOrder Cesium.PersistOrderProofs Generated.Consts_C09.
From Synnax Require Cesium.DomainInv Cesium.DeleteSerial.
Local Open Scope Z_scope.

(* Two operations that report success and are independent — they touch different channels,
   or they are a write and a delete (or two writes, or two deletes) on the same channel group
   over disjoint stamps/regions, or one of them is a read/iterator/streamer/GC — commute. *)
Theorem C09_independent_commute : forall x y st,
  independent x y = true -> step (step st x) y = step (step st y) x.
Proof. exact step_commute. Qed.
Print Assumptions C09_independent_commute.

(* Every interleaving (any number of threads, any lengths, any schedule) of threads whose
   cross-thread operations are pairwise independent leaves exactly the content that running
   the threads one after another leaves. *)
Theorem C09_serialisable : forall ts l st,
  interleave_all ts l -> cross_independent ts = true ->
  run st l = run st (concat ts).
Proof. exact serialisable. Qed.
Print Assumptions C09_serialisable.

(* The generic fact behind it: with arbitrary per-step outputs, an interleaving of commuting
   threads yields the same final state and the same multiset of (action, output) pairs. *)
Theorem C09_interleaving_generic :
  forall (S O A : Type) (step : S -> A -> S * O) (ts : list (list A)) (l : list A),
  interleave_all ts l -> cross_commute step ts ->
  forall s, fst (Commute.run step s l) = fst (Commute.run step s (concat ts)) /\
            Permutation.Permutation (snd (Commute.run step s l)) (snd (Commute.run step s (concat ts))).
Proof. exact @interleave_all_serial. Qed.
Print Assumptions C09_interleaving_generic.

(* Pointer level (the domain index of ONE channel, model of C03): two writers whose commits both
   succeed in both orders — i.e. on disjoint time regions — leave the identical index (same pointers,
   same order, same files and offsets), whichever commits first. *)
Theorem C09_index_inserts_commute : forall ps p q a ab b ba,
  DomainProofs.idx_ok ps -> DomainProofs.ptr_wf p -> DomainProofs.ptr_wf q ->
  Domain.insert ps p = inl a -> Domain.insert a q = inl ab ->
  Domain.insert ps q = inl b -> Domain.insert b p = inl ba ->
  ab = ba.
Proof. exact DomainCommute.insert_commute. Qed.
Print Assumptions C09_index_inserts_commute.

(* ---- the clause "after close and reopen": persistence of the domain index of one channel.
   Model Cesium/PersistOrder.v: threads run critical sections under the index lock (change the pointer list, take a
   snapshot with prepare(start)) and later write their snapshot to index.domain (Truncate + WriteAt). [src_protocol]
   and [src_prepare_in_critical_section] are read off the Go source on every run (Generated/Consts_C09.v).

   For EVERY schedule of critical sections and writes, of any number of threads, lazy (unpersisted) commits and
   partial persists (Delete persists from the first pointer it replaced) included: whenever no write is pending,
   index.domain agrees with the pointer list below the lowest change that no later persist covered. *)
Theorem C09_persist_order : forall m es s,
  PersistOrder.run PersistOrder.LockInPrepare (PersistOrder.init m) es = Some s ->
  PersistOrder.quiescent s = true ->
  PersistOrderProofs.agree (PersistOrderProofs.dirt es) (PersistOrder.disk s) (PersistOrder.mem s).
Proof. exact PersistOrderProofs.persist_order_general. Qed.
Print Assumptions C09_persist_order.

(* No lazy commits: index.domain holds exactly the acknowledged pointer list once no write is pending — under the
   protocol and the call-site discipline the translator found in the CURRENT source.  (If the source takes the file
   lock only at write time, or calls prepare outside the index lock, this theorem no longer type-checks.) *)
Theorem C09_persist_order_src : forall m es s,
  Consts_C09.src_prepare_in_critical_section = true /\
  (PersistOrder.run Consts_C09.src_protocol (PersistOrder.init m) es = Some s ->
   forallb PersistOrder.eager es = true -> PersistOrder.quiescent s = true ->
   PersistOrder.disk s = PersistOrder.mem s).
Proof. intros m es s. split; [reflexivity|exact (PersistOrderProofs.persist_order_eager m es s)]. Qed.
Print Assumptions C09_persist_order_src.

(* Lazy commits: a completed whole-index flush (Writer.Close) restores index.domain = pointer list, whatever the
   schedule before it. *)
Theorem C09_persist_order_flush : forall m es t s,
  PersistOrder.run PersistOrder.LockInPrepare (PersistOrder.init m)
    (es ++ [PersistOrder.EPrepare t (PersistOrder.Flush 0); PersistOrder.EWrite t]) = Some s ->
  PersistOrder.quiescent s = true /\ PersistOrder.disk s = PersistOrder.mem s.
Proof. exact PersistOrderProofs.persist_order_flush. Qed.
Print Assumptions C09_persist_order_flush.

(* The protocol before fix 39ba064 (file lock taken only when the write happens) does NOT have the property: two
   eager commits whose writes cross leave index.domain without an acknowledged pointer (finding F74; reproduced on
   the real code by the free-running repetition phase). *)
Theorem C09_persist_order_late_refuted :
  exists es s, PersistOrder.run PersistOrder.LockAtWrite (PersistOrder.init []) es = Some s /\
               forallb PersistOrder.eager es = true /\ PersistOrder.quiescent s = true /\
               PersistOrder.disk s <> PersistOrder.mem s.
Proof. exact PersistOrderProofs.persist_order_late_refuted. Qed.
Print Assumptions C09_persist_order_late_refuted.

(* ---- DB.Delete's optimistic protocol against concurrent commits (cesium/internal/domain/delete.go).
   Delete looks up its start domain under a read lock, releases it, resolves the start offset, looks up its end
   domain under a second read lock, releases it, resolves the end offset, then takes the write lock, RE-RESOLVES
   both positions and splices the index.  For EVERY list X1 of domains committed by other writers in the first
   window and EVERY list X2 committed in the second window (any number, anywhere they fit), whenever the delete
   reports success the resulting index is the one of a SERIAL execution: the commits that landed between the
   captured start and end domain first, then the delete, then the remaining commits — and every step of that serial
   execution succeeds.  (Pointer level; [p_start s <= p_start e]: the captured start domain is not after the captured
   end domain, i.e. the range is not contained in a gap, where the delete removes nothing.) *)
Theorem C09_delete_serialisable_against_commits :
  forall fs ps0 X1 X2 ps1 ps2 a b sd s so a' ed e eo b' final,
  DomainProofs.idx_ok ps0 -> Telem.ts_in_range a -> Telem.ts_in_range b ->
  Forall DomainProofs.ptr_wf (X1 ++ X2) ->
  Domain.delete_start Domain.lin_resolver ps0 a = inl (Some (sd, s, so, a')) ->
  DeleteSerial.inserts ps0 X1 = inl ps1 ->
  Domain.delete_end Domain.lin_resolver ps1 b = inl (Some (ed, e, eo, b')) ->
  DeleteSerial.inserts ps1 X2 = inl ps2 ->
  Forall (DomainInv.ptr_in_files fs) ps2 -> Forall DomainInv.file_small fs ->
  Domain.p_start s <= Domain.p_start e ->
  Domain.delete_apply ps2 (Domain.repechage_start ps2 sd s) s so a' (Domain.repechage_end ps2 ed e) e eo b'
    = (final, Domain.ROk) ->
  exists psA psD,
    DeleteSerial.inserts ps0 (List.filter (fun x => negb (DeleteSerial.outb s e x)) (X1 ++ X2)) = inl psA /\
    Domain.delete Domain.lin_resolver Domain.lin_resolver psA a b = (psD, Domain.ROk) /\
    DeleteSerial.inserts psD (List.filter (DeleteSerial.outb s e) (X1 ++ X2)) = inl final.
Proof. exact DeleteSerial.delete_with_commits_serial. Qed.
Print Assumptions C09_delete_serialisable_against_commits.

(* The complementary case: the captured end domain lies before the captured start domain (the range is contained in a
   gap).  A delete that reports success then leaves the index exactly as the concurrent commits made it. *)
Theorem C09_delete_in_gap_changes_nothing : forall ps2 sd s so a' ed e eo b' final,
  DomainProofs.idx_ok ps2 -> In s ps2 -> In e ps2 -> Domain.p_start e < Domain.p_start s ->
  Domain.delete_apply ps2 (Domain.repechage_start ps2 sd s) s so a' (Domain.repechage_end ps2 ed e) e eo b'
    = (final, Domain.ROk) ->
  final = ps2.
Proof. exact DeleteSerial.delete_in_gap_noop. Qed.
Print Assumptions C09_delete_in_gap_changes_nothing.

(* Non-vacuity: two threads (a writer producing new domains on group 1; a thread deleting an
   older range of group 1 and creating/dropping a private channel) are cross-independent,
   have a non-trivial interleaving, and the run changes the store. *)
Definition ex_t1 := [Write 1 [1000; 1010]; Write 1 [2000]].
Definition ex_t2 := [Delete 1 120 155 false; Create 1001; PWrite 1001 [5; 6]; DelChan 1001].
Definition ex_st := run (init_store [1]) [Write 1 [100; 110; 120; 130; 140; 150; 160]].
Definition ex_l := [Write 1 [1000; 1010]; Delete 1 120 155 false; Create 1001; Write 1 [2000];
                    PWrite 1001 [5; 6]; DelChan 1001].
Example C09_nonvacuous :
  cross_independent [ex_t1; ex_t2] = true /\
  interleave_all [ex_t1; ex_t2] ex_l /\
  bool_decide (run ex_st ex_l = ex_st) = false /\
  bool_decide (run ex_st ex_l = run ex_st (ex_t1 ++ ex_t2)) = true.
Proof.
  split; [vm_compute; reflexivity|]. split.
  - eapply ia_cons with (r := ex_t2).
    + eapply ia_cons with (r := []); [constructor|].
      unfold ex_t2. repeat constructor.
    + unfold ex_t1, ex_t2, ex_l. repeat constructor.
  - split; vm_compute; reflexivity.
Qed.

(* Non-vacuity for the persistence theorems: a schedule with a lazy commit by thread 2 between thread 1's prepare and
   write, a delete-style partial persist, and a final flush runs under the current protocol and changes the file. *)
Example C09_persist_nonvacuous :
  let es := [PersistOrder.EPrepare 1 (PersistOrder.Mutate 0 [5; 6; 7] (Some 0%nat));
             PersistOrder.EPrepare 2 (PersistOrder.Mutate 3 [9] None);
             PersistOrder.EWrite 1;
             PersistOrder.EPrepare 3 (PersistOrder.Mutate 1 [8] (Some 1%nat));
             PersistOrder.EWrite 3] in
  match PersistOrder.run PersistOrder.LockInPrepare (PersistOrder.init []) es with
  | Some s => PersistOrder.quiescent s = true /\ PersistOrder.disk s = [5; 8] /\ PersistOrder.mem s = [5; 8]
  | None => False
  end.
Proof. vm_compute. auto. Qed.

(* Non-vacuity for the delete/commit theorem: delete [15,55) over three domains; one writer commits [42,45) after the
   start look-up (it lands between the captured domains and is removed, as if it had committed before the delete),
   another commits [1,5) after the end look-up (it shifts every position and survives). *)
Definition dP (a b : Z) (off sz : N) := Domain.mkPtr (Telem.mkTR a b) 1 off sz.
Example C09_delete_commits_nonvacuous :
  let ps0 := [dP 10 20 0 10; dP 30 40 10 10; dP 50 60 20 10] in
  let X1 := [dP 42 45 30 3] in let X2 := [dP 1 5 33 4] in
  Domain.delete_start Domain.lin_resolver ps0 15 = inl (Some (0, dP 10 20 0 10, 5, 15)) /\
  exists ps1 ps2, DeleteSerial.inserts ps0 X1 = inl ps1 /\ DeleteSerial.inserts ps1 X2 = inl ps2 /\
    Domain.delete_end Domain.lin_resolver ps1 55 = inl (Some (3, dP 50 60 20 10, 5, 55)) /\
    Domain.delete_apply ps2 (Domain.repechage_start ps2 0 (dP 10 20 0 10)) (dP 10 20 0 10) 5 15
                            (Domain.repechage_end ps2 3 (dP 50 60 20 10)) (dP 50 60 20 10) 5 55
      = ([dP 1 5 33 4; dP 10 15 0 5; dP 55 60 25 5], Domain.ROk) /\
    List.filter (DeleteSerial.outb (dP 10 20 0 10) (dP 50 60 20 10)) (X1 ++ X2) = [dP 1 5 33 4].
Proof.
  cbv zeta. split; [vm_compute; reflexivity|]. eexists. eexists.
  split; [vm_compute; reflexivity|]. split; [vm_compute; reflexivity|]. repeat split; vm_compute; reflexivity.
Qed.
