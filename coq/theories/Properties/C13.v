(* Properties/C13.v — Key-value observers see each applied change once, never a stale one.
   Only statements, each closed by [exact] (short glue allowed), each followed by Print Assumptions.
   Model: Aspen/KV.v (n_log = every TxRequest the persist splitter forwarded; sub_view = what a
   subscriber registered through DB.OnChange / NewObservable(IgnoreHostLeaseholder) is handed).
   Proofs: Aspen/KVObserve.v; cluster invariant: Aspen/KVInv.v; witness: Aspen/KVWitness.v.
   The relay buffer of the persist splitter (500) and the per-handler channel of the async observer
   (64) drop when full; the model has no drop step — "the subscriber keeps up" is this hypothesis. *)
From stdpp Require Import gmap.
From Coq Require Import NArith ZArith Lia.
From Synnax Require Import Aspen.KV Aspen.KVJoin Aspen.KVInv Aspen.KVQuiesce Aspen.KVObserve Aspen.KVWitness.
Local Open Scope N_scope.

(* (1) Never stale, at the gossip ingress (any engine, any batch, no hypothesis): an operation is
   forwarded only if, at its turn in the batch, it superseded the stored digest, and it then became
   the entry of its key; an operation that lost to what was stored (stored entry at least as new)
   is never forwarded, however often it is redelivered. *)
Theorem C13_forwarded_only_if_it_won : forall e b o,
  In o (accepted e b) ->
  exists b1 b2, b = b1 ++ o :: b2 /\
    supersedes (ingest_eng e b1 !! o_key o) o = true /\
    ingest_eng e (b1 ++ [o]) !! o_key o = Some o.
Proof. exact (fun e b => accepted_split b e). Qed.
Print Assumptions C13_forwarded_only_if_it_won.

Theorem C13_never_stale : forall e b o,
  above (e !! o_key o) o -> ~ In o (accepted e b).
Proof. intros e b o A H. exact (accepted_not_above b e o H A). Qed.
Print Assumptions C13_never_stale.

Theorem C13_redelivery_forwards_nothing : forall e b, accepted (ingest_eng e b) b = [].
Proof.
  intros e b. destruct (accepted (ingest_eng e b) b) as [|o l] eqn:E; [reflexivity|].
  exfalso. assert (In o (accepted (ingest_eng e b) b)) as H by (rewrite E; left; reflexivity).
  apply (accepted_not_above b _ o H). apply ingest_above. apply (accepted_in _ _ _ H).
Qed.
Print Assumptions C13_redelivery_forwards_nothing.

(* (2) Complete: in every step of every kind except the recovery apply (which runs inside kv.Open,
   before a subscriber can exist), on every node, the log only grows, and every entry that differs
   after the step is among the operations forwarded during the step. No hypothesis on the run. *)
Theorem C13_complete : forall fx T w s,
  applies_recovery s = false ->
  forall n nd', w_nodes (step fx T w s).1 !! n = Some nd' ->
    exists nd new, w_nodes w !! n = Some nd /\ n_log nd' = n_log nd ++ new /\
      forall k x, n_eng nd' !! k = Some x -> n_eng nd !! k <> Some x -> x ∈ log_ops new.
Proof. exact step_complete. Qed.
Print Assumptions C13_complete.

(* ... and a registered subscriber is handed exactly the newly forwarded requests, minus (with
   IgnoreHostLeaseholder) those whose TxRequest.Leaseholder is the host *)
Theorem C13_subscriber_gets_the_new_requests : forall host nd nd' (sb : bool * nat) new,
  n_log nd' = n_log nd ++ new -> (sb.2 <= length (n_log nd))%nat ->
  sub_view host nd' sb =
  sub_view host nd sb ++ (snd <$> filter (fun x : note => negb (sb.1 && (x.1 =? host)) = true) new).
Proof. exact sub_view_app. Qed.
Print Assumptions C13_subscriber_gets_the_new_requests.

(* (3) At most once, over the cluster LTS: any number of nodes (none with key 0), any run of
   covered steps (C06's ok_run: one creator per key, no recovery split from its high-water read —
   i.e. wherever entries never move down), any redelivery pattern: the operations forwarded on a
   node, and those handed to any subscriber, never contain the same (key, version, leaseholder)
   twice. *)
Theorem C13_at_most_once_partial : forall fx T ns l,
  0 ∉ ns -> ok_run fx T no_op (world0 ns) l ->
  forall n nd sb, w_nodes (run fx T (world0 ns) l) !! n = Some nd ->
    NoDup (pos3 <$> log_ops (n_log nd)) /\ NoDup (pos3 <$> concat (sub_view n nd sb)).
Proof. exact at_most_once. Qed.
Print Assumptions C13_at_most_once_partial.

(* without the guard it fails in the model and in the code (consequence of C06's finding
   F4-leasepath): after the lease path moved node 3's entry down, the redelivered newer operation
   is accepted and handed to the subscriber a second time *)
Theorem C13_at_most_once_refuted :
  length (filter (fun o => o = Op 1 3 2 false 23) (view_ops (run true 2 (world0 [1; 2; 3]) c13_script) 3 0)) = 2%nat /\
  bool_decide (NoDup (pos3 <$> view_ops (run true 2 (world0 [1; 2; 3]) c13_script) 3 0)) = false.
Proof. exact handed_twice. Qed.
Print Assumptions C13_at_most_once_refuted.

(* (4) The host-leaseholder filter is exact (same runs): on node n every forwarded request is
   either hidden from an IgnoreHostLeaseholder subscriber (TxRequest.Leaseholder = n) and then all
   its operations are led by n, or shown and then none of its operations is led by n — although
   gossip requests carry no leaseholder at all, because an operation led by the host never wins
   at the host's own ingress. *)
Theorem C13_host_filter_exact : forall fx T ns l,
  0 ∉ ns -> ok_run fx T no_op (world0 ns) l ->
  forall n nd x, w_nodes (run fx T (world0 ns) l) !! n = Some nd -> x ∈ n_log nd ->
    ((x.1 =? n) = true -> forall o, o ∈ x.2 -> o_lh o = n) /\
    ((x.1 =? n) = false -> forall o, o ∈ x.2 -> o_lh o <> n).
Proof. exact host_filter_exact. Qed.
Print Assumptions C13_host_filter_exact.

(* every forwarded operation is still dominated by the node's entry of its key (what was handed out
   is never newer than what is stored) *)
Theorem C13_forwarded_is_stored_or_superseded : forall fx T ns l,
  0 ∉ ns -> ok_run fx T no_op (world0 ns) l ->
  forall n nd o, w_nodes (run fx T (world0 ns) l) !! n = Some nd -> o ∈ log_ops (n_log nd) ->
    above (n_eng nd !! o_key o) o.
Proof.
  intros fx T ns l Hz Hok n nd o Hn Ho.
  destruct (observers_invariant fx T ns l Hz Hok n nd Hn) as [[b _ _] _]. exact (b o Ho).
Qed.
Print Assumptions C13_forwarded_is_stored_or_superseded.

(* Non-vacuity: the overwrite-vs-feedback script of C06 with a plain and a filtered subscriber on
   node 2 and on node 1: covered run; node 2's subscribers (remote changes) are handed both
   versions of key 1 exactly once each, 8 redeliveries notwithstanding; on node 1 (the
   leaseholder) the plain subscriber is handed both, the filtered one nothing. *)
Definition ex_script : list step_t :=
  [SSub 2 0 false; SSub 2 1 true; SSub 1 0 false; SSub 1 1 true] ++ f5_script.
Example C13_nonvacuous :
  ok_run true 1 no_op (world0 [1; 2]) ex_script /\
  view_ops (run true 1 (world0 [1; 2]) ex_script) 2 0 = [Op 1 1 1 false 10; Op 1 2 1 false 11] /\
  view_ops (run true 1 (world0 [1; 2]) ex_script) 2 1 = [Op 1 1 1 false 10; Op 1 2 1 false 11] /\
  view_ops (run true 1 (world0 [1; 2]) ex_script) 1 0 = [Op 1 1 1 false 10; Op 1 2 1 false 11] /\
  view_ops (run true 1 (world0 [1; 2]) ex_script) 1 1 = [].
Proof.
  split; [apply (ok_runb_sound true 1 ex_script []); [intros o []|vm_compute; reflexivity]|].
  vm_compute. repeat split; reflexivity.
Qed.
