(* Properties/C08.v — placeholder while the proofs are being written. *)
From Synnax Require Import Codec.FrameCodec.
