(* Properties/C08.v — Frame wire codec round-trips every frame and is safe on any bytes.
   Only statements, each closed by [exact] (or short glue), each followed by Print Assumptions.

   Objects (Codec/FrameCodec.v): [encode_state]/[decode_states] are encodeInternal/DecodeStream
   for one channel-set state; [c_encode]/[c_decode] are the Codec object with its numbered
   backlog of states; [norm compress st f] is the frame the decoder is specified to return for
   f: KeepKeys, stable sort by (key, alignment), merging of alignment-contiguous series (when
   compression is on), each series carrying the channel's data type. [variant] selects the
   revision of the Go code ([current] = /repo, [upstream] = the pinned tree before the two
   fix: commits); [rmode] the kind of reader (bytes.Reader / opaque stream). *)
From Coq Require Import List NArith Bool Permutation.
Import ListNotations.
From Synnax Require Import Common.Bytes Common.BytesProofs Generated.Consts_C08 Codec.FrameCodec
  Codec.FrameCodecProofs Codec.FrameCodecNorm Codec.FrameCodecSafety Codec.FrameCodecIdem.
Local Open Scope N_scope.

(* (0) little-endian fields: what is written is what is read, for every width and value *)
Theorem C08_le_roundtrip : forall w n rest,
  n < 256 ^ N.of_nat w ->
  length (encLE w n) = w /\ decLE (encLE w n) = n /\
  read_uint w (encLE w n ++ rest) = RdOk n rest.
Proof.
  intros w n rest H. split; [apply encLE_length|]. split; [now apply decLE_encLE_small|now apply read_uint_enc].
Qed.
Print Assumptions C08_le_roundtrip.

(* (1) ROUND TRIP. For every valid frame f over the agreed state st (any number of series per
   channel, any subset of the channel set, foreign keys, any of the 64 flag combinations the
   frame induces), the encoder produces bytes, and every decoder that holds st under the
   transmitted sequence number returns exactly the normal form of f — with either reader kind
   and either revision of the decoder. *)
Theorem C08_roundtrip : forall V mode compress states st seq f,
  frame_valid st f = true -> seq < two32 -> state_at states seq = Some st ->
  exists bs, encode_state compress st seq f = Ok bs /\
             fst (decode_states V mode states bs) = Ok (norm compress st f).
Proof. exact roundtrip_state. Qed.
Print Assumptions C08_roundtrip.

(* (2) ... also while the two sides are any number of channel-set updates apart: the encoder
   has processed the updates sts ++ [st], the decoder the same ones plus [extra] *)
Theorem C08_roundtrip_desync : forall V mode E D sts st extra f,
  all_states E = sts ++ [st] -> all_states D = (sts ++ [st]) ++ extra ->
  lenN (sts ++ [st]) < two32 -> frame_valid st f = true ->
  exists bs, snd (c_encode E f) = Ok bs /\
             fst (snd (c_decode V mode D bs)) = Ok (norm (c_compress E) st f).
Proof. exact roundtrip_desync. Qed.
Print Assumptions C08_roundtrip_desync.

(* ... and a decoder that is behind never returns a wrong frame: it rejects the message *)
Theorem C08_decoder_behind_rejects : forall V mode E D f bs,
  (length (all_states D) < length (all_states E))%nat -> lenN (all_states E) < two32 ->
  snd (c_encode E f) = Ok bs ->
  fst (snd (c_decode V mode D bs)) =
    match all_states D with
    | [] => if v_noinit_err V then Err ENotUpdated else Panic
    | _ => Err EInvalidSeq
    end.
Proof. exact decode_behind. Qed.
Print Assumptions C08_decoder_behind_rejects.

(* updates append to the backlog; nothing is ever forgotten *)
Theorem C08_update_appends : forall c st c',
  c_update c st = Some c' -> all_states c' = all_states c ++ [st].
Proof. exact update_states. Qed.
Print Assumptions C08_update_appends.

(* (3) "UP TO key order and the merging of alignment-contiguous series", made precise.
   The sort is a stable, sorted permutation of the kept series ... *)
Theorem C08_sort_stable_permutation : forall l,
  Permutation (sortK l) l /\ sortedK (sortK l) /\
  (forall a, filter (same_ka a) (sortK l) = filter (same_ka a) l) /\
  (sortedK l -> sortK l = l).
Proof.
  intros l. split; [apply sortK_perm|]. split; [apply sortK_sorted|].
  split; [intros a; apply sortK_stable|apply sortK_id].
Qed.
Print Assumptions C08_sort_stable_permutation.

(* ... merging (and retyping) keeps, for every channel, exactly the bytes of its series in
   (alignment, arrival) order — for every frame, valid or not — and the total size *)
Theorem C08_norm_preserves_channel_samples : forall compress st f c,
  chan_data c (norm compress st f) = chan_data c (sortK (keep st f)) /\
  total_size (merge (sortK (keep st f))) = total_size (keep st f).
Proof.
  intros. split; [apply norm_chan_data|].
  rewrite merge_total. apply total_size_perm. apply sortK_perm.
Qed.
Print Assumptions C08_norm_preserves_channel_samples.

(* ... merging touches nothing unless a series starts exactly where its predecessor of the
   same channel ends *)
Theorem C08_merge_only_contiguous : forall l, nm l = true -> merge l = l.
Proof. exact merge_nm_id. Qed.
Print Assumptions C08_merge_only_contiguous.

(* ... and the normal form is a normal form *)
Theorem C08_norm_idempotent : forall st f,
  frame_valid st f = true -> norm true st (norm true st f) = norm true st f.
Proof. exact norm_idem. Qed.
Print Assumptions C08_norm_idempotent.

(* The monitor compares merge (sort decoded) with norm true st f; the model's own output passes
   that comparison whether or not the encoder compresses (so the monitor is not stricter than
   the round-trip theorem). *)
Theorem C08_monitor_canonical : forall compress st f,
  frame_valid st f = true -> merge (sortK (norm compress st f)) = norm true st f.
Proof. exact canon_norm. Qed.
Print Assumptions C08_monitor_canonical.

(* (4) ANY BYTES. Decode returns a frame or one of five errors; it panics only (a) in the
   upstream revision before the first update, or (b) when some agreed state carries a data
   type without a density (not a real channel type). The model's out-of-fuel value is not
   among the outcomes. *)
Theorem C08_decode_total : forall V mode c bs,
  match fst (snd (c_decode V mode c bs)) with
  | Ok _ => True
  | Err e => In e [EEOF; EUnexpectedEOF; EInvalidSeq; EUnknownKey; ENotUpdated]
  | Panic => (v_noinit_err V = false /\ all_states c = []) \/ codec_known c = false
  end.
Proof. exact c_decode_total. Qed.
Print Assumptions C08_decode_total.

Theorem C08_decode_never_panics : forall mode c bs,
  codec_known c = true -> fst (snd (c_decode current mode c bs)) <> Panic.
Proof.
  intros mode c bs Hk E. pose proof (c_decode_total current mode c bs) as H. rewrite E in H.
  destruct H as [[H _]|H]; [discriminate|]. rewrite Hk in H. discriminate.
Qed.
Print Assumptions C08_decode_never_panics.

(* the outcome does not depend on the reader kind nor on the allocation strategy *)
Theorem C08_decode_reader_independent : forall V mode V' mode' states bs,
  fst (decode_states V mode states bs) = fst (decode_states V' mode' states bs).
Proof. exact decode_states_fst. Qed.
Print Assumptions C08_decode_reader_independent.

(* (5) ALLOCATION. Every make([]byte, n) of the decoder is logged. From an in-memory reader the
   buffers together never exceed the input; from an opaque stream they stay within four times
   the input plus the one speculative buffer. For every input and every codec state. *)
Theorem C08_alloc_bounded : forall c bs,
  sum_allocs (snd (snd (c_decode current Sized c bs))) <= lenN bs /\
  sum_allocs (snd (snd (c_decode current Stream c bs))) <= 4 * lenN bs + maxPrealloc.
Proof.
  intros c bs. pose proof (c_decode_alloc Sized c bs) as H1. pose proof (c_decode_alloc Stream c bs) as H2.
  cbn [alloc_factor alloc_const] in *. split; [|exact H2].
  rewrite N.mul_1_l, N.add_0_r in H1. exact H1.
Qed.
Print Assumptions C08_alloc_bounded.

(* The pinned upstream decoder did not satisfy (5) nor the "returns a frame or an error" part
   of (4): findings F8 and F23; /repo carries the fixes and [current] copies them. *)
Theorem C08_alloc_refuted_upstream :
  exists states bs, lenN bs = 9 /\
    sum_allocs (snd (decode_states upstream Sized states bs)) = 134217728.
Proof. exists [mk_static [1] [10]], [9; 1; 0; 0; 0; 0; 0; 0; 1]. vm_compute. auto. Qed.
Print Assumptions C08_alloc_refuted_upstream.

Theorem C08_decode_panic_refuted_upstream :
  fst (snd (c_decode upstream Sized (new_codec true) [])) = Panic.
Proof. reflexivity. Qed.
Print Assumptions C08_decode_panic_refuted_upstream.

(* Non-vacuity: a valid frame over three channels (float64, timestamp written as int64,
   string), given out of order, with a foreign key, two alignment-contiguous float64 series and
   distinct time ranges. It is valid; five of the six flags are cleared (flag byte 1); the decoder, two updates
   ahead of the encoder, returns the normal form, which differs from the input (sorted, merged,
   retyped, filtered). *)
Definition ex_st : cstate := mk_static [7; 2; 5] [13; 10; 11].
Definition ex_f : frame :=
  [ (5, mkS 8 5 9 0 [1;0;0;0;0;0;0;0]);
    (2, mkS 10 10 20 (two32 + 1) [0;0;0;0;0;0;240;63]);
    (9, mkS 10 0 0 0 [1;2;3;4;5;6;7;8]);
    (7, mkS 13 0 0 0 [2;0;0;0;104;105]);
    (2, mkS 10 1 10 two32 [0;0;0;0;0;0;0;64]) ].
Definition ex_E : codec := mkC [mk_static [1] [1]] [ex_st] true.
Definition ex_D : codec := mkC [mk_static [1] [1]; ex_st; mk_static [] []] [mk_static [3] [3]] true.
Example C08_nonvacuous :
  frame_valid ex_st ex_f = true /\
  (exists bs, snd (c_encode ex_E ex_f) = Ok bs /\
              hd 0 bs = 1 /\ lenN bs = 119 /\
              fst (snd (c_decode current Stream ex_D bs)) = Ok (norm true ex_st ex_f)) /\
  norm true ex_st ex_f =
    [ (2, mkS 10 1 20 two32 [0;0;0;0;0;0;0;64; 0;0;0;0;0;0;240;63]);
      (5, mkS 11 5 9 0 [1;0;0;0;0;0;0;0]);
      (7, mkS 13 0 0 0 [2;0;0;0;104;105]) ].
Proof.
  split; [vm_compute; reflexivity|]. split; [|vm_compute; reflexivity].
  eexists. split; [vm_compute; reflexivity|]. vm_compute. auto.
Qed.
