(* Properties/C20.v — Streamers see an ordered, filtered, duplicate-free view of writes.
   Only statements, each closed by [exact], each followed by Print Assumptions. *)
From stdpp Require Import base list numbers.
From Coq Require Import NArith List.
From Synnax Require Import Cesium.Relay Cesium.RelayProofs.
Local Open Scope N_scope.

(* Trace inclusion, direction 1: whatever any interleaving of the LTS (hidden relay /
   streamer steps between the driver's operations) makes the streamers receive is accepted
   by the executable checker run on every generated case. *)
Theorem C20_every_run_accepted : forall chans cap ls st,
  run (init chans cap) ls st -> driver_blocked st = false ->
  accepts chans cap (visible ls) (observe st) = true.
Proof. exact accepts_complete. Qed.
Print Assumptions C20_every_run_accepted.

(* Trace inclusion, direction 2: an accepted observation is produced by some run of the
   LTS that follows the script, so it enjoys every property proved of reachable states. *)
Theorem C20_accepted_is_a_run : forall chans cap script obs,
  accepts chans cap script obs = true ->
  exists ls st, run (init chans cap) ls st /\ visible ls = script /\ observe st = obs /\
                driver_blocked st = false.
Proof. exact accepts_sound. Qed.
Print Assumptions C20_accepted_is_a_run.
