(* Properties/C20.v — Streamers see an ordered, filtered, duplicate-free view of writes.
   Only statements, each closed by [exact], each followed by Print Assumptions.
   The object is the labelled transition system of Cesium/Relay.v: [run (init chans cap) ls st]
   ranges over ALL interleavings of driver operations (writers of every mode and authority,
   writers driven by their own goroutine concurrently with the driver, streamers that
   subscribe / re-subscribe / pause / close at arbitrary moments, DB close)
   with the hidden steps of the relay (dequeue-and-deliver, timeout-drop for a consumer that
   is not ready) and of the streamers (apply a queued request, disconnect), for every channel
   table and relay capacity. *)
From stdpp Require Import base list numbers.
From Coq Require Import NArith List Sorting.Sorted.
Import ListNotations.
From Synnax Require Import Common.Base Cesium.Relay Cesium.RelayProofs Cesium.RelayInv Cesium.RelayThms
     Cesium.RelayMonitor Monitors.Mon_C20.
Local Open Scope N_scope.

(* (1) Subsequence, order, no duplicates. In every reachable state, what a streamer received
   is (by tag = writer, sequence number) a subsequence of the frames pushed by writers, in
   push order; pushed tags are unique and each writer's sequence numbers increase, hence
   the inbox has no duplicate and every writer's frames arrive in that writer's order. *)
Theorem C20_subsequence_in_order : forall chans cap ls st s x,
  run (init chans cap) ls st -> In (s, x) (st_strs st) ->
  sublist (map itag (s_inbox x)) (map tag (st_hist st)) /\
  List.NoDup (map tag (st_hist st)) /\
  (forall w, StronglySorted N.lt (map f_seq (filter (fun f => f_w f =? w) (st_hist st)))) /\
  List.NoDup (map itag (s_inbox x)) /\
  (forall w, StronglySorted N.lt (map i_seq (filter (fun i => i_w i =? w) (s_inbox x)))).
Proof. intros chans cap. exact (inbox_order false false chans cap). Qed.
Print Assumptions C20_subsequence_in_order.

(* (2a) Only frames written by stream-enabled writers, and only what was relayed of them: every
   received item is a non-empty part of the relayed keys of a pushed frame of a writer whose
   mode streams; relayed keys are written keys and none of them is in the unauthorized set
   computed at the write. *)
Theorem C20_received_from_streaming_writes : forall chans cap ls st s x it,
  run (init chans cap) ls st -> In (s, x) (st_strs st) -> In it (s_inbox x) ->
  exists f wr, In f (st_hist st) /\ tag f = itag it /\
    i_keys it <> [] /\ incl (i_keys it) (f_keys f) /\ incl (f_keys f) (f_orig f) /\
    (forall k, In k (i_keys it) -> ~ In k (f_unauth f)) /\
    alookup (f_w f) (st_writers st) = Some wr /\ streams (w_mode wr) = true.
Proof. intros chans cap. exact (inbox_items false false chans cap). Qed.
Print Assumptions C20_received_from_streaming_writes.

(* (2b) Never a series for a channel the writer was not authorized on: the only step that
   extends the history of pushed frames is a Write of an open, stream-enabled writer (called
   by the driver, or — hidden step — by the writer's background goroutine), and
   every key of the pushed frame is a written key that the writer holds, is authorized on
   at that moment (control state of that very state), and is not held back by the
   index-group rule. *)
Theorem C20_pushes_only_authorized_series : forall chans cap ls st l st' f,
  run (init chans cap) ls st -> lstep st l st' -> st_hist st' = st_hist st ++ [f] ->
  exists w ks wr,
    ((exists bad, l = Vis (Write w ks bad)) \/ l = Tau) /\
    open_writer_of st w = Some wr /\ streams (w_mode wr) = true /\
    f_w f = w /\ f_orig f = ks /\
    forall k, In k (f_keys f) ->
      In k ks /\ owned wr k = true /\ authorized st w wr k = true /\ excluded st w wr ks k = false.
Proof. exact reachable_push_authorized. Qed.
Print Assumptions C20_pushes_only_authorized_series.

(* (2c) For its currently subscribed channels only: in ANY step, from any state, a streamer's
   inbox stays as it is or grows by exactly one item, namely the head of the relay inlet
   filtered by the key set the streamer holds in the state the step starts from (its
   subscription at receive time), and only when that is non-empty. *)
Theorem C20_filtered_by_current_subscription : forall st l st' s x',
  lstep st l st' -> In (s, x') (st_strs st') ->
  s_inbox x' = [] \/
  exists x, In (s, x) (st_strs st) /\
    (s_inbox x' = s_inbox x \/
     exists f q, st_fifo st = f :: q /\ keep f (s_keys x) <> [] /\
                 s_inbox x' = s_inbox x ++ [Item (f_w f) (f_seq f) (keep f (s_keys x))]).
Proof. exact receive_filtered. Qed.
Print Assumptions C20_filtered_by_current_subscription.

Theorem C20_keep_is_the_filter : forall f ks k,
  In k (keep f ks) -> memN k ks = true /\ In k (f_keys f).
Proof. exact keep_sub. Qed.
Print Assumptions C20_keep_is_the_filter.

(* (3) A streamer whose consumer is ready receives all of them: every frame the relay dequeues
   is handed (filtered by the current key set) to EVERY connected streamer whose consumer is
   ready — drops exist only for consumers that are not ready — and a frame leaves the relay
   inlet only by such a delivery or because the database is being closed; otherwise the
   inlet is unchanged or grows at its tail. *)
Theorem C20_complete_if_ready : forall st st',
  In st' (deliver_succs st) ->
  exists f q, st_fifo st = f :: q /\ st_fifo st' = q /\
    forall s x, In (s, x) (st_strs st) -> s_conn x = true -> s_ready x = true ->
                In (s, hand f x) (st_strs st').
Proof. exact delivery_complete. Qed.
Print Assumptions C20_complete_if_ready.

Theorem C20_fifo_discipline : forall st l st',
  lstep st l st' ->
  st_fifo st' = st_fifo st \/ (exists f, st_fifo st' = st_fifo st ++ [f]) \/
  (exists f, st_fifo st = f :: st_fifo st' /\
             (In st' (deliver_succs st) \/ (st_closed st = false /\ st_closed st' = true))).
Proof. exact fifo_discipline. Qed.
Print Assumptions C20_fifo_discipline.

(* (4) Writers are never blocked indefinitely — what a model can say about it (PARTIAL: the
   real clause is about wall-clock time, goroutine scheduling and timers firing; it is
   observed with a 20 s watchdog on every call of every run of the correspondence).
   In every reachable state where a Write cannot proceed, the database is open and the
   relay can deliver, after which that Write can proceed; while the driver waits inside a
   streamer close, a hidden step is enabled; hidden steps cannot go on forever; every other
   operation (opening, re-subscribing, pausing, closing streamers, opening/closing writers,
   changing authority, closing the database) is always enabled. *)
Theorem C20_no_writer_deadlock_partial : forall chans cap ls st w ks bad,
  run (init chans cap) ls st -> driver_blocked st = false -> vstep st (Write w ks bad) = [] ->
  st_closed st = false /\
  exists st', In st' (deliver_succs st) /\ vstep st' (Write w ks bad) <> [].
Proof. exact reachable_write_never_deadlocks. Qed.
Print Assumptions C20_no_writer_deadlock_partial.

Theorem C20_background_writer_progress_partial : forall chans cap ls st w,
  run (init chans cap) ls st -> driver_blocked st = false -> vstep st (Join w) = [] -> hsucc st <> [].
Proof. exact reachable_join_never_deadlocks. Qed.
Print Assumptions C20_background_writer_progress_partial.

Theorem C20_streamer_close_progress_partial : forall chans cap ls st,
  run (init chans cap) ls st -> driver_blocked st = true -> hsucc st <> [].
Proof. exact reachable_driver_never_stuck. Qed.
Print Assumptions C20_streamer_close_progress_partial.

Theorem C20_hidden_steps_terminate : forall st st',
  In st' (hsucc st) -> (measure st' < measure st)%nat.
Proof. exact hsucc_measure. Qed.
Print Assumptions C20_hidden_steps_terminate.

Theorem C20_other_operations_never_block : forall st o,
  driver_blocked st = false ->
  match o with Write _ _ _ | Sync | Join _ => True | _ => vstep st o <> [] end.
Proof. exact other_ops_never_block. Qed.
Print Assumptions C20_other_operations_never_block.

(* (5) The tie to the implementation: the executable checker evaluated on every generated
   case accepts exactly the observations of runs of this LTS. *)
Theorem C20_every_run_accepted : forall chans cap ls st,
  run (init chans cap) ls st -> driver_blocked st = false ->
  accepts chans cap (visible ls) (observe st) = true.
Proof. exact accepts_complete. Qed.
Print Assumptions C20_every_run_accepted.

Theorem C20_accepted_is_a_run : forall chans cap script obs,
  accepts chans cap script obs = true ->
  exists ls st, run (init chans cap) ls st /\ visible ls = script /\ observe st = obs /\
                driver_blocked st = false.
Proof. exact accepts_sound. Qed.
Print Assumptions C20_accepted_is_a_run.

(* accepted => property, for the clauses the monitor states on the observation alone:
   no duplicate (kind 2), no reordering within a writer (kind 3) *)
Theorem C20_accepted_passes_order_monitor : forall chans cap script obs,
  accepts chans cap script obs = true ->
  forall s its, In (s, its) obs -> order_kinds its = [].
Proof. exact accepted_ordered. Qed.
Print Assumptions C20_accepted_passes_order_monitor.

(* The two behaviours of the pinned upstream tree that the correspondence found and that were
   repaired by fix: commits in /repo (F60, F61); the model copies the repaired code with both
   flags off, these witnesses keep the defects on record with the flags on.
   F60: a writer relayed a series for a channel it never opened. *)
Theorem C20_unowned_series_refuted :
  exists st x it, run (init_gen true false wit_chans 8) (map fst unowned_script) st /\
    In (1, x) (st_strs st) /\ In it (s_inbox x) /\ i_w it = 1 /\ In 3 (i_keys it) /\
    (exists wr, alookup 1 (st_writers st) = Some wr /\ owned wr 3 = false).
Proof. exact unowned_refuted. Qed.
Print Assumptions C20_unowned_series_refuted.

(* F61: after DB.Close a writer blocked forever on the full, dead relay inlet: a reachable
   state where the Write is disabled and no hidden step exists. *)
Theorem C20_dead_inlet_refuted :
  exists st, run (init_gen false true wit_chans 2) (map fst deadinlet_script) st /\
    st_closed st = true /\ driver_blocked st = false /\
    vstep st (Write 1 [1] false) = [] /\ hsucc st = [].
Proof. exact deadinlet_refuted. Qed.
Print Assumptions C20_dead_inlet_refuted.

(* Non-vacuity: a concrete run with two writers (the second one unauthorized on channel 2),
   two streamers, a re-subscription applied between two deliveries; its observation is
   non-trivial and accepted. *)
Example C20_nonvacuous :
  exists st, run (init wit_chans 8) (map fst ex_script) st /\ observe st = ex_obs /\
    driver_blocked st = false /\
    accepts wit_chans 8 (visible (map fst ex_script)) ex_obs = true.
Proof. exact ex_nonvacuous. Qed.
