(* Properties/C14.v — Freighter streams deliver in order, once, with a definite end, on all
   transports. Only statements, each closed by [exact], each followed by Print Assumptions.

   Objects: [run prof t init tr = Some s] — tr is a trace (any interleaving of client and handler
   calls, any length) of the stream LTS of Freighter/Stream.v for profile prof (0 = exactly
   mock/stream.go, 2 = exactly the websocket client, 3 = exactly the grpc client, 1 = the
   documented contract of stream.go) on transport t (0 mock, 1/2
   websocket json/msgpack, 3/4 grpc external/internal), ending in state s.
   c_sent / h_got / h_sent / c_got: payloads of the successful client Sends, of the values the
   handler received, of the successful handler Sends, of the values the client received. *)
From Coq Require Import List NArith Bool String.
From Synnax Require Import Generated.Consts_C14 Freighter.Stream Freighter.StreamProofs
  Monitors.Mon_C14 Freighter.StreamErrors Freighter.StreamSafety Freighter.StreamOrder
  Freighter.StreamRefine.
Import ListNotations.
Local Open Scope N_scope.

(* (1) Each receiving side sees a prefix of the messages sent, in send order, without
   duplicates or loss: sent = received ++ exactly what is still in flight. *)
Theorem C14_order_once : forall prof t tr s,
  run prof t init tr = Some s ->
  c_sent tr = h_got tr ++ somes (req s) /\ h_sent tr = c_got tr ++ lefts (res s).
Proof. exact order_once. Qed.
Print Assumptions C14_order_once.

(* (2) When the client has read the terminal result o: the handler has returned some e, every
   response sent before the return was received (received = sent, nothing left in flight), and
   o is end-of-stream for a nil result, otherwise an error matching e (same registered kind). *)
Theorem C14_terminal_result : forall prof t tr s o,
  run prof t init tr = Some s -> c_recvErr s = Some o ->
  c_got tr = h_sent tr /\ res s = [] /\ returned s = true /\
  exists e, In (HRet e) tr /\ matches e o = true.
Proof. exact terminal_result. Qed.
Print Assumptions C14_terminal_result.

(* (3) Further calls keep returning that same terminal result (and change nothing). *)
Theorem C14_terminal_sticky : forall prof t s o r s',
  c_recvErr s = Some o -> step prof t s (CRecv r) = Some s' ->
  s' = s /\ exists c i m, r = RErr c i m /\ o = (c, i, m).
Proof. exact terminal_sticky. Qed.
Print Assumptions C14_terminal_sticky.

(* (4) When the handler has seen end-of-stream o: o is EOF, the client did call CloseSend, and
   all earlier requests had been received (received = sent, nothing left in flight). *)
Theorem C14_closesend_eof : forall prof t tr s o,
  run prof t init tr = Some s -> s_recvErr s = Some o ->
  fst (fst o) = cEOF /\ In (CClose ROk) tr /\ h_got tr = c_sent tr /\ req s = [].
Proof. exact closesend_eof. Qed.
Print Assumptions C14_closesend_eof.

Theorem C14_handler_eof_sticky : forall prof t s o r s',
  s_recvErr s = Some o -> step prof t s (HRecv r) = Some s' ->
  s' = s /\ exists c i m, r = RErr c i m /\ o = (c, i, m).
Proof. exact handler_eof_sticky. Qed.
Print Assumptions C14_handler_eof_sticky.

(* (5) ... and the client can still receive: CloseSend and Receive commute in every state. *)
Theorem C14_closesend_keeps_receive : forall prof t s rc r s1 s2,
  step prof t s (CClose rc) = Some s1 -> step prof t s (CRecv r) = Some s2 ->
  exists s3, step prof t s1 (CRecv r) = Some s3 /\ step prof t s2 (CClose rc) = Some s3.
Proof. exact closesend_keeps_receive. Qed.
Print Assumptions C14_closesend_keeps_receive.

(* (6) The decidable monitor ok_C14 (what the check applies to the implementation's
   observations) holds of the two projections of every trace. *)
Theorem C14_traces_satisfy_monitor : forall prof t tr s,
  run prof t init tr = Some s ->
  ok_C14 (filter is_client tr) (filter (fun l => negb (is_client l)) tr) = true.
Proof. exact traces_ok. Qed.
Print Assumptions C14_traces_satisfy_monitor.

(* (7) The checker [accepts] decides trace inclusion exactly: it accepts per-side observation
   lists iff they are the two projections of some trace (neither stricter nor laxer). *)
Theorem C14_accepts_sound : forall prof t cl hl,
  accepts prof t cl hl = true ->
  exists tr s, run prof t init tr = Some s /\
               filter is_client tr = cl /\ filter (fun l => negb (is_client l)) tr = hl.
Proof. exact accepts_sound. Qed.
Print Assumptions C14_accepts_sound.

Theorem C14_accepts_complete : forall prof t tr s,
  run prof t init tr = Some s ->
  accepts prof t (filter is_client tr) (filter (fun l => negb (is_client l)) tr) = true.
Proof. exact accepts_complete. Qed.
Print Assumptions C14_accepts_complete.

Theorem C14_accepts_ok : forall prof t cl hl,
  accepts prof t cl hl = true -> ok_C14 cl hl = true.
Proof. exact accepts_ok. Qed.
Print Assumptions C14_accepts_ok.

(* (8) Every implementation profile refines the documented contract. *)
Theorem C14_transports_refine_contract : forall p t tr s,
  run p t init tr = Some s -> run 1 t init tr = Some s.
Proof. intros p t tr s. apply refines_contract. exact Inv_init. Qed.
Print Assumptions C14_transports_refine_contract.

(* (9) On every transport the error the client decodes matches the handler's error. *)
Theorem C14_error_matches_on_every_transport : forall t e o,
  img_ok (wire t e) o = true -> matches e o = true.
Proof. exact wire_matches. Qed.
Print Assumptions C14_error_matches_on_every_transport.

(* (10) Error registry round trip: decode (encode e) is e's kind for every registered kind, with
   any message, through the struct payload and through grpc's string form. *)
Theorem C14_registry_roundtrip : forall s ty m internal,
  In (s, ty) enc_rules ->
  decode (encode internal (Err s false m)) = Img s 0 None /\
  decode (transit unmarshal_split_all (encode internal (Err s false m))) = Img s 0 None.
Proof. exact registry_roundtrip_all. Qed.
Print Assumptions C14_registry_roundtrip.

(* an error that wraps / descends from a registered sentinel arrives as that sentinel's kind *)
Theorem C14_registry_degrades : forall k s ty m internal,
  enc_rule k = Some (s, ty) ->
  decode (encode internal (Err k false m)) = Img s 0 None /\ isa k s = true.
Proof. exact registry_degrades. Qed.
Print Assumptions C14_registry_degrades.

(* the tables regenerated from the Go sources agree with the kinds the monitor pins, and the
   first matching encode rule is always the nearest registered sentinel on the Wrap chain *)
Theorem C14_tables_pinned :
  parents = kind_parents /\
  forallb (fun k => existsb (N.eqb k) reg_kinds) (map fst enc_rules) = true /\
  forallb (fun k => existsb (N.eqb k) (map fst enc_rules)) reg_kinds = true /\
  forall k, agree_at k = true.
Proof. exact (conj parents_pinned (conj (proj1 registered_pinned) (conj (proj2 registered_pinned) agree))). Qed.
Print Assumptions C14_tables_pinned.

Theorem C14_providers_disjoint :
  forallb (fun ty => Nat.eqb (hits ty) 1) (flat_map prov_types providers) = true.
Proof. exact providers_disjoint. Qed.
Print Assumptions C14_providers_disjoint.

(* Finding F16 (fixed in /repo): with Payload.Unmarshal splitting at every "---" a registered
   kind whose message contains the separator does not match any more over grpc. *)
Theorem C14_split_all_refuted :
  let e := Err 4 false [1; 2] in
  enc_rule (e_kind e) = Some (4, "sy.query.unique_violation"%string) /\
  img_matches e (wire_gen true 3 (Some e)) = false /\
  img_matches e (wire_gen false 3 (Some e)) = true.
Proof. exact split_all_refuted. Qed.
Print Assumptions C14_split_all_refuted.

(* The round trip is for registered kinds only: sentinels no provider encodes do not come back
   as themselves (control.ErrControl, validate.ErrRequired). *)
Theorem C14_unregistered_sentinel_refuted :
  decode (encode false (Err 8 false [1])) = Img cOther 0 (Some [1]) /\
  decode (encode false (Err 10 false [1])) = Img 9 0 None /\
  ~ In 8 (map fst enc_rules) /\ ~ In 10 (map fst enc_rules).
Proof. exact unregistered_sentinels_refuted. Qed.
Print Assumptions C14_unregistered_sentinel_refuted.

(* the implementations really differ where two documented failure clauses overlap (Send after
   CloseSend and after the terminal result: EOF on websocket, StreamClosed on mock / grpc); the
   contract allows both *)
Theorem C14_profiles_differ :
  let pre := [HRet None; CClose ROk; CRecv (RErr cEOF 0 [])] in
  let a := pre ++ [CSend 5 (RErr cEOF 0 [])] in
  let b := pre ++ [CSend 5 (RErr cClosed 0 [])] in
  (run 2 1 init a <> None /\ run 0 0 init a = None /\ run 3 3 init a = None /\ run 1 1 init a <> None) /\
  (run 2 1 init b = None /\ run 0 0 init b <> None /\ run 3 3 init b <> None /\ run 1 1 init b <> None).
Proof. exact profiles_differ. Qed.
Print Assumptions C14_profiles_differ.

(* Non-vacuity: a trace with traffic in both directions, CloseSend, a handler error of a
   registered kind with a separator in its message over grpc, repeated terminal reads and a
   Send after the end — it is a trace, every hypothesis of (2) and (4) is met, and a trace that
   reorders two responses is not accepted. *)
Definition ex_tr : list lab :=
  [CSend 1 ROk; CSend 2 ROk; HRecv (RVal 1); HSend 7 ROk; CClose ROk; HRecv (RVal 2);
   HSend 8 ROk; CRecv (RVal 7); HRecv (RErr 1 0 [9]); HRecv (RErr 1 0 [9]);
   HRet (Some (Err 3 false [5; 6])); CSend 3 (RErr 2 0 [4]); CRecv (RVal 8);
   CRecv (RErr 3 0 [5; 6; 7]); CRecv (RErr 3 0 [5; 6; 7]); CSend 4 (RErr 2 0 [4])].
Example C14_nonvacuous :
  (exists s, run 3 3 init ex_tr = Some s /\ c_recvErr s = Some (3, 0, [5; 6; 7]) /\
             s_recvErr s = Some (1, 0, [9])) /\
  accepts 3 3 (filter is_client ex_tr) (filter (fun l => negb (is_client l)) ex_tr) = true /\
  accepts 1 3 [CRecv (RVal 8); CRecv (RVal 7)] [HSend 7 ROk; HSend 8 ROk; HRet None] = false /\
  ok_C14 [CRecv (RVal 8); CRecv (RVal 7)] [HSend 7 ROk; HSend 8 ROk; HRet None] = false.
Proof. split; [eexists; split; [vm_compute; reflexivity|split; reflexivity]|]. vm_compute. auto. Qed.
