(* Properties/C14.v — freighter streams deliver in order, once, with a definite end. *)
From Coq Require Import List NArith Bool.
From Synnax Require Import Generated.Consts_C14 Freighter.Stream Monitors.Mon_C14.
Import ListNotations.

Example C14_nonvacuous :
  accepts 0 0 [CSend 1 ROk; CRecv (RVal 7); CRecv (RErr 1 0 []); CRecv (RErr 1 0 [])]
              [HRecv (RVal 1); HSend 7 ROk; HRet None] = true.
Proof. vm_compute. reflexivity. Qed.
