(* Properties/C14.v — freighter streams deliver in order, once, with a definite end. *)
From Coq Require Import List NArith Bool.
From Synnax Require Import Generated.Consts_C14 Freighter.Stream Monitors.Mon_C14.
Import ListNotations.

Example C14_nonvacuous :
  accepts 0%N 0%N [CSend 1%N ROk; CRecv (RVal 7%N); CRecv (RErr 1%N 0%N []); CRecv (RErr 1%N 0%N [])]
              [HRecv (RVal 1%N); HSend 7%N ROk; HRet None] = true.
Proof. vm_compute. reflexivity. Qed.
