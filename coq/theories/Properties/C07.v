(* Properties/C07.v — A cluster is one data space: write via any node, read via any node.
   Only statements, each closed by [exact] (short glue allowed), each followed by Print Assumptions.
   The model (Core/Dist.v) covers the routing of the distribution layer: a channel's leaseholder is
   part of its key, every writer names its gateway, per-node stores map keys to committed samples
   and what a channel's own storage iterator answers is a parameter. *)
From stdpp Require Import gmap.
From Coq Require Import NArith.
From Synnax Require Import Generated.Consts_C15 Core.Channel Core.Dist Core.DistProofs Core.DistRefine Core.DistSync.
From Synnax Require Core.ChannelSrc.
Local Open Scope N_scope.
Notation length := List.length.

(* (1) The frame splitters partition a frame: each part is exactly the sub-sequence of the
   entries leased to that host / node / nobody — nothing lost, nothing duplicated, the relative
   order (also between several series of one key) kept. *)
Theorem C07_split_partition : forall host f,
  split_by_host host f =
    (sel (at_node host) f, sel (is_remote host) f, sel (fun e => negb (at_node host e) && is_free_key e.1) f) /\
  (forall n, default [] (split_by_leaseholder f !! n) = sel (at_node n) f).
Proof. intros host f. split; [apply split_by_host_spec|intros n; apply split_by_leaseholder_spec]. Qed.
Print Assumptions C07_split_partition.

(* (2) One write request through any gateway with any set of writer keys: every leaseholder
   receives exactly its own entries in frame order, and nothing that is not its own. *)
Theorem C07_route_exact : forall gw keys f n,
  forallb (fun e => memb e.1 keys) f = true -> n <> node_free ->
  default [] (route gw keys f !! n) = sel (at_node n) f /\
  (forall m e, e ∈ default [] (route gw keys f !! m) -> lease_of e.1 = m).
Proof. intros gw keys f n Hv Hn. split; [apply route_spec; assumption|intros m e; apply route_only]. Qed.
Print Assumptions C07_route_exact.

(* (3) Location transparency of writes, for ALL placements (any keys), ALL gateways (any OpenW),
   ALL scripts (opens, frames mixing local / remote / free channels, explicit and automatic commits,
   closes, rejected requests): every request gets the same result as on a single store, every
   leased channel's leaseholder holds exactly the samples the single store holds, and no other
   node holds any sample of it. *)
Theorem C07_location_transparent : forall chans ops,
  let c := drun (Cluster chans ∅ ∅) ops in
  let s := srun (Single chans ∅ ∅) ops in
  (forall k, is_free_key k = false -> cluster_read c k = single_read s k) /\
  (forall n k, n <> lease_of k -> stray c n k = []) /\
  dresults (Cluster chans ∅ ∅) ops = sresults (Single chans ∅ ∅) ops.
Proof. exact location_transparent. Qed.
Print Assumptions C07_location_transparent.

Theorem C07_step_refines : forall c s o,
  crel c s -> (dstep c o).2 = (sstep s o).2 /\ crel (dstep c o).1 (sstep s o).1.
Proof. exact dstep_refines. Qed.
Print Assumptions C07_step_refines.

(* (4) Unknown channels: a writer naming a key that is not in cluster metadata does not open and
   changes nothing; an iterator naming such a key, or a free channel, does not open. *)
Theorem C07_unknown_channel_fails : forall c id gw keys auto chans k,
  k ∈ keys ->
  (~ k ∈ cl_chans c -> dstep c (OpenW id gw keys auto) = (c, DMissing)) /\
  ((~ k ∈ chans \/ is_free_key k = true) -> iter_open chans keys <> IOk).
Proof.
  intros c id gw keys auto chans k Hin. split.
  - intros H. eapply open_writer_unknown; eassumption.
  - intros H. eapply open_iterator_unknown; eassumption.
Qed.
Print Assumptions C07_unknown_channel_fails.

(* (4') Transport faults: a writer opened through gw while gw cannot reach node p, on known
   channels one of which is leased to p, fails and changes nothing; and any script runs to the same
   cluster state — every leaseholder's store and every open writer — as the script without such
   failed opens: they leave nothing behind (no peer stream, no storage writer) for later writers,
   through whichever node, to trip over. Together with (3): the single store given only the other
   requests holds what the cluster holds. *)
Theorem C07_unreachable_open_no_effect : forall c id gw p keys auto ops,
  (cut_hits gw p keys = true -> keys <> [] -> Forall (fun k => k ∈ cl_chans c) keys ->
   dstep c (OpenCut id gw p keys auto) = (c, DUnreachable)) /\
  drun c ops = drun c (List.filter (fun o => negb (is_cut o)) ops).
Proof.
  intros c id gw p keys auto ops. split.
  - apply cut_open_result.
  - apply drun_skips_cut.
Qed.
Print Assumptions C07_unreachable_open_no_effect.

(* (5) Commit acknowledgement: of the n responses of one sequence number, the synchronizer
   forwards nothing for the first n-1 and exactly one response on the n-th — the writer's Commit
   returns only after every involved leaseholder has answered. (Both synchronizer variants.) *)
Theorem C07_commit_ack_after_all : forall fixed n q rs,
  q <> 0 -> length rs = n -> rs <> [] -> Forall (fun r => wr_seq r = q) rs ->
  wsync_run fixed n wsync0 rs =
  replicate (n - 1) None ++ [Some (if fixed then wsync_acc rs else default (WResp 0 false 0 true) (last rs))].
Proof. exact wsync_cycle. Qed.
Print Assumptions C07_commit_ack_after_all.

(* what the synchronizer accumulates: authorized iff every leaseholder was; End is the largest
   End of the commits *)
Theorem C07_commit_ack_accumulates : forall r rs,
  wr_auth (wsync_acc (r :: rs)) = forallb wr_auth (r :: rs) /\
  (Forall (fun r => wr_commit r = true) rs -> wr_end (wsync_acc (r :: rs)) = foldl N.max (wr_end r) (wr_end <$> rs)).
Proof. intros r rs. split; [apply wsync_acc_auth; discriminate|apply wsync_acc_end]. Qed.
Print Assumptions C07_commit_ack_accumulates.

(* ... but the writer synchronizer of the tree forwards the LAST response instead: End and
   Authorized of the acknowledgement are those of whichever leaseholder answered last (observed on
   the implementation too; outside the property's statement, left as it is). *)
Theorem C07_commit_ack_end_refuted :
  wsync_run false 2 wsync0 [WResp 1 true 18 true; WResp 1 true 12 false] = [None; Some (WResp 1 true 12 false)] /\
  wsync_run false 2 wsync0 [WResp 1 true 12 false; WResp 1 true 18 true] = [None; Some (WResp 1 true 18 true)] /\
  wsync_run true 2 wsync0 [WResp 1 true 12 false; WResp 1 true 18 true] = [None; Some (WResp 1 true 18 false)].
Proof. exact wsync_last_refuted. Qed.
Print Assumptions C07_commit_ack_end_refuted.

(* (6) Reads. Whatever the channels' own storage iterators answer, for every placement and every
   command the cluster iterator (current tree: acknowledgements OR-ed) returns the same entries
   (as a multiset, each exactly once) and the same acknowledgement as ONE storage iterator over all
   the channels; and its synchronizer forwards exactly one acknowledgement per command, after all
   nodes answered, carrying the disjunction. *)
Theorem C07_iterator_location_transparent : forall (ans : chan_answers) keys i,
  (cluster_iter true ans keys i).1 ≡ₚ (store_iter ans keys i).1 /\
  (cluster_iter true ans keys i).2 = (store_iter ans keys i).2.
Proof. exact cluster_iter_transparent. Qed.
Print Assumptions C07_iterator_location_transparent.

Theorem C07_iterator_ack_after_all : forall n q rs,
  length rs = n -> rs <> [] -> Forall (fun r => ir_seq r = q /\ ir_data r = false) rs ->
  isync_run true n isync0 rs = replicate (n - 1) None ++ [Some (IResp false q (existsb ir_ack rs))].
Proof. exact isync_cycle. Qed.
Print Assumptions C07_iterator_ack_after_all.

(* The pinned upstream tree (finding F15, fixed by f216f1f): the conjunction it accumulated ends a
   traversal when the shorter node runs dry, and what it forwarded was the last node's answer. *)
Theorem C07_iterator_upstream_refuted :
  (cluster_iter false w_ans [new_key 1 2; new_key 2 2] 0).2 = false /\
  (store_iter w_ans [new_key 1 2; new_key 2 2] 0).2 = true /\
  isync_run false 2 isync0 [IResp false 3 true; IResp false 3 false] = [None; Some (IResp false 3 false)] /\
  isync_run true 2 isync0 [IResp false 3 true; IResp false 3 false] = [None; Some (IResp false 3 true)].
Proof. exact cluster_iter_and_refuted. Qed.
Print Assumptions C07_iterator_upstream_refuted.

(* Non-vacuity: three nodes, a writer opened on node 2 which holds none of its channels, frames
   mixing channels of node 1, node 3 and a free channel, a frame that skips node 1, an uncommitted
   write lost at close, an open on an unknown key refused, an auto-commit writer through node 3. *)
Example C07_nonvacuous :
  let c := drun (Cluster x_chans ∅ ∅) x_ops in
  cluster_read c x_t1 = [10; 11; 20] /\ cluster_read c x_d1 = [5; 6; 8] /\
  cluster_read c x_d3 = [1; 2; 3] /\ stray c 2 x_t1 = [] /\ stray c 3 x_d1 = [] /\
  dresults (Cluster x_chans ∅ ∅) x_ops = [DOk; DOk; DOk; DAck; DOk; DOk; DMissing; DOk; DOk].
Proof. exact x_facts. Qed.

(* ---- tie to the source by translation: the leaseholder arithmetic on channel keys that decides where a write or a
   read is routed (Core/Channel.v new_key / leaseholder / local_key) is EQUAL to the Gallina that translator/go2coq
   regenerates from core/pkg/distribution/channel/channel.go on every run (Generated/Src_ChanKey.v). *)
Theorem C07_channel_keys_from_source :
  (forall lease lkey, ChannelSrc.S.channel_NewKey (Z.of_N lease) (Z.of_N lkey) = Z.of_N (Channel.new_key lease lkey)) /\
  (forall k, (k < 2 ^ 32)%N -> ChannelSrc.S.Key_Leaseholder (Z.of_N k) = Z.of_N (Channel.leaseholder k)) /\
  (forall k, (k < 2 ^ 32)%N -> ChannelSrc.S.Key_LocalKey (Z.of_N k) = Z.of_N (Channel.local_key k)) /\
  (forall k, (k < 2 ^ 32)%N -> ChannelSrc.S.Key_Free (Z.of_N k) = (Channel.leaseholder k =? Consts_C15.node_free)%N) /\
  ChannelSrc.S.math_MaxUint20 = Z.of_N Consts_C15.max_local /\
  ChannelSrc.S.node_KeyBootstrapper = Z.of_N Consts_C15.node_boot.
Proof. exact ChannelSrc.channel_keys_from_source. Qed.
Print Assumptions C07_channel_keys_from_source.
