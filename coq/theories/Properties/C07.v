(* Properties/C07.v — placeholder while the model is being validated. *)
From stdpp Require Import gmap.
From Coq Require Import NArith.
From Synnax Require Import Core.Dist.
Theorem C07_stub : iter_open [] [] = IEmptyKeys.
Proof. reflexivity. Qed.
Print Assumptions C07_stub.
