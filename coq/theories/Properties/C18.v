(* Properties/C18.v — Access is granted exactly when a role's policy covers every object.
   (work in progress: witnesses first) *)
From stdpp Require Import gmap.
From Coq Require Import NArith.
From Synnax Require Import Core.Ontology Core.Rbac.
Local Open Scope N_scope.

Definition u_1 : id := Id [117; 115; 101; 114] [117; 49].
Definition k1 : str := [49].
Definition ch1 : id := Id [99; 104] [49].
Definition act_r : str := [114].
Definition f12_ops : list rop :=
  [RSubject u_1; RCreateRole k1 false true; RCreatePolicy k1 (Pol [ch1] [act_r] false) true;
   RSetOnRole k1 [k1]; RAssign u_1 k1; RDeleteRole k1 true].

(* F12: the pinned role.Delete leaves the role's ontology resource and edges: the deleted role's
   policies are still granted *)
Theorem C18_f12_role_delete_refuted :
  enforce (rcur (rrun rpinned rinit f12_ops)) u_1 act_r [ch1] = Allow /\
  enforce (rcur (rrun rfixed rinit f12_ops)) u_1 act_r [ch1] = Deny.
Proof. vm_compute. auto. Qed.
Print Assumptions C18_f12_role_delete_refuted.

(* F21: the pinned policy.Delete leaves the policy's ontology resource and the role -> policy
   edge: a policy created again under the same key is at once attached to its former roles *)
Definition f21_ops : list rop :=
  [RSubject u_1; RCreateRole k1 false true; RCreatePolicy k1 (Pol [ch1] [act_r] false) true;
   RSetOnRole k1 [k1]; RAssign u_1 k1; RDeletePolicies [k1];
   RCreatePolicy k1 (Pol [ch1] [act_r] false) true].
Theorem C18_f21_policy_delete_refuted :
  enforce (rcur (rrun rpinned rinit f21_ops)) u_1 act_r [ch1] = Allow /\
  enforce (rcur (rrun rfixed rinit f21_ops)) u_1 act_r [ch1] = Deny.
Proof. vm_compute. auto. Qed.
Print Assumptions C18_f21_policy_delete_refuted.
