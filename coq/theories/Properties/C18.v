(* Properties/C18.v — Access is granted exactly when a role's policy covers every object.
   Only statements, closed by [exact]/short glue, each followed by Print Assumptions. *)
From stdpp Require Import gmap.
From Coq Require Import NArith.
From Synnax Require Import Core.Ontology Core.OntologyStr Core.OntologyProofs Core.Rbac Core.RbacProofs.
Local Open Scope N_scope.

(* (1) allowRequest is the formula of the property: every requested object is covered, by
   type (a policy object with an empty key and the object's type) or by exact identity, by
   some policy that grants the action. *)
Theorem C18_allow_request_spec : forall act objs ps,
  allow_request act objs ps = true <->
  forall o, o ∈ objs ->
    exists p, p ∈ ps /\ act ∈ p_acts p /\
      exists po, po ∈ p_objs p /\
        ((is_type po = true /\ id_type po = id_type o) \/ (is_type po = false /\ po = o)).
Proof. exact allow_request_spec. Qed.
Print Assumptions C18_allow_request_spec.

(* (2) For every well-formed configuration and every request: Enforce allows exactly when the
   subject exists and every object is covered by a live policy (one with a table row) that is
   a "parent"-child of a role which is a "parent" of the subject; an existing subject is
   otherwise denied, an unknown subject fails with NotFound (denied). *)
Theorem C18_enforce_iff : forall st s act objs,
  wf (r_ont st) -> good_id s ->
  (enforce st s act objs = Allow <-> permitted st s act objs) /\
  (has (r_ont st) s -> enforce st s act objs = Allow \/ enforce st s act objs = Deny) /\
  (~ has (r_ont st) s -> enforce st s act objs = Fail ENotFound).
Proof. exact enforce_spec. Qed.
Print Assumptions C18_enforce_iff.

Definition u_1 : id := Id [117; 115; 101; 114] [117; 49].
Definition k1 : str := [49].
Definition ch1 : id := Id [99; 104] [49].
Definition act_r : str := [114].
Definition f12_ops : list rop :=
  [RSubject u_1; RCreateRole k1 false true; RCreatePolicy k1 (Pol [ch1] [act_r] false) true;
   RSetOnRole k1 [k1]; RAssign u_1 k1; RDeleteRole k1 true].

(* F12: the pinned role.Delete leaves the role's ontology resource and edges: the deleted role's
   policies are still granted *)
Theorem C18_f12_role_delete_refuted :
  enforce (rcur (rrun rpinned rinit f12_ops)) u_1 act_r [ch1] = Allow /\
  enforce (rcur (rrun rfixed rinit f12_ops)) u_1 act_r [ch1] = Deny.
Proof. vm_compute. auto. Qed.
Print Assumptions C18_f12_role_delete_refuted.

(* F26: the pinned policy.Delete leaves the policy's ontology resource and the role -> policy
   edge: a policy created again under the same key is at once attached to its former roles *)
Definition f26_ops : list rop :=
  [RSubject u_1; RCreateRole k1 false true; RCreatePolicy k1 (Pol [ch1] [act_r] false) true;
   RSetOnRole k1 [k1]; RAssign u_1 k1; RDeletePolicies [k1];
   RCreatePolicy k1 (Pol [ch1] [act_r] false) true].
Theorem C18_f26_policy_delete_refuted :
  enforce (rcur (rrun rpinned rinit f26_ops)) u_1 act_r [ch1] = Allow /\
  enforce (rcur (rrun rfixed rinit f26_ops)) u_1 act_r [ch1] = Deny.
Proof. vm_compute. auto. Qed.
Print Assumptions C18_f26_policy_delete_refuted.
