(* Properties/C18.v — Access is granted exactly when a role's policy covers every object.
   Only statements, closed by [exact]/short glue, each followed by Print Assumptions. *)
From stdpp Require Import gmap.
From Coq Require Import NArith.
From Synnax Require Import Core.Ontology Core.OntologyStr Core.OntologyProofs Core.Rbac Core.RbacProofs
  Core.RbacSpec Core.RbacSim.
Local Open Scope N_scope.

(* (1) allowRequest is the formula of the property: every requested object is covered, by
   type (a policy object with an empty key and the object's type) or by exact identity, by
   some policy that grants the action. *)
Theorem C18_allow_request_spec : forall act objs ps,
  allow_request act objs ps = true <->
  forall o, o ∈ objs ->
    exists p, p ∈ ps /\ act ∈ p_acts p /\
      exists po, po ∈ p_objs p /\
        ((is_type po = true /\ id_type po = id_type o) \/ (is_type po = false /\ po = o)).
Proof. exact allow_request_spec. Qed.
Print Assumptions C18_allow_request_spec.

(* (2) For every well-formed configuration and every request: Enforce allows exactly when the
   subject exists and every object is covered by a live policy (one with a table row) that is
   a "parent"-child of a role which is a "parent" of the subject; an existing subject is
   otherwise denied, an unknown subject fails with NotFound (denied). *)
Theorem C18_enforce_iff : forall st s act objs,
  wf (r_ont st) -> good_id s ->
  (enforce st s act objs = Allow <-> permitted st s act objs) /\
  (has (r_ont st) s -> enforce st s act objs = Allow \/ enforce st s act objs = Deny) /\
  (~ has (r_ont st) s -> enforce st s act objs = Fail ENotFound).
Proof. exact enforce_spec. Qed.
Print Assumptions C18_enforce_iff.

(* (3) For every history of create / delete role and policy, SetOnRole, assign / unassign,
   define / delete subject, begin / commit / abort (over good keys and subjects), and for
   every request made at any point of it: the model's Enforce allows exactly when the
   property's formula [permitted_a] holds of the set-based reference configuration that the
   history builds (Core/RbacSpec.v: subjects, live roles, live policies, assignments,
   attachments; [a_apply] gives the meaning of each operation) — in the view of the open
   transaction and in the committed view. Since the request may directly follow any operation,
   this contains the "very next check" clause for assign, unassign, create and delete. *)
Theorem C18_history_enforce_iff : forall ops sub act objs,
  Forall good_rop ops -> sub_ok sub ->
  let s := rrun rfixed rinit ops in
  let a := (corun rinit (ASys a_empty None) ops).2 in
  (enforce (rcur s) sub act objs = Allow <-> permitted_a (acur a) sub act objs = true) /\
  (enforce (rs_db s) sub act objs = Allow <-> permitted_a (as_db a) sub act objs = true).
Proof. exact next_check. Qed.
Print Assumptions C18_history_enforce_iff.

(* the reference formula, spelled out *)
Theorem C18_permitted_a_spec : forall c s act objs,
  permitted_a c s act objs = true <->
  s ∈ a_subj c /\
  forall o, o ∈ objs ->
    exists r, r ∈ a_roles c /\ (r, s) ∈ a_assign c /\
      exists k p, (k, p) ∈ a_pols c /\ (r, k) ∈ a_attach c /\ act ∈ p_acts p /\
        exists po, po ∈ p_objs p /\
          ((is_type po = true /\ id_type po = id_type o) \/ (is_type po = false /\ po = o)).
Proof. exact permitted_a_spec. Qed.
Print Assumptions C18_permitted_a_spec.

(* the same, as the acceptance of a whole run: every Enforce inside any history (through the
   transaction or against the committed view) agrees with the reference *)
Theorem C18_history_all_checks : forall ops,
  Forall good_rop ops -> a_run rinit (ASys a_empty None) ops = true.
Proof. exact history_agrees. Qed.
Print Assumptions C18_history_all_checks.

(* a denied request of an existing configuration is Deny or NotFound (unknown subject) *)
Theorem C18_denied_cases : forall ops sub act objs,
  Forall good_rop ops -> sub_ok sub ->
  let st := rcur (rrun rfixed rinit ops) in
  enforce st sub act objs <> Allow ->
  enforce st sub act objs = Deny \/ enforce st sub act objs = Fail ENotFound.
Proof.
  intros ops sub act objs Hops Hsub st.
  pose proof (corun_sim ops rinit (ASys a_empty None) sim_init Hops) as Hs.
  rewrite corun_model in Hs. exact (proj2 (sim_enforce _ _ sub act objs (sim_cur _ _ Hs) Hsub)).
Qed.
Print Assumptions C18_denied_cases.

(* ---- what the pinned upstream code did (findings F12, F26, repaired in /repo) ---- *)
Definition u_1 : id := Id [117; 115; 101; 114] [117; 49].
Definition k1 : str := [49].
Definition ch1 : id := Id [99; 104] [49].
Definition act_r : str := [114].
Definition f12_ops : list rop :=
  [RSubject u_1; RCreateRole k1 false true; RCreatePolicy k1 (Pol [ch1] [act_r] false) true;
   RSetOnRole k1 [k1]; RAssign u_1 k1; RDeleteRole k1 true].

(* F12: the pinned role.Delete leaves the role's ontology resource and edges: the deleted role's
   policies are still granted *)
Theorem C18_f12_role_delete_refuted :
  enforce (rcur (rrun rpinned rinit f12_ops)) u_1 act_r [ch1] = Allow /\
  enforce (rcur (rrun rfixed rinit f12_ops)) u_1 act_r [ch1] = Deny.
Proof. vm_compute. auto. Qed.
Print Assumptions C18_f12_role_delete_refuted.

(* F26: the pinned policy.Delete leaves the policy's ontology resource and the role -> policy
   edge: a policy created again under the same key is at once attached to its former roles *)
Definition f26_ops : list rop :=
  [RSubject u_1; RCreateRole k1 false true; RCreatePolicy k1 (Pol [ch1] [act_r] false) true;
   RSetOnRole k1 [k1]; RAssign u_1 k1; RDeletePolicies [k1];
   RCreatePolicy k1 (Pol [ch1] [act_r] false) true].
Theorem C18_f26_policy_delete_refuted :
  enforce (rcur (rrun rpinned rinit f26_ops)) u_1 act_r [ch1] = Allow /\
  enforce (rcur (rrun rfixed rinit f26_ops)) u_1 act_r [ch1] = Deny.
Proof. vm_compute. auto. Qed.
Print Assumptions C18_f26_policy_delete_refuted.

(* ---- non-vacuity: a history with two roles, type-level and instance-level policies, a
   transaction, an unassign and a policy deletion meets the hypotheses; verdicts change with
   the very next check ---- *)
Definition u_2 : id := Id [117; 115; 101; 114] [117; 50].
Definition k2 : str := [50].
Definition ch_t : id := Id [99; 104] [].
Definition ch2 : id := Id [99; 104] [50].
Definition ex_rops : list rop :=
  [RSubject u_1; RSubject u_2; RCreateRole k1 false true; RCreateRole k2 false true;
   RCreatePolicy k1 (Pol [ch1] [act_r] false) true; RCreatePolicy k2 (Pol [ch_t] [act_r] false) true;
   RSetOnRole k1 [k1]; RSetOnRole k2 [k2]; RAssign u_1 k1; RAssign u_2 k2].
Example C18_nonvacuous :
  Forall good_rop (ex_rops ++ [RBegin; RUnassign u_2 k2; RDeletePolicies [k1]]) /\ sub_ok u_1 /\
  enforce (rcur (rrun rfixed rinit ex_rops)) u_1 act_r [ch1] = Allow /\
  enforce (rcur (rrun rfixed rinit ex_rops)) u_1 act_r [ch1; ch2] = Deny /\
  enforce (rcur (rrun rfixed rinit ex_rops)) u_2 act_r [ch1; ch2] = Allow /\
  let s := rrun rfixed rinit (ex_rops ++ [RBegin; RUnassign u_2 k2; RDeletePolicies [k1]]) in
  enforce (rcur s) u_2 act_r [ch2] = Deny /\ enforce (rs_db s) u_2 act_r [ch2] = Allow /\
  enforce (rcur s) u_1 act_r [ch1] = Deny /\ enforce (rs_db s) u_1 act_r [ch1] = Allow.
Proof.
  split; [apply (bool_decide_unpack _); vm_compute; exact I|].
  split; [apply (bool_decide_unpack _); vm_compute; exact I|].
  vm_compute. repeat split; reflexivity.
Qed.
