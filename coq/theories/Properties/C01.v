(* Properties/C01.v — Cesium reads return exactly the committed samples, in time order.
   Only statements, each closed by [exact] (short glue allowed), each followed by
   Print Assumptions. *)
From Coq Require Import ZArith List Bool Lia.
From Synnax Require Import Cesium.LayoutOk Generated.Consts_C01 Cesium.Store Cesium.IndexSearch Cesium.Distance Cesium.Stamp
     Cesium.UnaryIter Cesium.UnaryWrite Cesium.Read Monitors.Mon_C01
     Cesium.IndexSearchProofs Cesium.DomIterProofs Cesium.DistanceProofs Cesium.UnaryIterViews
     Cesium.UnaryIterExact Cesium.SliceProofs Cesium.UnaryIterSpec Cesium.TruthProofs Cesium.ReadProofs
     Cesium.UnaryWriteProofs Cesium.LayoutCheck Cesium.LegacyWitness Cesium.DistanceChain Cesium.SingleSession Cesium.SingleSessionSpec.
From Synnax Require Common.Telem Common.TelemSrc.
Import ListNotations.
Local Open Scope Z_scope.

(* the rounding formulas of the model are the factors the Go source carries *)
Theorem C01_consts_agree :
  DEFAULT_CAP = go_default_cap /\
  (forall cap, nominal_size cap = (2 * go_nominal_num * cap + go_nominal_den) / (2 * go_nominal_den)) /\
  (forall n, real_cap n = (2 * go_realcap_num * n + go_realcap_den) / (2 * go_realcap_den)).
Proof.
  split; [reflexivity|]. split; intros.
  - unfold nominal_size, go_nominal_num, go_nominal_den.
    replace (2 * 4 * cap + 5) with (8 * cap + 5) by ring. reflexivity.
  - unfold real_cap, go_realcap_num, go_realcap_den.
    replace (2 * 5 * n + 4) with (2 * (5 * n + 2)) by ring.
    replace (2 * 4) with (2 * 4) by reflexivity.
    rewrite Z.div_mul_cancel_l by discriminate. reflexivity.
Qed.
Print Assumptions C01_consts_agree.

(* search_spec *)
Theorem C01_search_spec : forall l ts, inc l -> isearch ts l = Ok (search_result ts l).
Proof. exact isearch_spec. Qed.
Print Assumptions C01_search_spec.

(* distance_count: what pickSampleOffset relies on *)
Theorem C01_distance_count : forall P k q a t,
  lay P -> znth P k = Some q -> inc (d_data q) ->
  t_s (d_tr q) <= a < t_e (d_tr q) -> a <= t <= t_e (d_tr q) ->
  exists da, distance P (TR a t) true = Ok da /\
             pick_sample_offset da = cnt_lt t (d_data q) - cnt_lt a (d_data q).
Proof. intros P k q a t HP Hq Hi Ha Ht. exact (distance_one_domain P k q HP Hq Hi a t Ha Ht). Qed.
Print Assumptions C01_distance_count.

(* slice_exact: sliceDomain on a data domain d whose range the index resolves ([dist_ok]) and
   which holds one sample per index stamp of its range, with a view v, returns the series whose
   range is d ∩ v and whose samples are exactly those between the index offsets of the two
   ends of d ∩ v ([offA], [offB] count index stamps from the start of d) *)
Theorem C01_slice_exact : forall P var d v,
  t_s (d_tr d) < t_e (d_tr d) ->
  dist_ok P (t_s (d_tr d)) (t_e (d_tr d)) ->
  dlen d = zlen (stamps_in (d_tr d) (stamps_of P)) ->
  t_s v < t_e v -> overlaps (d_tr d) v = true ->
  dser P var d v =
  Ok (Ser (TR (Z.max (t_s (d_tr d)) (t_s v)) (Z.min (t_e (d_tr d)) (t_e v)))
          (firstn (Z.to_nat (offB P d v - offA P d v)) (skipn (Z.to_nat (offA P d v)) (d_data d)))).
Proof. intros P var d v Hd Hdist Hal Hv Hov. exact (dser_exact P var d Hd Hdist Hal v Hv Hov). Qed.
Print Assumptions C01_slice_exact.

(* ... and Distance resolves every range inside one index domain of a well-formed index *)
Theorem C01_dist_ok_one_domain : forall P k q a e,
  ilay P -> znth P k = Some q -> t_s (d_tr q) <= a < t_e (d_tr q) -> e <= t_e (d_tr q) -> dist_ok P a e.
Proof. exact dist_ok_one_domain. Qed.
Print Assumptions C01_dist_ok_one_domain.

(* Read exactness.  For every stored layout satisfying [layout_ok] (see C10) and every
   half-open read range with 0 <= start <= end <= MAX — range ends between samples, on domain
   boundaries, outside the stored data all included — DB.Read of a channel (SeekFirst;
   Next(TimeSpanMax) ... over its unary iterator) returns, concatenated over its series,
   exactly the stored samples whose index stamps lie in the range, each once, in ascending
   time order.
   _partial: that the layout a history of writes and commits produces satisfies [layout_ok]
   with [layout_assoc = committed h] (the write->layout refinement: domain index insert/update,
   rollover, groups not writing their index) is not proved here: it is checked on every run by
   the correspondence (model layout vs. implementation reads), the monitor (implementation
   reads vs. [committed h]) and the evaluated guard (all generated histories end in layouts
   accepted by layout_okb, whose soundness is C01_layout_check_sound). *)
Theorem C01_read_exact_partial : forall P D var t,
  layout_ok P D -> valid_bounds t -> 0 <= t_s t ->
  UnaryIterSpec.frame_data (read_one P D var t) = read_spec (layout_assoc P D) t.
Proof. intros P D var t HL Hb H0. exact (read_one_exact P D var HL t Hb H0). Qed.
Print Assumptions C01_read_exact_partial.

(* the decidable layout check implies the hypothesis (data domains within a contiguous run of
   index domains, file rollovers of the index inside a data domain included) *)
Theorem C01_layout_check_sound : forall P D, layout_okb P D = true -> layout_ok P D.
Proof. exact layout_okb_sound. Qed.
Print Assumptions C01_layout_check_sound.

(* rollover_contiguous on the read side: Distance over a run of immediately contiguous index
   domains counts the stamps of the range across the file boundaries *)
Theorem C01_distance_run : forall L1 mid L2 q qe a t,
  lay (L1 ++ q :: mid ++ qe :: L2) -> contig (q :: mid ++ [qe]) ->
  inc (d_data q) -> inc (d_data qe) ->
  t_s (d_tr q) <= a < t_e (d_tr q) -> t_s (d_tr qe) < t <= t_e (d_tr qe) ->
  exists da, distance (L1 ++ q :: mid ++ qe :: L2) (TR a t) true = Ok da /\
             pick_sample_offset da = run_between mid q qe a t.
Proof. intros L1 mid L2 q qe a t HL Hc Hq Hqe Ha Ht. exact (distance_run L1 mid L2 q qe HL Hc Hq Hqe a t Ha Ht). Qed.
Print Assumptions C01_distance_run.

(* ... and [read_one] is what the model's DB.Read does on a database state *)
Theorem C01_read_is_read_one : forall d k t,
  read_chan d k t = let '(P, D, var) := chan_layout d k in read_one P D var t.
Proof. intros. unfold read_chan, read_one. destruct (chan_layout d k) as [[P D] var]. reflexivity. Qed.
Print Assumptions C01_read_is_read_one.

(* the stored content ascends in time *)
Theorem C01_stored_ascending : forall P D, inc (stamps_of P) -> lay D -> asc (layout_assoc P D).
Proof. exact layout_assoc_asc. Qed.
Print Assumptions C01_stored_ascending.

(* Nothing that was never committed: a Write of a writer without auto-commit changes no
   channel's committed domains, so every read answers as before; Close and Reopen likewise
   (the same answer after the database is closed and reopened). For all states and frames. *)
Theorem C01_uncommitted_invisible : forall st o k t,
  match o with
  | WWrite _ => match s_w st with Some w => w_auto w = false | None => True end
  | WClose | WReopen => True
  | _ => False
  end ->
  read_chan (s_db (fst (w_step st o))) k t = read_chan (s_db st) k t.
Proof. exact uncommitted_invisible_read. Qed.
Print Assumptions C01_uncommitted_invisible.

(* Write -> read refinement for one writer session (the fragment of the full statement that is
   closed end to end): a fresh database with an index channel 1 and a data channel 2 of any data
   type kind, any file-size cap, any start >= 0; the history OpenWriter([1;2], start); then any
   number of frames and commits in any order (frames non-empty, same length on both channels,
   index stamps ascending over the whole session and >= start, total bytes below the cap so
   that no file rolls over); Close.  Then every operation of the history succeeds and every read
   of either channel over any range returns exactly the samples made visible by the commits
   ([visible]: everything written before the last commit that had something to commit) whose
   index stamps lie in the range — nothing written after it.
   _partial: one session, one data channel, no rollover; several sessions, rollover and groups
   that do not write their index are covered by C01_read_exact_partial + the correspondence. *)
Theorem C01_single_session_exact_partial : forall cap kind start ops,
  0 <= start -> legal start (abs0 start) ops -> fits cap kind (abs_run start ops) ->
  let r := w_run (init_state cap [(1, 0, 0); (2, 1, kind)]) (session_history start ops) in
  let '(Sc, Vc) := visible start ops in
  Forall (fun o => fst o = 0) (snd r) /\
  forall t, valid_bounds t -> 0 <= t_s t ->
    UnaryIterSpec.frame_data (read_chan (s_db (fst r)) 1 t) = read_spec (combine Sc Sc) t /\
    UnaryIterSpec.frame_data (read_chan (s_db (fst r)) 2 t) = read_spec (combine Sc Vc) t.
Proof. intros cap kind start ops H0 Hl Hf. exact (single_session_exact cap kind start H0 ops Hl Hf). Qed.
Print Assumptions C01_single_session_exact_partial.

(* ... stated with the specification itself: [committed h] (Read.v: samples of successful
   writes made visible by successful commits) for the history of the session with every step
   successful — which the first conjunct establishes for the model. *)
Theorem C01_single_session_committed_partial : forall cap kind start ops,
  0 <= start -> legal start (abs0 start) ops -> fits cap kind (abs_run start ops) ->
  let chs := [(1, 0, 0); (2, 1, kind)] in
  let h := session_history start ops in
  let r := w_run (init_state cap chs) h in
  Forall (fun o => fst o = 0) (snd r) /\
  forall t, valid_bounds t -> 0 <= t_s t ->
    UnaryIterSpec.frame_data (read_chan (s_db (fst r)) 1 t) = read_spec (committed chs h (map (fun _ => 0) h) 1) t /\
    UnaryIterSpec.frame_data (read_chan (s_db (fst r)) 2 t) = read_spec (committed chs h (map (fun _ => 0) h) 2) t.
Proof.
  intros cap kind start ops H0 Hl Hf. cbv zeta.
  pose proof (single_session_exact cap kind start H0 ops Hl Hf) as E. cbv zeta in E.
  pose proof (visible_is_committed kind start ops Hl) as V. cbv zeta in V.
  destruct (visible start ops) as [Sc Vc]. destruct E as [E1 E2]. destruct V as [V1 V2].
  split; [exact E1|]. intros t Ht Ht0. rewrite V1, V2. apply E2; assumption.
Qed.
Print Assumptions C01_single_session_committed_partial.

(* Finding F25 (repaired in /repo by 5e59704): the Distance loop of the pinned upstream tree
   reported a continuous range ending exactly at the end of the second index domain as
   discontinuous, so a read ending on an index file-rollover boundary returned nothing for a
   channel whose own file had not rolled over. *)
Theorem C01_legacy_distance_refuted :
  distance_legacy w_idx3 (TR 0 91) true = Err EDisc /\
  distance w_idx3 (TR 0 91) true = Ok (DA 9 10 true false).
Proof. exact legacy_distance_refuted. Qed.
Print Assumptions C01_legacy_distance_refuted.

(* Non-vacuity: a history with two writer sessions (the second before the first in time, the
   first started 2 ns before its first sample), an int64 and a string data channel; the model
   state it produces satisfies the layout hypothesis, its content is the committed
   specification, and a read whose range ends between samples returns the expected values. *)
(* non-vacuity of the session theorem: a legal session with a frame written after the last
   commit, whose samples must stay invisible *)
Definition ex_ops : list sop :=
  [SWrite [12; 15] [7; 8]; SCommit; SWrite [20] [9]; SCommit; SCommit; SWrite [21; 30] [10; 11]].
Example C01_session_nonvacuous :
  legal 10 (abs0 10) ex_ops /\ fits 0 3 (abs_run 10 ex_ops) /\
  visible 10 ex_ops = ([12; 15; 20], [7; 8; 9]).
Proof.
  split; [cbn; repeat split; try discriminate; try reflexivity; repeat constructor; try lia|].
  split; [vm_compute; split; reflexivity|reflexivity].
Qed.

Definition ex_chans : list (Z * Z * Z) := [(1, 0, 0); (2, 1, 0); (3, 1, 3)].
Definition ex_hist : list wop :=
  [WOpen [1; 2; 3] 100 false;
   WWrite [(1, [102; 105; 110]); (2, [7; 8; 9]); (3, [20; 21; 22])]; WCommit;
   WWrite [(1, [111]); (2, [10]); (3, [23])]; WClose;
   WOpen [3; 1; 2] 10 true;
   WWrite [(1, [10; 11]); (2, [5; 6]); (3, [18; 19])]; WClose; WReopen].
Definition ex_state : state := fst (w_run (init_state 0 ex_chans) ex_hist).
Example C01_nonvacuous :
  (let '(P, D, var) := chan_layout (s_db ex_state) 3 in
   layout_okb P D = true /\
   layout_assoc P D = committed ex_chans ex_hist (map fst (snd (w_run (init_state 0 ex_chans) ex_hist))) 3 /\
   UnaryIterSpec.frame_data (read_one P D var (TR 11 106)) = [19; 20; 21]) /\
  valid_bounds (TR 11 106).
Proof. split; [vm_compute; auto|unfold valid_bounds, MINI64, MAXTS; simpl; lia]. Qed.

(* ---- tie to the source by translation: the interval algebra (x/go/telem TimeRange / TimeStamp, x/go/clamp) that the
   cesium models are written over (Common/Telem.v) is EQUAL to the Gallina that translator/go2coq regenerates from
   the Go source on every run (Generated/Src_Telem.v; proofs in Common/TelemSrc.v). *)
Theorem C01_interval_algebra_from_source :
  (forall tr ts, TelemSrc.S.TimeRange_ContainsStamp (TelemSrc.src tr) ts = Telem.contains_stamp tr ts) /\
  (forall tr rng, TelemSrc.S.TimeRange_ContainsRange (TelemSrc.src tr) (TelemSrc.src rng) = Telem.contains_range tr rng) /\
  (forall tr rng, TelemSrc.S.TimeRange_OverlapsWith (TelemSrc.src tr) (TelemSrc.src rng) = Telem.overlaps_with tr rng) /\
  (forall tr b, TelemSrc.S.TimeRange_BoundBy (TelemSrc.src tr) (TelemSrc.src b) = TelemSrc.src (Telem.bound_by tr b)) /\
  (forall tr, TelemSrc.S.TimeRange_MakeValid (TelemSrc.src tr) = TelemSrc.src (Telem.tr_make_valid tr)) /\
  (forall tr, TelemSrc.S.TimeRange_Span (TelemSrc.src tr) = Telem.tr_span tr) /\
  (forall tr rng, TelemSrc.S.TimeRange_Intersection (TelemSrc.src tr) (TelemSrc.src rng) =
                  TelemSrc.src (Telem.tr_intersection tr rng)) /\
  (forall tr o, TelemSrc.S.TimeRange_Union (TelemSrc.src tr) (TelemSrc.src o) = TelemSrc.src (Telem.tr_union tr o)) /\
  (forall ts span, TelemSrc.int64 ts -> TelemSrc.int64 span ->
                   TelemSrc.S.TimeStamp_SpanRange ts span = TelemSrc.src (Telem.ts_span_range ts span)) /\
  (TelemSrc.S.TimeStampMin = Telem.ts_min /\ TelemSrc.S.TimeStampMax = Telem.ts_max).
Proof. exact TelemSrc.telem_from_source. Qed.
Print Assumptions C01_interval_algebra_from_source.
