(* Properties/C01.v — Cesium reads return exactly the committed samples, in time order.
   (statements only; under construction) *)
From Coq Require Import ZArith List.
From Synnax Require Import Generated.Consts_C01 Cesium.Store Cesium.UnaryWrite Cesium.Read.
Local Open Scope Z_scope.

(* the rounding formulas of the model are the factors the Go source carries *)
Theorem C01_consts_agree :
  DEFAULT_CAP = go_default_cap /\
  (forall cap, nominal_size cap = (2 * go_nominal_num * cap + go_nominal_den) / (2 * go_nominal_den)) /\
  (forall n, real_cap n = (2 * go_realcap_num * n + go_realcap_den) / (2 * go_realcap_den)).
Proof.
  split; [reflexivity|]. split; intros.
  - unfold nominal_size, go_nominal_num, go_nominal_den.
    replace (2 * 4 * cap + 5) with (8 * cap + 5) by ring. reflexivity.
  - unfold real_cap, go_realcap_num, go_realcap_den.
    replace (2 * 5 * n + 4) with (2 * (5 * n + 2)) by ring.
    replace (2 * 4) with (2 * 4) by reflexivity.
    rewrite Z.div_mul_cancel_l by discriminate. reflexivity.
Qed.
Print Assumptions C01_consts_agree.
