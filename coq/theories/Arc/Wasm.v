(* Arc/Wasm.v — the WebAssembly instruction subset the Arc compiler emits for the scalar
   fragment: abstract syntax (structured), binary encoding (standard opcode numbers, LEB128),
   validation (stack typing) and execution (integers as Z with explicit mod 2^32 / 2^64,
   traps), plus the host import math.pow_* (arc/go/stl/math/math.go, x/go/math IntPow).
   Float operations are the parameters of Arc/Spec.v's [float_ops]. No proofs in this file. *)
From Coq Require Import ZArith List Bool Zpow_facts.
From Synnax Require Import Arc.Syntax Arc.Spec.
Import ListNotations.
Local Open Scope Z_scope.

Inductive iw := W32 | W64.
Inductive vt := VTI (w : iw) | VTF (t : fty).

Inductive ibin := IAdd | ISub | IMul | IDivS | IDivU | IRemS | IRemU.
Inductive irel := IEq | INe | ILtS | ILtU | IGtS | IGtU | ILeS | ILeU | IGeS | IGeU.
Inductive fbin := FAdd | FSub | FMul | FDiv.
Inductive cvtop :=
| CExtendS | CExtendU | CWrap
| CTrunc (from : fty) (to : iw) (sg : bool)      (* iNN.trunc_fMM_s/u *)
| CConvert (from : iw) (sg : bool) (to : fty)    (* fMM.convert_iNN_s/u *)
| CPromote | CDemote.

Inductive instr :=
| IConst (w : iw) (z : Z)        (* z = the signed value handed to WriteI32Const / WriteI64Const *)
| FConst (t : fty) (b : Z)       (* bit pattern *)
| LGet (n : nat) | LSet (n : nat)
| IBin (w : iw) (op : ibin) | IRel (w : iw) (op : irel) | IEqz32
| FBin (t : fty) (op : fbin) | FRel (t : fty) (op : cmp) | FNeg (t : fty)
| Cvt (c : cvtop)
| CallPow (t : ty)               (* call of the import math.pow_<t> *)
| CallLoad (t : ty) (base : nat) (* call of the import stateful.load_<t>(id, init); in this model the
                                    host's table lives after the locals: cell pair base+2*id *)
| CallStore (t : ty) (base : nat)(* call of the import stateful.store_<t>(id, value) *)
| CallFn (k : nat) (t : vt) (body : list instr)
                                 (* call of the k-th function of the module, a helper of type
                                    [t t] -> [t]; its body is carried along for execution *)
| If (bt : option vt) (th : list instr) (el : option (list instr))
| Block (body : list instr)      (* block (empty type) … end *)
| Loop (body : list instr)       (* loop (empty type) … end *)
| Br (n : nat) | BrIf (n : nat)
| Return | Unreachable.

Definition iw_eqb (a b : iw) := match a, b with W32, W32 | W64, W64 => true | _, _ => false end.
Definition vt_eqb (a b : vt) :=
  match a, b with
  | VTI x, VTI y => iw_eqb x y
  | VTF x, VTF y => fty_eqb x y
  | _, _ => false
  end.
Definition wbits (w : iw) : Z := match w with W32 => 32 | W64 => 64 end.
Definition wmod (w : iw) : Z := 2 ^ wbits w.
(* signed reading of a register value in [0, 2^w) *)
Definition sgn (w : iw) (z : Z) : Z := if 2 ^ (wbits w - 1) <=? z then z - wmod w else z.

(* "i8-i32, u8-u32 -> i32; i64, u64 -> i64; f32; f64" (wasm.ConvertType) *)
Definition regw (t : ity) : iw := match t with I64 | U64 => W64 | _ => W32 end.
Definition vt_of (t : ty) : vt := match t with TI t => VTI (regw t) | TF t => VTF t end.

(* ------------------------------------------------------------------ encoding *)
Fixpoint uleb (fuel : nat) (z : Z) : list Z :=
  match fuel with
  | O => []
  | S k => let b := z mod 128 in let r := z / 128 in
           if r =? 0 then [b] else (b + 128) :: uleb k r
  end.
(* signed LEB128 of z (arithmetic shift; stop when the rest is all sign bits) *)
Fixpoint sleb (fuel : nat) (z : Z) : list Z :=
  match fuel with
  | O => []
  | S k => let b := z mod 128 in let r := z / 128 in      (* floor division = arithmetic shift *)
           if ((r =? 0) && (b <? 64)) || ((r =? -1) && (64 <=? b)) then [b]
           else (b + 128) :: sleb k r
  end.
(* unsigned LEB128 padded to exactly 5 bytes (WriteLEB128Fixed5) *)
Definition uleb5 (z : Z) : list Z :=
  [z mod 128 + 128; (z / 128) mod 128 + 128; (z / 128 ^ 2) mod 128 + 128;
   (z / 128 ^ 3) mod 128 + 128; (z / 128 ^ 4) mod 128].
Fixpoint le_bytes (n : nat) (z : Z) : list Z :=
  match n with O => [] | S k => (z mod 256) :: le_bytes k (z / 256) end.

Definition vt_byte (t : vt) : Z :=
  match t with VTI W32 => 127 | VTI W64 => 126 | VTF F32 => 125 | VTF F64 => 124 end.

Definition op_ibin (w : iw) (op : ibin) : Z :=
  (match w with W32 => 106 | W64 => 124 end) +
  match op with IAdd => 0 | ISub => 1 | IMul => 2 | IDivS => 3 | IDivU => 4 | IRemS => 5 | IRemU => 6 end.
Definition op_irel (w : iw) (op : irel) : Z :=
  (match w with W32 => 70 | W64 => 81 end) +
  match op with IEq => 0 | INe => 1 | ILtS => 2 | ILtU => 3 | IGtS => 4 | IGtU => 5
              | ILeS => 6 | ILeU => 7 | IGeS => 8 | IGeU => 9 end.
Definition op_fbin (t : fty) (op : fbin) : Z :=
  (match t with F32 => 146 | F64 => 160 end) +
  match op with FAdd => 0 | FSub => 1 | FMul => 2 | FDiv => 3 end.
Definition op_frel (t : fty) (op : cmp) : Z :=
  (match t with F32 => 91 | F64 => 97 end) +
  match op with CEq => 0 | CNe => 1 | CLt => 2 | CGt => 3 | CLe => 4 | CGe => 5 end.
Definition op_cvt (c : cvtop) : Z :=
  match c with
  | CWrap => 167
  | CTrunc F32 W32 true => 168 | CTrunc F32 W32 false => 169
  | CTrunc F64 W32 true => 170 | CTrunc F64 W32 false => 171
  | CExtendS => 172 | CExtendU => 173
  | CTrunc F32 W64 true => 174 | CTrunc F32 W64 false => 175
  | CTrunc F64 W64 true => 176 | CTrunc F64 W64 false => 177
  | CConvert W32 true F32 => 178 | CConvert W32 false F32 => 179
  | CConvert W64 true F32 => 180 | CConvert W64 false F32 => 181
  | CDemote => 182
  | CConvert W32 true F64 => 183 | CConvert W32 false F64 => 184
  | CConvert W64 true F64 => 185 | CConvert W64 false F64 => 186
  | CPromote => 187
  end.

(* host imports of the fragment *)
Inductive imp := IPow (t : ty) | ILoad (t : ty) | IStore (t : ty).
Definition imp_eqb (a b : imp) : bool :=
  match a, b with
  | IPow x, IPow y | ILoad x, ILoad y | IStore x, IStore y => ty_eqb x y
  | _, _ => false
  end.

Fixpoint index_of (t : imp) (l : list imp) (i : Z) : Z :=
  match l with
  | [] => i
  | x :: r => if imp_eqb x t then i else index_of t r (i + 1)
  end.

Section Encode.
  Variable imports : list imp.   (* the module's imports, in index order *)

  Fixpoint enc_i (i : instr) : list Z :=
    match i with
    | IConst W32 z => 65 :: sleb 10 z
    | IConst W64 z => 66 :: sleb 10 z
    | FConst F32 b => 67 :: le_bytes 4 b
    | FConst F64 b => 68 :: le_bytes 8 b
    | LGet n => 32 :: uleb 10 (Z.of_nat n)
    | LSet n => 33 :: uleb 10 (Z.of_nat n)
    | IBin w op => [op_ibin w op]
    | IRel w op => [op_irel w op]
    | IEqz32 => [69]
    | FBin t op => [op_fbin t op]
    | FRel t op => [op_frel t op]
    | FNeg F32 => [140]
    | FNeg F64 => [154]
    | Cvt c => [op_cvt c]
    | CallPow t => 16 :: uleb5 (index_of (IPow t) imports 0)
    | CallLoad t _ => 16 :: uleb5 (index_of (ILoad t) imports 0)
    | CallStore t _ => 16 :: uleb5 (index_of (IStore t) imports 0)
    | CallFn k _ _ => 16 :: uleb5 (Z.of_nat (length imports + k))
    | If bt th el =>
        4 :: (match bt with None => 64 | Some t => vt_byte t end) ::
        (fix go (l : list instr) : list Z :=
           match l with [] => [] | x :: r => enc_i x ++ go r end) th ++
        match el with
        | None => []
        | Some e => 5 :: (fix go (l : list instr) : list Z :=
                            match l with [] => [] | x :: r => enc_i x ++ go r end) e
        end ++ [11]
    | Block body =>
        2 :: 64 :: (fix go (l : list instr) : list Z :=
                      match l with [] => [] | x :: r => enc_i x ++ go r end) body ++ [11]
    | Loop body =>
        3 :: 64 :: (fix go (l : list instr) : list Z :=
                      match l with [] => [] | x :: r => enc_i x ++ go r end) body ++ [11]
    | Br n => 12 :: uleb 10 (Z.of_nat n)
    | BrIf n => 13 :: uleb 10 (Z.of_nat n)
    | Return => [15]
    | Unreachable => [0]
    end.
  Definition enc_l (l : list instr) : list Z := flat_map enc_i l.
End Encode.

(* locals declaration: consecutive locals of one type are grouped (groupLocalsByType) *)
Fixpoint group_locals (cur : vt) (n : Z) (l : list vt) : list (Z * vt) :=
  match l with
  | [] => [(n, cur)]
  | t :: r => if vt_eqb t cur then group_locals cur (n + 1) r else (n, cur) :: group_locals t 1 r
  end.
Definition enc_locals (l : list vt) : list Z :=
  match l with
  | [] => [0]
  | t :: r => let g := group_locals t 1 r in
              uleb 10 (Z.of_nat (length g)) ++ flat_map (fun p => uleb 10 (fst p) ++ [vt_byte (snd p)]) g
  end.

Record wfunc := {
  w_params : list vt;
  w_locals : list vt;
  w_result : vt;
  w_body : list instr;
  w_pad : nat          (* model only: unused cells between the locals and the stateful host table *)
}.

(* first-use order of the pow imports (resolve.Finalize registers imports in emission order) *)
Definition add_imp (x : imp) (acc : list imp) : list imp :=
  if existsb (imp_eqb x) acc then acc else acc ++ [x].
Fixpoint imports_i (i : instr) (acc : list imp) : list imp :=
  match i with
  | CallPow t => add_imp (IPow t) acc
  | CallLoad t _ => add_imp (ILoad t) acc
  | CallStore t _ => add_imp (IStore t) acc
  | If _ th el =>
      let go := fix go (l : list instr) (acc : list imp) : list imp :=
                  match l with [] => acc | x :: r => go r (imports_i x acc) end in
      let a1 := go th acc in
      match el with None => a1 | Some e => go e a1 end
  | Block body | Loop body =>
      (fix go (l : list instr) (acc : list imp) : list imp :=
         match l with [] => acc | x :: r => go r (imports_i x acc) end) body acc
  | _ => acc
  end.
Definition imports_l (l : list instr) : list imp := fold_left (fun a i => imports_i i a) l [].

(* the code-section entry of the function: locals, body, end *)
Definition enc_func_in (imports : list imp) (f : wfunc) : list Z :=
  enc_locals (w_locals f) ++ enc_l imports (w_body f) ++ [11].
Definition enc_func (f : wfunc) : list Z := enc_func_in (imports_l (w_body f)) f.

(* a module: its functions in index order (helpers first); imports in first-use order over all of them *)
Definition module_imports (fs : list wfunc) : list imp :=
  fold_left (fun acc f => fold_left (fun a i => imports_i i a) (w_body f) acc) fs [].
Definition enc_module (fs : list wfunc) : list (list Z) :=
  map (enc_func_in (module_imports fs)) fs.

(* ------------------------------------------------------------------ validation *)
(* operand stack type: known types on top of a possibly polymorphic bottom (after return /
   unreachable) *)
Definition vstack := (list vt * bool)%type.

Definition vpop (t : vt) (s : vstack) : option vstack :=
  match s with
  | (t' :: r, p) => if vt_eqb t t' then Some (r, p) else None
  | ([], p) => if p then Some ([], p) else None
  end.
Definition vpush (t : vt) (s : vstack) : vstack := (t :: fst s, snd s).
Definition vop2 (a b r : vt) (s : vstack) : option vstack :=
  match vpop b s with
  | Some s1 => match vpop a s1 with Some s2 => Some (vpush r s2) | None => None end
  | None => None
  end.
Definition vop1 (a r : vt) (s : vstack) : option vstack :=
  match vpop a s with Some s1 => Some (vpush r s1) | None => None end.
(* end of a block of result type bt: the stack must be exactly bt (modulo polymorphism) *)
Definition vend (bt : option vt) (s : vstack) : bool :=
  match bt with
  | None => match s with ([], _) => true | _ => false end
  | Some t => match vpop t s with Some ([], _) => true | _ => false end
  end.

Definition cvt_sig (c : cvtop) : vt * vt :=
  match c with
  | CExtendS | CExtendU => (VTI W32, VTI W64)
  | CWrap => (VTI W64, VTI W32)
  | CTrunc f w _ => (VTF f, VTI w)
  | CConvert w _ f => (VTI w, VTF f)
  | CPromote => (VTF F32, VTF F64)
  | CDemote => (VTF F64, VTF F32)
  end.

Section Validate.
  Variable lts : list vt.     (* params ++ locals *)
  Variable ret : vt.

  Fixpoint val_i (i : instr) (s : vstack) : option vstack :=
    match i with
    | IConst w _ => Some (vpush (VTI w) s)
    | FConst t _ => Some (vpush (VTF t) s)
    | LGet n => match nth_error lts n with Some t => Some (vpush t s) | None => None end
    | LSet n => match nth_error lts n with Some t => vpop t s | None => None end
    | IBin w _ => vop2 (VTI w) (VTI w) (VTI w) s
    | IRel w _ => vop2 (VTI w) (VTI w) (VTI W32) s
    | IEqz32 => vop1 (VTI W32) (VTI W32) s
    | FBin t _ => vop2 (VTF t) (VTF t) (VTF t) s
    | FRel t _ => vop2 (VTF t) (VTF t) (VTI W32) s
    | FNeg t => vop1 (VTF t) (VTF t) s
    | Cvt c => vop1 (fst (cvt_sig c)) (snd (cvt_sig c)) s
    | CallPow t => vop2 (vt_of t) (vt_of t) (vt_of t) s
    | CallLoad t _ => vop2 (VTI W32) (vt_of t) (vt_of t) s
    | CallStore t _ =>
        match vpop (vt_of t) s with Some s1 => vpop (VTI W32) s1 | None => None end
    | CallFn _ t _ => vop2 t t t s
    | If bt th el =>
        match vpop (VTI W32) s with
        | None => None
        | Some s1 =>
            let go := fix go (l : list instr) (s : vstack) : option vstack :=
                        match l with
                        | [] => Some s
                        | x :: r => match val_i x s with Some s' => go r s' | None => None end
                        end in
            let okb (l : list instr) := match go l ([], false) with Some s' => vend bt s' | None => false end in
            let ok_el := match el with
                         | Some e => okb e
                         | None => match bt with None => true | Some _ => false end
                         end in
            if okb th && ok_el
            then Some (match bt with None => s1 | Some t => vpush t s1 end)
            else None
        end
    | Block body | Loop body =>
        let go := fix go (l : list instr) (s : vstack) : option vstack :=
                    match l with
                    | [] => Some s
                    | x :: r => match val_i x s with Some s' => go r s' | None => None end
                    end in
        match go body ([], false) with
        | Some s' => if vend None s' then Some s else None
        | None => None
        end
    (* label bounds are not checked here (an out-of-range label makes wazero reject the module) *)
    | Br _ => Some ([], true)
    | BrIf _ => vpop (VTI W32) s
    | Return => match vpop ret s with Some _ => Some ([], true) | None => None end
    | Unreachable => Some ([], true)
    end.

  Fixpoint val_l (l : list instr) (s : vstack) : option vstack :=
    match l with
    | [] => Some s
    | x :: r => match val_i x s with Some s' => val_l r s' | None => None end
    end.
End Validate.

Definition validate (f : wfunc) : bool :=
  match val_l (w_params f ++ w_locals f) (w_result f) (w_body f) ([], false) with
  | Some s => vend (Some (w_result f)) s
  | None => false
  end.

(* ------------------------------------------------------------------ execution *)
Inductive trap := TDivZero | TIntOverflow | TInvalidConv | TUnreachable | THostPanic.

Section Exec.
  Variable fo : float_ops.

  Inductive wval := WI (w : iw) (z : Z) | WF (t : fty) (x : F fo).

  Inductive outcome :=
  | ONorm (st : list wval) (ls : list wval)
  | ORet (v : wval) (ls : list wval)
  | OTrap (k : trap)
  | OBr (n : nat) (ls : list wval)   (* branching to the n-th enclosing label *)
  | OFuel                            (* a loop ran for more than [wasm_fuel] iterations *)
  | OStuck.                       (* ill-typed code: excluded by validation *)

  Definition wasm_fuel : nat := 3100.

  Definition ibin_sem (w : iw) (op : ibin) (a b : Z) : trap + Z :=
    let m := wmod w in
    match op with
    | IAdd => inr ((a + b) mod m)
    | ISub => inr ((a - b) mod m)
    | IMul => inr ((a * b) mod m)
    | IDivS => if b =? 0 then inl TDivZero
               else if (sgn w a =? - 2 ^ (wbits w - 1)) && (sgn w b =? -1) then inl TIntOverflow
               else inr ((Z.quot (sgn w a) (sgn w b)) mod m)
    | IDivU => if b =? 0 then inl TDivZero else inr (a / b)
    | IRemS => if b =? 0 then inl TDivZero else inr ((Z.rem (sgn w a) (sgn w b)) mod m)
    | IRemU => if b =? 0 then inl TDivZero else inr (a mod b)
    end.

  Definition irel_sem (w : iw) (op : irel) (a b : Z) : bool :=
    match op with
    | IEq => a =? b | INe => negb (a =? b)
    | ILtS => sgn w a <? sgn w b | ILtU => a <? b
    | IGtS => sgn w b <? sgn w a | IGtU => b <? a
    | ILeS => sgn w a <=? sgn w b | ILeU => a <=? b
    | IGeS => sgn w b <=? sgn w a | IGeU => b <=? a
    end.

  Definition fbin_arith (op : fbin) : arith :=
    match op with FAdd => AAdd | FSub => ASub | FMul => AMul | FDiv => ADiv end.

  Definition cvt_sem (c : cvtop) (v : wval) : option (trap + wval) :=
    match c, v with
    | CExtendS, WI W32 z => Some (inr (WI W64 (sgn W32 z mod wmod W64)))
    | CExtendU, WI W32 z => Some (inr (WI W64 z))
    | CWrap, WI W64 z => Some (inr (WI W32 (z mod wmod W32)))
    | CTrunc f w sg, WF f' x =>
        if fty_eqb f f' then
          match f_to_int fo f x with
          | FNaN => Some (inl TInvalidConv)
          | FInf _ => Some (inl TIntOverflow)
          | FFin z =>
              let lo := if sg then - 2 ^ (wbits w - 1) else 0 in
              let hi := if sg then 2 ^ (wbits w - 1) - 1 else wmod w - 1 in
              if (lo <=? z) && (z <=? hi) then Some (inr (WI w (z mod wmod w)))
              else Some (inl TIntOverflow)
          end
        else None
    | CConvert w sg f, WI w' z =>
        if iw_eqb w w' then Some (inr (WF f (f_of_int fo f (if sg then sgn w z else z)))) else None
    | CPromote, WF F32 x => Some (inr (WF F64 (f_cvt fo F32 F64 x)))
    | CDemote, WF F64 x => Some (inr (WF F32 (f_cvt fo F64 F32 x)))
    | _, _ => None
    end.

  (* T(x): Go conversion of a register value to the integer type t *)
  Definition to_ity (t : ity) (z : Z) : Z :=
    let m := z mod 2 ^ bits t in
    if signed t && (2 ^ (bits t - 1) <=? m) then m - 2 ^ bits t else m.

  (* x/go/math.IntPow[T](x, n) in wrapping arithmetic of T; exponentiation by squaring computes
     x^n mod 2^bits. n is a Go int (64-bit). *)
  Definition int_pow_go (t : ity) (x n : Z) : trap + Z :=
    if n <? 0 then
      if x =? 0 then inl THostPanic
      else
        let x' := to_ity t (Z.quot 1 x) in
        let n' := sgn W64 ((- n) mod wmod W64) in
        if n' <? 0 then inr x'          (* loop and zero test skipped: returns x * 1 *)
        else inr (to_ity t (Zpow_mod x' n' (2 ^ bits t)))
    else if n =? 0 then inr 1
    else inr (to_ity t (Zpow_mod x n (2 ^ bits t))).

  (* bindI32Pow / bindI64Pow: base and exponent arrive as unsigned register values *)
  Definition host_pow (t : ty) (a b : wval) : option (trap + wval) :=
    match t, a, b with
    | TI it, WI w x, WI w' y =>
        if iw_eqb w (regw it) && iw_eqb w' (regw it) then
          let n := match regw it with W32 => y | W64 => sgn W64 y end in
          match int_pow_go it (to_ity it x) n with
          | inl k => Some (inl k)
          | inr r => Some (inr (WI w (r mod wmod w)))
          end
        else None
    | TF ft, WF f x, WF f' y =>
        if fty_eqb f ft && fty_eqb f' ft then Some (inr (WF ft (f_pow fo ft x y))) else None
    | _, _, _ => None
    end.

  Definition b2w (b : bool) : wval := WI W32 (if b then 1 else 0).

  Fixpoint set_nth (n : nat) (v : wval) (l : list wval) : option (list wval) :=
    match n, l with
    | O, _ :: r => Some (v :: r)
    | S k, x :: r => match set_nth k v r with Some r' => Some (x :: r') | None => None end
    | _, [] => None
    end.

  (* what the stateful host keeps of a register: T(value) (stl/stateful bindScalarI32/I64) *)
  Definition host_norm (t : ty) (v : wval) : option wval :=
    match t, v with
    | TI it, WI w z => if iw_eqb w (regw it) then Some (WI w (to_ity it z mod wmod w)) else None
    | TF f, WF f' x => if fty_eqb f f' then Some v else None
    | _, _ => None
    end.

  Definition lift (r : option (trap + wval)) (st ls : list wval) : outcome :=
    match r with
    | Some (inr v) => ONorm (v :: st) ls
    | Some (inl k) => OTrap k
    | None => OStuck
    end.

  Fixpoint exec_i (i : instr) (st ls : list wval) {struct i} : outcome :=
    match i with
    | IConst w z => ONorm (WI w (z mod wmod w) :: st) ls
    | FConst t b => ONorm (WF t (f_of_bits fo t b) :: st) ls
    | LGet n => match nth_error ls n with Some v => ONorm (v :: st) ls | None => OStuck end
    | LSet n => match st with
                | v :: st' => match set_nth n v ls with Some ls' => ONorm st' ls' | None => OStuck end
                | [] => OStuck
                end
    | IBin w op =>
        match st with
        | WI w2 b :: WI w1 a :: st' =>
            if iw_eqb w w1 && iw_eqb w w2 then
              match ibin_sem w op a b with inr z => ONorm (WI w z :: st') ls | inl k => OTrap k end
            else OStuck
        | _ => OStuck
        end
    | IRel w op =>
        match st with
        | WI w2 b :: WI w1 a :: st' =>
            if iw_eqb w w1 && iw_eqb w w2 then ONorm (b2w (irel_sem w op a b) :: st') ls else OStuck
        | _ => OStuck
        end
    | IEqz32 => match st with WI W32 a :: st' => ONorm (b2w (a =? 0) :: st') ls | _ => OStuck end
    | FBin t op =>
        match st with
        | WF t2 y :: WF t1 x :: st' =>
            if fty_eqb t t1 && fty_eqb t t2
            then ONorm (WF t (f_arith fo t (fbin_arith op) x y) :: st') ls else OStuck
        | _ => OStuck
        end
    | FRel t op =>
        match st with
        | WF t2 y :: WF t1 x :: st' =>
            if fty_eqb t t1 && fty_eqb t t2 then ONorm (b2w (f_cmp fo t op x y) :: st') ls else OStuck
        | _ => OStuck
        end
    | FNeg t =>
        match st with
        | WF t1 x :: st' => if fty_eqb t t1 then ONorm (WF t (f_neg fo t x) :: st') ls else OStuck
        | _ => OStuck
        end
    | Cvt c => match st with v :: st' => lift (cvt_sem c v) st' ls | [] => OStuck end
    | CallPow t => match st with b :: a :: st' => lift (host_pow t a b) st' ls | _ => OStuck end
    | CallLoad t base =>
        match st with
        | init :: WI W32 id :: st' =>
            let c := (base + 2 * Z.to_nat id)%nat in
            match nth_error ls c, host_norm t init with
            | Some (WI W32 1), Some _ =>
                match nth_error ls (S c) with Some v => ONorm (v :: st') ls | None => OStuck end
            | Some _, Some kept =>
                match set_nth c (WI W32 1) ls with
                | Some ls1 => match set_nth (S c) kept ls1 with
                              | Some ls2 => ONorm (init :: st') ls2     (* returns initValue itself *)
                              | None => OStuck
                              end
                | None => OStuck
                end
            | _, _ => OStuck
            end
        | _ => OStuck
        end
    | CallStore t base =>
        match st with
        | v :: WI W32 id :: st' =>
            let c := (base + 2 * Z.to_nat id)%nat in
            match host_norm t v with
            | Some kept =>
                match set_nth c (WI W32 1) ls with
                | Some ls1 => match set_nth (S c) kept ls1 with
                              | Some ls2 => ONorm st' ls2
                              | None => OStuck
                              end
                | None => OStuck
                end
            | None => OStuck
            end
        | _ => OStuck
        end
    | CallFn _ _ body =>
        match st with
        | b :: a :: st' =>
            let go := fix go (l : list instr) (st ls : list wval) : outcome :=
                        match l with
                        | [] => ONorm st ls
                        | x :: r => match exec_i x st ls with
                                    | ONorm st1 ls1 => go r st1 ls1
                                    | o => o
                                    end
                        end in
            match go body [] [a; b] with           (* the callee's locals are its two parameters *)
            | ORet v _ | ONorm (v :: _) _ => ONorm (v :: st') ls
            | OTrap k => OTrap k
            | OFuel => OFuel
            | _ => OStuck
            end
        | _ => OStuck
        end
    | If bt th el =>
        match st with
        | WI W32 c :: st' =>
            let go := fix go (l : list instr) (st ls : list wval) : outcome :=
                        match l with
                        | [] => ONorm st ls
                        | x :: r => match exec_i x st ls with
                                    | ONorm st1 ls1 => go r st1 ls1
                                    | o => o
                                    end
                        end in
            match (if c =? 0 then match el with Some e => go e [] ls | None => ONorm [] ls end
                   else go th [] ls) with
            | ONorm st1 ls1 =>
                match bt with
                | None => ONorm st' ls1
                | Some _ => match st1 with v :: _ => ONorm (v :: st') ls1 | [] => OStuck end
                end
            | OBr O ls1 => match bt with None => ONorm st' ls1 | Some _ => OStuck end
            | OBr (S n) ls1 => OBr n ls1
            | o => o
            end
        | _ => OStuck
        end
    | Block body =>
        let go := fix go (l : list instr) (st ls : list wval) : outcome :=
                    match l with
                    | [] => ONorm st ls
                    | x :: r => match exec_i x st ls with
                                | ONorm st1 ls1 => go r st1 ls1
                                | o => o
                                end
                    end in
        match go body [] ls with
        | ONorm _ ls1 => ONorm st ls1
        | OBr O ls1 => ONorm st ls1
        | OBr (S n) ls1 => OBr n ls1
        | o => o
        end
    | Loop body =>
        let go := fix go (l : list instr) (st ls : list wval) : outcome :=
                    match l with
                    | [] => ONorm st ls
                    | x :: r => match exec_i x st ls with
                                | ONorm st1 ls1 => go r st1 ls1
                                | o => o
                                end
                    end in
        (fix lp (k : nat) (ls : list wval) : outcome :=
           match k with
           | O => OFuel
           | S k' =>
               match go body [] ls with
               | ONorm _ ls1 => ONorm st ls1
               | OBr O ls1 => lp k' ls1          (* branch to the loop label: next iteration *)
               | OBr (S n) ls1 => OBr n ls1
               | o => o
               end
           end) wasm_fuel ls
    | Br n => OBr n ls
    | BrIf n =>
        match st with
        | WI W32 c :: st' => if c =? 0 then ONorm st' ls else OBr n ls
        | _ => OStuck
        end
    | Return => match st with v :: _ => ORet v ls | [] => OStuck end
    | Unreachable => OTrap TUnreachable
    end.

  Fixpoint exec_l (l : list instr) (st ls : list wval) : outcome :=
    match l with
    | [] => ONorm st ls
    | x :: r => match exec_i x st ls with
                | ONorm st1 ls1 => exec_l r st1 ls1
                | o => o
                end
    end.

  Definition zero_w (t : vt) : wval :=
    match t with VTI w => WI w 0 | VTF t => WF t (f_of_bits fo t 0) end.

  Inductive wres := WOk (v : wval) | WTrap (k : trap) | WFuel | WStuck.

  (* invoking the function: locals = arguments ++ zero-initialised declared locals; the value
     of [return], or the value left on the stack at the end of the body *)
  Definition wasm_run (f : wfunc) (args : list wval) : wres :=
    match exec_l (w_body f) [] (args ++ map zero_w (w_locals f)) with
    | ONorm (v :: _) _ => WOk v
    | ONorm [] _ => WStuck
    | ORet v _ => WOk v
    | OTrap k => WTrap k
    | OBr _ _ => WStuck
    | OFuel => WFuel
    | OStuck => WStuck
    end.

  (* a sequence of invocations on one instance: locals are fresh every time, the stateful host
     table (two cells per local index, after the locals) persists. After an invocation that
     does not return a value the remaining ones are not evaluated ([None]). *)
  Fixpoint wasm_calls_from (f : wfunc) (cells : list wval) (calls : list (list wval))
    : list (option wres) :=
    match calls with
    | [] => []
    | args :: rest =>
        let nl := length (w_params f ++ w_locals f) in
        match exec_l (w_body f) [] (args ++ map zero_w (w_locals f) ++ repeat (WI W32 0) (w_pad f) ++ cells) with
        | ONorm (v :: _) ls' | ORet v ls' =>
            Some (WOk v) :: wasm_calls_from f (skipn (nl + w_pad f) ls') rest
        | ONorm [] _ | OBr _ _ | OStuck => Some WStuck :: map (fun _ => None) rest
        | OTrap k => Some (WTrap k) :: map (fun _ => None) rest
        | OFuel => Some WFuel :: map (fun _ => None) rest
        end
    end.
  Definition wasm_calls (f : wfunc) (calls : list (list wval)) : list (option wres) :=
    let nl := length (w_params f ++ w_locals f) in
    wasm_calls_from f (repeat (WI W32 0) (2 * (nl + w_pad f))) calls.
End Exec.

Arguments WI {fo}. Arguments WF {fo}.
Arguments ONorm {fo}. Arguments ORet {fo}. Arguments OTrap {fo}. Arguments OStuck {fo}.
Arguments OBr {fo}. Arguments OFuel {fo}.
Arguments WOk {fo}. Arguments WTrap {fo}. Arguments WStuck {fo}. Arguments WFuel {fo}.
