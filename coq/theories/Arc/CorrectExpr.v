(* Arc/CorrectExpr.v — compiled expressions compute the specified value: simulation by
   induction on expressions, on the guarded fragment (no flag of Arc/Guard.v). *)
From Coq Require Import ZArith List Bool Lia Zpow_facts.
From Synnax Require Import Arc.Syntax Arc.Spec Arc.Wasm Arc.Compile Arc.Guard Arc.Sim Arc.CorrectArith.
Import ListNotations.
Local Open Scope Z_scope.

Ltac Zify.zify_post_hook ::= Z.div_mod_to_equations.

(* ---------------------------------------------------------------- generic facts *)
Lemma ity_eqb_eq a b : ity_eqb a b = true <-> a = b.
Proof. destruct a, b; simpl; split; congruence. Qed.
Lemma fty_eqb_eq a b : fty_eqb a b = true <-> a = b.
Proof. destruct a, b; simpl; split; congruence. Qed.
Lemma ty_eqb_eq a b : ty_eqb a b = true <-> a = b.
Proof.
  destruct a, b; simpl; try (split; congruence).
  - rewrite ity_eqb_eq. split; congruence.
  - rewrite fty_eqb_eq. split; congruence.
Qed.
Lemma ty_eqb_refl a : ty_eqb a a = true.
Proof. apply ty_eqb_eq. reflexivity. Qed.
Lemma fty_eqb_refl a : fty_eqb a a = true.
Proof. destruct a; reflexivity. Qed.
Lemma iw_eqb_refl a : iw_eqb a a = true.
Proof. destruct a; reflexivity. Qed.

Lemma app_nil_inv {A} (a b : list A) : a ++ b = [] -> a = [] /\ b = [].
Proof. destruct a; simpl; intros H; [auto|discriminate]. Qed.

Lemma flag_nil b t : flag b t = [] -> b = false.
Proof. destruct b; simpl; congruence. Qed.

Lemma existsb_eqb_In i l : existsb (Nat.eqb i) l = true <-> In i l.
Proof.
  rewrite existsb_exists. split.
  - intros (x & Hx & E). apply Nat.eqb_eq in E. subst. assumption.
  - intros H. exists i. split; [assumption|apply Nat.eqb_refl].
Qed.

(* typing does not depend on the scope beyond membership *)
Lemma type_of_mono tys sc sc' :
  (forall i t, In i sc -> nth_error tys i = Some t -> In i sc') ->
  forall e t, type_of tys sc e = Some t -> type_of tys sc' e = Some t.
Proof.
  intros Hs. fix IH 1. intros e. destruct e; simpl; intros t0 H; try assumption.
  - destruct (existsb (Nat.eqb i) sc) eqn:E; [|discriminate].
    apply existsb_eqb_In in E. apply (Hs _ _ E) in H as E'. apply existsb_eqb_In in E'. rewrite E'. assumption.
  - destruct (existsb (Nat.eqb i) sc) eqn:E; [|discriminate].
    apply existsb_eqb_In in E. apply (Hs _ _ E) in H as E'. apply existsb_eqb_In in E'. rewrite E'. assumption.
  - (* call: only the arguments depend on the scope *)
    destruct (type_of tys sc e2) as [ta|] eqn:Ta.
    2:{ rewrite andb_false_r in H. discriminate. }
    rewrite (IH e2 _ Ta). destruct b as [eb|]; [|exact H].
    destruct (type_of tys sc eb) as [tb|] eqn:Tb.
    2:{ rewrite andb_false_r in H. discriminate. }
    rewrite (IH eb _ Tb). exact H.
  - apply IH. assumption.
  - apply IH. assumption.
  - destruct (type_of tys sc e) as [[[]|]|] eqn:Te; try discriminate; rewrite (IH e _ Te); assumption.
  - destruct (type_of tys sc e1) as [ta|] eqn:T1; [|discriminate].
    destruct (type_of tys sc e2) as [tb|] eqn:T2; [|discriminate].
    rewrite (IH e1 _ T1), (IH e2 _ T2). assumption.
  - destruct (type_of tys sc e1) as [ta|] eqn:T1; [|discriminate].
    destruct (type_of tys sc e2) as [tb|] eqn:T2; [|discriminate].
    rewrite (IH e1 _ T1), (IH e2 _ T2). assumption.
  - destruct (type_of tys sc e1) as [ta|] eqn:T1; [|discriminate].
    destruct (type_of tys sc e2) as [tb|] eqn:T2; [|discriminate].
    rewrite (IH e1 _ T1), (IH e2 _ T2). assumption.
  - destruct (type_of tys sc e1) as [[[]|]|] eqn:T1; try discriminate;
      destruct (type_of tys sc e2) as [[[]|]|] eqn:T2; try discriminate;
      rewrite (IH e1 _ T1), (IH e2 _ T2); assumption.
  - destruct (type_of tys sc e1) as [[[]|]|] eqn:T1; try discriminate;
      destruct (type_of tys sc e2) as [[[]|]|] eqn:T2; try discriminate;
      rewrite (IH e1 _ T1), (IH e2 _ T2); assumption.
  - destruct (type_of tys sc e) as [ta|] eqn:Te; [|discriminate].
    rewrite (IH e _ Te). assumption.
Qed.

Lemma type_of_var_lt tys sc i t : type_of tys sc (EVar i) = Some t -> In i sc /\ nth_error tys i = Some t.
Proof.
  simpl. destruct (existsb (Nat.eqb i) sc) eqn:E; [|discriminate].
  apply existsb_eqb_In in E. auto.
Qed.

(* ---------------------------------------------------------------- reparse *)
Lemma reparse_id : forall e, uop_free e = true -> reparse e = e.
Proof.
  fix IH 1. intros e. destruct e; simpl; intros H; try reflexivity;
    repeat match goal with
           | H : _ && _ = true |- _ => apply andb_true_iff in H; destruct H
           end;
    try (rewrite ?(IH e), ?(IH e1), ?(IH e2) by assumption; reflexivity).
  - (* call *)
    rewrite (IH e1), (IH e2) by assumption. destruct b as [eb|]; [|reflexivity].
    rewrite (IH eb) by assumption. reflexivity.
  - rewrite (IH e) by assumption. destruct e; simpl in *; try reflexivity; discriminate.
  - rewrite (IH e) by assumption. destruct e; simpl in *; try reflexivity; discriminate.
Qed.

(* ---------------------------------------------------------------- execution steps *)
Section Steps.
  Variable fo : float_ops.
  Notation exec_l := (exec_l fo).
  Notation exec_i := (exec_i fo).

  Lemma exec_l_app a b st ls :
    exec_l (a ++ b) st ls =
    match exec_l a st ls with ONorm st' ls' => exec_l b st' ls' | o => o end.
  Proof.
    revert st ls. induction a as [|x a IH]; intros st ls; simpl; [reflexivity|].
    destruct (exec_i x st ls); try reflexivity. apply IH.
  Qed.

  Lemma exec_l_one i st ls :
    exec_l [i] st ls = match exec_i i st ls with ONorm st' ls' => ONorm st' ls' | o => o end.
  Proof. simpl. destruct (exec_i i st ls); reflexivity. Qed.

  Lemma exec_ibin w op a b st ls :
    exec_i (IBin w op) (WI w b :: WI w a :: st) ls =
    match ibin_sem w op a b with inr z => ONorm (WI w z :: st) ls | inl k => OTrap k end.
  Proof. simpl. rewrite iw_eqb_refl. reflexivity. Qed.

  Lemma exec_irel w op a b st ls :
    exec_i (IRel w op) (WI w b :: WI w a :: st) ls = ONorm (b2w fo (irel_sem w op a b) :: st) ls.
  Proof. simpl. rewrite iw_eqb_refl. reflexivity. Qed.

  Lemma exec_fbin t op x y st ls :
    exec_i (FBin t op) (WF t y :: WF t x :: st) ls =
    ONorm (WF t (f_arith fo t (fbin_arith op) x y) :: st) ls.
  Proof. simpl. rewrite fty_eqb_refl. reflexivity. Qed.

  Lemma exec_frel t op x y st ls :
    exec_i (FRel t op) (WF t y :: WF t x :: st) ls = ONorm (b2w fo (f_cmp fo t op x y) :: st) ls.
  Proof. simpl. rewrite fty_eqb_refl. reflexivity. Qed.

  Lemma exec_fneg t x st ls :
    exec_i (FNeg t) (WF t x :: st) ls = ONorm (WF t (f_neg fo t x) :: st) ls.
  Proof. simpl. rewrite fty_eqb_refl. reflexivity. Qed.

  Lemma exec_if bt th el c st ls :
    exec_i (If bt th el) (WI W32 c :: st) ls =
    match (if c =? 0 then match el with Some e => exec_l e [] ls | None => ONorm [] ls end
           else exec_l th [] ls) with
    | ONorm st1 ls1 =>
        match bt with
        | None => ONorm st ls1
        | Some _ => match st1 with v :: _ => ONorm (v :: st) ls1 | [] => OStuck end
        end
    | OBr O ls1 => match bt with None => ONorm st ls1 | Some _ => OStuck end
    | OBr (S n) ls1 => OBr n ls1
    | o => o
    end.
  Proof. reflexivity. Qed.

  Lemma sgn_mod w z : 0 <= z < wmod w -> (sgn w z) mod wmod w = z mod wmod w.
  Proof.
    intros H. unfold sgn. destruct (Z.leb_spec (2 ^ (wbits w - 1)) z); [|reflexivity].
    destruct w; unfold wmod, wbits in *; simpl in *; closed_pows; lia.
  Qed.

  Lemma exec_l_cons i r st ls :
    exec_l (i :: r) st ls =
    match exec_i i st ls with ONorm st' ls' => exec_l r st' ls' | o => o end.
  Proof. reflexivity. Qed.
  Lemma exec_l_nil st ls : exec_l [] st ls = ONorm st ls.
  Proof. reflexivity. Qed.
  Lemma exec_iconst w z st ls : exec_i (IConst w z) st ls = ONorm (WI w (z mod wmod w) :: st) ls.
  Proof. reflexivity. Qed.
  Lemma exec_fconst t b st ls : exec_i (FConst t b) st ls = ONorm (WF t (f_of_bits fo t b) :: st) ls.
  Proof. reflexivity. Qed.
  Lemma exec_eqz z st ls : exec_i IEqz32 (WI W32 z :: st) ls = ONorm (b2w fo (z =? 0) :: st) ls.
  Proof. reflexivity. Qed.
  Lemma exec_cvt c v st ls : exec_i (Cvt c) (v :: st) ls = lift fo (cvt_sem fo c v) st ls.
  Proof. reflexivity. Qed.
  Lemma exec_callpow t a b st ls : exec_i (CallPow t) (b :: a :: st) ls = lift fo (host_pow fo t a b) st ls.
  Proof. reflexivity. Qed.
  Lemma exec_lget n v st ls : nth_error ls n = Some v -> exec_i (LGet n) st ls = ONorm (v :: st) ls.
  Proof. intros H. simpl. rewrite H. reflexivity. Qed.
  Lemma exec_return v st ls : exec_i Return (v :: st) ls = ORet v ls.
  Proof. reflexivity. Qed.

  (* const 0; ne *)
  Lemma exec_norm_bool z st ls :
    exec_l norm_bool (WI W32 z :: st) ls = ONorm (b2w fo (negb (z =? 0)) :: st) ls.
  Proof.
    unfold norm_bool. simpl. reflexivity.
  Qed.
End Steps.

Arguments Wasm.exec_i : simpl never.
Arguments Wasm.exec_l : simpl never.
Arguments Wasm.ibin_sem : simpl never.
Arguments Wasm.irel_sem : simpl never.

(* ---------------------------------------------------------------- casts *)
Lemma cast_code_int a b :
  cast_code (TI a) (TI b) =
  match regw a, regw b with
  | W32, W32 | W64, W64 => []
  | W32, W64 => [Cvt (if signed a then CExtendS else CExtendU)]
  | W64, W32 => [Cvt CWrap]
  end.
Proof. destruct a, b; reflexivity. Qed.

Lemma range_widen a b z :
  regw a = W32 -> regw b = W64 -> signed a = signed b -> in_range a z = true -> in_range b z = true.
Proof.
  intros Ra Rb S H. apply in_range_iff in H. apply in_range_iff.
  destruct a, b; try discriminate; unfold imin, imax in *; simpl in *; closed_pows; lia.
Qed.

Lemma trunc_bounds b z :
  in_range b z = true ->
  ((if signed b then - 2 ^ (wbits (regw b) - 1) else 0) <=? z) &&
  (z <=? (if signed b then 2 ^ (wbits (regw b) - 1) - 1 else wmod (regw b) - 1)) = true.
Proof.
  intros H. apply in_range_iff in H. apply andb_true_iff. rewrite !Z.leb_le.
  destruct b; unfold imin, imax, wmod, wbits in *; simpl in *; closed_pows; lia.
Qed.

Section Cast.
  Variable fo : float_ops.
  Notation exec_l := (exec_l fo).
  Notation wv := (wv fo).
  Notation vok := (vok fo).

  Lemma cast_int_ok a b z st ls :
    in_range a z = true -> cast_flags_int a b z = [] ->
    in_range b (cast_int_int a b z) = true /\
    exec_l (cast_code (TI a) (TI b)) (WI (regw a) (canon a z) :: st) ls =
    ONorm (WI (regw b) (canon b (cast_int_int a b z)) :: st) ls.
  Proof.
    intros Ha Hf. unfold cast_flags_int in Hf. rewrite cast_code_int.
    destruct (in_range b z) eqn:Hb.
    - (* the value fits the target: it is preserved *)
      assert (E : cast_int_int a b z = z).
      { unfold cast_int_int. destruct (Bool.eqb (signed a) (signed b)); [apply wrap_id|apply clamp_id]; assumption. }
      rewrite E. split; [assumption|].
      destruct (regw a) eqn:Ra, (regw b) eqn:Rb.
      + rewrite exec_l_nil. unfold canon. rewrite Ra, Rb. reflexivity.
      + rewrite exec_l_cons, exec_cvt. destruct (signed a) eqn:Sa; simpl; rewrite exec_l_nil.
        * rewrite <- Ra, sgn_canon by assumption. unfold canon. rewrite Rb. reflexivity.
        * rewrite (canon_unsigned a z Ha Sa).
          assert (0 <= z).
          { apply in_range_iff in Ha. destruct a; try discriminate; unfold imin in *; simpl in *; lia. }
          rewrite (canon_nonneg b z Hb) by assumption. reflexivity.
      + rewrite exec_l_cons, exec_cvt. simpl. rewrite exec_l_nil. unfold canon. rewrite Ra, Rb. do 3 f_equal.
        unfold wmod, wbits; simpl; closed_pows. lia.
      + rewrite exec_l_nil. unfold canon. rewrite Ra, Rb. reflexivity.
    - (* out of the target's range: only same-signedness narrowing to a 32-bit type is left *)
      destruct (Bool.eqb (signed a) (signed b)) eqn:S; simpl in Hf; [|discriminate].
      destruct (narrow b) eqn:Nb; [discriminate|].
      unfold cast_int_int. rewrite S. split; [apply wrap_in_range|].
      rewrite canon_wrap by (left; assumption).
      destruct (regw a) eqn:Ra, (regw b) eqn:Rb.
      + rewrite exec_l_nil. unfold canon. rewrite Ra. reflexivity.
      + exfalso. apply Bool.eqb_prop in S.
        rewrite (range_widen a b z Ra Rb S Ha) in Hb. discriminate.
      + rewrite exec_l_cons, exec_cvt. simpl. rewrite exec_l_nil. unfold canon. rewrite Ra. do 3 f_equal.
        unfold wmod, wbits; simpl; closed_pows. lia.
      + rewrite exec_l_nil. unfold canon. rewrite Ra. reflexivity.
  Qed.

  Lemma cast_ok ta t v st ls :
    vok ta v -> cast_flags fo ta t v = [] ->
    match cast fo ta t v with
    | Ok v' => vok t v' /\ exec_l (cast_code ta t) (wv ta v :: st) ls = ONorm (wv t v' :: st) ls
    | RtErr => False
    | Unspec => True
    end.
  Proof.
    intros Hv Hf. destruct ta as [a|fa], t as [b|fb], v as [z|x]; simpl in Hv; try contradiction.
    - (* int -> int *)
      simpl in *. apply cast_int_ok; assumption.
    - (* int -> float *)
      simpl. split; [exact I|].
      assert (C : cast_code (TI a) (TF fb) = [Cvt (CConvert (regw a) (signed a) fb)])
        by (destruct a, fb; reflexivity).
      rewrite C, exec_l_cons, exec_cvt. simpl. rewrite iw_eqb_refl. simpl. rewrite exec_l_nil.
      destruct (signed a) eqn:S;
        [rewrite sgn_canon by assumption|rewrite canon_unsigned by assumption]; reflexivity.
    - (* float -> int *)
      simpl in *. unfold cast_float_int.
      assert (C : cast_code (TF fa) (TI b) = [Cvt (CTrunc fa (regw b) (signed b))])
        by (destruct fa, b; reflexivity).
      rewrite C, exec_l_cons, exec_cvt. simpl. rewrite fty_eqb_refl.
      destruct (f_to_int fo fa x) as [| |z]; try discriminate.
      apply flag_nil in Hf. apply negb_false_iff in Hf.
      simpl. rewrite clamp_id by assumption. split; [assumption|].
      rewrite (trunc_bounds b z Hf). simpl. rewrite exec_l_nil. reflexivity.
    - (* float -> float *)
      simpl. split; [exact I|].
      destruct fa, fb; simpl; rewrite ?exec_l_nil; try reflexivity;
        rewrite exec_l_cons, exec_cvt; simpl; rewrite exec_l_nil; reflexivity.
  Qed.
End Cast.

(* ---------------------------------------------------------------- expressions *)
Section Expr.
  Variable fo : float_ops.
  Variable tys : list ty.
  Notation exec_l := (exec_l fo).
  Notation exec_i := (exec_i fo).
  Notation wv := (wv fo).
  Notation vok := (vok fo).
  Notation eval := (eval fo tys).
  Notation ety := (ety tys).

  (* locals hold the canonical images of the variables in scope *)
  Definition sim (sc : list nat) (r : env fo) (ls : list (wval fo)) : Prop :=
    length ls = length tys /\
    forall i t, In i sc -> nth_error tys i = Some t ->
      vok t (r i) /\ nth_error ls i = Some (wv t (r i)).

  (* running [code] pushes the canonical image of the specified value / traps on a runtime error *)
  Definition esim (t : ty) (code : list instr) (rv : res (val fo)) (ls : list (wval fo)) : Prop :=
    forall st,
      match rv with
      | Ok v => vok t v /\ exec_l code st ls = ONorm (wv t v :: st) ls
      | RtErr => exec_l code st ls = OTrap TDivZero
      | Unspec => True
      end.

  Lemma ety_of sc e t : type_of tys sc e = Some t -> ety e = Some t.
  Proof.
    apply type_of_mono. intros i t0 _ H. apply in_seq. split; [lia|]. simpl.
    apply nth_error_Some. congruence.
  Qed.

  Lemma vok_int it v : vok (TI it) v -> exists z, v = VI z /\ in_range it z = true.
  Proof. destruct v; simpl; [eauto|contradiction]. Qed.
  Lemma vok_flt f v : vok (TF f) v -> exists x, v = VF x.
  Proof. destruct v; simpl; [contradiction|eauto]. Qed.

  Lemma wv_b2v b : wv tU8 (b2v fo b) = b2w fo b.
  Proof. destruct b; reflexivity. Qed.
  Lemma vok_b2v b : vok tU8 (b2v fo b).
  Proof. destruct b; reflexivity. Qed.

  (* sequencing of two operand codes followed by an operator *)
  Lemma esim_seq2 ta tb ca cb op ra rb ls :
    esim ta ca ra ls -> (forall va, ra = Ok va -> esim tb cb rb ls) ->
    forall st,
      match ra with
      | Ok va =>
          vok ta va /\
          match rb with
          | Ok vb => vok tb vb /\
                     exec_l (ca ++ cb ++ op) st ls = exec_l op (wv tb vb :: wv ta va :: st) ls
          | RtErr => exec_l (ca ++ cb ++ op) st ls = OTrap TDivZero
          | Unspec => True
          end
      | RtErr => exec_l (ca ++ cb ++ op) st ls = OTrap TDivZero
      | Unspec => True
      end.
  Proof.
    intros Ha Hb st. specialize (Ha st). destruct ra as [va| |]; [|rewrite exec_l_app, Ha; reflexivity|exact I].
    destruct Ha as [Va Ea]. split; [assumption|].
    specialize (Hb va eq_refl (wv ta va :: st)). destruct rb as [vb| |]; [| |exact I].
    - destruct Hb as [Vb Eb]. split; [assumption|].
      rewrite exec_l_app, Ea, exec_l_app, Eb. reflexivity.
    - rewrite exec_l_app, Ea, exec_l_app, Hb. reflexivity.
  Qed.

  Lemma esim_seq1 ta ca op ra ls :
    esim ta ca ra ls ->
    forall st,
      match ra with
      | Ok va => vok ta va /\ exec_l (ca ++ op) st ls = exec_l op (wv ta va :: st) ls
      | RtErr => exec_l (ca ++ op) st ls = OTrap TDivZero
      | Unspec => True
      end.
  Proof.
    intros Ha st. specialize (Ha st). destruct ra as [va| |]; [|rewrite exec_l_app, Ha; reflexivity|exact I].
    destruct Ha as [Va Ea]. split; [assumption|]. rewrite exec_l_app, Ea. reflexivity.
  Qed.

  (* ---- unary minus ---- *)
  Lemma neg_case a t ca r ls :
    ety a = Some t -> esim t ca (eval r a) ls ->
    match t, eval r a with
    | TI it, Ok (VI z) => narrow it && negb (in_range it (- z)) = false
    | _, _ => True
    end ->
    esim t (ca ++ match t with
                  | TI it => [IConst (regw it) (-1); IBin (regw it) IMul]
                  | TF f => [FNeg f]
                  end) (eval r (ENeg a)) ls.
  Proof.
    intros Ht Ha G st. pose proof (esim_seq1 _ _ (match t with
                  | TI it => [IConst (regw it) (-1); IBin (regw it) IMul]
                  | TF f => [FNeg f]
                  end) _ _ Ha st) as H.
    simpl. rewrite Ht. destruct (eval r a) as [va| |]; simpl; [|assumption|exact I].
    destruct H as [Va E]. rewrite E. destruct t as [it|f].
    - destruct (vok_int _ _ Va) as (z & -> & Hz). simpl.
      split; [apply wrap_in_range|].
      rewrite exec_l_cons, exec_iconst, exec_l_cons, exec_ibin.
      assert (C : canon it (wrap it (- z)) = (- z) mod wmod (regw it)).
      { apply canon_wrap. apply andb_false_iff in G. destruct G as [G|G]; [left; assumption|].
        right. apply negb_false_iff in G. assumption. }
      rewrite (neg_ok it z C), exec_l_nil. reflexivity.
    - destruct (vok_flt _ _ Va) as (x & ->). simpl. split; [exact I|].
      rewrite exec_l_cons, exec_fneg, exec_l_nil. reflexivity.
  Qed.

  (* ---- not ---- *)
  Lemma not_case a ca r ls :
    esim tU8 ca (eval r a) ls -> esim tU8 (ca ++ [IEqz32]) (eval r (ENot a)) ls.
  Proof.
    intros Ha st. pose proof (esim_seq1 _ _ [IEqz32] _ _ Ha st) as H.
    simpl. destruct (eval r a) as [va| |]; simpl; [|assumption|exact I].
    destruct H as [Va E]. rewrite E.
    destruct (vok_int _ _ Va) as (z & -> & Hz). simpl.
    split; [apply vok_b2v|].
    change (regw U8) with W32. rewrite exec_l_cons, exec_eqz, exec_l_nil.
    rewrite (canon_zero U8 z Hz). unfold truthy. rewrite negb_involutive.
    destruct (z =? 0); reflexivity.
  Qed.

  (* ---- arithmetic ---- *)
  (* the value of  x op y  at type t (shared by binary expressions and compound assignment) *)
  Definition arith_val (t : ty) (op : arith) (va vb : val fo) : res (val fo) :=
    match t, va, vb with
    | TI it, VI x, VI y => bind (int_arith it op x y) (fun z => Ok (VI z))
    | TF f, VF x, VF y => Ok (VF (f_arith fo f op x y))
    | _, _, _ => Unspec
    end.

  Lemma arith_step op t o va vb st ls :
    arith_op op t = Some o -> vok t va -> vok t vb ->
    match t, va, vb with
    | TI it, VI x, VI y => arith_flags it op x y = []
    | _, _, _ => True
    end ->
    match arith_val t op va vb with
    | Ok v => vok t v /\ exec_l [o] (wv t vb :: wv t va :: st) ls = ONorm (wv t v :: st) ls
    | RtErr => exec_l [o] (wv t vb :: wv t va :: st) ls = OTrap TDivZero
    | Unspec => True
    end.
  Proof.
    intros Ho Va Vb G. destruct t as [it|f].
    - destruct (vok_int _ _ Va) as (x & -> & Hx). destruct (vok_int _ _ Vb) as (y & -> & Hy).
      simpl in Ho. injection Ho as <-. simpl wv. unfold arith_val. rewrite exec_l_cons, exec_ibin.
      assert (GW : forall z, narrow it && negb (in_range it z) = false ->
                             canon it (wrap it z) = z mod wmod (regw it)).
      { intros z Gz. apply canon_wrap. apply andb_false_iff in Gz. destruct Gz as [Gz|Gz]; [left; assumption|].
        right. apply negb_false_iff in Gz. assumption. }
      destruct op; simpl in G; cbn [int_arith bind].
      + apply flag_nil in G. rewrite (add_ok it x y (GW _ G)), exec_l_nil. split; [apply wrap_in_range|reflexivity].
      + apply flag_nil in G. rewrite (sub_ok it x y (GW _ G)), exec_l_nil. split; [apply wrap_in_range|reflexivity].
      + apply flag_nil in G. rewrite (mul_ok it x y (GW _ G)), exec_l_nil. split; [apply wrap_in_range|reflexivity].
      + destruct (Z.eqb_spec y 0) as [E|Ny]; cbn [bind].
        * rewrite E. destruct (signed it); rewrite (div_zero_trap it) by (auto; destruct it; reflexivity); reflexivity.
        * destruct (in_range it (Z.quot x y)) eqn:Hq; [|destruct (narrow it); discriminate].
          split; [apply wrap_in_range|].
          destruct (signed it) eqn:S.
          -- rewrite (divs_ok it x y S Hx Hy Ny Hq), exec_l_nil. reflexivity.
          -- rewrite (divu_ok it x y S Hx Hy Ny), exec_l_nil. reflexivity.
      + destruct (Z.eqb_spec y 0) as [E|Ny]; cbn [bind].
        * rewrite E. destruct (signed it); rewrite (div_zero_trap it) by (auto; destruct it; reflexivity); reflexivity.
        * split; [apply wrap_in_range|].
          destruct (signed it) eqn:S.
          -- rewrite (rems_ok it x y S Hx Hy Ny), exec_l_nil. reflexivity.
          -- rewrite (remu_ok it x y S Hx Hy Ny), exec_l_nil. reflexivity.
    - destruct (vok_flt _ _ Va) as (x & ->). destruct (vok_flt _ _ Vb) as (y & ->).
      simpl. split; [exact I|].
      destruct op; simpl in Ho; try discriminate; injection Ho as <-;
        rewrite exec_l_cons, exec_fbin, exec_l_nil; reflexivity.
  Qed.

  Lemma eval_arith r op a b t :
    ety a = Some t ->
    eval r (EArith op a b) =
    bind (eval r a) (fun va => bind (eval r b) (fun vb => arith_val t op va vb)).
  Proof. intros Ht. simpl. rewrite Ht. destruct t; reflexivity. Qed.

  Lemma arith_case op a b t ca cb o r ls :
    ety a = Some t -> arith_op op t = Some o ->
    esim t ca (eval r a) ls -> (forall va, eval r a = Ok va -> esim t cb (eval r b) ls) ->
    match t, eval r a, eval r b with
    | TI it, Ok (VI x), Ok (VI y) => arith_flags it op x y = []
    | _, _, _ => True
    end ->
    esim t (ca ++ cb ++ [o]) (eval r (EArith op a b)) ls.
  Proof.
    intros Ht Ho Ha Hb G st. pose proof (esim_seq2 _ _ _ _ [o] _ _ _ Ha Hb st) as H.
    rewrite (eval_arith r op a b t Ht).
    destruct (eval r a) as [va| |]; simpl; [|assumption|exact I].
    destruct H as [Va H]. destruct (eval r b) as [vb| |]; simpl; [|assumption|exact I].
    destruct H as [Vb E]. rewrite E. clear E.
    apply arith_step; assumption.
  Qed.

  (* ---- comparisons ---- *)
  Lemma cmp_case op a b t ca cb r ls :
    ety a = Some t ->
    esim t ca (eval r a) ls -> (forall va, eval r a = Ok va -> esim t cb (eval r b) ls) ->
    esim tU8 (ca ++ cb ++ [cmp_op op t]) (eval r (ECmp op a b)) ls.
  Proof.
    intros Ht Ha Hb st. pose proof (esim_seq2 _ _ _ _ [cmp_op op t] _ _ _ Ha Hb st) as H.
    simpl. rewrite Ht. destruct (eval r a) as [va| |]; simpl; [|assumption|exact I].
    destruct H as [Va H]. destruct (eval r b) as [vb| |]; simpl; [|assumption|exact I].
    destruct H as [Vb E]. rewrite E. clear E. destruct t as [it|f].
    - destruct (vok_int _ _ Va) as (x & -> & Hx). destruct (vok_int _ _ Vb) as (y & -> & Hy).
      simpl. split; [apply vok_b2v|].
      pose proof (cmp_ok it op x y Hx Hy) as C.
      destruct (cmp_op op (TI it)) eqn:Eo; try contradiction. destruct C as [-> C].
      unfold cmp_op in Eo. injection Eo as <-.
      rewrite exec_l_cons, exec_irel, C, exec_l_nil. destruct (int_cmp op x y); reflexivity.
    - destruct (vok_flt _ _ Va) as (x & ->). destruct (vok_flt _ _ Vb) as (y & ->).
      simpl. split; [apply vok_b2v|]. rewrite exec_l_cons, exec_frel, exec_l_nil.
      destruct (f_cmp fo f op x y); reflexivity.
  Qed.

  (* ---- power ---- *)
  Lemma pow_case a b t ca cb r ls :
    ety a = Some t ->
    esim t ca (eval r a) ls -> (forall va, eval r a = Ok va -> esim t cb (eval r b) ls) ->
    match t, eval r a, eval r b with
    | TI U64, Ok _, Ok (VI y) => (2 ^ 63 <=? y) = false
    | _, _, _ => True
    end ->
    esim t (ca ++ cb ++ [CallPow t]) (eval r (EPow a b)) ls.
  Proof.
    intros Ht Ha Hb G st. pose proof (esim_seq2 _ _ _ _ [CallPow t] _ _ _ Ha Hb st) as H.
    simpl. rewrite Ht. destruct (eval r a) as [va| |]; simpl; [|assumption|exact I].
    destruct H as [Va H]. destruct (eval r b) as [vb| |]; simpl; [|assumption|exact I].
    destruct H as [Vb E]. rewrite E. clear E. destruct t as [it|f].
    - destruct (vok_int _ _ Va) as (x & -> & Hx). destruct (vok_int _ _ Vb) as (y & -> & Hy).
      unfold int_pow. destruct (Z.ltb_spec y 0) as [|Py]; simpl; [exact I|].
      split; [apply wrap_in_range|].
      rewrite exec_l_cons, exec_callpow. simpl host_pow.
      rewrite !iw_eqb_refl. simpl. rewrite to_ity_wrap, (wrap_canon it x Hx).
      assert (En : match regw it with W32 => canon it y | W64 => sgn W64 (canon it y) end = y).
      { destruct (regw it) eqn:R.
        - apply canon_nonneg; assumption.
        - destruct (signed it) eqn:S.
          + rewrite <- R. apply sgn_canon; assumption.
          + rewrite (canon_unsigned it y Hy S).
            assert (it = U64) by (destruct it; simpl in *; congruence). subst it.
            apply Z.leb_gt in G. unfold sgn, wbits, wmod. simpl. closed_pows.
            destruct (Z.leb_spec 9223372036854775808 y); [lia|reflexivity]. }
      rewrite En. unfold int_pow_go.
      destruct (Z.ltb_spec y 0); [lia|].
      destruct (Z.eqb_spec y 0) as [->|Ny].
      + simpl. replace (wrap it (1 mod 2 ^ bits it)) with 1 by (destruct it; reflexivity).
        rewrite exec_l_nil. reflexivity.
      + rewrite to_ity_wrap. simpl. rewrite exec_l_nil. reflexivity.
    - destruct (vok_flt _ _ Va) as (x & ->). destruct (vok_flt _ _ Vb) as (y & ->).
      simpl. split; [exact I|]. rewrite exec_l_cons, exec_callpow. simpl.
      rewrite !fty_eqb_refl. simpl. rewrite exec_l_nil. reflexivity.
  Qed.
  (* ---- logical operators ---- *)
  Lemma eval_and_bool r a b v : eval r (EAnd a b) = Ok v -> exists c, v = b2v fo c.
  Proof.
    simpl. destruct (eval r a) as [[x|]| |]; simpl; try discriminate.
    destruct (truthy x); [|intros H; injection H as <-; eauto].
    destruct (eval r b) as [[y|]| |]; simpl; try discriminate.
    intros H; injection H as <-; eauto.
  Qed.
  Lemma eval_or_bool r a b v : eval r (EOr a b) = Ok v -> exists c, v = b2v fo c.
  Proof.
    simpl. destruct (eval r a) as [[x|]| |]; simpl; try discriminate.
    destruct (truthy x); [intros H; injection H as <-; eauto|].
    destruct (eval r b) as [[y|]| |]; simpl; try discriminate.
    intros H; injection H as <-; eauto.
  Qed.

  Lemma is_and_bool r a v : is_and a = true -> eval r a = Ok v -> exists c, v = b2v fo c.
  Proof. destruct a; simpl; try discriminate. intros _. apply eval_and_bool. Qed.
  Lemma is_or_bool r a v : is_or a = true -> eval r a = Ok v -> exists c, v = b2v fo c.
  Proof. destruct a; simpl; try discriminate. intros _. apply eval_or_bool. Qed.

  Lemma b2w_truthy x : in_range U8 x = true -> b2w fo (negb (canon U8 x =? 0)) = b2w fo (truthy x).
  Proof. intros H. rewrite (canon_zero U8 x H). reflexivity. Qed.

  (* the first operand of a logical chain, normalised to 0/1 *)
  Lemma bool_pre (chain : bool) a ca r x ls :
    (chain = true -> forall v, eval r a = Ok v -> exists c, v = b2v fo c) ->
    esim tU8 ca (eval r a) ls -> eval r a = Ok (VI x) ->
    forall st, exec_l (if chain then ca else ca ++ norm_bool) st ls =
               ONorm (b2w fo (truthy x) :: st) ls.
  Proof.
    intros Hc Ha E st. specialize (Ha st). rewrite E in Ha. destruct Ha as [V X].
    simpl in V. destruct chain.
    - destruct (Hc eq_refl _ E) as (c & Ec). rewrite X.
      destruct c; simpl in Ec; injection Ec as ->; reflexivity.
    - rewrite exec_l_app, X. simpl wv. change (regw U8) with W32.
      rewrite exec_norm_bool, b2w_truthy by assumption. reflexivity.
  Qed.

  (* the second operand, evaluated on an empty block stack and normalised *)
  Lemma bool_rhs b cb r ls st :
    esim tU8 cb (eval r b) ls ->
    match eval r b with
    | Ok (VI y) =>
        exec_i (If (Some (VTI W32)) [IConst W32 0] (Some (cb ++ norm_bool))) (WI W32 0 :: st) ls =
        ONorm (b2w fo (truthy y) :: st) ls /\
        exec_i (If (Some (VTI W32)) [IConst W32 1] (Some (cb ++ norm_bool))) (WI W32 0 :: st) ls =
        ONorm (b2w fo (truthy y) :: st) ls
    | Ok (VF _) => True
    | RtErr =>
        exec_i (If (Some (VTI W32)) [IConst W32 0] (Some (cb ++ norm_bool))) (WI W32 0 :: st) ls =
        OTrap TDivZero /\
        exec_i (If (Some (VTI W32)) [IConst W32 1] (Some (cb ++ norm_bool))) (WI W32 0 :: st) ls =
        OTrap TDivZero
    | Unspec => True
    end.
  Proof.
    intros Hb. specialize (Hb []). destruct (eval r b) as [[y|]| |]; try exact I.
    - destruct Hb as [V X]. simpl in V.
      rewrite !exec_if. simpl (0 =? 0). rewrite exec_l_app, X. simpl wv. change (regw U8) with W32.
      rewrite exec_norm_bool, b2w_truthy by assumption. split; reflexivity.
    - rewrite !exec_if. simpl (0 =? 0). rewrite exec_l_app, Hb. split; reflexivity.
  Qed.

  Lemma and_case a b ca cb r ls :
    esim tU8 ca (eval r a) ls ->
    (forall x, eval r a = Ok (VI x) -> truthy x = true -> esim tU8 cb (eval r b) ls) ->
    esim tU8 ((if is_and a then ca else ca ++ norm_bool) ++
              [IEqz32; If (Some (VTI W32)) [IConst W32 0] (Some (cb ++ norm_bool))])
         (eval r (EAnd a b)) ls.
  Proof.
    intros Ha Hb st. simpl.
    destruct (eval r a) as [va| |] eqn:E; simpl; [| |exact I].
    2:{ specialize (Ha st). simpl in Ha. destruct (is_and a); rewrite !exec_l_app, ?Ha; reflexivity. }
    pose proof (Ha st) as Ha'. destruct Ha' as [Va _].
    destruct (vok_int _ _ Va) as (x & -> & Hx).
    rewrite <- E in Ha.
    rewrite exec_l_app.
    rewrite (bool_pre (is_and a) a ca r x ls (fun H v => is_and_bool r a v H) Ha E st).
    unfold b2w. rewrite exec_l_cons, exec_eqz.
    destruct (truthy x) eqn:T.
    - simpl (1 =? 0). unfold b2w. rewrite exec_l_cons.
      pose proof (bool_rhs b cb r ls st (Hb x eq_refl T)) as R.
      destruct (eval r b) as [[y|]| |]; simpl; try exact I.
      + destruct R as [R _]. rewrite R, exec_l_nil. split; [apply vok_b2v|].
        destruct (truthy y); reflexivity.
      + destruct R as [R _]. rewrite R. reflexivity.
    - simpl (0 =? 0). unfold b2w. rewrite exec_l_cons, exec_if. simpl (1 =? 0).
      rewrite exec_l_cons, exec_iconst, exec_l_nil, exec_l_nil. split; [apply (vok_b2v false)|reflexivity].
  Qed.

  Lemma or_case a b ca cb r ls :
    esim tU8 ca (eval r a) ls ->
    (forall x, eval r a = Ok (VI x) -> truthy x = false -> esim tU8 cb (eval r b) ls) ->
    esim tU8 ((if is_or a then ca else ca ++ norm_bool) ++
              [If (Some (VTI W32)) [IConst W32 1] (Some (cb ++ norm_bool))])
         (eval r (EOr a b)) ls.
  Proof.
    intros Ha Hb st. simpl.
    destruct (eval r a) as [va| |] eqn:E; simpl; [| |exact I].
    2:{ specialize (Ha st). simpl in Ha. destruct (is_or a); rewrite !exec_l_app, ?Ha; reflexivity. }
    pose proof (Ha st) as Ha'. destruct Ha' as [Va _].
    destruct (vok_int _ _ Va) as (x & -> & Hx).
    rewrite <- E in Ha.
    rewrite exec_l_app.
    rewrite (bool_pre (is_or a) a ca r x ls (fun H v => is_or_bool r a v H) Ha E st).
    unfold b2w.
    destruct (truthy x) eqn:T.
    - rewrite exec_l_cons, exec_if. simpl (1 =? 0).
      rewrite exec_l_cons, exec_iconst, exec_l_nil, exec_l_nil. split; [apply (vok_b2v true)|reflexivity].
    - rewrite exec_l_cons.
      pose proof (bool_rhs b cb r ls st (Hb x eq_refl T)) as R.
      destruct (eval r b) as [[y|]| |]; simpl; try exact I.
      + destruct R as [_ R]. rewrite R, exec_l_nil. split; [apply vok_b2v|].
        destruct (truthy y); reflexivity.
      + destruct R as [_ R]. rewrite R. reflexivity.
  Qed.

  (* ---- casts ---- *)
  Lemma cast_case t a ta ca r ls :
    ety a = Some ta -> esim ta ca (eval r a) ls ->
    match eval r a with Ok v => cast_flags fo ta t v = [] | _ => True end ->
    esim t (ca ++ cast_code ta t) (eval r (ECast t a)) ls.
  Proof.
    intros Ht Ha G st. pose proof (esim_seq1 _ _ (cast_code ta t) _ _ Ha st) as H.
    simpl. rewrite Ht. destruct (eval r a) as [va| |]; simpl; [|assumption|exact I].
    destruct H as [Va E]. rewrite E.
    pose proof (cast_ok fo ta t va st ls Va G) as C.
    destruct (cast fo ta t va); [assumption|contradiction|exact I].
  Qed.

  (* ---- the induction ---- *)
  Ltac split_andb :=
    repeat match goal with
           | H : _ && _ = true |- _ => apply andb_true_iff in H; destruct H
           end.

  Lemma imax_lt_wmod t : imax t < wmod (regw t) /\ imin t <= 0.
  Proof. destruct t; unfold imax, imin, wmod, wbits; simpl; closed_pows; lia. Qed.

  Lemma cexpr_correct sc :
    forall e hint t,
      type_of tys sc e = Some t -> pure_expr e = true ->
      hint_ok tys hint e = true -> float_mod_free tys e = true ->
      exists code, cexpr tys hint e = Some (code, t) /\
                   forall r ls, sim sc r ls -> dflags fo tys r e = [] -> esim t code (eval r e) ls.
  Proof.
    induction e; intros hint t0 Ht Hp Hh Hm; simpl in Ht, Hp, Hh, Hm.
    - (* literal *)
      destruct ((0 <=? z) && (z <=? imax t)) eqn:R; [|discriminate]. injection Ht as <-.
      apply andb_true_iff in R. destruct R as [R0 R1]. apply Z.leb_le in R0, R1.
      assert (Eh : eff_ty hint (TI t) = TI t).
      { destruct hint as [h|]; simpl in *; [apply ty_eqb_eq in Hh; assumption|reflexivity]. }
      simpl. rewrite Eh. simpl.
      rewrite (proj2 (Z.leb_le _ _) R1). simpl.
      eexists. split; [reflexivity|]. intros r ls [Hlen Hsim] _ st. simpl.
      destruct (imax_lt_wmod t) as [M1 M2].
      split; [apply in_range_iff; lia|].
      rewrite exec_l_cons, exec_iconst, exec_l_nil, sgn_mod by lia. reflexivity.
    - (* float literal *)
      destruct ((0 <=? b) && _) eqn:R; [|discriminate]. injection Ht as <-.
      assert (Eh : eff_ty hint (TF t) = TF t).
      { destruct hint as [h|]; simpl in *; [apply ty_eqb_eq in Hh; assumption|reflexivity]. }
      simpl. rewrite Eh, fty_eqb_refl.
      eexists. split; [reflexivity|]. intros r ls [Hlen Hsim] _ st. simpl. split; [exact I|].
      rewrite exec_l_cons, exec_fconst, exec_l_nil. reflexivity.
    - (* variable *)
      destruct (type_of_var_lt _ _ _ _ Ht) as [Hi Hn]. simpl. rewrite Hn.
      eexists. split; [reflexivity|]. intros r ls [Hlen Hsim] _ st. simpl.
      destruct (Hsim _ _ Hi Hn) as [V L]. split; [assumption|].
      rewrite exec_l_cons, (exec_lget fo _ _ _ _ L), exec_l_nil. reflexivity.
    - (* stateful variable: outside the proved fragment *)
      discriminate.
    - (* global constant, call: outside the proved fragment *)
      discriminate.
    - discriminate.
    - (* parentheses *)
      destruct (IHe hint t0 Ht Hp Hh Hm) as (c & Ec & Sc).
      exists c. split; [assumption|]. exact Sc.
    - (* unary minus *)
      destruct (IHe hint t0 Ht Hp Hh Hm) as (c & Ec & Sc).
      pose proof (ety_of _ _ _ Ht) as Et.
      simpl. rewrite Ec.
      assert (N : forall r ls, sim sc r ls -> dflags fo tys r (ENeg e) = [] ->
                  esim t0 (c ++ match t0 with
                                | TI it => [IConst (regw it) (-1); IBin (regw it) IMul]
                                | TF f => [FNeg f]
                                end) (eval r (ENeg e)) ls).
      { intros r ls Hs Hd. simpl in Hd. apply app_nil_inv in Hd. destruct Hd as [Hd1 Hd2]. rewrite Et in Hd2.
        apply (neg_case e t0 c r ls Et (Sc r ls Hs Hd1)).
        destruct t0; [|exact I]. destruct (eval r e) as [[z|]| |]; try exact I.
        apply flag_nil in Hd2. assumption. }
      destruct t0; eexists; (split; [reflexivity|exact N]).
    - (* not *)
      destruct (type_of tys sc e) as [[[]|]|] eqn:Te; try discriminate. injection Ht as <-.
      destruct (IHe hint _ eq_refl Hp Hh Hm) as (c & Ec & Sc).
      simpl. rewrite Ec. eexists. split; [reflexivity|]. intros r ls Hs Hd. apply not_case. apply (Sc r ls Hs). exact Hd.
    - (* power *)
      destruct (type_of tys sc e1) as [ta|] eqn:Ta; [|discriminate].
      destruct (type_of tys sc e2) as [tb|] eqn:Tb; [|discriminate].
      destruct (ty_eqb ta tb) eqn:Eq; [|discriminate]. apply ty_eqb_eq in Eq. subst tb. injection Ht as <-.
      split_andb. pose proof (ety_of _ _ _ Ta) as Et. rewrite Et in *.
      destruct (IHe1 hint ta eq_refl) as (ca & Eca & Sa); try assumption.
      destruct (IHe2 (Some ta) ta eq_refl) as (cb & Ecb & Sb); try assumption.
      simpl. rewrite Eca, Ecb. eexists. split; [reflexivity|]. intros r ls Hs Hd.
      simpl in Hd. apply app_nil_inv in Hd. destruct Hd as [Hd1 Hd2].
      apply (pow_case e1 e2 ta ca cb r ls Et (Sa r ls Hs Hd1)).
      + intros va Ea. rewrite Ea in Hd2. apply app_nil_inv in Hd2. apply (Sb r ls Hs). tauto.
      + destruct (eval r e1) as [va| |]; [|destruct ta as [[]|]; exact I ..].
        apply app_nil_inv in Hd2. destruct Hd2 as [_ Hd3]. rewrite Et in Hd3.
        destruct ta as [[]|]; try exact I. destruct (eval r e2) as [[y|]| |]; try exact I.
        apply flag_nil in Hd3. assumption.
    - (* arithmetic *)
      destruct (type_of tys sc e1) as [ta|] eqn:Ta; [|discriminate].
      destruct (type_of tys sc e2) as [tb|] eqn:Tb; [|discriminate].
      destruct (ty_eqb ta tb) eqn:Eq; [|discriminate]. apply ty_eqb_eq in Eq. subst tb. injection Ht as <-.
      pose proof (ety_of _ _ _ Ta) as Et.
      assert (Hh' : hint_ok tys hint e1 = true /\ hint_ok tys (Some ta) e2 = true).
      { rewrite Et in Hh. apply andb_true_iff in Hh. exact Hh. }
      assert (Hm' : float_mod_free tys e1 = true /\ float_mod_free tys e2 = true /\
                    exists o, arith_op op ta = Some o).
      { destruct op; split_andb; repeat split; try assumption;
          try (destruct ta; simpl; eauto; fail).
        rewrite Et in *. destruct ta; [simpl; eauto|discriminate]. }
      destruct Hh' as [Hh1 Hh2]. destruct Hm' as (Hm1 & Hm2 & o & Eo). split_andb.
      destruct (IHe1 hint ta eq_refl) as (ca & Eca & Sa); try assumption.
      destruct (IHe2 (Some ta) ta eq_refl) as (cb & Ecb & Sb); try assumption.
      simpl. rewrite Eca, Ecb, Eo. eexists. split; [reflexivity|]. intros r ls Hs Hd.
      simpl in Hd. apply app_nil_inv in Hd. destruct Hd as [Hd1 Hd2].
      apply (arith_case op e1 e2 ta ca cb o r ls Et Eo (Sa r ls Hs Hd1)).
      + intros va Ea. rewrite Ea in Hd2. apply app_nil_inv in Hd2. apply (Sb r ls Hs). tauto.
      + destruct (eval r e1) as [va| |]; [|destruct ta; exact I ..].
        apply app_nil_inv in Hd2. destruct Hd2 as [_ Hd3]. rewrite Et in Hd3.
        destruct ta; [|exact I]. destruct va; [|exact I]. destruct (eval r e2) as [[y|]| |]; try exact I.
        assumption.
    - (* comparison *)
      destruct (type_of tys sc e1) as [ta|] eqn:Ta; [|discriminate].
      destruct (type_of tys sc e2) as [tb|] eqn:Tb; [|discriminate].
      destruct (ty_eqb ta tb) eqn:Eq; [|discriminate]. apply ty_eqb_eq in Eq. subst tb. injection Ht as <-.
      split_andb. pose proof (ety_of _ _ _ Ta) as Et. rewrite Et in *.
      destruct (IHe1 hint ta eq_refl) as (ca & Eca & Sa); try assumption.
      destruct (IHe2 (Some ta) ta eq_refl) as (cb & Ecb & Sb); try assumption.
      simpl. rewrite Eca, Ecb. eexists. split; [reflexivity|]. intros r ls Hs Hd.
      simpl in Hd. apply app_nil_inv in Hd. destruct Hd as [Hd1 Hd2].
      apply (cmp_case op e1 e2 ta ca cb r ls Et (Sa r ls Hs Hd1)).
      intros va Ea. rewrite Ea in Hd2. apply (Sb r ls Hs). assumption.
    - (* and *)
      destruct (type_of tys sc e1) as [[[]|]|] eqn:Ta; try discriminate;
        destruct (type_of tys sc e2) as [[[]|]|] eqn:Tb; try discriminate. injection Ht as <-.
      split_andb.
      destruct (IHe1 hint _ eq_refl) as (ca & Eca & Sa); try assumption.
      destruct (IHe2 hint _ eq_refl) as (cb & Ecb & Sb); try assumption.
      simpl. rewrite Eca, Ecb. eexists. split; [reflexivity|]. intros r ls Hs Hd.
      simpl in Hd. apply app_nil_inv in Hd. destruct Hd as [Hd1 Hd2].
      apply (and_case e1 e2 ca cb r ls (Sa r ls Hs Hd1)).
      intros x Ea T. rewrite Ea, T in Hd2. apply (Sb r ls Hs). assumption.
    - (* or *)
      destruct (type_of tys sc e1) as [[[]|]|] eqn:Ta; try discriminate;
        destruct (type_of tys sc e2) as [[[]|]|] eqn:Tb; try discriminate. injection Ht as <-.
      split_andb.
      destruct (IHe1 hint _ eq_refl) as (ca & Eca & Sa); try assumption.
      destruct (IHe2 hint _ eq_refl) as (cb & Ecb & Sb); try assumption.
      simpl. rewrite Eca, Ecb. eexists. split; [reflexivity|]. intros r ls Hs Hd.
      simpl in Hd. apply app_nil_inv in Hd. destruct Hd as [Hd1 Hd2].
      apply (or_case e1 e2 ca cb r ls (Sa r ls Hs Hd1)).
      intros x Ea T. rewrite Ea, T in Hd2. apply (Sb r ls Hs). assumption.
    - (* cast *)
      destruct (type_of tys sc e) as [ta|] eqn:Ta; [|discriminate]. injection Ht as <-.
      pose proof (ety_of _ _ _ Ta) as Et.
      destruct (IHe (Some t) ta eq_refl) as (ca & Eca & Sa); try assumption.
      simpl. rewrite Eca. eexists. split; [reflexivity|]. intros r ls Hs Hd.
      simpl in Hd. apply app_nil_inv in Hd. destruct Hd as [Hd1 Hd2].
      apply (cast_case t e ta ca r ls Et (Sa r ls Hs Hd1)).
      rewrite Et in Hd2. destruct (eval r e); [assumption|exact I..].
  Qed.

End Expr.
