(* Arc/Correct.v — compiler correctness for whole functions on the guarded fragment, and the
   witnesses that each guard is necessary (one per known divergence). *)
From Coq Require Import ZArith List Bool Lia.
From Synnax Require Import Arc.Syntax Arc.Spec Arc.Wasm Arc.Compile Arc.Guard Arc.Sim
  Arc.CorrectArith Arc.CorrectExpr Arc.StmtEqs Arc.CorrectStmt.
Import ListNotations.
Local Open Scope Z_scope.

Section Func.
  Variable fo : float_ops.

  Lemma args_sim ps args :
    Forall2 (vok fo) ps args ->
    length (wvs fo ps args) = length ps /\
    forall i t, nth_error ps i = Some t ->
      vok fo t (env_of fo args i) /\ nth_error (wvs fo ps args) i = Some (wv fo t (env_of fo args i)).
  Proof.
    induction 1 as [|t v ps args Hv Hr IH]; simpl.
    - split; [reflexivity|]. intros [|i] t H; discriminate.
    - destruct IH as [L N]. split; [congruence|].
      intros [|i] t0 H; simpl in *.
      + injection H as <-. auto.
      + apply N. assumption.
  Qed.

  Lemma locals_ok_length f : locals_ok f = true ->
    length (map snd (decls_block (f_body f))) = length (f_locals f).
  Proof.
    unfold locals_ok. intros H. apply andb_true_iff in H. destruct H as [_ H].
    revert H. generalize (map snd (decls_block (f_body f))) (f_locals f).
    induction l as [|x l IH]; intros [|y m] H; try discriminate; [reflexivity|].
    apply andb_true_iff in H. destruct H as [_ H]. simpl. f_equal. apply IH. exact H.
  Qed.

  Theorem compile_correct_partial f args :
    check_func f = true -> locals_ok f = true ->
    Forall2 (vok fo) (f_params f) args ->
    loop_free_block (f_body f) = true -> f_virt f = [] ->
    static_flags f = [] -> dyn_flags fo f args = [] ->
    exists w, compile f = Some w /\
      match spec_run fo f args with
      | Ok v => wasm_run fo w (wvs fo (f_params f) args) = WOk (wv fo (f_ret f) v)
      | RtErr => wasm_run fo w (wvs fo (f_params f) args) = WTrap TDivZero
      | Unspec => True
      end.
  Proof.
    intros Hc Hl Ha Hlf Hv Hs Hd. unfold static_flags in Hs. apply app_nil_inv in Hs. destruct Hs as [Hs _].
    unfold check_func in Hc. apply andb_true_iff in Hc. destruct Hc as [Hc _].
    destruct (stmts_ok fo (f_tys f) (length (f_params f)) (f_ret f)) as (_ & HB & _).
    destruct (HB (f_body f) _ Hc Hs Hlf) as (code & d & Ec & S).
    unfold compile. rewrite (Ec 0%nat None). eexists. split; [reflexivity|].
    set (ls0 := wvs fo (f_params f) args ++
                map (zero_w fo) (map vt_of (map snd (decls_block (f_body f))))).
    destruct (args_sim _ _ Ha) as [La Na].
    assert (Hsim : sim fo (f_tys f) (seq 0 (length (f_params f))) (env_of fo args) ls0).
    { split.
      - unfold ls0, f_tys. rewrite Hv, app_nil_r, !app_length, !map_length, La.
        pose proof (locals_ok_length f Hl) as LL. rewrite map_length in LL. rewrite LL. reflexivity.
      - intros i t Hi Hn. apply in_seq in Hi.
        assert (Hp : nth_error (f_params f) i = Some t).
        { unfold f_tys in Hn. rewrite nth_error_app1 in Hn by lia. assumption. }
        destruct (Na i t Hp) as [V N]. split; [assumption|].
        unfold ls0. rewrite nth_error_app1 by (rewrite La; lia). assumption. }
    destruct (S (env_of fo args) ls0 Hsim Hd) as [O _].
    unfold spec_run, wasm_run. simpl w_body. simpl w_locals. fold ls0.
    destruct (exec_block fo (f_tys f) (env_of fo args) (f_body f)) as [[r'|v rv|r'|r']| |]; simpl in *;
      try exact I.
    - destruct O as [_ (lsr & X)]. rewrite X. reflexivity.
    - rewrite O. reflexivity.
  Qed.
End Func.

(* ------------------------------------------------------------------ the guards are necessary *)
(* One witness per signature of Arc/Guard.v: a well-typed function (and a call) that carries
   exactly that signature and on which the compiled code does NOT do what spec.md says. The
   float operations are the executable IEEE-754 instance. Each was replayed on the real
   compiler + wazero through the harness (corpus/C19). *)
From Synnax Require Import Arc.FloatExec.

Definition mkf (ps : list ty) (ls : list ty) (r : ty) (b : block) : func :=
  {| f_params := ps; f_locals := ls; f_ret := r; f_body := b; f_virt := []; f_helpers := [] |}.
Definition ret1 (e : expr) : block := BCons (SReturn e) BNil.

Notation fx := fo_exec.
Definition ints (zs : list Z) : list (val fx) := map (fun z => VI z) zs.

(* the raw result of the compiled code, if it compiles and validates *)
Definition run_raw (f : func) (args : list (val fx)) : option (bool * wres fx) :=
  match compile f with
  | Some w => Some (validate w, wasm_run fx w (wvs fx (f_params f) args))
  | None => None
  end.
Definition wres_z (r : option (bool * wres fx)) : option (bool * (Z + trap)) :=
  match r with
  | Some (v, WOk (WI _ z)) => Some (v, inl z)
  | Some (v, WTrap k) => Some (v, inr k)
  | _ => None
  end.
Definition spec_z (f : func) (args : list (val fx)) : option Z :=
  match spec_run fx f args with Ok (VI z) => Some z | _ => None end.
Definition wf (f : func) : bool := check_func f && locals_ok f.

(* -a ^ 2   at a = 3 : spec -9, compiled 9 *)
Definition w_unary_pow := mkf [TI I64] [] (TI I64) (ret1 (ENeg (EPow (EVar 0) (ELit I64 2)))).
Lemma unary_minus_over_pow_refuted :
  wf w_unary_pow = true /\ static_flags w_unary_pow = [TgUnaryOverPow] /\
  dyn_flags fx w_unary_pow (ints [3]) = [] /\
  spec_z w_unary_pow (ints [3]) = Some (-9) /\
  wres_z (run_raw w_unary_pow (ints [3])) = Some (true, inl 9).
Proof. vm_compute. repeat split. Qed.

(* i32(3 + a)  with a : i64 : the literal is compiled as i32, the module does not validate *)
Definition w_hint_leak :=
  mkf [TI I64] [] (TI I32) (ret1 (ECast (TI I32) (EArith AAdd (ELit I64 3) (EVar 0)))).
Lemma literal_hint_leak_refuted :
  wf w_hint_leak = true /\ static_flags w_hint_leak = [TgHintLeak] /\
  option_map fst (run_raw w_hint_leak (ints [1])) = Some false.
Proof. vm_compute. repeat split. Qed.

(* a % a  with a : f64 : accepted, but the compiler returns an error *)
Definition w_float_mod := mkf [TF F64] [] (TF F64) (ret1 (EArith AMod (EVar 0) (EVar 0))).
Lemma float_modulo_refuted :
  wf w_float_mod = true /\ static_flags w_float_mod = [TgFloatMod] /\ compile w_float_mod = None.
Proof. vm_compute. repeat split. Qed.

(* if a { return 1 } return 2  with a : i64.  Finding F13h (fixed in /repo): the pinned compiler
   emitted a bare 'if' on the i64 register, which does not validate; the fixed compiler (and
   [Compile.ccond]) compares with zero first. *)
Definition w_if64 :=
  mkf [TI I64] [] (TI I32)
      (BCons (SIf (EVar 0) (ret1 (ELit I32 1)) ElNone) (ret1 (ELit I32 2))).
Definition w_if64_pinned : wfunc :=
  {| w_params := [VTI W64]; w_locals := []; w_result := VTI W32;
     w_body := [LGet 0; If None [IConst W32 1; Return] None; IConst W32 2; Return]; w_pad := 0 |}.
Lemma bare_if_on_i64_refuted :
  wf w_if64 = true /\ static_flags w_if64 = [] /\
  validate w_if64_pinned = false /\
  wres_z (run_raw w_if64 (ints [5])) = Some (true, inl 1) /\
  wres_z (run_raw w_if64 (ints [0])) = Some (true, inl 2).
Proof. vm_compute. repeat split. Qed.

(* a + 18446744073709551615  with a : u64.  Finding F13j (fixed in /repo): the pinned compiler
   parsed every integer literal with strconv.ParseInt(…, 64), so this well-typed program was
   accepted by the analyzer and then failed in compiler.Compile; the fixed compiler (and
   [Compile.lit_code]) accepts u64 literals up to 2^64-1. *)
Definition w_biglit :=
  mkf [TI U64] [] (TI U64) (ret1 (EArith AAdd (EVar 0) (ELit U64 18446744073709551615))).
Lemma u64_literal_fixed :
  wf w_biglit = true /\ static_flags w_biglit = [] /\
  dyn_flags fx w_biglit (ints [3]) = [] /\
  spec_z w_biglit (ints [3]) = Some 2 /\
  wres_z (run_raw w_biglit (ints [3])) = Some (true, inl 2).
Proof. vm_compute. repeat split. Qed.

(* i32(a + b)  with a = 127, b = 1 : i8 : spec wraps to -128, compiled 128 *)
Definition w_narrow :=
  mkf [TI I8; TI I8] [] (TI I32) (ret1 (ECast (TI I32) (EArith AAdd (EVar 0) (EVar 1)))).
Lemma narrow_int_arith_overflow_refuted :
  wf w_narrow = true /\ static_flags w_narrow = [] /\
  dyn_flags fx w_narrow (ints [127; 1]) = [TgNarrowOverflow] /\
  spec_z w_narrow (ints [127; 1]) = Some (-128) /\
  wres_z (run_raw w_narrow (ints [127; 1])) = Some (true, inl 128).
Proof. vm_compute. repeat split. Qed.

(* a / b  with a = -2^31, b = -1 : i32 : spec wraps to -2^31, compiled code traps *)
Definition w_divov := mkf [TI I32; TI I32] [] (TI I32) (ret1 (EArith ADiv (EVar 0) (EVar 1))).
Lemma signed_div_overflow_refuted :
  wf w_divov = true /\ static_flags w_divov = [] /\
  dyn_flags fx w_divov (ints [-2147483648; -1]) = [TgSignedDivOverflow] /\
  spec_z w_divov (ints [-2147483648; -1]) = Some (-2147483648) /\
  wres_z (run_raw w_divov (ints [-2147483648; -1])) = Some (true, inr TIntOverflow).
Proof. vm_compute. repeat split. Qed.

(* i32(i8(a))  with a = 300 : i32 : spec truncates to 44, compiled 300 *)
Definition w_samereg :=
  mkf [TI I32] [] (TI I32) (ret1 (ECast (TI I32) (ECast (TI I8) (EVar 0)))).
Lemma same_register_cast_refuted :
  wf w_samereg = true /\ static_flags w_samereg = [] /\
  dyn_flags fx w_samereg (ints [300]) = [TgSameRegCast] /\
  spec_z w_samereg (ints [300]) = Some 44 /\
  wres_z (run_raw w_samereg (ints [300])) = Some (true, inl 300).
Proof. vm_compute. repeat split. Qed.

(* u64(a)  with a = -1 : i64 : spec saturates to 0, compiled 2^64-1 *)
Definition w_signcast := mkf [TI I64] [] (TI U64) (ret1 (ECast (TI U64) (EVar 0))).
Lemma sign_change_cast_refuted :
  wf w_signcast = true /\ static_flags w_signcast = [] /\
  dyn_flags fx w_signcast (ints [-1]) = [TgSignCast] /\
  spec_z w_signcast (ints [-1]) = Some 0 /\
  wres_z (run_raw w_signcast (ints [-1])) = Some (true, inl 18446744073709551615).
Proof. vm_compute. repeat split. Qed.

(* i32(a)  with a = 3e9 : f64 : spec saturates to 2^31-1, compiled code traps *)
Definition w_f2i := mkf [TF F64] [] (TI I32) (ret1 (ECast (TI I32) (EVar 0))).
Definition a_3e9 : list (val fx) := [@VF fx (sf_of_bits F64 4748581863621132288)].
Lemma float_to_int_refuted :
  wf w_f2i = true /\ static_flags w_f2i = [] /\
  dyn_flags fx w_f2i a_3e9 = [TgFloatToInt] /\
  spec_z w_f2i a_3e9 = Some 2147483647 /\
  wres_z (run_raw w_f2i a_3e9) = Some (true, inr TIntOverflow).
Proof. vm_compute. repeat split. Qed.

(* a ^ b  with a = 3, b = 2^63 : u64 : spec 3^(2^63) mod 2^64 = 1, compiled 0 *)
Definition w_powexp := mkf [TI U64; TI U64] [] (TI U64) (ret1 (EPow (EVar 0) (EVar 1))).
Lemma u64_pow_exponent_refuted :
  wf w_powexp = true /\ static_flags w_powexp = [] /\
  dyn_flags fx w_powexp (ints [3; 9223372036854775808]) = [TgPowExp63] /\
  spec_z w_powexp (ints [3; 9223372036854775808]) = Some 1 /\
  wres_z (run_raw w_powexp (ints [3; 9223372036854775808])) = Some (true, inl 0).
Proof. vm_compute. repeat split. Qed.

(* ---- non-vacuity: a function with locals, a cast, a conditional with early return, logic,
   division; no signature; source and compiled code agree (value and division trap).
   (Statements are kept at types Z/bool: never state an equation at a type mentioning [fx].) ---- *)
Definition w_ok :=
  mkf [TI I32; TI U32] [TI I64; TI U8] (TI I64)
    (BCons (SDecl 2 (TI I64) (EArith AMul (ECast (TI I64) (EVar 0)) (ECast (TI I64) (EVar 1))))
    (BCons (SDecl 3 (TI U8) (EAnd (ECmp CLt (EVar 0) (ELit I32 0)) (ECmp CGt (EVar 1) (ELit U32 3))))
    (BCons (SIf (EVar 3)
                (ret1 (ENeg (EVar 2)))
                (ElElif (ECmp CEq (EVar 1) (ELit U32 7))
                        (BCons (SCompound 2 AAdd (ELit I64 1)) BNil) ElNone))
    (ret1 (EArith ADiv (EVar 2) (ECast (TI I64) (EArith ASub (EVar 1) (ELit U32 5)))))))).
Definition spec_is_err (f : func) (args : list (val fx)) : bool :=
  match spec_run fx f args with RtErr => true | _ => false end.
Definition no_flags (f : func) (args : list (val fx)) : bool :=
  match static_flags f ++ dyn_flags fx f args with [] => true | _ => false end.

Lemma compile_correct_nonvacuous :
  wf w_ok = true /\
  no_flags w_ok (ints [-7; 4000000000]) = true /\
  spec_z w_ok (ints [-7; 4000000000]) = Some 28000000000 /\
  wres_z (run_raw w_ok (ints [-7; 4000000000])) = Some (true, inl 28000000000) /\
  no_flags w_ok (ints [6; 7]) = true /\
  spec_z w_ok (ints [6; 7]) = Some 21 /\
  wres_z (run_raw w_ok (ints [6; 7])) = Some (true, inl 21) /\
  no_flags w_ok (ints [6; 5]) = true /\
  spec_is_err w_ok (ints [6; 5]) = true /\
  wres_z (run_raw w_ok (ints [6; 5])) = Some (true, inr TDivZero).
Proof. timeout 20 vm_compute. repeat split. Qed.

(* ---- loops (model only; outside the proved fragment): for i := range(0, n, 1) with
   if / else if / else { continue }, a break, and an inner condition loop ---- *)
Definition w_loop :=
  mkf [TI I64] [TI I64; TI I64; TI I64; TI I64; TI I64] (TI I64)
    (BCons (SDecl 1 (TI I64) (ELit I64 0))
    (BCons (SRange 2 3 I64 (Some (ELit I64 0)) (EVar 0) (Some (4%nat, ELit I64 1))
       (BCons (SIf (ECmp CEq (EArith AMod (EVar 2) (ELit I64 3)) (ELit I64 0))
                   (BCons (SCompound 1 AAdd (ELit I64 100)) BNil)
                   (ElElif (ECmp CEq (EArith AMod (EVar 2) (ELit I64 3)) (ELit I64 1))
                           (BCons (SCompound 1 AAdd (ELit I64 10)) BNil)
                           (ElElse (BCons SContinue BNil))))
       (BCons (SIf (ECmp CGt (EVar 2) (ELit I64 7)) (BCons SBreak BNil) ElNone)
       (BCons (SDecl 5 (TI I64) (ELit I64 0))
       (BCons (SFor (ECmp CLt (EVar 5) (ELit I64 2))
                    (BCons (SCompound 5 AAdd (ELit I64 1)) (BCons (SCompound 1 AAdd (ELit I64 1)) BNil)))
        BNil)))))
    (ret1 (EArith AMul (EVar 1) (ELit I64 3))))).
Lemma loop_model_example :
  wf w_loop = true /\ loop_free_block (f_body w_loop) = false /\
  spec_z w_loop (ints [10]) = Some 1326 /\
  wres_z (run_raw w_loop (ints [10])) = Some (true, inl 1326).
Proof. timeout 30 vm_compute. repeat split. Qed.
