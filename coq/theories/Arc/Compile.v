(* Arc/Compile.v — the Arc compiler's lowering of the scalar fragment to WebAssembly, copied
   from arc/go/compiler/expression/{compiler,binary,unary,logical,cast,literal,identifier}.go,
   compiler/statement/{compiler,control,variable}.go, compiler/wasm/types.go (binaryOpcode),
   compiler/compiler.go (collectLocals) and parser/ArcParser.g4 (power/unary nesting), quirks
   included:
   * the grammar nests  powerExpression : unaryExpression ('^' powerExpression)?  so a unary
     operator written in front of a power binds to the BASE ([reparse]);
   * the type hint of the surrounding context is inherited by the first operand of every
     operator (context.Child copies Hint) and a numeric literal takes the hint as its type;
   * unary minus is  const -1; mul ;  'not' is i32.eqz;  logical operands are normalised by
     const 0; ne  around an if/else;  casts between types that share a WebAssembly type emit
     nothing;  float -> int uses the trapping trunc;  '^' calls the import math.pow_<type>;
   * an if / else-if condition held in an i64 / f32 / f64 register is compared with zero first;
   * loops: block $break { loop { … } } with labels computed from the block nesting depth
     (statement/loop.go); break / continue count as diverging statements;
   * float '%' is a compile error;  statements after a diverging statement are not compiled;
     an if/else whose branches all return is followed by  unreachable.
   No proofs in this file. *)
From Coq Require Import ZArith List Bool.
From Synnax Require Import Arc.Syntax Arc.Spec Arc.Wasm.
Import ListNotations.
Local Open Scope Z_scope.

(* ---- the implementation's parse of the spec's tree: unary over an unparenthesised power ---- *)
Fixpoint reparse (e : expr) : expr :=
  match e with
  | ELit _ _ | ELitF _ _ | EVar _ | ESVar _ | EGlob _ _ => e
  | ECall k t d p q body a b =>
      ECall k t d p q (reparse body) (reparse a) (match b with Some e => Some (reparse e) | None => None end)
  | EParen a => EParen (reparse a)
  | ENeg a => match reparse a with EPow x y => EPow (ENeg x) y | a' => ENeg a' end
  | ENot a => match reparse a with EPow x y => EPow (ENot x) y | a' => ENot a' end
  | EPow a b => EPow (reparse a) (reparse b)
  | EArith op a b => EArith op (reparse a) (reparse b)
  | ECmp op a b => ECmp op (reparse a) (reparse b)
  | EAnd a b => EAnd (reparse a) (reparse b)
  | EOr a b => EOr (reparse a) (reparse b)
  | ECast t a => ECast t (reparse a)
  end.

(* ---- wasm/types.go binaryOpcode ---- *)
Definition arith_op (op : arith) (t : ty) : option instr :=
  match t with
  | TF f =>
      match op with
      | AAdd => Some (FBin f FAdd) | ASub => Some (FBin f FSub)
      | AMul => Some (FBin f FMul) | ADiv => Some (FBin f FDiv)
      | AMod => None                      (* "float modulo not yet implemented" *)
      end
  | TI it =>
      let w := regw it in
      Some (IBin w match op with
                   | AAdd => IAdd | ASub => ISub | AMul => IMul
                   | ADiv => if signed it then IDivS else IDivU
                   | AMod => if signed it then IRemS else IRemU
                   end)
  end.

Definition cmp_op (op : cmp) (t : ty) : instr :=
  match t with
  | TF f => FRel f op
  | TI it =>
      let s := signed it in
      IRel (regw it) match op with
                     | CEq => IEq | CNe => INe
                     | CLt => if s then ILtS else ILtU
                     | CGt => if s then IGtS else IGtU
                     | CLe => if s then ILeS else ILeU
                     | CGe => if s then IGeS else IGeU
                     end
  end.

(* ---- expression/cast.go EmitCast ---- *)
Definition is_signed_int (t : ty) : bool := match t with TI it => signed it | TF _ => false end.

Definition cast_code (from to : ty) : list instr :=
  let fs := is_signed_int from in
  let ts := is_signed_int to in
  match vt_of from, vt_of to with
  | VTI W32, VTI W32 | VTI W64, VTI W64 => []
  | VTF F32, VTF F32 | VTF F64, VTF F64 => []
  | VTI W32, VTI W64 => [Cvt (if fs then CExtendS else CExtendU)]
  | VTI W64, VTI W32 => [Cvt CWrap]
  | VTI w, VTF f => [Cvt (CConvert w fs f)]
  | VTF f, VTI w => [Cvt (CTrunc f w ts)]
  | VTF F32, VTF F64 => [Cvt CPromote]
  | VTF F64, VTF F32 => [Cvt CDemote]
  end.

(* logical.go normalizeBoolean *)
Definition norm_bool : list instr := [IConst W32 0; IRel W32 INe].

(* literal.go ParseNumeric/parseIntegerLiteral + expression/literal.go compileNumericLiteral:
   strconv.ParseInt(…, 64) (for a u64 target: ParseUint when that overflows — fix for finding
   F13j), then the range check of the target type; all of which amounts to z <= max of the type *)
Definition lit_code (eff : ty) (z : Z) : option (list instr) :=
  match eff with
  | TI t =>
      if z <=? imax t
      then Some [IConst (regw t) (sgn (regw t) z)]
      else None
  | TF _ => None      (* integer literal under a float hint: not modelled (needs float(z)) *)
  end.

(* expression/compiler.go emitLiteralValue: a constant of type t (global constant, default value) *)
Definition const_code (t : ty) (z : Z) : instr :=
  match t with
  | TI it => IConst (regw it) (sgn (regw it) (z mod wmod (regw it)))
  | TF f => FConst f z
  end.

(* the callee addresses its two parameters as locals 0 and 1 *)
Fixpoint ren_i (p q : nat) (i : instr) : instr :=
  let rn n := if Nat.eqb n p then 0%nat else if Nat.eqb n q then 1%nat else n in
  match i with
  | LGet n => LGet (rn n)
  | LSet n => LSet (rn n)
  | If bt th el => If bt (map (ren_i p q) th) (match el with Some e => Some (map (ren_i p q) e) | None => None end)
  | Block b => Block (map (ren_i p q) b)
  | Loop b => Loop (map (ren_i p q) b)
  | _ => i
  end.

(* identifier.go emitZeroValue *)
Definition zero_code (t : ty) : instr :=
  match t with TI it => IConst (regw it) 0 | TF f => FConst f 0 end.

Section Expr.
  Variable tys : list ty.

  Definition eff_ty (hint : option ty) (declared : ty) : ty :=
    match hint with Some h => h | None => declared end.

  Fixpoint cexpr (hint : option ty) (e : expr) : option (list instr * ty) :=
    match e with
    | ELit t z =>
        let eff := eff_ty hint (TI t) in
        match lit_code eff z with Some c => Some (c, eff) | None => None end
    | ELitF t b =>
        match eff_ty hint (TF t) with
        | TF t' => if fty_eqb t t' then Some ([FConst t b], TF t) else None   (* other hints: not modelled *)
        | TI _ => None
        end
    | EVar i => match nth_error tys i with Some t => Some ([LGet i], t) | None => None end
    (* identifier.go emitStatefulLoad: every read of a stateful variable asks the host *)
    | ESVar i =>
        match nth_error tys i with
        | Some t => Some ([IConst W32 (Z.of_nat i); zero_code t; CallLoad t (length tys)], t)
        | None => None
        end
    (* identifier.go KindGlobalConstant: the value is inlined with its declared type *)
    | EGlob t z => Some ([const_code t z], t)
    (* compiler.go compileFunctionCallExpr: each argument with the parameter type as hint (and a
       cast if its type differs), emitLiteralValue for an omitted trailing argument, call *)
    | ECall k t d p q body a b =>
        match cexpr (Some t) a,
              (match b with
               | Some e => match cexpr (Some t) e with
                           | Some (cb, tb) => Some (if ty_eqb tb t then cb else cb ++ cast_code tb t)
                           | None => None
                           end
               | None => Some [const_code t d]
               end),
              cexpr None body with
        | Some (ca, ta), Some cb, Some (cbody, tbody) =>
            Some ((if ty_eqb ta t then ca else ca ++ cast_code ta t) ++ cb ++
                  [CallFn k (vt_of t)
                          (map (ren_i p q) (if ty_eqb t tbody then cbody else cbody ++ cast_code tbody t) ++ [Return])],
                  t)
        | _, _, _ => None
        end
    | EParen a => cexpr hint a
    | ENeg a =>
        match cexpr hint a with
        | Some (c, TI it) => Some (c ++ [IConst (regw it) (-1); IBin (regw it) IMul], TI it)
        | Some (c, TF f) => Some (c ++ [FNeg f], TF f)
        | None => None
        end
    | ENot a =>
        match cexpr hint a with
        | Some (c, _) => Some (c ++ [IEqz32], tU8)
        | None => None
        end
    | EPow a b =>
        match cexpr hint a with
        | Some (ca, ta) =>
            match cexpr (Some ta) b with
            | Some (cb, _) => Some (ca ++ cb ++ [CallPow ta], ta)
            | None => None
            end
        | None => None
        end
    | EArith op a b =>
        match cexpr hint a with
        | Some (ca, ta) =>
            match cexpr (Some ta) b, arith_op op ta with
            | Some (cb, _), Some o => Some (ca ++ cb ++ [o], ta)
            | _, _ => None
            end
        | None => None
        end
    | ECmp op a b =>
        match cexpr hint a with
        | Some (ca, ta) =>
            match cexpr (Some ta) b with
            | Some (cb, _) => Some (ca ++ cb ++ [cmp_op op ta], tU8)
            | None => None
            end
        | None => None
        end
    | EAnd a b =>
        match cexpr hint a, cexpr hint b with
        | Some (ca, _), Some (cb, _) =>
            Some ((if is_and a then ca else ca ++ norm_bool) ++
                  [IEqz32; If (Some (VTI W32)) [IConst W32 0] (Some (cb ++ norm_bool))], tU8)
        | _, _ => None
        end
    | EOr a b =>
        match cexpr hint a, cexpr hint b with
        | Some (ca, _), Some (cb, _) =>
            Some ((if is_or a then ca else ca ++ norm_bool) ++
                  [If (Some (VTI W32)) [IConst W32 1] (Some (cb ++ norm_bool))], tU8)
        | _, _ => None
        end
    | ECast t a =>
        match cexpr (Some t) a with
        | Some (c, ta) => Some (c ++ cast_code ta t, t)
        | None => None
        end
    end.

  (* an expression in the position of a value of type t (declaration, assignment, return):
     a cast is emitted when the compiled type differs (never, for well-typed sources) *)
  Definition cexpr_to (hint : option ty) (e : expr) (t : ty) : option (list instr) :=
    match cexpr hint (reparse e) with
    | Some (c, te) => Some (if ty_eqb t te then c else c ++ cast_code te t)
    | None => None
    end.

  (* statement/control.go emitConditionTruthiness: a condition that is not carried in an i32
     register is turned into  value != 0  (fix for finding F13h) *)
  Definition truthiness (t : ty) : list instr :=
    match vt_of t with
    | VTI W32 => []
    | VTI W64 => [IConst W64 0; IRel W64 INe]
    | VTF f => [FConst f 0; FRel f CNe]
    end.

  Definition ccond (c : expr) : option (list instr) :=
    match cexpr None (reparse c) with Some (cc, t) => Some (cc ++ truthiness t) | None => None end.

  Variable ret : ty.

  (* loop context: (BreakDepth, ContinueDepth) of the innermost enclosing loop
     (compiler/context LoopEntry); [d] is the current WASM block nesting depth. A branch to the
     loop's label is  br (d - depth of that label)  (loop.go compileBreakStatement). *)
  Definition loopctx := option (nat * nat).

  (* for-range: exit test, with and without an explicit step (loop.go compileForRange) *)
  Definition range_exit (t : ity) (i lim : nat) (stp : option nat) : list instr :=
    match stp with
    | None => [LGet i; LGet lim; cmp_op CGe (TI t)]
    | Some j =>
        [LGet j; IConst (regw t) 0; cmp_op CGt (TI t);
         If (Some (VTI W32)) [LGet i; LGet lim; cmp_op CGe (TI t)]
                             (Some [LGet i; LGet lim; cmp_op CLe (TI t)])]
    end.
  Definition range_incr (t : ity) (i : nat) (stp : option nat) : list instr :=
    [LGet i; match stp with Some j => LGet j | None => IConst (regw t) 1 end;
     IBin (regw t) IAdd; LSet i].

  (* code and "diverged" *)
  Fixpoint cstmt (d : nat) (lp : loopctx) (s : stmt) : option (list instr * bool) :=
    match s with
    | SDecl i t e =>
        match nth_error tys i with
        | Some vt =>
            match cexpr_to (Some vt) e vt with Some c => Some (c ++ [LSet i], false) | None => None end
        | None => None
        end
    | SAssign i e =>
        match nth_error tys i with
        | Some vt =>
            match cexpr_to (Some vt) e vt with Some c => Some (c ++ [LSet i], false) | None => None end
        | None => None
        end
    | SCompound i op e =>
        match nth_error tys i with
        | Some vt =>
            match cexpr_to (Some vt) e vt, arith_op op vt with
            | Some c, Some o => Some (LGet i :: c ++ [o; LSet i], false)
            | _, _ => None
            end
        | None => None
        end
    | SIf c th el =>
        (* the if block and every else-if nest one WASM block deeper (ctx.EnterBlock) *)
        match ccond c, cblock (S d) lp th with
        | Some cc, Some (cth, dth) =>
            match el with
            | ElNone => Some (cc ++ [If None cth None], false)
            | _ =>
                match cels (S d) lp el with
                | Some (cel, has_else, dall) =>
                    let all := has_else && dth && dall in
                    Some (cc ++ [If None cth (Some cel)] ++ (if all then [Unreachable] else []), all)
                | None => None
                end
            end
        | _, _ => None
        end
    | SReturn e =>
        match cexpr_to None e ret with Some c => Some (c ++ [Return], true) | None => None end
    | SFor c b =>
        (* block $break { loop $continue { cond; eqz; br_if 1; body; br 0 } } *)
        match ccond c, cblock (S (S d)) (Some (S d, S (S d))) b with
        | Some cc, Some (cb, _) =>
            Some ([Block [Loop (cc ++ [IEqz32; BrIf 1] ++ cb ++ [Br 0])]], false)
        | _, _ => None
        end
    | SLoop b =>
        match cblock (S (S d)) (Some (S d, S (S d))) b with
        | Some (cb, _) => Some ([Block [Loop (cb ++ [Br 0])]], false)
        | None => None
        end
    | SRange i lim t start stop step b =>
        (* start -> i; stop -> limit; step -> __for_step;
           block $break { loop { exit test; br_if 1; block $continue { body }; i += step; br 0 } } *)
        let hint := Some (TI t) in
        match (match start with
               | Some e => cexpr_to hint e (TI t)
               | None => Some [IConst (regw t) 0]
               end),
              cexpr_to hint stop (TI t),
              (match step with
               | Some (j, e) => match cexpr_to hint e (TI t) with
                                | Some c => Some (c ++ [LSet j])
                                | None => None
                                end
               | None => Some []
               end),
              cblock (S (S (S d))) (Some (S d, S (S (S d)))) b with
        | Some c0, Some cl, Some cs, Some (cb, _) =>
            let stp := match step with Some (j, _) => Some j | None => None end in
            Some (c0 ++ [LSet i] ++ cl ++ [LSet lim] ++ cs ++
                  [Block [Loop (range_exit t i lim stp ++ [BrIf 1] ++ [Block cb] ++
                                range_incr t i stp ++ [Br 0])]], false)
        | _, _, _, _ => None
        end
    (* variable.go compileStatefulVariable: id; init; stateful.load; local.set (no cast) *)
    | SStateDecl i t e =>
        match nth_error tys i with
        | Some vt =>
            match cexpr (Some vt) (reparse e) with
            | Some (c, _) =>
                Some (IConst W32 (Z.of_nat i) :: c ++ [CallLoad vt (length tys); LSet i], false)
            | None => None
            end
        | None => None
        end
    (* assignment to a stateful variable: local.set; id; local.get; stateful.store *)
    | SSAssign i e =>
        match nth_error tys i with
        | Some vt =>
            match cexpr_to (Some vt) e vt with
            | Some c => Some (c ++ [LSet i; IConst W32 (Z.of_nat i); LGet i; CallStore vt (length tys)], false)
            | None => None
            end
        | None => None
        end
    | SSCompound i op e =>
        match nth_error tys i with
        | Some vt =>
            match cexpr_to (Some vt) e vt, arith_op op vt with
            | Some c, Some o =>
                Some (LGet i :: c ++ [o; LSet i; IConst W32 (Z.of_nat i); LGet i; CallStore vt (length tys)], false)
            | _, _ => None
            end
        | None => None
        end
    | SBreak =>
        match lp with Some (bd, _) => Some ([Br (d - bd)], true) | None => None end
    | SContinue =>
        match lp with Some (_, cd) => Some ([Br (d - cd)], true) | None => None end
    end
  with cblock (d : nat) (lp : loopctx) (b : block) : option (list instr * bool) :=
    match b with
    | BNil => Some ([], false)
    | BCons s r =>
        match cstmt d lp s with
        | Some (cs, true) => Some (cs, true)          (* the rest of the block is not compiled *)
        | Some (cs, false) =>
            match cblock d lp r with Some (cr, dd) => Some (cs ++ cr, dd) | None => None end
        | None => None
        end
    end
  (* body of the else part, "a final else clause exists", "all remaining branches diverge";
     [d] = depth inside the enclosing if *)
  with cels (d : nat) (lp : loopctx) (el : els) : option (list instr * bool * bool) :=
    match el with
    | ElNone => Some ([], false, false)
    | ElElse b => match cblock d lp b with Some (cb, dd) => Some (cb, true, dd) | None => None end
    | ElElif c th el' =>
        match ccond c, cblock (S d) lp th, cels (S d) lp el' with
        | Some cc, Some (cth, dth), Some (cel, has_else, dall) =>
            Some (cc ++ [If None cth (Some cel)], has_else, dth && dall)
        | _, _, _ => None
        end
    end.
End Expr.

(* compiler.go collectLocals: every declared variable of the function, dead code included,
   in order of appearance *)
Fixpoint decls_stmt (s : stmt) : list (nat * ty) :=
  match s with
  | SDecl i t _ | SStateDecl i t _ => [(i, t)]
  | SIf _ th el => decls_block th ++ decls_els el
  | SFor _ b | SLoop b => decls_block b
  | SRange i lim t _ _ step b =>
      (i, TI t) :: (lim, TI t) :: match step with Some (j, _) => [(j, TI t)] | None => [] end ++ decls_block b
  | _ => []
  end
with decls_block (b : block) : list (nat * ty) :=
  match b with BNil => [] | BCons s r => decls_stmt s ++ decls_block r end
with decls_els (el : els) : list (nat * ty) :=
  match el with
  | ElNone => []
  | ElElse b => decls_block b
  | ElElif _ th el' => decls_block th ++ decls_els el'
  end.

(* the stateful variables of a function *)
Fixpoint svars_stmt (s : stmt) : list nat :=
  match s with
  | SStateDecl i _ _ => [i]
  | SIf _ th el => svars_block th ++ svars_els el
  | SFor _ b | SLoop b | SRange _ _ _ _ _ _ b => svars_block b
  | _ => []
  end
with svars_block (b : block) : list nat :=
  match b with BNil => [] | BCons s r => svars_stmt s ++ svars_block r end
with svars_els (el : els) : list nat :=
  match el with ElNone => [] | ElElse b => svars_block b | ElElif _ th el' => svars_block th ++ svars_els el' end.
Definition state_vars (f : func) : list nat := svars_block (f_body f).

(* the analyzer numbers locals after the parameters in order of appearance *)
Definition locals_ok (f : func) : bool :=
  let d := decls_block (f_body f) in
  let n := length (f_params f) in
  (fix eqn (l : list nat) (k : nat) : bool :=
     match l with [] => true | x :: r => Nat.eqb x k && eqn r (S k) end) (map fst d) n
  && (fix eqt (a b : list ty) : bool :=
        match a, b with
        | [], [] => true
        | x :: r, y :: s => ty_eqb x y && eqt r s
        | _, _ => false
        end) (map snd d) (f_locals f).

Definition compile (f : func) : option wfunc :=
  match cblock (f_tys f) (f_ret f) 0 None (f_body f) with
  | Some (c, _) =>
      Some {| w_params := map vt_of (f_params f);
              w_locals := map vt_of (map snd (decls_block (f_body f)));
              w_result := vt_of (f_ret f);
              w_body := c;
              w_pad := length (f_virt f) |}
  | None => None
  end.

(* a helper  func h(x T, y T = d) T { return body }  on its own *)
Definition compile_helper (tys : list ty) (h : ty * Z * nat * nat * expr) : option wfunc :=
  let '(t, _, p, q, body) := h in
  match cexpr_to tys None body t with
  | Some c => Some {| w_params := [vt_of t; vt_of t]; w_locals := []; w_result := vt_of t;
                      w_body := map (ren_i p q) c ++ [Return]; w_pad := 0 |}
  | None => None
  end.

(* the module's functions in index order: the helpers (declared first), then f *)
Definition compile_module (f : func) : option (list wfunc) :=
  match compile f with
  | None => None
  | Some w =>
      (fix go (hs : list (ty * Z * nat * nat * expr)) : option (list wfunc) :=
         match hs with
         | [] => Some [w]
         | h :: r => match compile_helper (f_tys f) h, go r with
                     | Some wh, Some ws => Some (wh :: ws)
                     | _, _ => None
                     end
         end) (f_helpers f)
  end.
