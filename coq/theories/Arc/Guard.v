(* Arc/Guard.v — the signatures of the known divergences between arc/docs/spec.md and the
   compiler, as decidable predicates: [static_flags] on the program text, [dyn_flags] on the
   spec-level evaluation of a call (only operations that are actually evaluated count).
   C19_compile_correct_partial is proved for exactly the calls with no flag; every flag has a
   C19_…_refuted witness. No proofs in this file. *)
From Coq Require Import ZArith List Bool.
From Synnax Require Import Arc.Syntax Arc.Spec.
Import ListNotations.
Local Open Scope Z_scope.

Inductive tag :=
(* static *)
| TgUnaryOverPow        (* unary_minus_over_pow: '-'/'not' written in front of an unparenthesised power *)
| TgHintLeak            (* literal_hint_leak: a literal receives the type hint of an enclosing cast/declaration *)
| TgFloatMod            (* float_modulo_not_implemented *)
(* dynamic *)
| TgNarrowOverflow      (* narrow_int_arith_overflow: i8/i16/u8/u16 arithmetic leaves the range *)
| TgSignedDivOverflow   (* signed_div_overflow: MIN / -1 at i32 / i64 *)
| TgSameRegCast         (* same_register_cast: narrowing to i8/i16/u8/u16, same signedness, out of range *)
| TgSignCast            (* sign_change_cast_out_of_range *)
| TgFloatToInt          (* float_to_int_out_of_range: NaN, infinite or out of the target range *)
| TgPowExp63.           (* u64_pow_exponent_above_i63: u64 exponent >= 2^63 *)

Definition tag_id (t : tag) : N :=
  match t with
  | TgUnaryOverPow => 1 | TgHintLeak => 2 | TgFloatMod => 3
  | TgNarrowOverflow => 6 | TgSignedDivOverflow => 7 | TgSameRegCast => 8 | TgSignCast => 9
  | TgFloatToInt => 10 | TgPowExp63 => 11
  end%N.

Definition flag (b : bool) (t : tag) : list tag := if b then [t] else [].

(* ------------------------------------------------------------------ static *)
Definition is_pow (e : expr) := match e with EPow _ _ => true | _ => false end.

(* no unary operator directly over an unparenthesised power, anywhere *)
Fixpoint uop_free (e : expr) : bool :=
  match e with
  | ELit _ _ | ELitF _ _ | EVar _ | ESVar _ | EGlob _ _ => true
  | ECall _ _ _ _ _ body a b =>
      uop_free body && uop_free a && match b with Some e => uop_free e | None => true end
  | EParen a | ECast _ a => uop_free a
  | ENeg a | ENot a => uop_free a && negb (is_pow a)
  | EPow a b | EArith _ a b | ECmp _ a b | EAnd a b | EOr a b => uop_free a && uop_free b
  end.

Section Static.
  Variable tys : list ty.
  Notation ety := (ety tys).

  Definition hint_matches (hint : option ty) (t : ty) : bool :=
    match hint with None => true | Some h => ty_eqb h t end.

  (* the hint threading of the compiler (see Compile.cexpr); [true] = no literal receives a
     hint different from its type *)
  Fixpoint hint_ok (hint : option ty) (e : expr) : bool :=
    match e with
    | ELit t _ => hint_matches hint (TI t)
    | ELitF t _ => hint_matches hint (TF t)
    | EVar _ | ESVar _ | EGlob _ _ => true
    | ECall _ t _ _ _ body a b =>
        hint_ok None body && hint_ok (Some t) a && match b with Some e => hint_ok (Some t) e | None => true end
    | EParen a | ENeg a | ENot a => hint_ok hint a
    | EPow a b | EArith _ a b | ECmp _ a b => hint_ok hint a && hint_ok (ety a) b
    | EAnd a b | EOr a b => hint_ok hint a && hint_ok hint b
    | ECast t a => hint_ok (Some t) a
    end.

  Fixpoint float_mod_free (e : expr) : bool :=
    match e with
    | ELit _ _ | ELitF _ _ | EVar _ | ESVar _ | EGlob _ _ => true
    | ECall _ _ _ _ _ body a b =>
        float_mod_free body && float_mod_free a && match b with Some e => float_mod_free e | None => true end
    | EParen a | ENeg a | ENot a | ECast _ a => float_mod_free a
    | EArith AMod a b => float_mod_free a && float_mod_free b && match ety a with Some (TF _) => false | _ => true end
    | EPow a b | EArith _ a b | ECmp _ a b | EAnd a b | EOr a b => float_mod_free a && float_mod_free b
    end.

  Definition sflags_expr (hint : option ty) (e : expr) : list tag :=
    flag (negb (uop_free e)) TgUnaryOverPow ++ flag (negb (hint_ok hint e)) TgHintLeak ++
    flag (negb (float_mod_free e)) TgFloatMod.

  Definition sflags_cond (c : expr) : list tag := sflags_expr None c.

  Fixpoint sflags_stmt (s : stmt) : list tag :=
    match s with
    | SDecl i _ e | SAssign i e | SStateDecl i _ e | SSAssign i e => sflags_expr (nth_error tys i) e
    | SCompound i op e | SSCompound i op e =>
        sflags_expr (nth_error tys i) e ++
        flag (match op, nth_error tys i with AMod, Some (TF _) => true | _, _ => false end) TgFloatMod
    | SIf c th el => sflags_cond c ++ sflags_block th ++ sflags_els el
    | SReturn e => sflags_expr None e
    | SFor c b => sflags_cond c ++ sflags_block b
    | SLoop b => sflags_block b
    | SRange _ _ t start stop step b =>
        match start with Some e => sflags_expr (Some (TI t)) e | None => [] end ++
        sflags_expr (Some (TI t)) stop ++
        match step with Some (_, e) => sflags_expr (Some (TI t)) e | None => [] end ++
        sflags_block b
    | SBreak | SContinue => []
    end
  with sflags_block (b : block) : list tag :=
    match b with BNil => [] | BCons s r => sflags_stmt s ++ sflags_block r end
  with sflags_els (el : els) : list tag :=
    match el with
    | ElNone => []
    | ElElse b => sflags_block b
    | ElElif c th el' => sflags_cond c ++ sflags_block th ++ sflags_els el'
    end.
End Static.

(* the function's own text and the text of every helper function of the program *)
Definition static_flags (f : func) : list tag :=
  sflags_block (f_tys f) (f_body f) ++
  flat_map (fun h => let '(_, _, _, _, body) := h in sflags_expr (f_tys f) None body) (f_helpers f).

(* ------------------------------------------------------------------ dynamic *)
Definition narrow (t : ity) : bool := bits t <? 32.

(* integer arithmetic at type t on values a b *)
Definition arith_flags (t : ity) (op : arith) (a b : Z) : list tag :=
  match op with
  | AAdd => flag (narrow t && negb (in_range t (a + b))) TgNarrowOverflow
  | ASub => flag (narrow t && negb (in_range t (a - b))) TgNarrowOverflow
  | AMul => flag (narrow t && negb (in_range t (a * b))) TgNarrowOverflow
  | ADiv => if b =? 0 then []
           else if in_range t (Z.quot a b) then []
           else if narrow t then [TgNarrowOverflow] else [TgSignedDivOverflow]
  | AMod => []
  end.

Definition cast_flags_int (from to : ity) (z : Z) : list tag :=
  if in_range to z then []
  else if negb (Bool.eqb (signed from) (signed to)) then [TgSignCast]
  else if narrow to then [TgSameRegCast] else [].

Section Dyn.
  Variable fo : float_ops.
  Variable tys : list ty.
  Notation ety := (ety tys).
  Notation eval := (eval fo tys).

  Definition cast_flags (from to : ty) (v : val fo) : list tag :=
    match from, to, v with
    | TI a, TI b, VI z => cast_flags_int a b z
    | TF a, TI b, VF x =>
        match f_to_int fo a x with
        | FFin z => flag (negb (in_range b z)) TgFloatToInt
        | _ => [TgFloatToInt]
        end
    | _, _, _ => []
    end.

  (* flags of the operations evaluated by [eval r e], in evaluation order *)
  Fixpoint dflags (r : env fo) (e : expr) : list tag :=
    match e with
    | ELit _ _ | ELitF _ _ | EVar _ | ESVar _ | EGlob _ _ => []
    | ECall _ t d p q body a b =>
        dflags r a ++
        match eval r a with
        | Ok va =>
            match b with Some e => dflags r e | None => [] end ++
            match (match b with Some e => eval r e | None => Ok (const_val fo t d) end) with
            | Ok vb => dflags (upd fo (upd fo r p va) q vb) body
            | _ => []
            end
        | _ => []
        end
    | EParen a | ENot a => dflags r a
    | ENeg a =>
        dflags r a ++
        match ety a, eval r a with
        | Some (TI t), Ok (VI z) => flag (narrow t && negb (in_range t (- z))) TgNarrowOverflow
        | _, _ => []
        end
    | EPow a b =>
        dflags r a ++
        match eval r a with
        | Ok _ =>
            dflags r b ++
            match ety a, eval r b with
            | Some (TI U64), Ok (VI y) => flag (2 ^ 63 <=? y) TgPowExp63
            | _, _ => []
            end
        | _ => []
        end
    | EArith op a b =>
        dflags r a ++
        match eval r a with
        | Ok va =>
            dflags r b ++
            match ety a, va, eval r b with
            | Some (TI t), VI x, Ok (VI y) => arith_flags t op x y
            | _, _, _ => []
            end
        | _ => []
        end
    | ECmp _ a b =>
        dflags r a ++ match eval r a with Ok _ => dflags r b | _ => [] end
    | EAnd a b =>
        dflags r a ++
        match eval r a with Ok (VI x) => if truthy x then dflags r b else [] | _ => [] end
    | EOr a b =>
        dflags r a ++
        match eval r a with Ok (VI x) => if truthy x then [] else dflags r b | _ => [] end
    | ECast t a =>
        dflags r a ++
        match ety a, eval r a with
        | Some ta, Ok v => cast_flags ta t v
        | _, _ => []
        end
    end.

  Definition compound_flags (r : env fo) (i : nat) (op : arith) (v : val fo) : list tag :=
    match nth_error tys i, r i, v with
    | Some (TI t), VI x, VI y => arith_flags t op x y
    | _, _, _ => []
    end.

  (* flags raised while executing; the environment is threaded exactly as in Spec.exec_* *)
  Fixpoint dflags_stmt (r : env fo) (s : stmt) : list tag :=
    match s with
    | SDecl _ _ e | SAssign _ e | SReturn e | SSAssign _ e => dflags r e
    | SStateDecl i _ e => match r (st_flag i) with VI 1 => [] | _ => dflags r e end
    | SCompound i op e | SSCompound i op e =>
        dflags r e ++ match eval r e with Ok v => compound_flags r i op v | _ => [] end
    | SIf c th el =>
        dflags r c ++
        match eval r c with
        | Ok (VI z) => if truthy z then dflags_block r th else dflags_els r el
        | _ => []
        end
    (* loops: the flags of every iteration that Spec.exec_stmt runs *)
    | SFor c b =>
        (fix iter (n : nat) (r : env fo) : list tag :=
           match n with
           | O => []
           | S n' =>
               dflags r c ++
               match eval r c with
               | Ok (VI z) =>
                   if truthy z then
                     dflags_block r b ++
                     match exec_block fo tys r b with
                     | Ok (Next r') | Ok (Cont r') => iter n' r'
                     | _ => []
                     end
                   else []
               | _ => []
               end
           end) loop_fuel r
    | SLoop b =>
        (fix iter (n : nat) (r : env fo) : list tag :=
           match n with
           | O => []
           | S n' =>
               dflags_block r b ++
               match exec_block fo tys r b with
               | Ok (Next r') | Ok (Cont r') => iter n' r'
               | _ => []
               end
           end) loop_fuel r
    | SRange i lim t start stop step b =>
        match start with Some e => dflags r e | None => [] end ++
        dflags r stop ++
        match step with Some (_, e) => dflags r e | None => [] end ++
        match (match start with Some e => eval r e | None => Ok (VI 0) end), eval r stop,
              (match step with Some (_, e) => eval r e | None => Ok (VI 1) end) with
        | Ok (VI z0), Ok (VI zl), Ok (VI zs) =>
            if zs =? 0 then [] else
            (fix iter (n : nat) (r : env fo) : list tag :=
               match n with
               | O => []
               | S n' =>
                   match r i with
                   | VI z =>
                       if (if 0 <? zs then zl <=? z else z <=? zl) then []
                       else
                         dflags_block r b ++
                         match exec_block fo tys r b with
                         | Ok (Next r') | Ok (Cont r') =>
                             match r' i with
                             | VI z' => iter n' (upd fo r' i (VI (wrap t (z' + zs))))
                             | _ => []
                             end
                         | _ => []
                         end
                   | _ => []
                   end
               end) loop_fuel (upd fo r i (VI z0))
        | _, _, _ => []
        end
    | SBreak | SContinue => []
    end
  with dflags_block (r : env fo) (b : block) : list tag :=
    match b with
    | BNil => []
    | BCons s rest =>
        dflags_stmt r s ++
        match exec_stmt fo tys r s with
        | Ok (Next r') => dflags_block r' rest
        | _ => []
        end
    end
  with dflags_els (r : env fo) (el : els) : list tag :=
    match el with
    | ElNone => []
    | ElElse b => dflags_block r b
    | ElElif c th el' =>
        dflags r c ++
        match eval r c with
        | Ok (VI z) => if truthy z then dflags_block r th else dflags_els r el'
        | _ => []
        end
    end.
End Dyn.

Definition dyn_flags (fo : float_ops) (f : func) (args : list (val fo)) : list tag :=
  dflags_block fo (f_tys f) (env_of fo args) (f_body f).

(* per invocation of a sequence (see Spec.spec_calls); an invocation inherits the flags of the
   earlier ones: a divergence there may have left a different persisted state *)
Fixpoint dyn_flags_from (fo : float_ops) (f : func) (sv : list nat) (prev : env fo) (acc : list tag)
    (calls : list (list (val fo))) : list (list tag) :=
  match calls with
  | [] => []
  | a :: rest =>
      let r0 := carry fo sv prev a in
      let fl := acc ++ dflags_block fo (f_tys f) r0 (f_body f) in
      fl :: match exec_block fo (f_tys f) r0 (f_body f) with
            | Ok (Ret _ r') => dyn_flags_from fo f sv r' fl rest
            | _ => map (fun _ => fl) rest
            end
  end.
Definition dyn_flags_calls (fo : float_ops) (f : func) (sv : list nat) (calls : list (list (val fo)))
  : list (list tag) :=
  dyn_flags_from fo f sv (fun _ => VI 0) [] calls.
