(* Arc/Validates.v — the code emitted for a well-typed function without static signature
   type-checks under the WebAssembly validation rules of the subset ([Wasm.validate]). *)
From Coq Require Import ZArith List Bool Lia.
From Synnax Require Import Arc.Syntax Arc.Spec Arc.Wasm Arc.Compile Arc.Guard Arc.Sim
  Arc.CorrectArith Arc.CorrectExpr Arc.StmtEqs Arc.CorrectStmt.
Import ListNotations.
Local Open Scope Z_scope.

Arguments Wasm.val_i : simpl never.
Arguments Wasm.val_l : simpl never.

Lemma vt_eqb_refl t : vt_eqb t t = true.
Proof. destruct t as [[]|[]]; reflexivity. Qed.

Section Val.
  Variable lts : list vt.
  Variable rt : vt.
  Notation val_l := (val_l lts rt).
  Notation val_i := (val_i lts rt).

  Lemma val_l_app a b s :
    val_l (a ++ b) s = match val_l a s with Some s' => val_l b s' | None => None end.
  Proof.
    revert s. induction a as [|x a IH]; intros s; [reflexivity|].
    change ((x :: a) ++ b) with (x :: (a ++ b)).
    change (val_l (x :: a ++ b) s) with (match val_i x s with Some s' => val_l (a ++ b) s' | None => None end).
    change (val_l (x :: a) s) with (match val_i x s with Some s' => val_l a s' | None => None end).
    destruct (val_i x s); [apply IH|reflexivity].
  Qed.
  Lemma val_l_cons x r s :
    val_l (x :: r) s = match val_i x s with Some s' => val_l r s' | None => None end.
  Proof. reflexivity. Qed.
  Lemma val_l_nil s : val_l [] s = Some s.
  Proof. reflexivity. Qed.

  Lemma vpop_top t st p : vpop t (t :: st, p) = Some (st, p).
  Proof. simpl. rewrite vt_eqb_refl. reflexivity. Qed.
  Lemma vop1_top a r st p : vop1 a r (a :: st, p) = Some (r :: st, p).
  Proof. unfold vop1. rewrite vpop_top. reflexivity. Qed.
  Lemma vop2_top a b r st p : vop2 a b r (b :: a :: st, p) = Some (r :: st, p).
  Proof. unfold vop2. rewrite !vpop_top. reflexivity. Qed.

  Lemma val_const w z st p : val_i (IConst w z) (st, p) = Some (VTI w :: st, p).
  Proof. reflexivity. Qed.
  Lemma val_fconst t b st p : val_i (FConst t b) (st, p) = Some (VTF t :: st, p).
  Proof. reflexivity. Qed.
  Lemma val_ibin w op st p : val_i (IBin w op) (VTI w :: VTI w :: st, p) = Some (VTI w :: st, p).
  Proof. apply vop2_top. Qed.
  Lemma val_irel w op st p : val_i (IRel w op) (VTI w :: VTI w :: st, p) = Some (VTI W32 :: st, p).
  Proof. apply vop2_top. Qed.
  Lemma val_fbin t op st p : val_i (FBin t op) (VTF t :: VTF t :: st, p) = Some (VTF t :: st, p).
  Proof. apply vop2_top. Qed.
  Lemma val_frel t op st p : val_i (FRel t op) (VTF t :: VTF t :: st, p) = Some (VTI W32 :: st, p).
  Proof. apply vop2_top. Qed.
  Lemma val_fneg t st p : val_i (FNeg t) (VTF t :: st, p) = Some (VTF t :: st, p).
  Proof. apply vop1_top. Qed.
  Lemma val_eqz st p : val_i IEqz32 (VTI W32 :: st, p) = Some (VTI W32 :: st, p).
  Proof. apply vop1_top. Qed.
  Lemma val_callpow t st p : val_i (CallPow t) (vt_of t :: vt_of t :: st, p) = Some (vt_of t :: st, p).
  Proof. apply vop2_top. Qed.
  Lemma val_lget n t st p : nth_error lts n = Some t -> val_i (LGet n) (st, p) = Some (t :: st, p).
  Proof. intros H. unfold Wasm.val_i. rewrite H. reflexivity. Qed.
  Lemma val_lset n t st p : nth_error lts n = Some t -> val_i (LSet n) (t :: st, p) = Some (st, p).
  Proof. intros H. unfold Wasm.val_i. rewrite H. apply vpop_top. Qed.
  Lemma val_return st p : val_i Return (rt :: st, p) = Some ([], true).
  Proof. unfold Wasm.val_i. rewrite vpop_top. reflexivity. Qed.
  Lemma val_unreachable s : val_i Unreachable s = Some ([], true).
  Proof. reflexivity. Qed.

  Lemma val_if bt th el st p :
    val_i (If bt th el) (VTI W32 :: st, p) =
    if match val_l th ([], false) with Some s' => vend bt s' | None => false end &&
       match el with
       | Some e => match val_l e ([], false) with Some s' => vend bt s' | None => false end
       | None => match bt with None => true | Some _ => false end
       end
    then Some (match bt with None => (st, p) | Some t => (t :: st, p) end)
    else None.
  Proof.
    unfold Wasm.val_i at 1. fold (Wasm.val_i lts rt). rewrite vpop_top. reflexivity.
  Qed.

  Lemma val_norm_bool st p : val_l norm_bool (VTI W32 :: st, p) = Some (VTI W32 :: st, p).
  Proof. unfold norm_bool. rewrite val_l_cons, val_const, val_l_cons, val_irel. reflexivity. Qed.

  Lemma val_cast_code ta t st p :
    val_l (cast_code ta t) (vt_of ta :: st, p) = Some (vt_of t :: st, p).
  Proof.
    destruct ta as [[]|[]], t as [[]|[]]; try reflexivity;
      unfold cast_code; simpl; rewrite val_l_cons; unfold Wasm.val_i; simpl; reflexivity.
  Qed.
End Val.

Section Expr.
  Variable tys : list ty.
  Variable rt : vt.
  Notation lts := (map vt_of tys).
  Notation val_l := (val_l lts rt).

  Ltac vs L := rewrite val_l_cons, L; cbv beta iota.
  Ltac va L := rewrite val_l_app, L; cbv beta iota.

  Definition vexpr (t : ty) (code : list instr) : Prop :=
    forall st p, val_l code (st, p) = Some (vt_of t :: st, p).

  Ltac split_andb :=
    repeat match goal with
           | H : _ && _ = true |- _ => apply andb_true_iff in H; destruct H
           end.

  Lemma cexpr_valid sc :
    forall e hint t,
      type_of tys sc e = Some t -> pure_expr e = true ->
      hint_ok tys hint e = true -> float_mod_free tys e = true ->
      exists code, cexpr tys hint e = Some (code, t) /\ vexpr t code.
  Proof.
    induction e; intros hint t0 Ht Hp Hh Hm; simpl in Ht, Hp, Hh, Hm.
    - destruct ((0 <=? z) && (z <=? imax t)) eqn:R; [|discriminate]. injection Ht as <-.
      apply andb_true_iff in R. destruct R as [R0 R1]. apply Z.leb_le in R1.
      assert (Eh : eff_ty hint (TI t) = TI t).
      { destruct hint as [h|]; simpl in *; [apply ty_eqb_eq in Hh; assumption|reflexivity]. }
      simpl. rewrite Eh. simpl.
      rewrite (proj2 (Z.leb_le _ _) R1). simpl.
      eexists. split; [reflexivity|]. intros st p. rewrite val_l_cons, val_const. reflexivity.
    - destruct ((0 <=? b) && _) eqn:R; [|discriminate]. injection Ht as <-.
      assert (Eh : eff_ty hint (TF t) = TF t).
      { destruct hint as [h|]; simpl in *; [apply ty_eqb_eq in Hh; assumption|reflexivity]. }
      simpl. rewrite Eh, fty_eqb_refl.
      eexists. split; [reflexivity|]. intros st p. rewrite val_l_cons, val_fconst. reflexivity.
    - destruct (type_of_var_lt _ _ _ _ Ht) as [Hi Hn]. simpl. rewrite Hn.
      eexists. split; [reflexivity|]. intros st p.
      rewrite val_l_cons, (val_lget lts rt i (vt_of t0)) by (apply map_nth_error; assumption). reflexivity.
    - discriminate.
    - discriminate.
    - discriminate.
    - destruct (IHe hint t0 Ht Hp Hh Hm) as (c & Ec & Vc). exists c. split; assumption.
    - destruct (IHe hint t0 Ht Hp Hh Hm) as (c & Ec & Vc). simpl. rewrite Ec.
      destruct t0 as [it|f]; eexists; (split; [reflexivity|]); intros st p; rewrite val_l_app, Vc.
      + simpl vt_of. vs val_const. vs val_ibin. reflexivity.
      + simpl vt_of. rewrite val_l_cons, val_fneg. reflexivity.
    - destruct (type_of tys sc e) as [[[]|]|] eqn:Te; try discriminate. injection Ht as <-.
      destruct (IHe hint _ eq_refl Hp Hh Hm) as (c & Ec & Vc).
      simpl. rewrite Ec. eexists. split; [reflexivity|]. intros st p.
      rewrite val_l_app, Vc. simpl vt_of. rewrite val_l_cons, val_eqz. reflexivity.
    - destruct (type_of tys sc e1) as [ta|] eqn:Ta; [|discriminate].
      destruct (type_of tys sc e2) as [tb|] eqn:Tb; [|discriminate].
      destruct (ty_eqb ta tb) eqn:Eq; [|discriminate]. apply ty_eqb_eq in Eq. subst tb. injection Ht as <-.
      split_andb. pose proof (ety_of tys _ _ _ Ta) as Et. rewrite Et in *.
      destruct (IHe1 hint ta eq_refl) as (ca & Eca & Va); try assumption.
      destruct (IHe2 (Some ta) ta eq_refl) as (cb & Ecb & Vb); try assumption.
      simpl. rewrite Eca, Ecb. eexists. split; [reflexivity|]. intros st p.
      va Va. va Vb. vs val_callpow. reflexivity.
    - destruct (type_of tys sc e1) as [ta|] eqn:Ta; [|discriminate].
      destruct (type_of tys sc e2) as [tb|] eqn:Tb; [|discriminate].
      destruct (ty_eqb ta tb) eqn:Eq; [|discriminate]. apply ty_eqb_eq in Eq. subst tb. injection Ht as <-.
      pose proof (ety_of tys _ _ _ Ta) as Et.
      assert (Hh' : hint_ok tys hint e1 = true /\ hint_ok tys (Some ta) e2 = true).
      { rewrite Et in Hh. apply andb_true_iff in Hh. exact Hh. }
      assert (Hm' : float_mod_free tys e1 = true /\ float_mod_free tys e2 = true /\
                    exists o, arith_op op ta = Some o).
      { destruct op; split_andb; repeat split; try assumption;
          try (destruct ta; simpl; eauto; fail).
        rewrite Et in *. destruct ta; [simpl; eauto|discriminate]. }
      destruct Hh' as [Hh1 Hh2]. destruct Hm' as (Hm1 & Hm2 & o & Eo). split_andb.
      destruct (IHe1 hint ta eq_refl) as (ca & Eca & Va); try assumption.
      destruct (IHe2 (Some ta) ta eq_refl) as (cb & Ecb & Vb); try assumption.
      simpl. rewrite Eca, Ecb, Eo. eexists. split; [reflexivity|]. intros st p.
      va Va. va Vb. rewrite val_l_cons.
      destruct ta as [it|f]; simpl in Eo.
      + injection Eo as <-. simpl vt_of. rewrite val_ibin. reflexivity.
      + destruct op; try discriminate; injection Eo as <-; simpl vt_of; rewrite val_fbin; reflexivity.
    - destruct (type_of tys sc e1) as [ta|] eqn:Ta; [|discriminate].
      destruct (type_of tys sc e2) as [tb|] eqn:Tb; [|discriminate].
      destruct (ty_eqb ta tb) eqn:Eq; [|discriminate]. apply ty_eqb_eq in Eq. subst tb. injection Ht as <-.
      split_andb. pose proof (ety_of tys _ _ _ Ta) as Et. rewrite Et in *.
      destruct (IHe1 hint ta eq_refl) as (ca & Eca & Va); try assumption.
      destruct (IHe2 (Some ta) ta eq_refl) as (cb & Ecb & Vb); try assumption.
      simpl. rewrite Eca, Ecb. eexists. split; [reflexivity|]. intros st p.
      va Va. va Vb. rewrite val_l_cons.
      destruct ta as [it|f]; unfold cmp_op; simpl vt_of; [rewrite val_irel|rewrite val_frel]; reflexivity.
    - destruct (type_of tys sc e1) as [[[]|]|] eqn:Ta; try discriminate;
        destruct (type_of tys sc e2) as [[[]|]|] eqn:Tb; try discriminate. injection Ht as <-.
      split_andb.
      destruct (IHe1 hint _ eq_refl) as (ca & Eca & Va); try assumption.
      destruct (IHe2 hint _ eq_refl) as (cb & Ecb & Vb); try assumption.
      simpl. rewrite Eca, Ecb. eexists. split; [reflexivity|]. intros st p.
      assert (Pre : val_l (if is_and e1 then ca else ca ++ norm_bool) (st, p) = Some (VTI W32 :: st, p)).
      { destruct (is_and e1); [apply Va|]. rewrite val_l_app, Va. apply val_norm_bool. }
      va Pre. vs val_eqz. vs val_if.
      vs val_const. rewrite val_l_nil. cbv beta iota. va Vb. rewrite val_norm_bool. reflexivity.
    - destruct (type_of tys sc e1) as [[[]|]|] eqn:Ta; try discriminate;
        destruct (type_of tys sc e2) as [[[]|]|] eqn:Tb; try discriminate. injection Ht as <-.
      split_andb.
      destruct (IHe1 hint _ eq_refl) as (ca & Eca & Va); try assumption.
      destruct (IHe2 hint _ eq_refl) as (cb & Ecb & Vb); try assumption.
      simpl. rewrite Eca, Ecb. eexists. split; [reflexivity|]. intros st p.
      assert (Pre : val_l (if is_or e1 then ca else ca ++ norm_bool) (st, p) = Some (VTI W32 :: st, p)).
      { destruct (is_or e1); [apply Va|]. rewrite val_l_app, Va. apply val_norm_bool. }
      va Pre. vs val_if.
      vs val_const. rewrite val_l_nil. cbv beta iota. va Vb. rewrite val_norm_bool. reflexivity.
    - destruct (type_of tys sc e) as [ta|] eqn:Ta; [|discriminate]. injection Ht as <-.
      destruct (IHe (Some t) ta eq_refl) as (ca & Eca & Va); try assumption.
      simpl. rewrite Eca. eexists. split; [reflexivity|]. intros st p.
      rewrite val_l_app, Va. apply val_cast_code.
  Qed.
End Expr.

Section Stmt.
  Variable tys : list ty.
  Variable np : nat.
  Variable ret : ty.
  Notation lts := (map vt_of tys).
  Notation rt := (vt_of ret).
  Notation val_l := (val_l lts rt).

  Ltac vs L := rewrite val_l_cons, L; cbv beta iota.
  Ltac va L := rewrite val_l_app, L; cbv beta iota.

  (* a statement's code maps the empty operand stack to the empty operand stack; after a
     diverging statement the stack is polymorphic *)
  Definition vcode (code : list instr) (d : bool) : Prop :=
    forall p, exists p', val_l code ([], p) = Some ([], p') /\ (d = true -> p' = true).

  Lemma cexpr_to_valid sc e t hint :
    expr_ok tys sc e t = true -> sflags_expr tys hint e = [] -> pure_expr e = true ->
    exists c, cexpr_to tys hint e t = Some c /\ vexpr tys rt t c.
  Proof.
    intros He Hs Hp. unfold expr_ok in He. apply andb_true_iff in He. destruct He as [_ He].
    destruct (type_of tys sc e) as [t'|] eqn:Te; [|discriminate]. apply ty_eqb_eq in He. subst t'.
    destruct (sflags_expr_nil _ _ _ Hs) as (U & H & M).
    destruct (cexpr_valid tys rt sc e hint t Te Hp H M) as (c & Ec & Vc).
    unfold cexpr_to. rewrite (reparse_id e U), Ec, ty_eqb_refl. eauto.
  Qed.

  Lemma ccond_valid sc c :
    cond_ok tys sc c = true -> sflags_cond tys c = [] -> pure_expr c = true ->
    exists cc, ccond tys c = Some cc /\
      forall st p, val_l cc (st, p) = Some (VTI W32 :: st, p).
  Proof.
    intros He Hs Hp. unfold cond_ok in He. apply andb_true_iff in He. destruct He as [_ He].
    destruct (type_of tys sc c) as [[it|]|] eqn:Te; try discriminate.
    unfold sflags_cond in Hs.
    destruct (sflags_expr_nil _ _ _ Hs) as (U & H & M).
    destruct (cexpr_valid tys rt sc c None (TI it) Te Hp H M) as (cc & Ec & Vc).
    unfold ccond. rewrite (reparse_id c U), Ec. eexists. split; [reflexivity|].
    intros st p. va Vc. unfold truthiness. simpl vt_of. destruct (regw it).
    - apply val_l_nil.
    - vs val_const. vs val_irel. reflexivity.
  Qed.

  Definition vstmt_spec (s : stmt) : Prop :=
    forall sc sc', check_stmt tys np ret sc s = Some sc' -> sflags_stmt tys s = [] ->
    loop_free_stmt s = true ->
    exists code d, (forall dp lp, cstmt tys ret dp lp s = Some (code, d)) /\ vcode code d.
  Definition vblock_spec (b : block) : Prop :=
    forall sc, check_block tys np ret sc b = true -> sflags_block tys b = [] ->
    loop_free_block b = true ->
    exists code d, (forall dp lp, cblock tys ret dp lp b = Some (code, d)) /\ vcode code d.
  Definition vels_spec (el : els) : Prop :=
    forall sc, check_els tys np ret sc el = true -> sflags_els tys el = [] ->
    loop_free_els el = true ->
    exists code he d, (forall dp lp, cels tys ret dp lp el = Some (code, he, d)) /\ vcode code false.

  Lemma vend_none p : vend None ([], p) = true.
  Proof. reflexivity. Qed.

  (* cond; if (then) [else] ; tail *)
  Lemma vif cc cth celo dth del :
    (forall st p, val_l cc (st, p) = Some (VTI W32 :: st, p)) ->
    vcode cth dth ->
    match celo with Some e => vcode e del | None => True end ->
    forall p, val_l (cc ++ [If None cth celo]) ([], p) = Some ([], p).
  Proof.
    intros Vc Vth Vel p. va Vc. vs val_if.
    destruct (Vth false) as (p1 & E1 & _). rewrite E1. cbv beta iota. rewrite vend_none.
    destruct celo as [e|].
    - destruct (Vel false) as (p2 & E2 & _). rewrite E2. cbv beta iota. rewrite vend_none. reflexivity.
    - reflexivity.
  Qed.

  Lemma vstmts_ok :
    (forall s, vstmt_spec s) /\ (forall b, vblock_spec b) /\ (forall el, vels_spec el).
  Proof.
    apply stmt_block_els_ind.
    - (* declaration *)
      intros i t e sc sc' Hc Hs Hp. unf_in Hc; unf_in Hs. simpl in Hp.
      destruct (Nat.leb np i && negb (existsb (Nat.eqb i) sc) &&
                match nth_error tys i with Some t' => ty_eqb t t' | None => false end &&
                expr_ok tys sc e t) eqn:C; [|discriminate]. injection Hc as <-.
      apply andb_true_iff in C. destruct C as [C He]. apply andb_true_iff in C. destruct C as [C Ht].
      destruct (nth_error tys i) as [t'|] eqn:Hn; [|discriminate]. apply ty_eqb_eq in Ht. subst t'.
      destruct (cexpr_to_valid sc e t (Some t) He Hs Hp) as (c & Ec & Vc).
      eexists _, _. split; [intros dp lp; unf; rewrite Hn, Ec; reflexivity|].
      intros p. exists p. split; [|discriminate]. va Vc.
      vs (val_lset lts rt i (vt_of t)); [reflexivity|apply map_nth_error; assumption].
    - (* assignment *)
      intros i e sc sc' Hc Hs Hp. unf_in Hc; unf_in Hs. simpl in Hp.
      destruct (var_ty tys sc i) as [t|] eqn:Hv; [|discriminate].
      destruct (expr_ok tys sc e t) eqn:He; [|discriminate]. injection Hc as <-.
      destruct (var_ty_spec _ _ _ _ Hv) as [Hi Hn]. rewrite Hn in Hs.
      destruct (cexpr_to_valid sc e t (Some t) He Hs Hp) as (c & Ec & Vc).
      eexists _, _. split; [intros dp lp; unf; rewrite Hn, Ec; reflexivity|].
      intros p. exists p. split; [|discriminate]. va Vc.
      vs (val_lset lts rt i (vt_of t)); [reflexivity|apply map_nth_error; assumption].
    - (* compound assignment *)
      intros i op e sc sc' Hc Hs Hp. unf_in Hc; unf_in Hs. simpl in Hp.
      destruct (var_ty tys sc i) as [t|] eqn:Hv; [|discriminate].
      destruct (expr_ok tys sc e t) eqn:He; [|discriminate]. injection Hc as <-.
      destruct (var_ty_spec _ _ _ _ Hv) as [Hi Hn]. rewrite Hn in Hs.
      apply app_nil_inv in Hs. destruct Hs as [Hs Hfm]. apply flag_nil in Hfm.
      destruct (cexpr_to_valid sc e t (Some t) He Hs Hp) as (c & Ec & Vc).
      assert (Ho : exists o, arith_op op t = Some o).
      { destruct t; [simpl; eauto|]. destruct op; simpl; eauto. discriminate. }
      destruct Ho as (o & Eo).
      eexists _, _. split; [intros dp lp; unf; rewrite Hn, Ec, Eo; reflexivity|].
      intros p. exists p. split; [|discriminate].
      assert (Ln : nth_error lts i = Some (vt_of t)) by (apply map_nth_error; assumption).
      vs (val_lget lts rt i (vt_of t)); [|assumption]. va Vc. rewrite val_l_cons.
      destruct t as [it|f]; simpl in Eo.
      + injection Eo as <-. simpl vt_of. rewrite val_ibin. cbv beta iota.
        vs (val_lset lts rt i (VTI (regw it))); [reflexivity|assumption].
      + destruct op; try discriminate; injection Eo as <-; simpl vt_of; rewrite val_fbin; cbv beta iota;
          (vs (val_lset lts rt i (VTF f)); [reflexivity|assumption]).
    - (* if *)
      intros c th Hth el Hel sc sc' Hc Hs Hlf. unf_in Hc; unf_in Hs. simpl in Hlf.
      apply andb_true_iff in Hlf. destruct Hlf as [Lth Lel].
      apply andb_true_iff in Lth. destruct Lth as [Pc Lth].
      destruct (cond_ok tys sc c && check_block tys np ret sc th && check_els tys np ret sc el) eqn:C;
        [|discriminate]. injection Hc as <-.
      apply andb_true_iff in C. destruct C as [C Cel]. apply andb_true_iff in C. destruct C as [Cc Cth].
      apply app_nil_inv in Hs. destruct Hs as [Hsc Hs]. apply app_nil_inv in Hs. destruct Hs as [Hsth Hsel].
      destruct (ccond_valid sc c Cc Hsc Pc) as (cc & Ecc & Vcc).
      destruct (Hth sc Cth Hsth Lth) as (cth & dth & Eth & Vth).
      destruct (Hel sc Cel Hsel Lel) as (cel & he & dall & Eel & Vel).
      destruct el as [|eb|c2 th2 el2].
      + eexists _, _. split; [intros dp lp; unf; rewrite Ecc, Eth; reflexivity|].
        intros p. exists p. split; [|discriminate].
        apply (vif cc cth None dth false Vcc Vth I).
      + eexists _, _. split; [intros dp lp; rewrite cstmt_if, Ecc, Eth, Eel; reflexivity|]. intros p.
        pose proof (vif cc cth (Some cel) dth false Vcc Vth Vel p) as V. cbv zeta.
        destruct (he && dth && dall).
        * exists true. split; [|reflexivity]. rewrite app_assoc, val_l_app, V. cbv beta iota.
          vs val_unreachable. reflexivity.
        * exists p. split; [|discriminate]. rewrite app_nil_r. exact V.
      + eexists _, _. split; [intros dp lp; rewrite cstmt_if, Ecc, Eth, Eel; reflexivity|]. intros p.
        pose proof (vif cc cth (Some cel) dth false Vcc Vth Vel p) as V. cbv zeta.
        destruct (he && dth && dall).
        * exists true. split; [|reflexivity]. rewrite app_assoc, val_l_app, V. cbv beta iota.
          vs val_unreachable. reflexivity.
        * exists p. split; [|discriminate]. rewrite app_nil_r. exact V.
    - (* return *)
      intros e sc sc' Hc Hs Hp. unf_in Hc; unf_in Hs. simpl in Hp.
      destruct (expr_ok tys sc e ret) eqn:He; [|discriminate]. injection Hc as <-.
      destruct (cexpr_to_valid sc e ret None He Hs Hp) as (c & Ec & Vc).
      eexists _, _. split; [intros dp lp; unf; rewrite Ec; reflexivity|].
      intros p. exists true. split; [|reflexivity]. va Vc. vs val_return. reflexivity.
    - intros c b _ sc sc' _ _ H. discriminate.
    - intros b _ sc sc' _ _ H. discriminate.
    - intros i lim t start stop step b _ sc sc' _ _ H. discriminate.
    - intros sc sc' _ _ H. discriminate.
    - intros sc sc' _ _ H. discriminate.
    - intros i t e sc sc' _ _ H. discriminate.
    - intros i e sc sc' _ _ H. discriminate.
    - intros i op e sc sc' _ _ H. discriminate.
    - (* empty block *)
      intros sc _ _ _. eexists _, _. split; [intros dp lp; reflexivity|].
      intros p. exists p. split; [reflexivity|discriminate].
    - (* s ; rest *)
      intros s Hs b Hb sc Hc Hf Hlf. unf_in Hc; unf_in Hf. simpl in Hlf.
      apply andb_true_iff in Hlf. destruct Hlf as [Ls Lb].
      destruct (check_stmt tys np ret sc s) as [sc'|] eqn:Cs; [|discriminate].
      apply app_nil_inv in Hf. destruct Hf as [Hf1 Hf2].
      destruct (Hs sc sc' Cs Hf1 Ls) as (cs & ds & Ecs & Vs).
      destruct (Hb sc' Hc Hf2 Lb) as (cr & dr & Ecr & Vr).
      destruct ds.
      + eexists _, _. split; [intros dp lp; rewrite cblock_cons, Ecs; reflexivity|]. exact Vs.
      + eexists _, _. split; [intros dp lp; rewrite cblock_cons, Ecs, Ecr; reflexivity|]. intros p.
        destruct (Vs p) as (p1 & E1 & _). destruct (Vr p1) as (p2 & E2 & D2).
        exists p2. split; [|assumption]. va E1. exact E2.
    - (* no else *)
      intros sc _ _ _. eexists _, _, _. split; [intros dp lp; reflexivity|].
      intros p. exists p. split; [reflexivity|discriminate].
    - (* else *)
      intros b Hb sc Hc Hf Hlf. unf_in Hc; unf_in Hf. simpl in Hlf.
      destruct (Hb sc Hc Hf Hlf) as (cb & db & Ecb & Vb).
      eexists _, _, _. split; [intros dp lp; rewrite cels_else, Ecb; reflexivity|].
      intros p. destruct (Vb p) as (p' & E & _). exists p'. split; [assumption|discriminate].
    - (* else if *)
      intros c th Hth el Hel sc Hc Hs Hlf. unf_in Hc; unf_in Hs. simpl in Hlf.
      apply andb_true_iff in Hlf. destruct Hlf as [Lth Lel].
      apply andb_true_iff in Lth. destruct Lth as [Pc Lth].
      apply andb_true_iff in Hc. destruct Hc as [C Cel]. apply andb_true_iff in C. destruct C as [Cc Cth].
      apply app_nil_inv in Hs. destruct Hs as [Hsc Hs]. apply app_nil_inv in Hs. destruct Hs as [Hsth Hsel].
      destruct (ccond_valid sc c Cc Hsc Pc) as (cc & Ecc & Vcc).
      destruct (Hth sc Cth Hsth Lth) as (cth & dth & Eth & Vth).
      destruct (Hel sc Cel Hsel Lel) as (cel & he & dall & Eel & Vel).
      eexists _, _, _. split; [intros dp lp; rewrite cels_elif, Ecc, Eth, Eel; reflexivity|]. intros p.
      exists p. split; [apply (vif cc cth (Some cel) dth false Vcc Vth Vel)|discriminate].
  Qed.

  (* "returns on all paths" makes the compiler's divergence flag true *)
  Definition rstmt_spec (s : stmt) : Prop :=
    forall dp lp code d, cstmt tys ret dp lp s = Some (code, d) -> returns_stmt s = true -> d = true.
  Definition rblock_spec (b : block) : Prop :=
    forall dp lp code d, cblock tys ret dp lp b = Some (code, d) -> returns_block b = true -> d = true.
  Definition rels_spec (el : els) : Prop :=
    forall dp lp code he d, cels tys ret dp lp el = Some (code, he, d) -> returns_els el = true -> he = true /\ d = true.

  Lemma returns_diverge :
    (forall s, rstmt_spec s) /\ (forall b, rblock_spec b) /\ (forall el, rels_spec el).
  Proof.
    apply stmt_block_els_ind.
    - intros i t e dp lp code d _ H. discriminate.
    - intros i e dp lp code d _ H. discriminate.
    - intros i op e dp lp code d _ H. discriminate.
    - intros c th Hth el Hel dp lp code d Hc Hr. rewrite cstmt_if in Hc.
      simpl in Hr. apply andb_true_iff in Hr. destruct Hr as [Rth Rel].
      destruct (ccond tys c) as [cc|]; [|discriminate].
      destruct (cblock tys ret (S dp) lp th) as [[cth dth]|] eqn:Eth; [|discriminate].
      assert (Dth : dth = true) by (eapply Hth; eauto).
      destruct el as [|eb|c2 th2 el2]; [discriminate| |].
      + destruct (cels tys ret (S dp) lp (ElElse eb)) as [[[cel he] dall]|] eqn:Eel; [|discriminate].
        destruct (Hel _ _ _ _ _ Eel Rel) as [-> ->]. injection Hc as _ <-. subst dth. reflexivity.
      + destruct (cels tys ret (S dp) lp (ElElif c2 th2 el2)) as [[[cel he] dall]|] eqn:Eel; [|discriminate].
        destruct (Hel _ _ _ _ _ Eel Rel) as [-> ->]. injection Hc as _ <-. subst dth. reflexivity.
    - intros e dp lp code d Hc _. rewrite cstmt_return in Hc.
      destruct (cexpr_to tys None e ret); [|discriminate]. injection Hc as _ <-. reflexivity.
    - intros c b _ dp lp code d _ H. discriminate.
    - intros b _ dp lp code d _ H. discriminate.
    - intros i lim t start stop step b _ dp lp code d _ H. discriminate.
    - intros dp lp code d _ H. discriminate.
    - intros dp lp code d _ H. discriminate.
    - intros i t e dp lp code d _ H. discriminate.
    - intros i e dp lp code d _ H. discriminate.
    - intros i op e dp lp code d _ H. discriminate.
    - intros dp lp code d _ H. discriminate.
    - intros s Hs b Hb dp lp code d Hc Hr. rewrite cblock_cons in Hc. simpl in Hr.
      destruct (cstmt tys ret dp lp s) as [[cs ds]|] eqn:Ecs; [|discriminate]. destruct ds.
      + injection Hc as _ <-. reflexivity.
      + destruct (cblock tys ret dp lp b) as [[cr dr]|] eqn:Ecr; [|discriminate]. injection Hc as _ <-.
        apply orb_true_iff in Hr. destruct Hr as [Hr|Hr].
        * specialize (Hs _ _ _ _ Ecs Hr). discriminate.
        * eapply Hb; eauto.
    - intros dp lp code he d _ H. discriminate.
    - intros b Hb dp lp code he d Hc Hr. rewrite cels_else in Hc. simpl in Hr.
      destruct (cblock tys ret dp lp b) as [[cb db]|] eqn:Ecb; [|discriminate]. injection Hc as _ <- <-.
      split; [reflexivity|]. eapply Hb; eauto.
    - intros c th Hth el Hel dp lp code he d Hc Hr. rewrite cels_elif in Hc. simpl in Hr.
      apply andb_true_iff in Hr. destruct Hr as [Rth Rel].
      destruct (ccond tys c) as [cc|]; [|discriminate].
      destruct (cblock tys ret (S dp) lp th) as [[cth dth]|] eqn:Eth; [|discriminate].
      destruct (cels tys ret (S dp) lp el) as [[[cel he'] dall]|] eqn:Eel; [|discriminate].
      injection Hc as _ <- <-. destruct (Hel _ _ _ _ _ Eel Rel) as [-> ->].
      rewrite (Hth _ _ _ _ Eth Rth). split; reflexivity.
  Qed.
End Stmt.

Lemma locals_ok_eq f : locals_ok f = true -> map snd (decls_block (f_body f)) = f_locals f.
Proof.
  unfold locals_ok. intros H. apply andb_true_iff in H. destruct H as [_ H].
  revert H. generalize (map snd (decls_block (f_body f))) (f_locals f).
  induction l as [|x l IH]; intros [|y m] H; try discriminate; [reflexivity|].
  apply andb_true_iff in H. destruct H as [E H]. apply ty_eqb_eq in E. subst y. f_equal. apply IH. exact H.
Qed.

(* the emitted function validates *)
Theorem validates_partial f :
  check_func f = true -> locals_ok f = true -> loop_free_block (f_body f) = true ->
  f_virt f = [] -> static_flags f = [] ->
  exists w, compile f = Some w /\ validate w = true.
Proof.
  intros Hc Hl Hlf Hv Hs. unfold static_flags in Hs. apply app_nil_inv in Hs. destruct Hs as [Hs _].
  unfold check_func in Hc. apply andb_true_iff in Hc. destruct Hc as [Hc Hr].
  destruct (vstmts_ok (f_tys f) (length (f_params f)) (f_ret f)) as (_ & HB & _).
  destruct (HB (f_body f) _ Hc Hs Hlf) as (code & d & Ec & V).
  destruct (returns_diverge (f_tys f) (f_ret f)) as (_ & RB & _).
  pose proof (RB (f_body f) 0%nat None code d (Ec 0%nat None) Hr) as D.
  unfold compile. rewrite (Ec 0%nat None). eexists. split; [reflexivity|].
  unfold validate. simpl w_params. simpl w_locals. simpl w_result. simpl w_body.
  rewrite (locals_ok_eq f Hl), <- map_app.
  replace (f_params f ++ f_locals f) with (f_tys f) by (unfold f_tys; rewrite Hv, app_nil_r; reflexivity).
  destruct (V false) as (p' & E & P). rewrite E. rewrite (P D). reflexivity.
Qed.
