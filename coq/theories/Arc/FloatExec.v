(* Arc/FloatExec.v — an executable instance of the float operations: IEEE-754 binary32/binary64
   with round-to-nearest-even, from Coq's standard library Floats.SpecFloat (pure Gallina, no
   primitive floats). Used only to EVALUATE generated cases (model vs wazero, monitor); the
   theorems of C19 quantify over every [float_ops]. NaN payloads are not represented: every NaN
   is the canonical quiet NaN (the runner canonicalises wazero's NaNs the same way).
   Float '%' and float '^' (host math.Pow) have no executable model here: programs using them
   are compared on emitted code only. No proofs in this file. *)
From Coq Require Import ZArith List Bool SpecFloat.
From Synnax Require Import Arc.Syntax Arc.Spec.
Local Open Scope Z_scope.

Definition fprec (t : fty) : Z := match t with F32 => 24 | F64 => 53 end.
Definition femax (t : fty) : Z := match t with F32 => 128 | F64 => 1024 end.
Definition fmant_bits (t : fty) : Z := fprec t - 1.                       (* 23 / 52 *)
Definition fexp_bits (t : fty) : Z := match t with F32 => 8 | F64 => 11 end.
Definition fbias_shift (t : fty) : Z := femax t - 1 + fmant_bits t.        (* 150 / 1075 *)

Definition sf_of_bits (t : fty) (b : Z) : spec_float :=
  let mb := fmant_bits t in
  let m := b mod 2 ^ mb in
  let e := (b / 2 ^ mb) mod 2 ^ fexp_bits t in
  let s := negb ((b / 2 ^ (mb + fexp_bits t)) mod 2 =? 0) in
  if e =? 0 then
    match m with Zpos p => S754_finite s p (3 - femax t - fprec t) | _ => S754_zero s end
  else if e =? 2 ^ fexp_bits t - 1 then
    (if m =? 0 then S754_infinity s else S754_nan)
  else
    match m + 2 ^ mb with Zpos p => S754_finite s p (e - fbias_shift t) | _ => S754_nan end.

Definition sign_bit (t : fty) (s : bool) : Z := if s then 2 ^ (fmant_bits t + fexp_bits t) else 0.

Definition bits_of_sf (t : fty) (x : spec_float) : Z :=
  let mb := fmant_bits t in
  match x with
  | S754_zero s => sign_bit t s
  | S754_infinity s => sign_bit t s + (2 ^ fexp_bits t - 1) * 2 ^ mb
  | S754_nan => (2 ^ fexp_bits t - 1) * 2 ^ mb + 2 ^ (mb - 1)
  | S754_finite s m e =>
      if 2 ^ mb <=? Zpos m
      then sign_bit t s + (e + fbias_shift t) * 2 ^ mb + (Zpos m - 2 ^ mb)
      else sign_bit t s + Zpos m
  end.

Definition sf_arith (t : fty) (op : arith) (x y : spec_float) : spec_float :=
  match op with
  | AAdd => SFadd (fprec t) (femax t) x y
  | ASub => SFsub (fprec t) (femax t) x y
  | AMul => SFmul (fprec t) (femax t) x y
  | ADiv => SFdiv (fprec t) (femax t) x y
  | AMod => S754_nan            (* not modelled *)
  end.

Definition sf_cmp (t : fty) (op : cmp) (x y : spec_float) : bool :=
  match op with
  | CEq => SFeqb x y
  | CNe => negb (SFeqb x y)
  | CLt => SFltb x y
  | CGt => SFltb y x
  | CLe => SFleb x y
  | CGe => SFleb y x
  end.

Definition sf_to_int (t : fty) (x : spec_float) : fint :=
  match x with
  | S754_zero _ => FFin 0
  | S754_infinity s => FInf s
  | S754_nan => FNaN
  | S754_finite s m e =>
      let a := if 0 <=? e then Zpos m * 2 ^ e else Zpos m / 2 ^ (- e) in
      FFin (if s then - a else a)
  end.

Definition sf_round (t : fty) (x : spec_float) : spec_float :=
  match x with
  | S754_finite s m e => binary_round (fprec t) (femax t) s m e
  | _ => x
  end.

Definition fo_exec : float_ops := {|
  F := spec_float;
  f_of_bits := sf_of_bits;
  f_bits := bits_of_sf;
  f_arith := sf_arith;
  f_pow := fun _ _ _ => S754_nan;      (* not modelled *)
  f_neg := fun _ x => SFopp x;
  f_cmp := sf_cmp;
  f_of_int := fun t z => binary_normalize (fprec t) (femax t) z 0 false;
  f_to_int := sf_to_int;
  f_cvt := fun _ to x => sf_round to x
|}.
