(* Arc/Sim.v — how source values sit in WebAssembly registers (the simulation relation used by
   the statement of C19_compile_correct_partial). No proofs in this file. *)
From Coq Require Import ZArith List Bool.
From Synnax Require Import Arc.Syntax Arc.Spec Arc.Wasm.
Import ListNotations.
Local Open Scope Z_scope.

(* canonical register image of an in-range integer of type t: two's complement at the width of
   the register (so signed narrow values are sign-extended) *)
Definition canon (t : ity) (z : Z) : Z := z mod wmod (regw t).

Section Sim.
  Variable fo : float_ops.

  Definition wv (t : ty) (v : val fo) : wval fo :=
    match t, v with
    | TI it, VI z => WI (regw it) (canon it z)
    | TF f, VF x => WF f x
    | TI it, VF _ => WI (regw it) 0
    | TF f, VI _ => WF f (f_of_bits fo f 0)
    end.

  (* v is a value of type t *)
  Definition vok (t : ty) (v : val fo) : Prop :=
    match t, v with
    | TI it, VI z => in_range it z = true
    | TF _, VF _ => True
    | _, _ => False
    end.

  Fixpoint wvs (ts : list ty) (vs : list (val fo)) : list (wval fo) :=
    match ts, vs with
    | t :: tr, v :: vr => wv t v :: wvs tr vr
    | _, _ => []
    end.
End Sim.
