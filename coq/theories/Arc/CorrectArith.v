(* Arc/CorrectArith.v — arithmetic facts relating the source-level integer semantics (wrap,
   clamp, ranges) to register arithmetic mod 2^32 / 2^64. *)
From Coq Require Import ZArith List Bool Lia Zpow_facts.
From Synnax Require Import Arc.Syntax Arc.Spec Arc.Wasm Arc.Compile Arc.Guard Arc.Sim.
Import ListNotations.
Local Open Scope Z_scope.

Ltac Zify.zify_post_hook ::= Z.div_mod_to_equations.

Lemma in_range_iff t z : in_range t z = true <-> imin t <= z <= imax t.
Proof. unfold in_range. rewrite andb_true_iff, !Z.leb_le. tauto. Qed.

Lemma in_range_false t z : in_range t z = false <-> ~ (imin t <= z <= imax t).
Proof. rewrite <- in_range_iff. destruct (in_range t z); split; congruence || tauto. Qed.

Ltac closed_pows :=
  repeat match goal with
  | |- context [Z.pow_pos 2 ?n] =>
      let v := eval vm_compute in (Z.pow_pos 2 n) in change (Z.pow_pos 2 n) with v
  | H : context [Z.pow_pos 2 ?n] |- _ =>
      let v := eval vm_compute in (Z.pow_pos 2 n) in change (Z.pow_pos 2 n) with v in H
  end.
Ltac ity_cases t :=
  destruct t; unfold imin, imax, wmod, wbits in *; simpl in *; closed_pows.

Lemma wrap_in_range t z : in_range t (wrap t z) = true.
Proof.
  apply in_range_iff. unfold wrap.
  ity_cases t;
    repeat match goal with |- context [?a <=? ?b] => destruct (Z.leb_spec a b) end; lia.
Qed.

Lemma wrap_id t z : in_range t z = true -> wrap t z = z.
Proof.
  intros H. apply in_range_iff in H. unfold wrap.
  ity_cases t;
    repeat match goal with |- context [?a <=? ?b] => destruct (Z.leb_spec a b) end; lia.
Qed.

Lemma clamp_in_range t z : in_range t (clamp t z) = true.
Proof. apply in_range_iff. unfold clamp. ity_cases t; lia. Qed.

Lemma clamp_id t z : in_range t z = true -> clamp t z = z.
Proof. intros H. apply in_range_iff in H. unfold clamp. ity_cases t; lia. Qed.

(* the register image of a wrapped result, when the type fills its register or nothing overflowed *)
Lemma canon_wrap t z :
  narrow t = false \/ in_range t z = true -> canon t (wrap t z) = z mod wmod (regw t).
Proof.
  intros [H | H].
  - unfold canon, wrap, narrow in *.
    ity_cases t; try discriminate;
      repeat match goal with |- context [?a <=? ?b] => destruct (Z.leb_spec a b) end; lia.
  - rewrite wrap_id by assumption. reflexivity.
Qed.

Lemma canon_range t z : 0 <= canon t z < wmod (regw t).
Proof. unfold canon. apply Z.mod_pos_bound. destruct t; reflexivity. Qed.

(* signed / unsigned reading of the canonical image gives the value back *)
Lemma sgn_canon t z : in_range t z = true -> signed t = true -> sgn (regw t) (canon t z) = z.
Proof.
  intros H S. apply in_range_iff in H. unfold sgn, canon.
  ity_cases t; try discriminate;
    repeat match goal with |- context [?a <=? ?b] => destruct (Z.leb_spec a b) end; lia.
Qed.

Lemma canon_unsigned t z : in_range t z = true -> signed t = false -> canon t z = z.
Proof.
  intros H S. apply in_range_iff in H. unfold canon.
  ity_cases t; try discriminate; lia.
Qed.

Lemma canon_nonneg t z : in_range t z = true -> 0 <= z -> canon t z = z.
Proof.
  intros H S. apply in_range_iff in H. unfold canon.
  ity_cases t; lia.
Qed.

Lemma canon_inj t a b :
  in_range t a = true -> in_range t b = true -> canon t a = canon t b -> a = b.
Proof.
  intros Ha Hb E. destruct (signed t) eqn:S.
  - rewrite <- (sgn_canon t a), <- (sgn_canon t b) by assumption. congruence.
  - rewrite <- (canon_unsigned t a), <- (canon_unsigned t b) by assumption. assumption.
Qed.

Lemma canon_zero t z : in_range t z = true -> (canon t z =? 0) = (z =? 0).
Proof.
  intros H. destruct (Z.eqb_spec z 0) as [->|N].
  - destruct t; reflexivity.
  - apply Z.eqb_neq. intros E. apply N.
    apply (canon_inj t z 0); auto. destruct t; reflexivity.
Qed.

Lemma to_ity_wrap t z : to_ity t z = wrap t z.
Proof. reflexivity. Qed.

Lemma wrap_canon t z : in_range t z = true -> wrap t (canon t z) = z.
Proof.
  intros H. apply in_range_iff in H. unfold wrap, canon.
  ity_cases t;
    repeat match goal with |- context [?a <=? ?b] => destruct (Z.leb_spec a b) end; lia.
Qed.

(* ---- ranges of quotient and remainder ---- *)
Lemma rem_between a b : b <> 0 -> (0 <= a -> 0 <= Z.rem a b <= a) /\ (a <= 0 -> a <= Z.rem a b <= 0).
Proof.
  intros Nb.
  assert (P : forall x, 0 <= x -> 0 <= Z.rem x b <= x).
  { intros x Hx. rewrite <- Z.rem_abs_r by assumption.
    rewrite Z.rem_mod_nonneg by lia.
    split. apply Z.mod_pos_bound; lia. apply Z.mod_le; lia. }
  split; intros H.
  - apply P; assumption.
  - assert (E : Z.rem a b = - Z.rem (- a) b) by (rewrite Z.rem_opp_l by assumption; lia).
    rewrite E. specialize (P (- a)). lia.
Qed.

Lemma rem_in_range t a b :
  in_range t a = true -> in_range t b = true -> b <> 0 -> in_range t (Z.rem a b) = true.
Proof.
  intros Ha Hb Nb. apply in_range_iff in Ha. apply in_range_iff.
  destruct (rem_between a b Nb) as [P N].
  assert (imin t <= 0 <= imax t) by (ity_cases t; lia).
  destruct (Z_le_gt_dec 0 a); [specialize (P ltac:(lia))|specialize (N ltac:(lia))]; lia.
Qed.

Lemma unsigned_quot t a b :
  signed t = false -> in_range t a = true -> in_range t b = true -> b <> 0 ->
  Z.quot a b = a / b /\ Z.rem a b = a mod b /\ in_range t (a / b) = true.
Proof.
  intros S Ha Hb Nb. apply in_range_iff in Ha. apply in_range_iff in Hb.
  assert (0 <= a /\ 0 < b) as [A B] by (ity_cases t; try discriminate; lia).
  rewrite Z.quot_div_nonneg, Z.rem_mod_nonneg by lia.
  repeat split. apply in_range_iff.
  assert (0 <= a / b <= a).
  { split. apply Z.div_pos; lia. apply Z.div_le_upper_bound; nia. }
  ity_cases t; try discriminate; lia.
Qed.

(* ---- one lemma per WebAssembly integer instruction used by the compiler ---- *)
Section Ops.
  Variable fo : float_ops.

  Lemma wmod_pos w : 0 < wmod w.
  Proof. destruct w; reflexivity. Qed.

  Lemma add_ok t a b :
    canon t (wrap t (a + b)) = (a + b) mod wmod (regw t) ->
    ibin_sem (regw t) IAdd (canon t a) (canon t b) = inr (canon t (wrap t (a + b))).
  Proof.
    intros ->. unfold ibin_sem, canon. f_equal. symmetry. apply Zplus_mod.
  Qed.

  Lemma sub_ok t a b :
    canon t (wrap t (a - b)) = (a - b) mod wmod (regw t) ->
    ibin_sem (regw t) ISub (canon t a) (canon t b) = inr (canon t (wrap t (a - b))).
  Proof.
    intros ->. unfold ibin_sem, canon. f_equal. symmetry. apply Zminus_mod.
  Qed.

  Lemma mul_ok t a b :
    canon t (wrap t (a * b)) = (a * b) mod wmod (regw t) ->
    ibin_sem (regw t) IMul (canon t a) (canon t b) = inr (canon t (wrap t (a * b))).
  Proof.
    intros ->. unfold ibin_sem, canon. f_equal. symmetry. apply Zmult_mod.
  Qed.

  Lemma neg_ok t a :
    canon t (wrap t (- a)) = (- a) mod wmod (regw t) ->
    ibin_sem (regw t) IMul (canon t a) ((-1) mod wmod (regw t)) = inr (canon t (wrap t (- a))).
  Proof.
    intros ->. unfold ibin_sem, canon. f_equal.
    rewrite <- Zmult_mod. f_equal. lia.
  Qed.

  Lemma divs_ok t a b :
    signed t = true -> in_range t a = true -> in_range t b = true -> b <> 0 ->
    in_range t (Z.quot a b) = true ->
    ibin_sem (regw t) IDivS (canon t a) (canon t b) = inr (canon t (wrap t (Z.quot a b))).
  Proof.
    intros S Ha Hb Nb Hq. unfold ibin_sem.
    rewrite (canon_zero t b Hb). rewrite (proj2 (Z.eqb_neq b 0) Nb).
    rewrite !sgn_canon by assumption.
    assert (O : (a =? - 2 ^ (wbits (regw t) - 1)) && (b =? -1) = false).
    { apply andb_false_iff.
      destruct (Z.eqb_spec a (- 2 ^ (wbits (regw t) - 1))) as [Ea|]; [|left; reflexivity].
      destruct (Z.eqb_spec b (-1)) as [Eb|]; [|right; reflexivity]. exfalso.
      subst b.
      assert (Eq : Z.quot a (-1) = - a).
      { change (-1) with (Z.opp 1). rewrite Z.quot_opp_r by lia. rewrite Z.quot_1_r. reflexivity. }
      rewrite Eq in Hq.
      apply in_range_iff in Hq. apply in_range_iff in Ha.
      ity_cases t; try discriminate; lia. }
    rewrite O. rewrite wrap_id by assumption. reflexivity.
  Qed.

  Lemma divu_ok t a b :
    signed t = false -> in_range t a = true -> in_range t b = true -> b <> 0 ->
    ibin_sem (regw t) IDivU (canon t a) (canon t b) = inr (canon t (wrap t (Z.quot a b))).
  Proof.
    intros S Ha Hb Nb. unfold ibin_sem.
    rewrite (canon_zero t b Hb). rewrite (proj2 (Z.eqb_neq b 0) Nb).
    destruct (unsigned_quot t a b S Ha Hb Nb) as (Q & _ & R).
    rewrite Q, wrap_id by assumption.
    rewrite !canon_unsigned by assumption. reflexivity.
  Qed.

  Lemma rems_ok t a b :
    signed t = true -> in_range t a = true -> in_range t b = true -> b <> 0 ->
    ibin_sem (regw t) IRemS (canon t a) (canon t b) = inr (canon t (wrap t (Z.rem a b))).
  Proof.
    intros S Ha Hb Nb. unfold ibin_sem.
    rewrite (canon_zero t b Hb). rewrite (proj2 (Z.eqb_neq b 0) Nb).
    rewrite !sgn_canon by assumption.
    rewrite wrap_id by (apply rem_in_range; assumption). reflexivity.
  Qed.

  Lemma remu_ok t a b :
    signed t = false -> in_range t a = true -> in_range t b = true -> b <> 0 ->
    ibin_sem (regw t) IRemU (canon t a) (canon t b) = inr (canon t (wrap t (Z.rem a b))).
  Proof.
    intros S Ha Hb Nb. unfold ibin_sem.
    rewrite (canon_zero t b Hb). rewrite (proj2 (Z.eqb_neq b 0) Nb).
    destruct (unsigned_quot t a b S Ha Hb Nb) as (_ & Q & _).
    rewrite wrap_id by (apply rem_in_range; assumption).
    rewrite !canon_unsigned by (try apply rem_in_range; assumption). rewrite Q. reflexivity.
  Qed.

  Lemma div_zero_trap t op a :
    in_range t 0 = true ->
    (op = IDivS \/ op = IDivU \/ op = IRemS \/ op = IRemU) ->
    ibin_sem (regw t) op a (canon t 0) = inl TDivZero.
  Proof.
    intros _ H. assert (E : canon t 0 = 0) by (destruct t; reflexivity). rewrite E.
    destruct H as [-> | [-> | [-> | ->]]]; reflexivity.
  Qed.

  (* comparisons *)
  Lemma cmp_ok t op a b :
    in_range t a = true -> in_range t b = true ->
    match cmp_op op (TI t) with
    | IRel w r => w = regw t /\ irel_sem w r (canon t a) (canon t b) = int_cmp op a b
    | _ => False
    end.
  Proof.
    intros Ha Hb. unfold cmp_op. split; [reflexivity|].
    destruct (signed t) eqn:S.
    - destruct op; simpl; rewrite ?sgn_canon by assumption; try reflexivity.
      + destruct (Z.eqb_spec a b) as [->|N]; [apply Z.eqb_refl|].
        apply Z.eqb_neq. intros E. apply N. eapply canon_inj; eauto.
      + f_equal. destruct (Z.eqb_spec a b) as [->|N]; [apply Z.eqb_refl|].
        apply Z.eqb_neq. intros E. apply N. eapply canon_inj; eauto.
    - destruct op; simpl; rewrite ?canon_unsigned by assumption; reflexivity.
  Qed.
End Ops.
