(* Arc/CorrectStmt.v — compiled statements, blocks and functions compute the specified
   outcome: simulation by mutual induction on statements, on the guarded fragment. *)
From Coq Require Import ZArith List Bool Lia.
From Synnax Require Import Arc.Syntax Arc.Spec Arc.Wasm Arc.Compile Arc.Guard Arc.Sim
  Arc.CorrectArith Arc.CorrectExpr Arc.StmtEqs.
Import ListNotations.
Local Open Scope Z_scope.

Arguments Wasm.exec_i : simpl never.
Arguments Wasm.exec_l : simpl never.

Scheme stmt_mut := Induction for stmt Sort Prop
  with block_mut := Induction for block Sort Prop
  with els_mut := Induction for els Sort Prop.
Combined Scheme stmt_block_els_ind from stmt_mut, block_mut, els_mut.

(* ---------------------------------------------------------------- locals *)
Section SetNth.
  Variable fo : float_ops.

  Lemma set_nth_some n (v : wval fo) l : (n < length l)%nat -> exists l', set_nth fo n v l = Some l'.
  Proof.
    revert l. induction n; intros [|x l] H; simpl in *; try lia; [eauto|].
    destruct (IHn l) as (l' & ->); [lia|eauto].
  Qed.

  Lemma set_nth_spec n (v : wval fo) l l' :
    set_nth fo n v l = Some l' ->
    length l' = length l /\ nth_error l' n = Some v /\
    forall m, m <> n -> nth_error l' m = nth_error l m.
  Proof.
    revert l l'. induction n; intros [|x l] l' H; simpl in H; try discriminate.
    - injection H as <-. repeat split. intros [|m] Hm; [congruence|reflexivity].
    - destruct (set_nth fo n v l) as [r|] eqn:E; [|discriminate]. injection H as <-.
      destruct (IHn _ _ E) as (L & N & O). repeat split; simpl; [congruence|assumption|].
      intros [|m] Hm; [reflexivity|]. simpl. apply O. congruence.
  Qed.
End SetNth.

(* ---------------------------------------------------------------- static guards, unpacked *)
Lemma sflags_expr_nil tys hint e :
  sflags_expr tys hint e = [] ->
  uop_free e = true /\ hint_ok tys hint e = true /\ float_mod_free tys e = true.
Proof.
  unfold sflags_expr. intros H.
  apply app_nil_inv in H. destruct H as [H1 H].
  apply app_nil_inv in H. destruct H as [H2 H3].
  apply flag_nil in H1, H2, H3. apply negb_false_iff in H1, H2, H3. auto.
Qed.

Section Stmt.
  Variable fo : float_ops.
  Variable tys : list ty.
  Variable np : nat.
  Variable ret : ty.
  Notation exec_l := (exec_l fo).
  Notation exec_i := (exec_i fo).
  Notation wv := (wv fo).
  Notation vok := (vok fo).
  Notation eval := (eval fo tys).
  Notation sim := (sim fo tys).
  Notation esim := (esim fo).

  (* what running the code of a statement / block must do, given the specified outcome *)
  Definition osim (code : list instr) (ro : res (Spec.outcome fo)) (sc : list nat) (ls : list (wval fo)) : Prop :=
    match ro with
    | Ok (Next r') => exists ls', exec_l code [] ls = ONorm [] ls' /\ sim sc r' ls'
    | Ok (Ret v _) => vok ret v /\ exists ls', exec_l code [] ls = ORet (wv ret v) ls'
    | Ok (Brk _) | Ok (Cont _) => False        (* cannot happen in loop-free code *)
    | RtErr => exec_l code [] ls = OTrap TDivZero
    | Unspec => True
    end.

  Definition never_next (ro : res (Spec.outcome fo)) : Prop := forall r', ro <> Ok (Next r').

  Lemma sim_weaken sc sc' r ls : incl sc sc' -> sim sc' r ls -> sim sc r ls.
  Proof. intros I [L S]. split; [assumption|]. intros i t Hi. apply S. apply I. assumption. Qed.

  Lemma check_stmt_loopish sc s sc' :
    loop_free_stmt s = false -> check_stmt tys np ret sc s = Some sc' -> incl sc sc'.
  Proof.
    destruct s; intros _ H; cbn in H;
      repeat match type of H with
             | (if ?c then _ else _) = _ => destruct c; [|discriminate]
             | match ?c with Some _ => _ | None => _ end = _ => destruct c; [|discriminate]
             end;
      inversion H; subst; try apply incl_refl; apply incl_tl, incl_refl.
  Qed.

  Lemma check_stmt_incl sc s sc' : check_stmt tys np ret sc s = Some sc' -> incl sc sc'.
  Proof.
    destruct (loop_free_stmt s) eqn:L.
    2:{ apply check_stmt_loopish. assumption. }
    destruct s; try discriminate; intros H; unf_in H;
      repeat match type of H with
             | (if ?c then _ else _) = _ => destruct c; [|discriminate]
             | match ?c with Some _ => _ | None => _ end = _ => destruct c; [|discriminate]
             end;
      inversion H; subst; try apply incl_refl. apply incl_tl, incl_refl.
  Qed.

  (* a well-typed expression in a value position: compiles, and computes its value *)
  Lemma cexpr_to_ok sc e t hint :
    expr_ok tys sc e t = true -> sflags_expr tys hint e = [] -> pure_expr e = true ->
    exists c, cexpr_to tys hint e t = Some c /\
      forall r ls, sim sc r ls -> dflags fo tys r e = [] -> esim t c (eval r e) ls.
  Proof.
    intros He Hs Hp. unfold expr_ok in He. apply andb_true_iff in He. destruct He as [_ He].
    destruct (type_of tys sc e) as [t'|] eqn:Te; [|discriminate]. apply ty_eqb_eq in He. subst t'.
    destruct (sflags_expr_nil _ _ _ Hs) as (U & H & M).
    destruct (cexpr_correct fo tys sc e hint t Te Hp H M) as (c & Ec & Sc).
    unfold cexpr_to. rewrite (reparse_id e U), Ec, ty_eqb_refl. eauto.
  Qed.

  (* a condition: compiles; leaves a 32-bit register that is zero iff the value is false *)
  Lemma ccond_ok sc c :
    cond_ok tys sc c = true -> sflags_cond tys c = [] -> pure_expr c = true ->
    exists cc, ccond tys c = Some cc /\
      forall r ls, sim sc r ls -> dflags fo tys r c = [] ->
        forall st,
        match eval r c with
        | Ok (VI z) => exists w, exec_l cc st ls = ONorm (WI W32 w :: st) ls /\ (w =? 0) = negb (truthy z)
        | Ok (VF _) => False
        | RtErr => exec_l cc st ls = OTrap TDivZero
        | Unspec => True
        end.
  Proof.
    intros He Hs Hp. unfold cond_ok in He. apply andb_true_iff in He. destruct He as [_ He].
    destruct (type_of tys sc c) as [[it|]|] eqn:Te; try discriminate.
    unfold sflags_cond in Hs.
    destruct (sflags_expr_nil _ _ _ Hs) as (U & H & M).
    destruct (cexpr_correct fo tys sc c None (TI it) Te Hp H M) as (cc & Ec & Sc).
    unfold ccond. rewrite (reparse_id c U), Ec. eexists. split; [reflexivity|].
    intros r ls Hsim Hd st. specialize (Sc r ls Hsim Hd st).
    destruct (eval r c) as [[z|x]| |]; try assumption.
    - destruct Sc as [V X]. simpl in V, X. unfold truthiness. simpl vt_of.
      destruct (regw it) eqn:R.
      + exists (canon it z). rewrite app_nil_r. split; [assumption|].
        rewrite (canon_zero it z V). unfold truthy. rewrite negb_involutive. reflexivity.
      + exists (if negb (canon it z =? 0) then 1 else 0). split.
        * rewrite exec_l_app, X, exec_l_cons, exec_iconst, exec_l_cons, exec_irel, exec_l_nil.
          change (0 mod wmod W64) with 0. unfold Wasm.irel_sem, b2w. reflexivity.
        * rewrite (canon_zero it z V). unfold truthy. destruct (z =? 0); reflexivity.
    - destruct Sc as [V _]. exact V.
    - rewrite exec_l_app, Sc. reflexivity.
  Qed.

  Lemma cond_true_eval r c z : eval r c = Ok (VI z) ->
    bind (eval r c) (fun vc => cond_true fo vc) = Ok (truthy z).
  Proof. intros ->. reflexivity. Qed.

  Lemma var_ty_spec sc i t : var_ty tys sc i = Some t -> In i sc /\ nth_error tys i = Some t.
  Proof.
    unfold var_ty. destruct (existsb (Nat.eqb i) sc) eqn:E; [|discriminate].
    apply existsb_eqb_In in E. auto.
  Qed.

  (* storing the value of an expression into local i *)
  Lemma store_ok sc sc' i t c r ls rv :
    nth_error tys i = Some t -> incl sc sc' -> (forall j, In j sc' -> j = i \/ In j sc) ->
    sim sc r ls -> esim t c rv ls ->
    osim (c ++ [LSet i]) (bind rv (fun v => Ok (Next (upd fo r i v)))) sc' ls.
  Proof.
    intros Hn I1 I2 [Hlen Hs] Hc. specialize (Hc []). destruct rv as [v| |]; simpl; [| |exact I].
    - destruct Hc as [V X].
      assert (Li : (i < length ls)%nat) by (rewrite Hlen; apply nth_error_Some; congruence).
      destruct (set_nth_some fo i (wv t v) ls Li) as (ls' & E).
      destruct (set_nth_spec fo _ _ _ _ E) as (L' & N' & O').
      exists ls'. split.
      + rewrite exec_l_app, X, exec_l_cons. unfold Wasm.exec_i. rewrite E. reflexivity.
      + split; [congruence|]. intros j tj Hj Hnj. unfold upd.
        destruct (Nat.eqb_spec j i) as [->|Nj].
        * assert (tj = t) by congruence. subst tj. split; assumption.
        * rewrite (O' j Nj). apply Hs; [|assumption].
          destruct (I2 j Hj) as [->|]; [contradiction|assumption].
    - rewrite exec_l_app, Hc. reflexivity.
  Qed.

  Definition stmt_spec (s : stmt) : Prop :=
    forall sc sc', check_stmt tys np ret sc s = Some sc' -> sflags_stmt tys s = [] ->
    loop_free_stmt s = true ->
    exists code d, (forall dp lp, cstmt tys ret dp lp s = Some (code, d)) /\
      forall r ls, sim sc r ls -> dflags_stmt fo tys r s = [] ->
        osim code (exec_stmt fo tys r s) sc' ls /\ (d = true -> never_next (exec_stmt fo tys r s)).
  Definition block_spec (b : block) : Prop :=
    forall sc, check_block tys np ret sc b = true -> sflags_block tys b = [] ->
    loop_free_block b = true ->
    exists code d, (forall dp lp, cblock tys ret dp lp b = Some (code, d)) /\
      forall r ls, sim sc r ls -> dflags_block fo tys r b = [] ->
        osim code (exec_block fo tys r b) sc ls /\ (d = true -> never_next (exec_block fo tys r b)).
  Definition els_spec (el : els) : Prop :=
    forall sc, check_els tys np ret sc el = true -> sflags_els tys el = [] ->
    loop_free_els el = true ->
    exists code he d, (forall dp lp, cels tys ret dp lp el = Some (code, he, d)) /\
      forall r ls, sim sc r ls -> dflags_els fo tys r el = [] ->
        osim code (exec_els fo tys r el) sc ls /\ (d = true -> never_next (exec_els fo tys r el)).

  (* running  cond; if (then) [else (els)]  *)
  Lemma if_ok sc c cc cth celo tail r ls ro_th ro_el :
    (forall st,
        match eval r c with
        | Ok (VI z) => exists w, exec_l cc st ls = ONorm (WI W32 w :: st) ls /\ (w =? 0) = negb (truthy z)
        | Ok (VF _) => False
        | RtErr => exec_l cc st ls = OTrap TDivZero
        | Unspec => True
        end) ->
    (forall z, eval r c = Ok (VI z) -> truthy z = true ->
               osim cth ro_th sc ls /\ (tail = [] \/ never_next ro_th)) ->
    (forall z, eval r c = Ok (VI z) -> truthy z = false ->
               osim (match celo with Some e => e | None => [] end) ro_el sc ls /\
               (tail = [] \/ never_next ro_el)) ->
    osim (cc ++ [If None cth celo] ++ tail)
         (bind (eval r c) (fun vc => bind (cond_true fo vc) (fun b => if b then ro_th else ro_el))) sc ls.
  Proof.
    intros Hc Hth Hel. specialize (Hc []).
    destruct (eval r c) as [[z|x]| |]; simpl; [|contradiction| |exact I].
    2:{ rewrite exec_l_app, Hc. reflexivity. }
    destruct Hc as (w & X & Ew).
    assert (Q : forall ro code, osim code ro sc ls ->
                (tail = [] \/ never_next ro) ->
                (if w =? 0 then match celo with Some e => exec_l e [] ls | None => ONorm [] ls end
                 else exec_l cth [] ls) = exec_l code [] ls ->
                osim (cc ++ [If None cth celo] ++ tail) ro sc ls).
    { intros ro code Ho Hn Eq. destruct ro as [[r'|v rv|r'|r']| |]; simpl in *; [| |contradiction|contradiction| |exact I].
      - destruct Ho as (ls' & X' & S'). exists ls'. split; [|assumption].
        rewrite exec_l_app, X, exec_l_cons, exec_if, Eq, X'.
        destruct Hn as [->|Hn]; [apply exec_l_nil|]. exfalso. apply (Hn r'). reflexivity.
      - destruct Ho as [V (lsr & X')]. split; [assumption|]. exists lsr.
        rewrite exec_l_app, X, exec_l_cons, exec_if, Eq, X'. reflexivity.
      - rewrite exec_l_app, X, exec_l_cons, exec_if, Eq, Ho. reflexivity. }
    destruct (truthy z) eqn:Tz; simpl in Ew.
    - destruct (Hth z eq_refl Tz) as [O N]. apply (Q ro_th cth O N). rewrite Ew. reflexivity.
    - destruct (Hel z eq_refl Tz) as [O N]. apply (Q ro_el _ O N). rewrite Ew.
      destruct celo; [reflexivity|]. rewrite exec_l_nil. reflexivity.
  Qed.

  Lemma never_next_if r c ro_th ro_el :
    (forall z, eval r c = Ok (VI z) -> truthy z = true -> never_next ro_th) ->
    (forall z, eval r c = Ok (VI z) -> truthy z = false -> never_next ro_el) ->
    never_next (bind (eval r c) (fun vc => bind (cond_true fo vc) (fun b => if b then ro_th else ro_el))).
  Proof.
    intros H1 H2 r'. destruct (eval r c) as [[z|x]| |]; simpl; try discriminate.
    destruct (truthy z) eqn:T; [apply (H1 z eq_refl T)|apply (H2 z eq_refl T)].
  Qed.

  Lemma osim_skip sc r ls : sim sc r ls -> osim [] (Ok (Next r)) sc ls.
  Proof. intros H. exists ls. split; [reflexivity|assumption]. Qed.

  Lemma stmts_ok :
    (forall s, stmt_spec s) /\ (forall b, block_spec b) /\ (forall el, els_spec el).
  Proof.
    apply stmt_block_els_ind.
    - (* declaration *)
      intros i t e sc sc' Hc Hs Hp. unf_in Hc; unf_in Hs. simpl in Hp.
      destruct (Nat.leb np i && negb (existsb (Nat.eqb i) sc) &&
                match nth_error tys i with Some t' => ty_eqb t t' | None => false end &&
                expr_ok tys sc e t) eqn:C; [|discriminate]. injection Hc as <-.
      apply andb_true_iff in C. destruct C as [C He]. apply andb_true_iff in C. destruct C as [C Ht].
      destruct (nth_error tys i) as [t'|] eqn:Hn; [|discriminate]. apply ty_eqb_eq in Ht. subst t'.
      destruct (cexpr_to_ok sc e t (Some t) He Hs Hp) as (c & Ec & Sc).
      eexists _, _. split; [intros dp lp; unf; rewrite Hn, Ec; reflexivity|].
      intros r ls Hsim Hd. unf_in Hd. split; [|discriminate].
      unf. apply (store_ok sc (i :: sc) i t c r ls); try assumption.
      + apply incl_tl, incl_refl.
      + intros j [->|Hj]; auto.
      + apply Sc; assumption.
    - (* assignment *)
      intros i e sc sc' Hc Hs Hp. unf_in Hc; unf_in Hs. simpl in Hp.
      destruct (var_ty tys sc i) as [t|] eqn:Hv; [|discriminate].
      destruct (expr_ok tys sc e t) eqn:He; [|discriminate]. injection Hc as <-.
      destruct (var_ty_spec _ _ _ Hv) as [Hi Hn]. rewrite Hn in Hs.
      destruct (cexpr_to_ok sc e t (Some t) He Hs Hp) as (c & Ec & Sc).
      eexists _, _. split; [intros dp lp; unf; rewrite Hn, Ec; reflexivity|].
      intros r ls Hsim Hd. unf_in Hd. split; [|discriminate].
      unf. apply (store_ok sc sc i t c r ls); try assumption.
      + apply incl_refl.
      + auto.
      + apply Sc; assumption.
    - (* compound assignment *)
      intros i op e sc sc' Hc Hs Hp. unf_in Hc; unf_in Hs. simpl in Hp.
      destruct (var_ty tys sc i) as [t|] eqn:Hv; [|discriminate].
      destruct (expr_ok tys sc e t) eqn:He; [|discriminate]. injection Hc as <-.
      destruct (var_ty_spec _ _ _ Hv) as [Hi Hn]. rewrite Hn in Hs.
      apply app_nil_inv in Hs. destruct Hs as [Hs Hfm]. apply flag_nil in Hfm.
      destruct (cexpr_to_ok sc e t (Some t) He Hs Hp) as (c & Ec & Sc).
      assert (Ho : exists o, arith_op op t = Some o).
      { destruct t; [simpl; eauto|]. destruct op; simpl; eauto. discriminate. }
      destruct Ho as (o & Eo).
      eexists _, _. split; [intros dp lp; unf; rewrite Hn, Ec, Eo; reflexivity|].
      intros r ls Hsim Hd. unf_in Hd. apply app_nil_inv in Hd. destruct Hd as [Hd1 Hd2].
      split; [|discriminate].
      pose proof Hsim as [Hlen Hsv]. destruct (Hsv i t Hi Hn) as [Vi Li].
      specialize (Sc r ls Hsim Hd1).
      assert (ES : esim t (LGet i :: c ++ [o])
                        (bind (eval r e) (fun v => compound fo tys r i op v)) ls).
      { intros st. rewrite exec_l_cons, (exec_lget fo _ _ _ _ Li).
        specialize (Sc (wv t (r i) :: st)).
        destruct (eval r e) as [v| |]; simpl; [| |exact I].
        - destruct Sc as [V X]. rewrite exec_l_app, X.
          unfold compound in *. rewrite Hn in *.
          pose proof (arith_step fo op t o (r i) v st ls Eo Vi V) as A.
          unfold arith_val in A. unfold compound_flags in Hd2. rewrite Hn in Hd2.
          destruct t; destruct (r i); destruct v; simpl in Vi, V; try contradiction; apply A; try exact I; assumption.
        - rewrite exec_l_app, Sc. reflexivity. }
      pose proof (store_ok sc sc i t (LGet i :: c ++ [o]) r ls _ Hn (incl_refl _) (fun j H => or_intror H) Hsim ES) as S.
      simpl. rewrite <- app_comm_cons, <- app_assoc in S. simpl in S.
      unf. destruct (eval r e) as [v| |]; simpl in *; assumption.
    - (* if *)
      intros c th Hth el Hel sc sc' Hc Hs Hlf. unf_in Hc; unf_in Hs. simpl in Hlf.
      apply andb_true_iff in Hlf. destruct Hlf as [Lth Lel].
      apply andb_true_iff in Lth. destruct Lth as [Pc Lth].
      destruct (cond_ok tys sc c && check_block tys np ret sc th && check_els tys np ret sc el) eqn:C;
        [|discriminate]. injection Hc as <-.
      apply andb_true_iff in C. destruct C as [C Cel]. apply andb_true_iff in C. destruct C as [Cc Cth].
      apply app_nil_inv in Hs. destruct Hs as [Hsc Hs]. apply app_nil_inv in Hs. destruct Hs as [Hsth Hsel].
      destruct (ccond_ok sc c Cc Hsc Pc) as (cc & Ecc & Scc).
      destruct (Hth sc Cth Hsth Lth) as (cth & dth & Eth & Sth).
      destruct (Hel sc Cel Hsel Lel) as (cel & he & dall & Eel & Sel).
      assert (G : exists code d, (forall dp lp, cstmt tys ret dp lp (SIf c th el) = Some (code, d)) /\
                  exists celo tail,
                    code = cc ++ [If None cth celo] ++ tail /\
                    match celo with Some e => e | None => [] end = cel /\
                    (tail = [] \/ (d = true /\ dth = true /\ dall = true)) /\
                    (d = true -> dth = true /\ dall = true)).
      { destruct el as [|eb|c2 th2 el2].
        - pose proof (Eel 0%nat None) as E0. rewrite cels_none in E0. injection E0 as <- <- <-.
          eexists _, _. split; [intros dp lp; unf; rewrite Ecc, Eth; reflexivity|].
          exists None, []. repeat split; auto; discriminate.
        - eexists _, _. split; [intros dp lp; rewrite cstmt_if, Ecc, Eth, Eel; reflexivity|].
          exists (Some cel), (if he && dth && dall then [Unreachable] else []).
          split; [reflexivity|]. split; [reflexivity|]. split.
          + destruct (he && dth && dall) eqn:A; [right|left; reflexivity].
            apply andb_true_iff in A. destruct A as [A ->]. apply andb_true_iff in A. destruct A as [_ ->]. auto.
          + intros A. apply andb_true_iff in A. destruct A as [A A2]. apply andb_true_iff in A.
            destruct A as [_ A1]. auto.
        - eexists _, _. split; [intros dp lp; rewrite cstmt_if, Ecc, Eth, Eel; reflexivity|].
          exists (Some cel), (if he && dth && dall then [Unreachable] else []).
          split; [reflexivity|]. split; [reflexivity|]. split.
          + destruct (he && dth && dall) eqn:A; [right|left; reflexivity].
            apply andb_true_iff in A. destruct A as [A ->]. apply andb_true_iff in A. destruct A as [_ ->]. auto.
          + intros A. apply andb_true_iff in A. destruct A as [A A2]. apply andb_true_iff in A.
            destruct A as [_ A1]. auto. }
      destruct G as (code & d & Ecode & celo & tail & -> & Ecel & Htail & Hd').
      exists (cc ++ [If None cth celo] ++ tail), d. split; [assumption|].
      intros r ls Hsim Hd. unf_in Hd. apply app_nil_inv in Hd. destruct Hd as [Hdc Hd].
      pose proof (Scc r ls Hsim Hdc) as Xc.
      assert (Bth : forall z, eval r c = Ok (VI z) -> truthy z = true ->
                 osim cth (exec_block fo tys r th) sc ls /\ (dth = true -> never_next (exec_block fo tys r th))).
      { intros z Ez Tz. rewrite Ez, Tz in Hd. apply Sth; assumption. }
      assert (Bel : forall z, eval r c = Ok (VI z) -> truthy z = false ->
                 osim cel (exec_els fo tys r el) sc ls /\ (dall = true -> never_next (exec_els fo tys r el))).
      { intros z Ez Tz. rewrite Ez, Tz in Hd. apply Sel; assumption. }
      split.
      + unf. apply if_ok; try assumption.
        * intros z Ez Tz. destruct (Bth z Ez Tz) as [O N]. split; [assumption|].
          destruct Htail as [->|(_ & D & _)]; [left; reflexivity|right; auto].
        * intros z Ez Tz. destruct (Bel z Ez Tz) as [O N]. rewrite Ecel. split; [assumption|].
          destruct Htail as [->|(_ & _ & D)]; [left; reflexivity|right; auto].
      + intros D. destruct (Hd' D) as [D1 D2]. unf. apply never_next_if.
        * intros z Ez Tz. apply (proj2 (Bth z Ez Tz) D1).
        * intros z Ez Tz. apply (proj2 (Bel z Ez Tz) D2).
    - (* return *)
      intros e sc sc' Hc Hs Hp. unf_in Hc; unf_in Hs. simpl in Hp.
      destruct (expr_ok tys sc e ret) eqn:He; [|discriminate]. injection Hc as <-.
      destruct (cexpr_to_ok sc e ret None He Hs Hp) as (c & Ec & Sc).
      eexists _, _. split; [intros dp lp; unf; rewrite Ec; reflexivity|].
      intros r ls Hsim Hd. unf_in Hd. specialize (Sc r ls Hsim Hd []). split.
      + unf. destruct (eval r e) as [v| |]; simpl; [| |exact I].
        * destruct Sc as [V X]. split; [assumption|]. eexists.
          rewrite exec_l_app, X, exec_l_cons, exec_return. reflexivity.
        * rewrite exec_l_app, Sc. reflexivity.
      + intros _ r'. unf. destruct (eval r e); simpl; discriminate.
    - (* loops, break, continue: outside the loop-free guard *)
      intros c b _ sc sc' _ _ H. discriminate.
    - intros b _ sc sc' _ _ H. discriminate.
    - intros i lim t start stop step b _ sc sc' _ _ H. discriminate.
    - intros sc sc' _ _ H. discriminate.
    - intros sc sc' _ _ H. discriminate.
    - intros i t e sc sc' _ _ H. discriminate.
    - intros i e sc sc' _ _ H. discriminate.
    - intros i op e sc sc' _ _ H. discriminate.
    - (* empty block *)
      intros sc _ _ _. eexists _, _. split; [intros dp lp; reflexivity|].
      intros r ls Hsim _. split; [apply osim_skip; assumption|discriminate].
    - (* s ; rest *)
      intros s Hs b Hb sc Hc Hf Hlf. unf_in Hc; unf_in Hf. simpl in Hlf.
      apply andb_true_iff in Hlf. destruct Hlf as [Ls Lb].
      destruct (check_stmt tys np ret sc s) as [sc'|] eqn:Cs; [|discriminate].
      apply app_nil_inv in Hf. destruct Hf as [Hf1 Hf2].
      destruct (Hs sc sc' Cs Hf1 Ls) as (cs & ds & Ecs & Ss).
      destruct (Hb sc' Hc Hf2 Lb) as (cr & dr & Ecr & Sr).
      pose proof (check_stmt_incl _ _ _ Cs) as Inc.
      destruct ds.
      + (* the statement diverges: the rest is not compiled, and never runs *)
        eexists _, _. split; [intros dp lp; rewrite cblock_cons, Ecs; reflexivity|].
        intros r ls Hsim Hd. unf_in Hd. apply app_nil_inv in Hd. destruct Hd as [Hd1 Hd2].
        destruct (Ss r ls Hsim Hd1) as [O N]. specialize (N eq_refl).
        unf. destruct (exec_stmt fo tys r s) as [[r'|v rv|r'|r']| |]; simpl in *; try contradiction.
        * exfalso. apply (N r'). reflexivity.
        * split; [assumption|]. intros _ r'. discriminate.
        * split; [assumption|]. intros _ r'. discriminate.
        * split; [exact I|]. intros _ r'. discriminate.
      + eexists _, _. split; [intros dp lp; rewrite cblock_cons, Ecs, Ecr; reflexivity|].
        intros r ls Hsim Hd. unf_in Hd. apply app_nil_inv in Hd. destruct Hd as [Hd1 Hd2].
        destruct (Ss r ls Hsim Hd1) as [O _].
        unf. destruct (exec_stmt fo tys r s) as [[r'|v rv|r'|r']| |]; simpl in *; try contradiction.
        * destruct O as (ls' & X & S').
          destruct (Sr r' ls' S' Hd2) as [O' N']. split; [|assumption].
          destruct (exec_block fo tys r' b) as [[r''|v rv|r''|r'']| |]; simpl in *; try contradiction.
          -- destruct O' as (ls'' & X' & S''). exists ls''. split.
             ++ rewrite exec_l_app, X. assumption.
             ++ apply (sim_weaken sc sc'); assumption.
          -- destruct O' as [V (lsr & X')]. split; [assumption|]. exists lsr. rewrite exec_l_app, X. assumption.
          -- rewrite exec_l_app, X. assumption.
          -- exact I.
        * destruct O as [V (lsr & X)]. split; [|intros _ r'; discriminate].
          split; [assumption|]. exists lsr. rewrite exec_l_app, X. reflexivity.
        * split; [|intros _ r'; discriminate]. rewrite exec_l_app, O. reflexivity.
        * split; [exact I|intros _ r'; discriminate].
    - (* no else *)
      intros sc _ _ _. eexists _, _, _. split; [intros dp lp; reflexivity|].
      intros r ls Hsim _. split; [apply osim_skip; assumption|discriminate].
    - (* else *)
      intros b Hb sc Hc Hf Hlf. unf_in Hc; unf_in Hf. simpl in Hlf.
      destruct (Hb sc Hc Hf Hlf) as (cb & db & Ecb & Sb).
      eexists _, _, _. split; [intros dp lp; rewrite cels_else, Ecb; reflexivity|].
      intros r ls Hsim Hd. unf_in Hd. unf. apply Sb; assumption.
    - (* else if *)
      intros c th Hth el Hel sc Hc Hs Hlf. unf_in Hc; unf_in Hs. simpl in Hlf.
      apply andb_true_iff in Hlf. destruct Hlf as [Lth Lel].
      apply andb_true_iff in Lth. destruct Lth as [Pc Lth].
      apply andb_true_iff in Hc. destruct Hc as [C Cel]. apply andb_true_iff in C. destruct C as [Cc Cth].
      apply app_nil_inv in Hs. destruct Hs as [Hsc Hs]. apply app_nil_inv in Hs. destruct Hs as [Hsth Hsel].
      destruct (ccond_ok sc c Cc Hsc Pc) as (cc & Ecc & Scc).
      destruct (Hth sc Cth Hsth Lth) as (cth & dth & Eth & Sth).
      destruct (Hel sc Cel Hsel Lel) as (cel & he & dall & Eel & Sel).
      eexists _, _, _. split; [intros dp lp; rewrite cels_elif, Ecc, Eth, Eel; reflexivity|].
      intros r ls Hsim Hd. unf_in Hd. apply app_nil_inv in Hd. destruct Hd as [Hdc Hd].
      pose proof (Scc r ls Hsim Hdc) as Xc.
      assert (Bth : forall z, eval r c = Ok (VI z) -> truthy z = true ->
                 osim cth (exec_block fo tys r th) sc ls /\ (dth = true -> never_next (exec_block fo tys r th))).
      { intros z Ez Tz. rewrite Ez, Tz in Hd. apply Sth; assumption. }
      assert (Bel : forall z, eval r c = Ok (VI z) -> truthy z = false ->
                 osim cel (exec_els fo tys r el) sc ls /\ (dall = true -> never_next (exec_els fo tys r el))).
      { intros z Ez Tz. rewrite Ez, Tz in Hd. apply Sel; assumption. }
      split.
      + unf. pose proof (if_ok sc c cc cth (Some cel) [] r ls
                             (exec_block fo tys r th) (exec_els fo tys r el) Xc) as I.
        rewrite app_nil_r in I. apply I.
        * intros z Ez Tz. split; [apply (Bth z Ez Tz)|left; reflexivity].
        * intros z Ez Tz. split; [apply (Bel z Ez Tz)|left; reflexivity].
      + intros D. apply andb_true_iff in D. destruct D as [D1 D2]. unf. apply never_next_if.
        * intros z Ez Tz. apply (proj2 (Bth z Ez Tz) D1).
        * intros z Ez Tz. apply (proj2 (Bel z Ez Tz) D2).
  Qed.
End Stmt.
