(* Arc/Syntax.v — the scalar fragment of Arc covered by C19: abstract syntax (the SPEC's parse
   tree: operators nest as arc/docs/spec.md's precedence table says, parentheses are explicit
   nodes), the numeric types, and the static rules (typing, scoping, "returns on all paths").
   No proofs in this file. *)
From Coq Require Import ZArith List Bool.
Import ListNotations.
Local Open Scope Z_scope.

(* ---- types ---- *)
Inductive ity := I8 | I16 | I32 | I64 | U8 | U16 | U32 | U64.
Inductive fty := F32 | F64.
Inductive ty := TI (t : ity) | TF (t : fty).

Definition ity_eqb (a b : ity) : bool :=
  match a, b with
  | I8, I8 | I16, I16 | I32, I32 | I64, I64 | U8, U8 | U16, U16 | U32, U32 | U64, U64 => true
  | _, _ => false
  end.
Definition fty_eqb (a b : fty) : bool :=
  match a, b with F32, F32 | F64, F64 => true | _, _ => false end.
Definition ty_eqb (a b : ty) : bool :=
  match a, b with
  | TI x, TI y => ity_eqb x y
  | TF x, TF y => fty_eqb x y
  | _, _ => false
  end.

Definition bits (t : ity) : Z :=
  match t with I8 | U8 => 8 | I16 | U16 => 16 | I32 | U32 => 32 | I64 | U64 => 64 end.
Definition signed (t : ity) : bool :=
  match t with I8 | I16 | I32 | I64 => true | _ => false end.
Definition imin (t : ity) : Z := if signed t then - 2 ^ (bits t - 1) else 0.
Definition imax (t : ity) : Z := if signed t then 2 ^ (bits t - 1) - 1 else 2 ^ bits t - 1.
Definition in_range (t : ity) (z : Z) : bool := (imin t <=? z) && (z <=? imax t).

(* ---- expressions ---- *)
Inductive arith := AAdd | ASub | AMul | ADiv | AMod.
Inductive cmp := CEq | CNe | CLt | CGt | CLe | CGe.

Inductive expr :=
| ELit (t : ity) (z : Z)          (* integer literal (digits, z >= 0) of integer type t *)
| ELitF (t : fty) (b : Z)         (* numeric literal of float type; b = IEEE-754 bit pattern of its value *)
| EVar (i : nat)                  (* parameter / local, by index *)
| ESVar (i : nat)                 (* stateful variable (declared with $=), by index *)
| EGlob (t : ty) (z : Z)          (* reference to a global constant  NAME T := literal : its value
                                     (signed, for integer types) / IEEE bit pattern (float types) *)
| ECall (k : nat) (t : ty) (d : Z) (p q : nat) (body : expr) (a : expr) (b : option expr)
                                  (* call h_k(a) / h_k(a, b) of the k-th helper function
                                       func h_k(x T, y T = d) T { return body }
                                     (d: default value, signed / bit pattern). In [body] the two
                                     parameters are the variables p and q (fresh indices of the
                                     caller's index space, beyond its real locals). *)
| EParen (e : expr)               (* ( e ) *)
| ENeg (e : expr)                 (* - e *)
| ENot (e : expr)                 (* not e *)
| EPow (a b : expr)               (* a ^ b *)
| EArith (op : arith) (a b : expr)
| ECmp (op : cmp) (a b : expr)
| EAnd (a b : expr)
| EOr (a b : expr)
| ECast (t : ty) (e : expr).      (* T(e) *)

(* ---- statements ---- *)
Inductive stmt :=
| SDecl (i : nat) (t : ty) (e : expr)            (* x T := e   (x is local i) *)
| SAssign (i : nat) (e : expr)                   (* x = e *)
| SCompound (i : nat) (op : arith) (e : expr)    (* x op= e *)
| SIf (c : expr) (th : block) (el : els)
| SReturn (e : expr)
(* loops: spec.md defines none ("No loops"); these are the forms the analyzer and compiler accept *)
| SFor (c : expr) (b : block)                    (* for c { b } *)
| SLoop (b : block)                              (* for { b } *)
| SRange (i lim : nat) (t : ity) (start : option expr) (stop : expr) (step : option (nat * expr))
         (b : block)                             (* for x := range([start,] stop [, step]) { b };
                                                    x is local i, lim / step's nat are the hidden
                                                    locals __for_limit / __for_step *)
| SBreak
| SContinue
(* stateful variables: "x $= e persists across function invocations" *)
| SStateDecl (i : nat) (t : ty) (e : expr)       (* x T $= e *)
| SSAssign (i : nat) (e : expr)                  (* x = e,   x stateful *)
| SSCompound (i : nat) (op : arith) (e : expr)   (* x op= e, x stateful *)
with block := BNil | BCons (s : stmt) (b : block)
with els :=
| ElNone                                         (* no else *)
| ElElse (b : block)                             (* else { b } *)
| ElElif (c : expr) (th : block) (el : els).     (* else if c { th } el *)

Record func := {
  f_params : list ty;       (* locals 0 .. n-1 *)
  f_locals : list ty;       (* declared locals n .. , in declaration order *)
  f_ret : ty;
  f_body : block;
  f_virt : list ty;         (* types of the indices used for helper parameters (not WASM locals) *)
  f_helpers : list (ty * Z * nat * nat * expr)   (* helper functions h_0, h_1, …: (T, default, p, q, body) *)
}.

Definition f_tys (f : func) : list ty := f_params f ++ f_locals f ++ f_virt f.

(* ---- spec grammar: where parentheses are required ----
   Precedence of arc/docs/spec.md (highest first): 1 '^' (right assoc), 2 unary '-' 'not',
   3 '* / %' (left), 4 '+ -' (left), 5 comparisons, 6 'and' 'or'. The spec gives no
   associativity for levels 5 and 6, so a comparison directly under a comparison and a
   logical operator directly under a DIFFERENT logical operator must be parenthesised; a
   chain of the same logical operator is read left to right. *)
Definition prec (e : expr) : nat :=
  match e with
  | ELit _ _ | ELitF _ _ | EVar _ | ESVar _ | EGlob _ _ | ECall _ _ _ _ _ _ _ _ | EParen _ | ECast _ _ => 0
  | EPow _ _ => 1
  | ENeg _ | ENot _ => 2
  | EArith (AMul | ADiv | AMod) _ _ => 3
  | EArith (AAdd | ASub) _ _ => 4
  | ECmp _ _ _ => 5
  | EAnd _ _ | EOr _ _ => 6
  end.

Definition is_and (e : expr) := match e with EAnd _ _ => true | _ => false end.
Definition is_or (e : expr) := match e with EOr _ _ => true | _ => false end.

Fixpoint parens_ok (e : expr) : bool :=
  match e with
  | ELit _ _ | ELitF _ _ | EVar _ | ESVar _ | EGlob _ _ => true
  | ECall _ _ _ _ _ body a b =>
      parens_ok body && parens_ok a && match b with Some e => parens_ok e | None => true end
  | EParen e | ECast _ e => parens_ok e
  | ENeg a | ENot a => parens_ok a && Nat.leb (prec a) 2
  | EPow a b => parens_ok a && parens_ok b && Nat.leb (prec a) 0 && Nat.leb (prec b) 2
  | EArith (AMul | ADiv | AMod) a b => parens_ok a && parens_ok b && Nat.leb (prec a) 3 && Nat.leb (prec b) 2
  | EArith (AAdd | ASub) a b => parens_ok a && parens_ok b && Nat.leb (prec a) 4 && Nat.leb (prec b) 3
  | ECmp _ a b => parens_ok a && parens_ok b && Nat.leb (prec a) 4 && Nat.leb (prec b) 4
  | EAnd a b => parens_ok a && parens_ok b && (Nat.leb (prec a) 5 || is_and a) && Nat.leb (prec b) 5
  | EOr a b => parens_ok a && parens_ok b && (Nat.leb (prec a) 5 || is_or a) && Nat.leb (prec b) 5
  end.

(* ---- typing (spec.md: no mixed-type arithmetic, comparisons and logic yield u8, logic needs
   u8 operands, casts between any numeric types, literals must fit their type) ---- *)
Definition tU8 := TI U8.

(* a constant value of type t: in range (integers) / a bit pattern of the width (floats) *)
Definition const_ok (t : ty) (z : Z) : bool :=
  match t with
  | TI it => in_range it z
  | TF F32 => (0 <=? z) && (z <? 2 ^ 32)
  | TF F64 => (0 <=? z) && (z <? 2 ^ 64)
  end.

Fixpoint type_of (tys : list ty) (sc : list nat) (e : expr) : option ty :=
  match e with
  | ELit t z => if (0 <=? z) && (z <=? imax t) then Some (TI t) else None
  | ELitF t b => if (0 <=? b) && (b <? 2 ^ (match t with F32 => 32 | F64 => 64 end)) then Some (TF t) else None
  | EVar i | ESVar i => if existsb (Nat.eqb i) sc then nth_error tys i else None
  | EGlob t z => if const_ok t z then Some t else None
  | ECall _ t d p q body a b =>
      let is_t (o : option ty) := match o with Some t' => ty_eqb t t' | None => false end in
      if const_ok t d && negb (Nat.eqb p q) && is_t (nth_error tys p) && is_t (nth_error tys q)
         && is_t (type_of tys [p; q] body) && is_t (type_of tys sc a)
         && match b with Some e => is_t (type_of tys sc e) | None => true end
      then Some t else None
  | EParen a => type_of tys sc a
  | ENeg a => type_of tys sc a
  | ENot a => match type_of tys sc a with Some (TI U8) => Some tU8 | _ => None end
  | EPow a b | EArith _ a b =>
      match type_of tys sc a, type_of tys sc b with
      | Some ta, Some tb => if ty_eqb ta tb then Some ta else None
      | _, _ => None
      end
  | ECmp _ a b =>
      match type_of tys sc a, type_of tys sc b with
      | Some ta, Some tb => if ty_eqb ta tb then Some tU8 else None
      | _, _ => None
      end
  | EAnd a b | EOr a b =>
      match type_of tys sc a, type_of tys sc b with
      | Some (TI U8), Some (TI U8) => Some tU8
      | _, _ => None
      end
  | ECast t a => match type_of tys sc a with Some _ => Some t | None => None end
  end.

Definition is_int_ty (t : ty) := match t with TI _ => true | TF _ => false end.

(* statements: [sc] = indices in scope; a declaration introduces index i (not yet in scope,
   not a parameter) for the rest of its block; a function body must return on every path *)
Section Check.
  Variable tys : list ty.
  Variable nparams : nat.
  Variable ret : ty.

  Definition expr_ok (sc : list nat) (e : expr) (t : ty) : bool :=
    parens_ok e && match type_of tys sc e with Some t' => ty_eqb t t' | None => false end.

  Definition cond_ok (sc : list nat) (c : expr) : bool :=
    parens_ok c && match type_of tys sc c with Some (TI _) => true | _ => false end.

  Definition var_ty (sc : list nat) (i : nat) : option ty :=
    if existsb (Nat.eqb i) sc then nth_error tys i else None.

  Fixpoint check_stmt (sc : list nat) (s : stmt) : option (list nat) :=
    match s with
    | SDecl i t e =>
        if Nat.leb nparams i && negb (existsb (Nat.eqb i) sc)
           && match nth_error tys i with Some t' => ty_eqb t t' | None => false end
           && expr_ok sc e t
        then Some (i :: sc) else None
    | SAssign i e =>
        match var_ty sc i with
        | Some t => if expr_ok sc e t then Some sc else None
        | None => None
        end
    | SCompound i _ e =>
        match var_ty sc i with
        | Some t => if expr_ok sc e t then Some sc else None
        | None => None
        end
    | SIf c th el =>
        if cond_ok sc c && check_block sc th && check_els sc el then Some sc else None
    | SReturn e => if expr_ok sc e ret then Some sc else None
    | SFor c b => if cond_ok sc c && check_block sc b then Some sc else None
    | SLoop b => if check_block sc b then Some sc else None
    | SRange i lim t start stop step b =>
        let fresh j := Nat.leb nparams j && negb (existsb (Nat.eqb j) sc)
                       && match nth_error tys j with Some t' => ty_eqb (TI t) t' | None => false end in
        if fresh i && fresh lim && negb (Nat.eqb i lim) && negb (bits t <? 32)%Z
           && match start with Some e => expr_ok sc e (TI t) | None => true end
           && expr_ok sc stop (TI t)
           && match step with
              | Some (j, e) => fresh j && negb (Nat.eqb j i) && negb (Nat.eqb j lim) && expr_ok sc e (TI t)
                               && match start with Some _ => true | None => false end
              | None => true
              end
           && check_block (i :: sc) b
        then Some sc else None
    | SBreak | SContinue => Some sc
    | SStateDecl i t e =>
        if Nat.leb nparams i && negb (existsb (Nat.eqb i) sc)
           && match nth_error tys i with Some t' => ty_eqb t t' | None => false end
           && expr_ok sc e t
        then Some (i :: sc) else None
    | SSAssign i e | SSCompound i _ e =>
        match var_ty sc i with
        | Some t => if expr_ok sc e t then Some sc else None
        | None => None
        end
    end
  with check_block (sc : list nat) (b : block) : bool :=
    match b with
    | BNil => true
    | BCons s r => match check_stmt sc s with Some sc' => check_block sc' r | None => false end
    end
  with check_els (sc : list nat) (el : els) : bool :=
    match el with
    | ElNone => true
    | ElElse b => check_block sc b
    | ElElif c th el' => cond_ok sc c && check_block sc th && check_els sc el'
    end.
End Check.

(* "explicit return on all paths" *)
Fixpoint returns_stmt (s : stmt) : bool :=
  match s with
  | SReturn _ => true
  | SIf _ th el => returns_block th && returns_els el
  | _ => false        (* a loop never counts as returning *)
  end
with returns_block (b : block) : bool :=
  match b with
  | BNil => false
  | BCons s r => returns_stmt s || returns_block r
  end
with returns_els (el : els) : bool :=
  match el with
  | ElNone => false
  | ElElse b => returns_block b
  | ElElif _ th el' => returns_block th && returns_els el'
  end.

(* no stateful variable read *)
Fixpoint pure_expr (e : expr) : bool :=
  match e with
  | ELit _ _ | ELitF _ _ | EVar _ => true
  | ESVar _ | EGlob _ _ | ECall _ _ _ _ _ _ _ _ => false   (* outside the proved fragment *)
  | EParen a | ENeg a | ENot a | ECast _ a => pure_expr a
  | EPow a b | EArith _ a b | ECmp _ a b | EAnd a b | EOr a b => pure_expr a && pure_expr b
  end.

(* the core fragment of the theorems: no loop, break or continue, no stateful variable *)
Fixpoint loop_free_stmt (s : stmt) : bool :=
  match s with
  | SDecl _ _ e | SAssign _ e | SCompound _ _ e | SReturn e => pure_expr e
  | SIf c th el => pure_expr c && loop_free_block th && loop_free_els el
  | SFor _ _ | SLoop _ | SRange _ _ _ _ _ _ _ | SBreak | SContinue => false
  | SStateDecl _ _ _ | SSAssign _ _ | SSCompound _ _ _ => false
  end
with loop_free_block (b : block) : bool :=
  match b with BNil => true | BCons s r => loop_free_stmt s && loop_free_block r end
with loop_free_els (el : els) : bool :=
  match el with
  | ElNone => true
  | ElElse b => loop_free_block b
  | ElElif c th el' => pure_expr c && loop_free_block th && loop_free_els el'
  end.

Definition check_func (f : func) : bool :=
  check_block (f_tys f) (length (f_params f)) (f_ret f) (seq 0 (length (f_params f))) (f_body f)
  && returns_block (f_body f).
