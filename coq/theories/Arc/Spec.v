(* Arc/Spec.v — reference semantics of the scalar fragment, written from arc/docs/spec.md ONLY
   (not from the compiler). Quotes are from spec.md.

   Readings where spec.md is silent or ambiguous (listed as assumptions of C19):
   * integer '/' and '%' truncate toward zero ('%' takes the sign of the dividend);
   * "Signed <-> Unsigned saturates at bounds" applies whenever source and target signedness
     differ, whatever the widths, and saturates at the TARGET's bounds;
   * a cast between integer types of the same signedness extends (wider) or truncates (narrower);
   * integer '^' with a negative exponent, and float -> integer of NaN, are not specified
     ([Unspec]: nothing is required of an implementation);
   * "Division/modulo by zero" is a runtime error for INTEGER operands; float arithmetic is
     whatever the (shared, abstract) float operation yields;
   * an if-condition of integer type is true iff non-zero ("0 is false, non-zero is true");
   * LOOPS: spec.md defines none ("No loops"). The compiler implements `for c {…}`, `for {…}`,
     `for x := range([start,] stop[, step]) {…}`, `break`, `continue`; their reference semantics
     here is the conventional structured-programming one (condition re-evaluated before every
     iteration; range evaluates its arguments once, counts from start (default 0) by step
     (default 1) while x < stop, or while x > stop for a negative step; step 0 unspecified;
     `continue` proceeds to the increment; `break` leaves the innermost loop), written with fuel:
     a loop exceeding [loop_fuel] iterations is [Unspec].
   * STATEFUL VARIABLES ("x $= e persists across function invocations"): the initialiser takes
     effect the first time the declaration is executed; afterwards the variable holds whatever
     was last assigned to it, in this and in later invocations. The environment records at
     index [st_flag i] whether stateful variable i has been initialised; [spec_calls] threads
     the stateful part of the environment from one invocation to the next.
   No proofs in this file. *)
From Coq Require Import ZArith List Bool Zpow_facts.
From Synnax Require Import Arc.Syntax.
Import ListNotations.
Local Open Scope Z_scope.

(* ---- float operations: parameters shared by the source and the WebAssembly semantics ---- *)
Inductive fint := FNaN | FInf (neg : bool) | FFin (z : Z).   (* float truncated toward zero *)

Record float_ops := {
  F : Type;
  f_of_bits : fty -> Z -> F;                 (* value of a literal / an argument *)
  f_bits : fty -> F -> Z;                    (* bit pattern of a result *)
  f_arith : fty -> arith -> F -> F -> F;     (* + - * / % *)
  f_pow : fty -> F -> F -> F;
  f_neg : fty -> F -> F;
  f_cmp : fty -> cmp -> F -> F -> bool;
  f_of_int : fty -> Z -> F;                  (* nearest float of a mathematical integer *)
  f_to_int : fty -> F -> fint;               (* truncation toward zero *)
  f_cvt : fty -> fty -> F -> F               (* f32 <-> f64 *)
}.

Inductive res (A : Type) :=
| Ok (a : A)
| RtErr          (* "Runtime Errors — Arithmetic: Division/modulo by zero" *)
| Unspec.        (* spec.md does not define the result *)
Arguments Ok {A}. Arguments RtErr {A}. Arguments Unspec {A}.

Definition bind {A B} (r : res A) (k : A -> res B) : res B :=
  match r with Ok a => k a | RtErr => RtErr | Unspec => Unspec end.

(* "Integer overflow uses two's-complement wrapping" — at the width of the type *)
Definition wrap (t : ity) (z : Z) : Z :=
  let m := z mod 2 ^ bits t in
  if signed t && (2 ^ (bits t - 1) <=? m) then m - 2 ^ bits t else m.

Definition clamp (t : ity) (z : Z) : Z := Z.max (imin t) (Z.min (imax t) z).

Section Sem.
  Variable fo : float_ops.

  Inductive val := VI (z : Z) | VF (x : F fo).

  Definition b2v (b : bool) : val := VI (if b then 1 else 0).
  Definition truthy (z : Z) : bool := negb (z =? 0).

  (* integer arithmetic at type t on mathematical values *)
  Definition int_arith (t : ity) (op : arith) (a b : Z) : res Z :=
    match op with
    | AAdd => Ok (wrap t (a + b))
    | ASub => Ok (wrap t (a - b))
    | AMul => Ok (wrap t (a * b))
    | ADiv => if b =? 0 then RtErr else Ok (wrap t (Z.quot a b))
    | AMod => if b =? 0 then RtErr else Ok (wrap t (Z.rem a b))
    end.

  (* a ^ b wrapped at the width: wrap t (a ^ b), computed by modular exponentiation *)
  Definition int_pow (t : ity) (a b : Z) : res Z :=
    if b <? 0 then Unspec else Ok (wrap t (Zpow_mod a b (2 ^ bits t))).

  Definition int_cmp (op : cmp) (a b : Z) : bool :=
    match op with
    | CEq => a =? b | CNe => negb (a =? b)
    | CLt => a <? b | CGt => b <? a | CLe => a <=? b | CGe => b <=? a
    end.

  (* "Widening is safe (sign/zero extend); Narrowing truncates; Signed <-> Unsigned saturates
     at bounds" *)
  Definition cast_int_int (from to : ity) (z : Z) : Z :=
    if Bool.eqb (signed from) (signed to) then wrap to z else clamp to z.

  (* "Float -> Integer truncates toward zero, saturates on overflow" *)
  Definition cast_float_int (ft : fty) (to : ity) (x : F fo) : res Z :=
    match f_to_int fo ft x with
    | FNaN => Unspec
    | FInf neg => Ok (if neg then imin to else imax to)
    | FFin z => Ok (clamp to z)
    end.

  Definition cast (from to : ty) (v : val) : res val :=
    match from, to, v with
    | TI a, TI b, VI z => Ok (VI (cast_int_int a b z))
    | TI _, TF b, VI z => Ok (VF (f_of_int fo b z))
    | TF a, TI b, VF x => bind (cast_float_int a b x) (fun z => Ok (VI z))
    | TF a, TF b, VF x => Ok (VF (if fty_eqb a b then x else f_cvt fo a b x))
    | _, _, _ => Unspec
    end.

  Definition env := nat -> val.
  (* where the environment records that stateful variable i has been initialised *)
  Definition st_flag (i : nat) : nat := (4096 + i)%nat.
  Definition upd (r : env) (i : nat) (v : val) : env := fun j => if Nat.eqb j i then v else r j.

  (* iterations after which a loop is given up as unspecified *)
  Definition loop_fuel : nat := 3000.

  Definition const_val (t : ty) (z : Z) : val :=
    match t with TI _ => VI z | TF f => VF (f_of_bits fo f z) end.

  Section Expr.
    Variable tys : list ty.

    (* static type of an expression (all variables taken to be in scope) *)
    Definition ety (e : expr) : option ty := type_of tys (seq 0 (length tys)) e.

    Fixpoint eval (r : env) (e : expr) : res val :=
      match e with
      | ELit _ z => Ok (VI z)
      | ELitF t b => Ok (VF (f_of_bits fo t b))
      | EVar i | ESVar i => Ok (r i)
      (* "Top-level declarations using := are compile-time constants. Values are inlined at each
         reference site" *)
      | EGlob t z => Ok (const_val t z)
      (* "Inside function bodies, call other functions using parentheses"; "Optional parameters
         can have default values (must be trailing)": an omitted trailing argument takes the
         declared default. Call by value: the callee's parameters are fresh variables. *)
      | ECall _ t d p q body a b =>
          bind (eval r a) (fun va =>
          bind (match b with Some e => eval r e | None => Ok (const_val t d) end) (fun vb =>
            eval (upd (upd r p va) q vb) body))
      | EParen a => eval r a
      | ENeg a =>
          bind (eval r a) (fun v =>
            match ety a, v with
            | Some (TI t), VI z => Ok (VI (wrap t (- z)))
            | Some (TF t), VF x => Ok (VF (f_neg fo t x))
            | _, _ => Unspec
            end)
      | ENot a =>
          bind (eval r a) (fun v =>
            match v with VI z => Ok (b2v (negb (truthy z))) | _ => Unspec end)
      | EPow a b =>
          bind (eval r a) (fun va => bind (eval r b) (fun vb =>
            match ety a, va, vb with
            | Some (TI t), VI x, VI y => bind (int_pow t x y) (fun z => Ok (VI z))
            | Some (TF t), VF x, VF y => Ok (VF (f_pow fo t x y))
            | _, _, _ => Unspec
            end))
      | EArith op a b =>
          bind (eval r a) (fun va => bind (eval r b) (fun vb =>
            match ety a, va, vb with
            | Some (TI t), VI x, VI y => bind (int_arith t op x y) (fun z => Ok (VI z))
            | Some (TF t), VF x, VF y => Ok (VF (f_arith fo t op x y))
            | _, _, _ => Unspec
            end))
      | ECmp op a b =>
          bind (eval r a) (fun va => bind (eval r b) (fun vb =>
            match ety a, va, vb with
            | Some (TI _), VI x, VI y => Ok (b2v (int_cmp op x y))
            | Some (TF t), VF x, VF y => Ok (b2v (f_cmp fo t op x y))
            | _, _, _ => Unspec
            end))
      (* "Logical operators normalize to 0 or 1 with short-circuit evaluation" *)
      | EAnd a b =>
          bind (eval r a) (fun va =>
            match va with
            | VI x => if truthy x
                      then bind (eval r b) (fun vb => match vb with VI y => Ok (b2v (truthy y)) | _ => Unspec end)
                      else Ok (b2v false)
            | _ => Unspec
            end)
      | EOr a b =>
          bind (eval r a) (fun va =>
            match va with
            | VI x => if truthy x then Ok (b2v true)
                      else bind (eval r b) (fun vb => match vb with VI y => Ok (b2v (truthy y)) | _ => Unspec end)
            | _ => Unspec
            end)
      | ECast t a =>
          bind (eval r a) (fun v =>
            match ety a with Some ta => cast ta t v | None => Unspec end)
      end.

    (* statements *)
    Inductive outcome := Next (r : env) | Ret (v : val) (r : env) | Brk (r : env) | Cont (r : env).

    Definition compound (r : env) (i : nat) (op : arith) (v : val) : res val :=
      match nth_error tys i, r i, v with
      | Some (TI t), VI x, VI y => bind (int_arith t op x y) (fun z => Ok (VI z))
      | Some (TF t), VF x, VF y => Ok (VF (f_arith fo t op x y))
      | _, _, _ => Unspec
      end.

    Definition cond_true (v : val) : res bool :=
      match v with VI z => Ok (truthy z) | _ => Unspec end.

    Fixpoint exec_stmt (r : env) (s : stmt) : res outcome :=
      match s with
      | SDecl i _ e => bind (eval r e) (fun v => Ok (Next (upd r i v)))
      | SAssign i e => bind (eval r e) (fun v => Ok (Next (upd r i v)))
      | SCompound i op e =>
          bind (eval r e) (fun v => bind (compound r i op v) (fun v' => Ok (Next (upd r i v'))))
      | SIf c th el =>
          bind (eval r c) (fun vc => bind (cond_true vc) (fun b =>
            if b then exec_block r th else exec_els r el))
      | SReturn e => bind (eval r e) (fun v => Ok (Ret v r))
      | SFor c b =>
          (fix iter (n : nat) (r : env) : res outcome :=
             match n with
             | O => Unspec
             | S n' =>
                 bind (eval r c) (fun vc => bind (cond_true vc) (fun t =>
                   if t then
                     bind (exec_block r b) (fun o =>
                       match o with
                       | Next r' | Cont r' => iter n' r'
                       | Brk r' => Ok (Next r')
                       | Ret v rr => Ok (Ret v rr)
                       end)
                   else Ok (Next r)))
             end) loop_fuel r
      | SLoop b =>
          (fix iter (n : nat) (r : env) : res outcome :=
             match n with
             | O => Unspec
             | S n' =>
                 bind (exec_block r b) (fun o =>
                   match o with
                   | Next r' | Cont r' => iter n' r'
                   | Brk r' => Ok (Next r')
                   | Ret v rr => Ok (Ret v rr)
                   end)
             end) loop_fuel r
      | SRange i lim t start stop step b =>
          bind (match start with Some e => eval r e | None => Ok (VI 0) end) (fun v0 =>
          bind (eval r stop) (fun vl =>
          bind (match step with Some (_, e) => eval r e | None => Ok (VI 1) end) (fun vs =>
            match v0, vl, vs with
            | VI z0, VI zl, VI zs =>
                if zs =? 0 then Unspec else
                (fix iter (n : nat) (r : env) : res outcome :=
                   match n with
                   | O => Unspec
                   | S n' =>
                       match r i with
                       | VI z =>
                           if (if 0 <? zs then zl <=? z else z <=? zl) then Ok (Next r)
                           else
                             bind (exec_block r b) (fun o =>
                               match o with
                               | Next r' | Cont r' =>
                                   match r' i with
                                   | VI z' => iter n' (upd r' i (VI (wrap t (z' + zs))))
                                   | _ => Unspec
                                   end
                               | Brk r' => Ok (Next r')
                               | Ret v rr => Ok (Ret v rr)
                               end)
                       | _ => Unspec
                       end
                   end) loop_fuel (upd r i (VI z0))
            | _, _, _ => Unspec
            end)))
      | SBreak => Ok (Brk r)
      | SContinue => Ok (Cont r)
      | SStateDecl i _ e =>
          match r (st_flag i) with
          | VI 1 => Ok (Next r)                       (* already initialised: keeps its value *)
          | _ => bind (eval r e) (fun v => Ok (Next (upd (upd r i v) (st_flag i) (VI 1))))
          end
      | SSAssign i e => bind (eval r e) (fun v => Ok (Next (upd r i v)))
      | SSCompound i op e =>
          bind (eval r e) (fun v => bind (compound r i op v) (fun v' => Ok (Next (upd r i v'))))
      end
    with exec_block (r : env) (b : block) : res outcome :=
      match b with
      | BNil => Ok (Next r)
      | BCons s rest =>
          bind (exec_stmt r s) (fun o =>
            match o with Next r' => exec_block r' rest | o' => Ok o' end)
      end
    with exec_els (r : env) (el : els) : res outcome :=
      match el with
      | ElNone => Ok (Next r)
      | ElElse b => exec_block r b
      | ElElif c th el' =>
          bind (eval r c) (fun vc => bind (cond_true vc) (fun b =>
            if b then exec_block r th else exec_els r el'))
      end.
  End Expr.

  (* zero value of a type ("All types have default zero values") *)
  Definition zero_val (t : ty) : val :=
    match t with TI _ => VI 0 | TF t => VF (f_of_bits fo t 0) end.

  Fixpoint env_of (args : list val) (i : nat) : val :=
    match args, i with
    | [], _ => VI 0
    | v :: _, O => v
    | _ :: rest, S j => env_of rest j
    end.

  (* calling f on argument values: the value of the first executed return *)
  Definition spec_run (f : func) (args : list val) : res val :=
    bind (exec_block (f_tys f) (env_of args) (f_body f)) (fun o =>
      match o with Ret v _ => Ok v | _ => Unspec end).

  (* a sequence of invocations: the stateful variables [sv] (and their flags) carry over.
     After an invocation without a value (runtime error / unspecified) nothing is known about
     the state: the remaining invocations are [Unspec]. *)
  Definition carry (sv : list nat) (prev : env) (args : list val) : env :=
    fun j => if existsb (fun i => Nat.eqb j i || Nat.eqb j (st_flag i)) sv then prev j else env_of args j.

  Fixpoint spec_calls_from (f : func) (sv : list nat) (prev : env) (calls : list (list val))
    : list (res val) :=
    match calls with
    | [] => []
    | a :: rest =>
        match exec_block (f_tys f) (carry sv prev a) (f_body f) with
        | Ok (Ret v r') => Ok v :: spec_calls_from f sv r' rest
        | Ok _ => map (fun _ => Unspec) calls
        | RtErr => RtErr :: map (fun _ => Unspec) rest
        | Unspec => map (fun _ => Unspec) calls
        end
    end.
  Definition spec_calls (f : func) (sv : list nat) (calls : list (list val)) : list (res val) :=
    spec_calls_from f sv (fun _ => VI 0) calls.
End Sem.

Arguments VI {fo}. Arguments VF {fo}.
Arguments Next {fo}. Arguments Ret {fo}. Arguments Brk {fo}. Arguments Cont {fo}.
