(* Arc/StmtEqs.v — unfolding equations (all by reflexivity) of the mutually recursive functions
   over statements / blocks / else-parts, used by the proofs instead of simpl/cbn (which cannot
   refold mutual fixpoints defined inside sections). *)
From Coq Require Import ZArith List Bool.
From Synnax Require Import Arc.Syntax Arc.Spec Arc.Wasm Arc.Compile Arc.Guard.
Import ListNotations.

Section Eqs.
  Variable fo : float_ops.
  Variable tys : list ty.
  Variable np : nat.
  Variable ret : ty.

  (* ---- Syntax.check_* ---- *)
  Lemma check_stmt_decl sc i t e :
    check_stmt tys np ret sc (SDecl i t e) =
    if Nat.leb np i && negb (existsb (Nat.eqb i) sc)
       && match nth_error tys i with Some t' => ty_eqb t t' | None => false end
       && expr_ok tys sc e t
    then Some (i :: sc) else None.
  Proof. reflexivity. Qed.
  Lemma check_stmt_assign sc i e :
    check_stmt tys np ret sc (SAssign i e) =
    match var_ty tys sc i with
    | Some t => if expr_ok tys sc e t then Some sc else None
    | None => None
    end.
  Proof. reflexivity. Qed.
  Lemma check_stmt_compound sc i op e :
    check_stmt tys np ret sc (SCompound i op e) =
    match var_ty tys sc i with
    | Some t => if expr_ok tys sc e t then Some sc else None
    | None => None
    end.
  Proof. reflexivity. Qed.
  Lemma check_stmt_if sc c th el :
    check_stmt tys np ret sc (SIf c th el) =
    if cond_ok tys sc c && check_block tys np ret sc th && check_els tys np ret sc el
    then Some sc else None.
  Proof. reflexivity. Qed.
  Lemma check_stmt_return sc e :
    check_stmt tys np ret sc (SReturn e) = if expr_ok tys sc e ret then Some sc else None.
  Proof. reflexivity. Qed.
  Lemma check_block_nil sc : check_block tys np ret sc BNil = true.
  Proof. reflexivity. Qed.
  Lemma check_block_cons sc s b :
    check_block tys np ret sc (BCons s b) =
    match check_stmt tys np ret sc s with Some sc' => check_block tys np ret sc' b | None => false end.
  Proof. reflexivity. Qed.
  Lemma check_els_none sc : check_els tys np ret sc ElNone = true.
  Proof. reflexivity. Qed.
  Lemma check_els_else sc b : check_els tys np ret sc (ElElse b) = check_block tys np ret sc b.
  Proof. reflexivity. Qed.
  Lemma check_els_elif sc c th el :
    check_els tys np ret sc (ElElif c th el) =
    cond_ok tys sc c && check_block tys np ret sc th && check_els tys np ret sc el.
  Proof. reflexivity. Qed.

  (* ---- Guard.sflags_* ---- *)
  Lemma sflags_stmt_decl i t e : sflags_stmt tys (SDecl i t e) = sflags_expr tys (nth_error tys i) e.
  Proof. reflexivity. Qed.
  Lemma sflags_stmt_assign i e : sflags_stmt tys (SAssign i e) = sflags_expr tys (nth_error tys i) e.
  Proof. reflexivity. Qed.
  Lemma sflags_stmt_compound i op e :
    sflags_stmt tys (SCompound i op e) =
    sflags_expr tys (nth_error tys i) e ++
    flag (match op, nth_error tys i with AMod, Some (TF _) => true | _, _ => false end) TgFloatMod.
  Proof. reflexivity. Qed.
  Lemma sflags_stmt_if c th el :
    sflags_stmt tys (SIf c th el) = sflags_cond tys c ++ sflags_block tys th ++ sflags_els tys el.
  Proof. reflexivity. Qed.
  Lemma sflags_stmt_return e : sflags_stmt tys (SReturn e) = sflags_expr tys None e.
  Proof. reflexivity. Qed.
  Lemma sflags_block_nil : sflags_block tys BNil = [].
  Proof. reflexivity. Qed.
  Lemma sflags_block_cons s b : sflags_block tys (BCons s b) = sflags_stmt tys s ++ sflags_block tys b.
  Proof. reflexivity. Qed.
  Lemma sflags_els_none : sflags_els tys ElNone = [].
  Proof. reflexivity. Qed.
  Lemma sflags_els_else b : sflags_els tys (ElElse b) = sflags_block tys b.
  Proof. reflexivity. Qed.
  Lemma sflags_els_elif c th el :
    sflags_els tys (ElElif c th el) = sflags_cond tys c ++ sflags_block tys th ++ sflags_els tys el.
  Proof. reflexivity. Qed.

  (* ---- Guard.dflags_* ---- *)
  Lemma dflags_stmt_decl r i t e : dflags_stmt fo tys r (SDecl i t e) = dflags fo tys r e.
  Proof. reflexivity. Qed.
  Lemma dflags_stmt_assign r i e : dflags_stmt fo tys r (SAssign i e) = dflags fo tys r e.
  Proof. reflexivity. Qed.
  Lemma dflags_stmt_return r e : dflags_stmt fo tys r (SReturn e) = dflags fo tys r e.
  Proof. reflexivity. Qed.
  Lemma dflags_stmt_compound r i op e :
    dflags_stmt fo tys r (SCompound i op e) =
    dflags fo tys r e ++
    match eval fo tys r e with Ok v => compound_flags fo tys r i op v | _ => [] end.
  Proof. reflexivity. Qed.
  Lemma dflags_stmt_if r c th el :
    dflags_stmt fo tys r (SIf c th el) =
    dflags fo tys r c ++
    match eval fo tys r c with
    | Ok (VI z) => if truthy z then dflags_block fo tys r th else dflags_els fo tys r el
    | _ => []
    end.
  Proof. reflexivity. Qed.
  Lemma dflags_block_nil r : dflags_block fo tys r BNil = [].
  Proof. reflexivity. Qed.
  Lemma dflags_block_cons r s b :
    dflags_block fo tys r (BCons s b) =
    dflags_stmt fo tys r s ++
    match exec_stmt fo tys r s with
    | Ok (Next r') => dflags_block fo tys r' b
    | _ => []
    end.
  Proof. reflexivity. Qed.
  Lemma dflags_els_none r : dflags_els fo tys r ElNone = [].
  Proof. reflexivity. Qed.
  Lemma dflags_els_else r b : dflags_els fo tys r (ElElse b) = dflags_block fo tys r b.
  Proof. reflexivity. Qed.
  Lemma dflags_els_elif r c th el :
    dflags_els fo tys r (ElElif c th el) =
    dflags fo tys r c ++
    match eval fo tys r c with
    | Ok (VI z) => if truthy z then dflags_block fo tys r th else dflags_els fo tys r el
    | _ => []
    end.
  Proof. reflexivity. Qed.

  (* ---- Spec.exec_* ---- *)
  Lemma exec_stmt_decl r i t e :
    exec_stmt fo tys r (SDecl i t e) = bind (eval fo tys r e) (fun v => Ok (Next (upd fo r i v))).
  Proof. reflexivity. Qed.
  Lemma exec_stmt_assign r i e :
    exec_stmt fo tys r (SAssign i e) = bind (eval fo tys r e) (fun v => Ok (Next (upd fo r i v))).
  Proof. reflexivity. Qed.
  Lemma exec_stmt_compound r i op e :
    exec_stmt fo tys r (SCompound i op e) =
    bind (eval fo tys r e) (fun v =>
      bind (compound fo tys r i op v) (fun v' => Ok (Next (upd fo r i v')))).
  Proof. reflexivity. Qed.
  Lemma exec_stmt_if r c th el :
    exec_stmt fo tys r (SIf c th el) =
    bind (eval fo tys r c) (fun vc => bind (cond_true fo vc) (fun b =>
      if b then exec_block fo tys r th else exec_els fo tys r el)).
  Proof. reflexivity. Qed.
  Lemma exec_stmt_return r e :
    exec_stmt fo tys r (SReturn e) = bind (eval fo tys r e) (fun v => Ok (Ret v r)).
  Proof. reflexivity. Qed.
  Lemma exec_block_nil r : exec_block fo tys r BNil = Ok (Next r).
  Proof. reflexivity. Qed.
  Lemma exec_block_cons r s b :
    exec_block fo tys r (BCons s b) =
    bind (exec_stmt fo tys r s) (fun o =>
      match o with Next r' => exec_block fo tys r' b | o' => Ok o' end).
  Proof. reflexivity. Qed.
  Lemma exec_els_none r : exec_els fo tys r ElNone = Ok (Next r).
  Proof. reflexivity. Qed.
  Lemma exec_els_else r b : exec_els fo tys r (ElElse b) = exec_block fo tys r b.
  Proof. reflexivity. Qed.
  Lemma exec_els_elif r c th el :
    exec_els fo tys r (ElElif c th el) =
    bind (eval fo tys r c) (fun vc => bind (cond_true fo vc) (fun b =>
      if b then exec_block fo tys r th else exec_els fo tys r el)).
  Proof. reflexivity. Qed.

  (* ---- Compile.c* ---- *)
  Lemma cstmt_decl d lp i t e :
    cstmt tys ret d lp (SDecl i t e) =
    match nth_error tys i with
    | Some vt =>
        match cexpr_to tys (Some vt) e vt with Some c => Some (c ++ [LSet i], false) | None => None end
    | None => None
    end.
  Proof. reflexivity. Qed.
  Lemma cstmt_assign d lp i e :
    cstmt tys ret d lp (SAssign i e) =
    match nth_error tys i with
    | Some vt =>
        match cexpr_to tys (Some vt) e vt with Some c => Some (c ++ [LSet i], false) | None => None end
    | None => None
    end.
  Proof. reflexivity. Qed.
  Lemma cstmt_compound d lp i op e :
    cstmt tys ret d lp (SCompound i op e) =
    match nth_error tys i with
    | Some vt =>
        match cexpr_to tys (Some vt) e vt, arith_op op vt with
        | Some c, Some o => Some (LGet i :: c ++ [o; LSet i], false)
        | _, _ => None
        end
    | None => None
    end.
  Proof. reflexivity. Qed.
  Lemma cstmt_if d lp c th el :
    cstmt tys ret d lp (SIf c th el) =
    match ccond tys c, cblock tys ret (S d) lp th with
    | Some cc, Some (cth, dth) =>
        match el with
        | ElNone => Some (cc ++ [If None cth None], false)
        | _ =>
            match cels tys ret (S d) lp el with
            | Some (cel, has_else, dall) =>
                let all := has_else && dth && dall in
                Some (cc ++ [If None cth (Some cel)] ++ (if all then [Unreachable] else []), all)
            | None => None
            end
        end
    | _, _ => None
    end.
  Proof. reflexivity. Qed.
  Lemma cstmt_return d lp e :
    cstmt tys ret d lp (SReturn e) =
    match cexpr_to tys None e ret with Some c => Some (c ++ [Return], true) | None => None end.
  Proof. reflexivity. Qed.
  Lemma cblock_nil d lp : cblock tys ret d lp BNil = Some ([], false).
  Proof. reflexivity. Qed.
  Lemma cblock_cons d lp s b :
    cblock tys ret d lp (BCons s b) =
    match cstmt tys ret d lp s with
    | Some (cs, true) => Some (cs, true)
    | Some (cs, false) =>
        match cblock tys ret d lp b with Some (cr, dd) => Some (cs ++ cr, dd) | None => None end
    | None => None
    end.
  Proof. reflexivity. Qed.
  Lemma cels_none d lp : cels tys ret d lp ElNone = Some ([], false, false).
  Proof. reflexivity. Qed.
  Lemma cels_else d lp b :
    cels tys ret d lp (ElElse b) =
    match cblock tys ret d lp b with Some (cb, dd) => Some (cb, true, dd) | None => None end.
  Proof. reflexivity. Qed.
  Lemma cels_elif d lp c th el :
    cels tys ret d lp (ElElif c th el) =
    match ccond tys c, cblock tys ret (S d) lp th, cels tys ret (S d) lp el with
    | Some cc, Some (cth, dth), Some (cel, has_else, dall) =>
        Some (cc ++ [If None cth (Some cel)], has_else, dth && dall)
    | _, _, _ => None
    end.
  Proof. reflexivity. Qed.
End Eqs.

Ltac unf_in H :=
  rewrite ?check_stmt_decl, ?check_stmt_assign, ?check_stmt_compound, ?check_stmt_if, ?check_stmt_return,
    ?check_block_nil, ?check_block_cons, ?check_els_none, ?check_els_else, ?check_els_elif,
    ?sflags_stmt_decl, ?sflags_stmt_assign, ?sflags_stmt_compound, ?sflags_stmt_if, ?sflags_stmt_return,
    ?sflags_block_nil, ?sflags_block_cons, ?sflags_els_none, ?sflags_els_else, ?sflags_els_elif,
    ?dflags_stmt_decl, ?dflags_stmt_assign, ?dflags_stmt_compound, ?dflags_stmt_if, ?dflags_stmt_return,
    ?dflags_block_nil, ?dflags_block_cons, ?dflags_els_none, ?dflags_els_else, ?dflags_els_elif in H.
Ltac unf :=
  rewrite ?cstmt_decl, ?cstmt_assign, ?cstmt_compound, ?cstmt_if, ?cstmt_return,
    ?cblock_nil, ?cblock_cons, ?cels_none, ?cels_else, ?cels_elif,
    ?exec_stmt_decl, ?exec_stmt_assign, ?exec_stmt_compound, ?exec_stmt_if, ?exec_stmt_return,
    ?exec_block_nil, ?exec_block_cons, ?exec_els_none, ?exec_els_else, ?exec_els_elif.
