(* Monitors/Mon_C09.v — C09: the content readable after a concurrent run (in memory and after
   close+reopen) equals that of a serial order of the operations that reported success. *)
From stdpp Require Import gmap.
From Coq Require Import ZArith.
From Synnax Require Import Common.Base Cesium.Serial.
Local Open Scope Z_scope.

(* observation of one run: channel key ↦ None (absent) | Some values in read order *)
Notation obs := (list (Z * option (list Z))).

Definition is_data_key (k : Z) : bool := (k <? 1000) && (k mod 10 =? 2).
Definition stamp_of (k v : Z) : Z :=
  if is_data_key k then (v - 1 - (k / 10) * 1000000007) / 3 else v.

Definition obs_to_store (o : obs) : store :=
  list_to_map (flat_map (fun kv : Z * option (list Z) =>
     match kv.2 with
     | Some vals => [(kv.1, (list_to_map (map (fun v => (stamp_of kv.1 v, v)) vals) : content))]
     | None => []
     end) o).

Fixpoint increasing (l : list Z) : bool :=
  match l with
  | x :: ((y :: _) as r) => (x <? y) && increasing r
  | _ => true
  end.

Definition obs_sorted (o : obs) : bool :=
  forallb (fun kv => match kv.2 with
                     | Some vals => increasing (map (stamp_of kv.1) vals)
                     | None => true
                     end) o.

Record case_t := Case {
  c_groups : list Z;
  c_setup : list action;
  c_threads : list (list action);   (* only the actions that reported success concurrently *)
  c_conc_mem : obs; c_conc_reopen : obs;
  c_serial_mem : obs; c_serial_reopen : obs;
  c_bad : bool;                     (* stall, panic, or an error opening/closing the database *)
  c_commuting : bool                (* the generator built the threads to be cross-independent (the hypothesis
                                       of C09_serialisable); false for deliberately conflicting scenarios, where
                                       c_threads is in the serial order the harness found to explain the run *)
}.

Definition model_final (c : case_t) : store :=
  run (init_store (c_groups c)) (c_setup c ++ concat (c_threads c)).

(* correspondence: the generator respects the theorem's hypothesis and the model predicts the
   implementation's SERIAL outcome *)
Definition mismatch (c : case_t) : bool :=
  (c_commuting c && negb (cross_independent (c_threads c))) ||
  negb (bool_decide (model_final c = obs_to_store (c_serial_mem c))).

(* the property, on implementation observations only *)
Definition ok_C09 (c : case_t) : bool :=
  negb (c_bad c) &&
  obs_sorted (c_conc_mem c) && obs_sorted (c_conc_reopen c) &&
  bool_decide (obs_to_store (c_conc_mem c) = obs_to_store (c_serial_mem c)) &&
  bool_decide (obs_to_store (c_conc_reopen c) = obs_to_store (c_conc_mem c)) &&
  bool_decide (obs_to_store (c_serial_reopen c) = obs_to_store (c_serial_mem c)).

Definition violates (c : case_t) : bool := negb (ok_C09 c).
Definition mismatches (cs : list case_t) : list nat := find_idx mismatch cs.
Definition violations (cs : list case_t) : list nat := find_idx violates cs.

Definition model_dump (c : case_t) : list (Z * list (Z * Z)) :=
  map (fun kc => (kc.1, map_to_list kc.2)) (map_to_list (model_final c)).
