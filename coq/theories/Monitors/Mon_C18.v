(* Monitors/Mon_C18.v — case type, model-vs-implementation comparison and the decidable
   monitor for C18: every observed Enforce verdict is compared with the property's formula
   evaluated on the configuration that the history of assign/unassign/create/delete builds
   (an abstract set-based reference, independent of the ontology encoding). *)
From stdpp Require Import gmap.
From Coq Require Import NArith.
From Synnax Require Import Common.Base Core.Ontology Core.Rbac Core.RbacSpec.
Local Open Scope N_scope.

(* the configuration the correspondence runs the model in (= what /repo carries) *)
Definition model_rcfg : rcfg := rfixed.

(* ---- observations ---- *)
Definition raw_id : Type := str * str.
Definition raw_rel : Type := raw_id * str * raw_id.
Definition raw_pol : Type := str * (list raw_id * list str * bool).
Definition raw_role : Type := str * bool.
Definition rview : Type := list raw_id * list raw_rel * list raw_pol * list raw_role.
Definition raw_rp : Type := err * list str.
(* the committed view is None when its dump is identical to the transaction view's *)
Definition robs : Type := outcome * rview * option rview * list raw_rp.
Definition case_t : Type := list raw_id * rview * list (rop * robs).

Definition mk_id (r : raw_id) : id := Id r.1 r.2.
Definition mk_rel (r : raw_rel) : rel := Rel (mk_id r.1.1) r.1.2 (mk_id r.2).
Definition mk_pol (r : raw_pol) : str * policy := (r.1, Pol (mk_id <$> r.2.1.1) r.2.1.2 r.2.2).
Definition mk_rst (v : rview) : rst :=
  let '(res, rels, pols, roles) := v in
  RSt (OSt (list_to_map ((fun r => (id_str (mk_id r), mk_id r)) <$> res))
           (list_to_map ((fun r => (rel_key (mk_rel r), mk_rel r)) <$> rels)))
      (list_to_map (mk_pol <$> pols))
      (list_to_map roles).

Definition rst_eqb (a b : rst) : bool :=
  bool_decide (o_res (r_ont a) = o_res (r_ont b)) &&
  bool_decide (o_rels (r_ont a) = o_rels (r_ont b)) &&
  bool_decide (r_pols a = r_pols b) && bool_decide (r_roles a = r_roles b).

Definition count_str (k : str) (l : list str) : nat := length (filter (fun j => k = j) l).
Definition multiset_eqb (l1 l2 : list str) : bool :=
  forallb (fun k => Nat.eqb (count_str k l1) (count_str k l2)) (l1 ++ l2).

Fixpoint all2 {A B} (f : A -> B -> bool) (l1 : list A) (l2 : list B) : bool :=
  match l1, l2 with
  | [], [] => true
  | x :: l1', y :: l2' => f x y && all2 f l1' l2'
  | _, _ => false
  end.

Definition rp_match (st : rst) (s : id) (o : raw_rp) : bool :=
  match retrieve_policies st s, o with
  | Ok l, (EOk, ks) => multiset_eqb (fst <$> l) ks
  | Err e, (e', _) => bool_decide (e = e') && negb (bool_decide (e = EOk))
  | _, _ => false
  end.

Definition rstep_match (subs : list id) (s : rsys) (out : outcome) (o : robs) : bool :=
  let '(out', v, cv, rps) := o in
  bool_decide (out = out') &&
  rst_eqb (rcur s) (mk_rst v) &&
  match cv with Some cv => rst_eqb (rs_db s) (mk_rst cv) | None => rst_eqb (rs_db s) (rcur s) end &&
  all2 (rp_match (rcur s)) subs rps.

Fixpoint rtrace_match (subs : list id) (s : rsys) (tr : list (rop * robs)) : bool :=
  match tr with
  | [] => true
  | (o, ob) :: rest =>
      let '(s', out) := rstep model_rcfg s o in
      rstep_match subs s' out ob && rtrace_match subs s' rest
  end.

Definition mismatch (c : case_t) : bool :=
  let '(subs, init, tr) := c in
  negb (rst_eqb (rs_db rinit) (mk_rst init) && rtrace_match (mk_id <$> subs) rinit tr).

(* ---- the monitor: the set-based reference configuration of Core/RbacSpec.v ---- *)
Fixpoint a_steps (s : asys) (tr : list (rop * robs)) : bool :=
  match tr with
  | [] => true
  | (o, ob) :: rest =>
      let '(ok, s') := a_step s o ob.1.1.1 in ok && a_steps s' rest
  end.

Definition ok_C18 (c : case_t) : bool := a_steps (ASys a_empty None) c.2.
Definition violates (c : case_t) : bool := negb (ok_C18 c).

Definition mismatches (cs : list case_t) : list nat := find_idx mismatch cs.
Definition violations (cs : list case_t) : list nat := find_idx violates cs.

(* ---- replay aid ---- *)
Definition dump_rst (st : rst) :=
  ((fun kr => (id_type kr.2, id_key kr.2)) <$> map_to_list (o_res (r_ont st)),
   (fun kr => (id_type (r_from kr.2), id_key (r_from kr.2), r_type kr.2,
               id_type (r_to kr.2), id_key (r_to kr.2))) <$> map_to_list (o_rels (r_ont st)),
   fst <$> map_to_list (r_pols st), fst <$> map_to_list (r_roles st)).
Fixpoint rmodel_trace (subs : list id) (s : rsys) (ops : list rop) :=
  match ops with
  | [] => []
  | o :: rest =>
      let '(s', out) := rstep model_rcfg s o in
      (out, dump_rst (rcur s'),
       (fun sub => match retrieve_policies (rcur s') sub with
                   | Ok l => (EOk, fst <$> l) | Err e => (e, []) end) <$> subs)
      :: rmodel_trace subs s' rest
  end.
Definition model_dump (c : case_t) := rmodel_trace (mk_id <$> c.1.1) rinit (fst <$> c.2).
