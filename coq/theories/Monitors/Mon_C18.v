(* Monitors/Mon_C18.v — case type, model-vs-implementation comparison and the decidable
   monitor for C18: every observed Enforce verdict is compared with the property's formula
   evaluated on the configuration that the history of assign/unassign/create/delete builds
   (an abstract set-based reference, independent of the ontology encoding). *)
From stdpp Require Import gmap.
From Coq Require Import NArith.
From Synnax Require Import Common.Base Core.Ontology Core.Rbac.
Local Open Scope N_scope.

(* the configuration the correspondence runs the model in (= what /repo carries) *)
Definition model_rcfg : rcfg := rfixed.

(* ---- observations ---- *)
Definition raw_id : Type := str * str.
Definition raw_rel : Type := raw_id * str * raw_id.
Definition raw_pol : Type := str * (list raw_id * list str * bool).
Definition raw_role : Type := str * bool.
Definition rview : Type := list raw_id * list raw_rel * list raw_pol * list raw_role.
Definition raw_rp : Type := err * list str.
Definition robs : Type := outcome * rview * rview * list raw_rp.
Definition case_t : Type := list raw_id * rview * list (rop * robs).

Definition mk_id (r : raw_id) : id := Id r.1 r.2.
Definition mk_rel (r : raw_rel) : rel := Rel (mk_id r.1.1) r.1.2 (mk_id r.2).
Definition mk_pol (r : raw_pol) : str * policy := (r.1, Pol (mk_id <$> r.2.1.1) r.2.1.2 r.2.2).
Definition mk_rst (v : rview) : rst :=
  let '(res, rels, pols, roles) := v in
  RSt (OSt (list_to_map ((fun r => (id_str (mk_id r), mk_id r)) <$> res))
           (list_to_map ((fun r => (rel_key (mk_rel r), mk_rel r)) <$> rels)))
      (list_to_map (mk_pol <$> pols))
      (list_to_map roles).

Definition rst_eqb (a b : rst) : bool :=
  bool_decide (o_res (r_ont a) = o_res (r_ont b)) &&
  bool_decide (o_rels (r_ont a) = o_rels (r_ont b)) &&
  bool_decide (r_pols a = r_pols b) && bool_decide (r_roles a = r_roles b).

Definition count_str (k : str) (l : list str) : nat := length (filter (fun j => k = j) l).
Definition multiset_eqb (l1 l2 : list str) : bool :=
  forallb (fun k => Nat.eqb (count_str k l1) (count_str k l2)) (l1 ++ l2).

Fixpoint all2 {A B} (f : A -> B -> bool) (l1 : list A) (l2 : list B) : bool :=
  match l1, l2 with
  | [], [] => true
  | x :: l1', y :: l2' => f x y && all2 f l1' l2'
  | _, _ => false
  end.

Definition rp_match (st : rst) (s : id) (o : raw_rp) : bool :=
  match retrieve_policies st s, o with
  | Ok l, (EOk, ks) => multiset_eqb (fst <$> l) ks
  | Err e, (e', _) => bool_decide (e = e') && negb (bool_decide (e = EOk))
  | _, _ => false
  end.

Definition rstep_match (subs : list id) (s : rsys) (out : outcome) (o : robs) : bool :=
  let '(out', v, cv, rps) := o in
  bool_decide (out = out') &&
  rst_eqb (rcur s) (mk_rst v) && rst_eqb (rs_db s) (mk_rst cv) &&
  all2 (rp_match (rcur s)) subs rps.

Fixpoint rtrace_match (subs : list id) (s : rsys) (tr : list (rop * robs)) : bool :=
  match tr with
  | [] => true
  | (o, ob) :: rest =>
      let '(s', out) := rstep model_rcfg s o in
      rstep_match subs s' out ob && rtrace_match subs s' rest
  end.

Definition mismatch (c : case_t) : bool :=
  let '(subs, init, tr) := c in
  negb (rst_eqb (rs_db rinit) (mk_rst init) && rtrace_match (mk_id <$> subs) rinit tr).

(* ---- the monitor: set-based reference configuration ---- *)
Record acfg := ACfg {
  a_subj : list id;                 (* defined subjects *)
  a_roles : list str;               (* live roles *)
  a_pols : list (str * policy);     (* live policies *)
  a_assign : list (str * id);       (* role assigned to subject *)
  a_attach : list (str * str) }.    (* policy attached to role *)

Definition a_empty : acfg := ACfg [] [] [] [] [].

Definition in_b {A} `{EqDecision A} (x : A) (l : list A) : bool := bool_decide (x ∈ l).

(* the property's formula *)
Definition permitted (c : acfg) (s : id) (act : str) (objs : list id) : bool :=
  in_b s (a_subj c) &&
  forallb (fun o =>
    existsb (fun r =>
      in_b (r, s) (a_assign c) &&
      existsb (fun kp => in_b (r, kp.1) (a_attach c) && grants act o kp.2) (a_pols c))
    (a_roles c)) objs.

Fixpoint a_attach_all (c : acfg) (r : str) (ps : list str) : acfg :=
  match ps with
  | [] => c
  | p :: ps' =>
      if in_b r (a_roles c) && in_b p (fst <$> a_pols c)
      then a_attach_all (ACfg (a_subj c) (a_roles c) (a_pols c) (a_assign c) ((r, p) :: a_attach c)) r ps'
      else c
  end.

Definition a_apply (c : acfg) (o : rop) (ok : bool) : acfg :=
  match o with
  | RSubject s => if ok then ACfg (s :: a_subj c) (a_roles c) (a_pols c) (a_assign c) (a_attach c) else c
  | RDelSubject s =>
      ACfg (filter (fun x => x <> s) (a_subj c)) (a_roles c) (a_pols c)
           (filter (fun rs => rs.2 <> s) (a_assign c)) (a_attach c)
  | RCreateRole k _ _ =>
      if ok then ACfg (a_subj c) (k :: a_roles c) (a_pols c) (a_assign c) (a_attach c) else c
  | RDeleteRole k _ =>
      if ok then ACfg (a_subj c) (filter (fun x => x <> k) (a_roles c)) (a_pols c)
                      (filter (fun rs => rs.1 <> k) (a_assign c))
                      (filter (fun rp => rp.1 <> k) (a_attach c))
      else c
  | RCreatePolicy k p _ =>
      if ok then ACfg (a_subj c) (a_roles c) ((k, p) :: filter (fun kp => kp.1 <> k) (a_pols c))
                      (a_assign c) (a_attach c)
      else c
  | RDeletePolicies ks =>
      ACfg (a_subj c) (a_roles c) (filter (fun kp => kp.1 ∉ ks) (a_pols c)) (a_assign c)
           (filter (fun rp => rp.2 ∉ ks) (a_attach c))
  | RSetOnRole r ps => a_attach_all c r ps
  | RAssign s r =>
      if ok then ACfg (a_subj c) (a_roles c) (a_pols c) ((r, s) :: a_assign c) (a_attach c) else c
  | RUnassign s r =>
      ACfg (a_subj c) (a_roles c) (a_pols c) (filter (fun rs => rs <> (r, s)) (a_assign c)) (a_attach c)
  | _ => c
  end.

Record asys := ASys { as_db : acfg; as_tx : option acfg }.
Definition acur (s : asys) : acfg := default (as_db s) (as_tx s).

Definition is_ok (out : outcome) : bool := bool_decide (out = OErr EOk).

(* one observed step: returns (acceptable, next reference state) *)
Definition a_step (s : asys) (o : rop) (out : outcome) : bool * asys :=
  match o with
  | RBegin => (true, match as_tx s with None => ASys (as_db s) (Some (as_db s)) | Some _ => s end)
  | RCommit => (true, match as_tx s with Some c => ASys c None | None => s end)
  | RAbort => (true, ASys (as_db s) None)
  | REnforce sub act objs committed =>
      let c := if committed then as_db s else acur s in
      (bool_decide (bool_decide (out = OVerdict Allow) = permitted c sub act objs), s)
  | _ =>
      let c' := a_apply (acur s) o (is_ok out) in
      (true, match as_tx s with Some _ => ASys (as_db s) (Some c') | None => ASys c' None end)
  end.

Fixpoint a_steps (s : asys) (tr : list (rop * robs)) : bool :=
  match tr with
  | [] => true
  | (o, ob) :: rest =>
      let '(ok, s') := a_step s o ob.1.1.1 in ok && a_steps s' rest
  end.

Definition ok_C18 (c : case_t) : bool := a_steps (ASys a_empty None) c.2.
Definition violates (c : case_t) : bool := negb (ok_C18 c).

Definition mismatches (cs : list case_t) : list nat := find_idx mismatch cs.
Definition violations (cs : list case_t) : list nat := find_idx violates cs.

(* ---- replay aid ---- *)
Definition dump_rst (st : rst) :=
  ((fun kr => (id_type kr.2, id_key kr.2)) <$> map_to_list (o_res (r_ont st)),
   (fun kr => (id_type (r_from kr.2), id_key (r_from kr.2), r_type kr.2,
               id_type (r_to kr.2), id_key (r_to kr.2))) <$> map_to_list (o_rels (r_ont st)),
   fst <$> map_to_list (r_pols st), fst <$> map_to_list (r_roles st)).
Fixpoint rmodel_trace (subs : list id) (s : rsys) (ops : list rop) :=
  match ops with
  | [] => []
  | o :: rest =>
      let '(s', out) := rstep model_rcfg s o in
      (out, dump_rst (rcur s'),
       (fun sub => match retrieve_policies (rcur s') sub with
                   | Ok l => (EOk, fst <$> l) | Err e => (e, []) end) <$> subs)
      :: rmodel_trace subs s' rest
  end.
Definition model_dump (c : case_t) := rmodel_trace (mk_id <$> c.1.1) rinit (fst <$> c.2).
