(* Monitors/Mon_C08.v — case type, model-vs-implementation comparison and the decidable
   monitor of C08 on the IMPLEMENTATION's observations. *)
From Coq Require Import List NArith Bool.
Import ListNotations.
From Synnax Require Import Common.Base Common.Bytes Generated.Consts_C08 Codec.FrameCodec.
Local Open Scope N_scope.

(* ---- observations ---- *)
(* outcome classes reported by the harness: 0 = returned a value, 100 = panicked,
   98 = no such codec / update refused, otherwise the error code of FrameCodec.v (50 = other) *)
Definition cls_ok : N := 0.
Definition cls_panic : N := 100.
Definition cls_skip : N := 98.
Definition cls_of {A} (o : outcome A) : N :=
  match o with Ok _ => cls_ok | Err e => e | Panic => cls_panic end.

Inductive op :=
| ONewStatic (who : N) (compress : bool) (keys dts : list N)
| ONewDynamic (who : N) (compress : bool)
| OUpdate (who : N) (keys : list N) (kd : list (N * N)) (cls : N)
(* mutated: what Encode did to the caller's sample memory — 0 nothing, 1 bytes of the shared
   backing block outside every series changed, 2 the data of a series of the frame changed *)
| OEncode (who : N) (f : frame) (cls : N) (bytes : list N) (mutated : N)
| ODecode (who : N) (stream : bool) (bs : list N) (cls : N) (fr : frame) (alloc : N)
(* (Density(), IsVariable()) of data type codes 0..15 as the real telem package reports them *)
| ODtTable (tbl : list (N * N)).

Definition model_dt_table : list (N * N) :=
  map (fun c => (density c, if is_variable c then 1 else 0))
      [0;1;2;3;4;5;6;7;8;9;10;11;12;13;14;15].

Definition case_t : Type := list op.

(* run-length helper for long byte strings in generated case files *)
Definition repN (n : N) (b : N) : list N := repeat b (N.to_nat n).

(* ---- decidable equalities ---- *)
Definition series_eqb (a b : series) : bool :=
  (s_dt a =? s_dt b) && (s_ts a =? s_ts b) && (s_te a =? s_te b) && (s_al a =? s_al b) &&
  eq_listN (s_data a) (s_data b).
Fixpoint frame_eqb (a b : frame) : bool :=
  match a, b with
  | [], [] => true
  | (k, s) :: a', (k', s') :: b' => (k =? k') && series_eqb s s' && frame_eqb a' b'
  | _, _ => false
  end.
Fixpoint eq_listNN (a b : list (N * N)) : bool :=
  match a, b with
  | [], [] => true
  | (x, y) :: a', (x', y') :: b' => (x =? x') && (y =? y') && eq_listNN a' b'
  | _, _ => false
  end.
Definition cstate_eqb (a b : cstate) : bool :=
  eq_listN (st_keys a) (st_keys b) && eq_listNN (st_dts a) (st_dts b).

(* ---- environment: the codecs of a script (bookkeeping of the inputs) ---- *)
Notation env := (list (N * codec)).
Fixpoint env_get (who : N) (e : env) : option codec :=
  match e with
  | [] => None
  | (w, c) :: r => if w =? who then Some c else env_get who r
  end.
Fixpoint env_set (who : N) (c : codec) (e : env) : env :=
  match e with
  | [] => [(who, c)]
  | (w, c') :: r => if w =? who then (who, c) :: r else (w, c') :: env_set who c r
  end.

(* ---- slack allowed between the model's data-buffer allocations and Go's TotalAlloc delta:
   frame key/series slices (76 B per decoded series, up to 4x through append growth; a series can
   take as little as 4 bytes on the wire), error values
   with stack traces, the lo.Keys slice of the invalid-sequence message ---- *)
Definition alloc_slack (nbytes nkeys nstates : N) : N :=
  128 * nbytes + 512 * nkeys + 64 * nstates + 16384.

(* what "not out of proportion to the input" means for the monitor: linear in the input (and in
   the size of the agreed channel set, which is not wire-controlled) plus an absolute constant
   that covers the one speculative buffer of maxPrealloc bytes *)
Definition alloc_budget (nbytes nkeys nstates : N) : N :=
  256 * nbytes + 1024 * nkeys + 64 * nstates + 65536 + maxPrealloc.

Definition max_keys (c : codec) : N :=
  fold_right N.max 0 (map (fun st => lenN (st_keys st)) (c_states c ++ c_pending c)).
Definition n_states (c : codec) : N := lenN (c_states c) + lenN (c_pending c).

(* ---- model vs implementation ---- *)
Definition mode_of (stream : bool) : rmode := if stream then Stream else Sized.

(* one step of the model; returns the new environment and whether the observation differs *)
Definition mstep (V : variant) (e : env) (o : op) : env * bool :=
  match o with
  | ONewStatic who compress keys dts => (env_set who (new_static compress keys dts) e, false)
  | ONewDynamic who compress => (env_set who (new_codec compress) e, false)
  | OUpdate who keys kd cls =>
      match env_get who e with
      | None => (e, negb (cls =? cls_skip))
      | Some c => match c_update c (mk_state keys kd) with
                  | None => (e, negb (cls =? cls_skip))
                  | Some c' => (env_set who c' e, negb (cls =? cls_ok))
                  end
      end
  | OEncode who f cls bytes mutated =>
      match env_get who e with
      | None => (e, negb (cls =? cls_skip))
      | Some c =>
          let '(c', out) := c_encode c f in
          (env_set who c' e,
           (* the model's encoder is a function of the frame: it never writes to its input *)
           negb ((cls =? cls_of out) && (mutated =? 0) &&
                 match out with Ok b => eq_listN b bytes | _ => true end))
      end
  | ODecode who stream bs cls fr alloc =>
      match env_get who e with
      | None => (e, negb (cls =? cls_skip))
      | Some c =>
          let '(c', (out, al)) := c_decode V (mode_of stream) c bs in
          let total := sum_allocs al in
          (env_set who c' e,
           negb ((cls =? cls_of out) &&
                 match out with Ok f => frame_eqb f fr | _ => true end &&
                 (total <=? alloc) &&
                 (alloc <=? total + alloc_slack (lenN bs) (max_keys c') (n_states c'))))
      end
  | ODtTable tbl => (e, negb (eq_listNN tbl model_dt_table))
  end.

Fixpoint mrun (V : variant) (e : env) (ops : list op) : bool :=
  match ops with
  | [] => false
  | o :: r => let '(e', bad) := mstep V e o in bad || mrun V e' r
  end.

Definition model_variant : variant := current.
Definition mismatch (c : case_t) : bool := mrun model_variant [] c.

(* ---- the monitor ---- *)
(* last successful encode: encoder state, sequence number, frame, emitted bytes *)
Definition lastenc := option (cstate * N * frame * list N).

Definition codec_known (c : codec) : bool := forallb state_known (c_states c ++ c_pending c).

(* what the property demands of one observed step; env/lastenc are derived from the inputs *)
Definition vstep (e : env) (le : lastenc) (o : op) : env * lastenc * bool :=
  match o with
  | ONewStatic who compress keys dts => (env_set who (new_static compress keys dts) e, le, false)
  | ONewDynamic who compress => (env_set who (new_codec compress) e, le, false)
  | OUpdate who keys kd cls =>
      match env_get who e with
      | None => (e, le, false)
      | Some c => match c_update c (mk_state keys kd) with
                  | None => (e, le, false)
                  | Some c' => (env_set who c' e, le, false)
                  end
      end
  | OEncode who f cls bytes mutated =>
      match env_get who e with
      | None => (e, le, false)
      | Some c =>
          let c' := process c in
          match last (map Some (c_states c')) None with
          | None => (env_set who c' e, le, false)   (* not initialised: nothing is demanded *)
          | Some st =>
              let seq := lenN (c_states c') in
              (env_set who c' e,
               (if cls =? cls_ok then Some (st, seq, f, bytes) else le),
               (* a valid frame must have an encoding, and still be that frame afterwards *)
               frame_valid st f && (seq <? two32) && (negb (cls =? cls_ok) || (mutated =? 2)))
          end
      end
  | ODecode who stream bs cls fr alloc =>
      match env_get who e with
      | None => (e, le, false)
      | Some c =>
          let c' := process c in
          let known := codec_known c' in
          (* safety: a frame or an error, never a panic; allocation in proportion *)
          let bad_panic := known && (cls =? cls_panic) in
          let bad_alloc := alloc_budget (lenN bs) (max_keys c') (n_states c') <? alloc in
          (* round trip: these bytes are the encoding of a valid frame under a state this
             decoder holds at the transmitted sequence number *)
          let bad_rt :=
            match le with
            | Some (st, seq, f, bytes) =>
                if eq_listN bs bytes && frame_valid st f && (seq <? two32) &&
                   match state_at (c_states c') seq with
                   | Some st' => cstate_eqb st st'
                   | None => false
                   end
                then negb ((cls =? cls_ok) && frame_eqb (merge (sortK fr)) (norm true st f))
                else false
            | None => false
            end in
          (env_set who c' e, le, bad_panic || bad_alloc || bad_rt)
      end
  | ODtTable _ => (e, le, false)
  end.

Fixpoint vrun (e : env) (le : lastenc) (ops : list op) : bool :=
  match ops with
  | [] => false
  | o :: r => let '(e', le', bad) := vstep e le o in bad || vrun e' le' r
  end.

Definition violates (c : case_t) : bool := vrun [] None c.

Definition mismatches (cs : list case_t) : list nat := find_idx mismatch cs.
Definition violations (cs : list case_t) : list nat := find_idx violates cs.

(* ---- model dump for replays: per op, the model's class, bytes / frame, allocation log ---- *)
Inductive dump :=
| DNone
| DEnc (cls : N) (bytes : list N)
| DDec (cls : N) (fr : list (N * (N * N * N * N * list N))) (allocs : list N).
Definition dump_frame (f : frame) :=
  map (fun ks => (fst ks, (s_dt (snd ks), s_ts (snd ks), s_te (snd ks), s_al (snd ks), s_data (snd ks)))) f.
Fixpoint dump_run (V : variant) (e : env) (ops : list op) : list dump :=
  match ops with
  | [] => []
  | o :: r =>
      let d := match o with
               | OEncode who f _ _ _ =>
                   match env_get who e with
                   | Some c => let out := snd (c_encode c f) in
                               DEnc (cls_of out) (match out with Ok b => b | _ => [] end)
                   | None => DNone
                   end
               | ODecode who stream bs _ _ _ =>
                   match env_get who e with
                   | Some c => let '(out, al) := snd (c_decode V (mode_of stream) c bs) in
                               DDec (cls_of out) (match out with Ok f => dump_frame f | _ => [] end) al
                   | None => DNone
                   end
               | _ => DNone
               end in
      d :: dump_run V (fst (mstep V e o)) r
  end.
Definition model_dump (c : case_t) : list dump := dump_run model_variant [] c.
