(* Monitors/Mon_C17.v — case type, model-vs-implementation comparison (mismatches) and the
   decidable monitor of C17 on the implementation's observations (violations). *)
From stdpp Require Import gmap.
From Coq Require Import NArith ZArith List.
From Synnax Require Import Common.Base Core.Gorp Core.GorpSpec.
Import ListNotations.
Local Open Scope Z_scope.

(* ---- what the harness reports ---- *)
(* one executed Retrieve: Exec error class, rows, Count, Count error, Exists, Exists error *)
Record rq := RQ { rq_e : N; rq_rows : list row; rq_cnt : nat; rq_ce : N; rq_x : bool; rq_xe : N }.
(* per open transaction: id, full scan through it, Get(tx, v) of both indexes for every value *)
Record txp := TxP { tp_t : nat; tp_rows : list row; tp_lg : list (Z * list N); tp_sg : list (Z * list N) }.
(* state probe after every operation *)
Record probe := PR {
  p_rows : list row;                 (* committed table, key order *)
  p_lf : list (Z * list N);          (* LookupIndex.forward, buckets sorted *)
  p_lr : list (N * Z);               (* LookupIndex.reverse *)
  p_ld : nat;                        (* live per-tx deltas of the lookup overlay *)
  p_se : list (Z * N);               (* SortedIndex.entries in index order *)
  p_sr : list (N * Z);
  p_sd : nat;
  p_txs : list txp;
  p_lb : bool; p_sb : bool           (* Get of the lookup / sorted index answers ErrIndexInvalid *)
}.
Record iout := IOut { io_e : N; io_qi : option rq; io_qs : option rq; io_g : option (list N); io_p : probe }.

(* the case file carries each probe as a difference to the previous one (None = unchanged);
   [expand] rebuilds the full probes before anything is checked *)
Record pdelta := PD {
  pd_rows : option (list row); pd_lf : option (list (Z * list N)); pd_lr : option (list (N * Z));
  pd_ld : nat; pd_se : option (list (Z * N)); pd_sr : option (list (N * Z)); pd_sd : nat;
  pd_txs : list (nat * option txp); pd_lb : bool; pd_sb : bool
}.
Record ioutd := IOutD { iod_e : N; iod_qi : option rq; iod_qs : option rq; iod_g : option (list N);
                        iod_p : option pdelta }.
Definition find_tx (t : nat) (l : list txp) : txp :=
  default (TxP t [] [] []) (List.find (fun x => Nat.eqb (tp_t x) t) l).
Definition patch (prev : probe) (d : pdelta) : probe :=
  PR (default (p_rows prev) (pd_rows d)) (default (p_lf prev) (pd_lf d)) (default (p_lr prev) (pd_lr d))
     (pd_ld d) (default (p_se prev) (pd_se d)) (default (p_sr prev) (pd_sr d)) (pd_sd d)
     (map (fun td => match td.2 with Some x => x | None => find_tx td.1 (p_txs prev) end) (pd_txs d))
     (pd_lb d) (pd_sb d).
Fixpoint expand (prev : probe) (tr : list (op * ioutd)) : list (op * iout) :=
  match tr with
  | [] => []
  | (o, i) :: tl =>
      let p := match iod_p i with Some d => patch prev d | None => prev end in
      (o, IOut (iod_e i) (iod_qi i) (iod_qs i) (iod_g i) p) :: expand p tl
  end.

Record case_t := CaseT {
  c_mode1 : bool; c_dedup : bool; c_seed : list row; c_avals : list Z; c_bvals : list Z;
  c_p0 : probe; c_dsteps : list (op * ioutd)
}.
Definition c_steps (c : case_t) : list (op * iout) := expand (c_p0 c) (c_dsteps c).

(* ---- canonical forms ---- *)
Definition sortZ {A} (l : list (Z * A)) : list (Z * A) := isort (fun a b => Z.leb a.1 b.1) l.
Definition sortNk {A} (l : list (N * A)) : list (N * A) := isort (fun a b => N.leb a.1 b.1) l.
Definition lex_leb (a b : Z * N) : bool := Z.ltb a.1 b.1 || (Z.eqb a.1 b.1 && N.leb a.2 b.2).
Definition sort_ents (l : list (Z * N)) : list (Z * N) := isort lex_leb l.
Fixpoint sorted_by_val (l : list (Z * N)) : bool :=
  match l with
  | a :: ((b :: _) as t) => Z.leb a.1 b.1 && sorted_by_val t
  | _ => true
  end.

Definition gets_l (s : st) (t : option nat) (vs : list Z) : list (Z * list N) :=
  if lbad s then [] else
  map (fun v => (v, sort_keys (match t with
                                | None => l_get_committed true [v] (li s)
                                | Some t => idx_get s t IA [v] end))) vs.
Definition gets_s (s : st) (t : option nat) (vs : list Z) : list (Z * list N) :=
  if sbad s then [] else
  map (fun v => (v, sort_keys (match t with
                                | None => s_get_committed true [v] (si s)
                                | Some t => idx_get s t IB [v] end))) vs.

Definition open_ids (s : st) : list nat := isort Nat.leb (map fst (map_to_list (txs s))).

Definition model_probe (s : st) (av bv : list Z) : probe :=
  PR (sorted_rows (rows s))
     (sortZ (map (fun p => (p.1, sort_keys p.2)) (map_to_list (l_fwd (li s)))))
     (sortNk (map_to_list (l_rev (li s))))
     (size (lov s))
     (s_ents (si s))
     (sortNk (map_to_list (s_rev (si s))))
     (size (sov s))
     (map (fun t => TxP t (sorted_rows (view s t)) (gets_l s (Some t) av) (gets_s s (Some t) bv))
          (open_ids s))
     (lbad s) (sbad s).

Definition txp_eqb (a b : txp) : bool :=
  bool_decide (tp_t a = tp_t b) && bool_decide (tp_rows a = tp_rows b) &&
  bool_decide (tp_lg a = tp_lg b) && bool_decide (tp_sg a = tp_sg b).
Fixpoint list_eqb {A B} (e : A -> B -> bool) (a : list A) (b : list B) : bool :=
  match a, b with
  | [], [] => true
  | x :: a', y :: b' => e x y && list_eqb e a' b'
  | _, _ => false
  end.
(* probes agree; the sorted index is compared up to the order inside one value (a committing
   transaction's delta is flushed in Go map order) *)
Definition probe_eqb (m i : probe) : bool :=
  bool_decide (p_rows m = p_rows i) && bool_decide (p_lf m = p_lf i) &&
  bool_decide (p_lr m = p_lr i) && Nat.eqb (p_ld m) (p_ld i) &&
  (* a failed populate leaves the slice unsorted: binary-search insert/remove on it then depend on
     the Go map order in which a commit flushes its delta, so the content of a sorted index that
     reports invalid (and is never served) is not compared; the model continues from the
     implementation's slice (resync) *)
  (p_sb m && p_sb i ||
   bool_decide (sort_ents (p_se m) = sort_ents (p_se i)) && sorted_by_val (p_se i)) &&
  bool_decide (p_sr m = p_sr i) && Nat.eqb (p_sd m) (p_sd i) &&
  list_eqb txp_eqb (p_txs m) (p_txs i) &&
  Bool.eqb (p_lb m) (p_lb i) && Bool.eqb (p_sb m) (p_sb i).

(* adopt the implementation's order inside equal values (only called when probe_eqb holds) *)
Definition resync (s : st) (i : probe) : st :=
  St (rows s) (li s) (SIdx (p_se i) (s_rev (si s))) (lov s) (sov s) (txs s) (mode1 s) (dedup s) (lbad s) (sbad s).

Definition rq_matches (q : qout) (r : rq) : bool :=
  N.eqb (q_err q) (rq_e r) && bool_decide (sort_rows (q_rows q) = rq_rows r) &&
  Nat.eqb (q_cnt q) (rq_cnt r) && N.eqb (rq_ce r) 0 && Bool.eqb (q_ex q) (rq_x r) && N.eqb (rq_xe r) 0.

Definition out_matches (o : out) (i : iout) : bool :=
  match o with
  | OSkip => N.eqb (io_e i) 3
  | ODone e => N.eqb (io_e i) e
  | OQ qi qs =>
      N.eqb (io_e i) 0 &&
      match io_qi i, io_qs i with
      | Some ri, Some rs => rq_matches qi ri && rq_matches qs rs
      | _, _ => false
      end
  | OOrd qi qs =>
      N.eqb (io_e i) 0 &&
      match io_qi i, io_qs i with
      | Some ri, Some rs => bool_decide (qi = rq_rows ri) && N.eqb (rq_e ri) 0 &&
                            N.eqb (q_err qs) (rq_e rs) && bool_decide (sort_rows (q_rows qs) = rq_rows rs)
      | _, _ => false
      end
  | OKeys ks =>
      N.eqb (io_e i) 0 && match io_g i with Some g => bool_decide (sort_keys ks = g) | None => false end
  end.

Fixpoint steps_match (s : st) (av bv : list Z) (tr : list (op * iout)) : bool :=
  match tr with
  | [] => true
  | (o, i) :: tl =>
      let '(s', out) := step s o in
      out_matches out i && probe_eqb (model_probe s' av bv) (io_p i) &&
      steps_match (resync s' (io_p i)) av bv tl
  end.

Definition mismatch (c : case_t) : bool :=
  let s0 := init (c_mode1 c) (c_dedup c) (c_seed c) in
  negb (probe_eqb (model_probe s0 (c_avals c) (c_bvals c)) (c_p0 c) &&
        steps_match (resync s0 (c_p0 c)) (c_avals c) (c_bvals c) (c_steps c)).

(* ------------------------------------------------------------------ the monitor *)
(* Demands of C17 on what the implementation returned, stated against the abstract
   specification GorpSpec (table + write sets): *)

Definition sp_open_ids (s : sst) : list nat := isort Nat.leb (map fst (map_to_list (sp_txs s))).

Definition gets_spec (i : iid) (m : table) (vs : list Z) : list (Z * list N) :=
  map (fun v => (v, keys_with i v m)) vs.

(* (c) committed index content is exactly the committed table: nothing for deleted rows, nothing
   of uncommitted or aborted transactions; no delta outlives its transaction *)
(* An index that itself answers ErrIndexInvalid (its populate scan failed; readers fall back to
   scans) is not held to this: its content is never served. *)
Definition index_exact (m : table) (p : probe) (nopen : nat) : bool :=
  let rs := sorted_rows m in
  (p_lb p ||
   bool_decide (p_lr p = map (fun r => (rk r, ra r)) rs) &&
   bool_decide (p_lf p = List.filter (fun b => negb (Nat.eqb (length b.2) 0))
                           (map (fun v => (v, keys_with IA v m))
                                (isort Z.leb (remove_dups (map ra rs)))))) &&
  (p_sb p ||
   bool_decide (p_sr p = map (fun r => (rk r, rb r)) rs) &&
   bool_decide (sort_ents (p_se p) = sort_ents (map (fun r => (rb r, rk r)) rs))) &&
  (p_ld p <=? nopen)%nat && (p_sd p <=? nopen)%nat.

(* (b) after every operation: the committed table is the specification's; every open transaction
   scans and equality-queries its own view (own uncommitted writes, nobody else's); a reader
   without transaction sees committed state only *)
Definition probe_ok (s : sst) (av bv : list Z) (p : probe) : bool :=
  bool_decide (p_rows p = sorted_rows (sp_rows s)) &&
  index_exact (sp_rows s) p (length (sp_open_ids s)) &&
  list_eqb (fun t (x : txp) =>
              Nat.eqb t (tp_t x) &&
              bool_decide (tp_rows x = sorted_rows (sp_view s t)) &&
              (p_lb p || bool_decide (tp_lg x = gets_spec IA (sp_view s t) av)) &&
              (p_sb p || bool_decide (tp_sg x = gets_spec IB (sp_view s t) bv)))
           (sp_open_ids s) (p_txs p).

Definition inrows (r : row) (l : list row) : bool := existsb (fun x => bool_decide (x = r)) l.
(* (a) one indexed query against its full-scan twin and against the specification *)
Definition rq_is (r : rq) (expect : list row) : bool :=
  N.eqb (rq_e r) 0 && bool_decide (rq_rows r = expect) && Nat.eqb (rq_cnt r) (length expect) &&
  N.eqb (rq_ce r) 0 && Bool.eqb (rq_x r) (negb (Nat.eqb (length expect) 0)) && N.eqb (rq_xe r) 0.
(* the same up to multiplicity: used when the caller itself listed a key twice in MatchKeys *)
Definition rq_is_set (r : rq) (expect : list row) : bool :=
  N.eqb (rq_e r) 0 && forallb (fun x => inrows x expect) (rq_rows r) &&
  forallb (fun x => inrows x (rq_rows r)) expect &&
  N.eqb (rq_ce r) 0 && Bool.eqb (rq_x r) (negb (Nat.eqb (length expect) 0)) && N.eqb (rq_xe r) 0.

Fixpoint sorted_dir (desc : bool) (l : list row) : bool :=
  match l with
  | a :: ((b :: _) as t) => (if desc then Z.leb (rb b) (rb a) else Z.leb (rb a) (rb b)) && sorted_dir desc t
  | _ => true
  end.
(* ordered pagination: the page is an ordered, duplicate-free, prefix-closed selection of the
   scan's rows of the right length (order inside equal values is free) *)
Definition page_ok (desc : bool) (limit : nat) (filtered : bool) (page cand : list row) : bool :=
  forallb (fun r => inrows r cand) page &&
  nodupN (map rk page) &&
  sorted_dir desc page &&
  (if filtered && negb (Nat.eqb limit 0) then true
   else
     Nat.eqb (length page) (match limit with O => length cand | _ => Nat.min limit (length cand) end) &&
     match stdpp.list.last page with
     | None => true
     | Some l => forallb (fun r => implb (if desc then Z.ltb (rb l) (rb r) else Z.ltb (rb r) (rb l))
                                         (inrows r page)) cand
     end).

Definition has_writes (s : sst) (t : nat) : bool :=
  match t with O => false | _ => negb (bool_decide (default ∅ (sp_txs s !! t) = ∅)) end.

Definition query_ok (s : sst) (o : op) (i : iout) : bool :=
  match o with
  | Query t f =>
      if sp_open s t && has_idx f then
        match io_qi i, io_qs i with
        | Some qi, Some qs =>
            let expect := sp_select s t (holds f) in
            (if nodup_keys f then rq_is qi expect else rq_is_set qi expect) && rq_is qs expect
        | _, _ => false
        end
      else true
  | OQuery t desc cursor limit f =>
      (* ordered walks are claimed for committed state: readers without own pending writes *)
      (* ... and for a sorted index that is usable (an invalid one is documented to walk as empty) *)
      if sp_open s t && negb (has_writes s t) && negb (p_sb (io_p i)) then
        match io_qi i, io_qs i with
        | Some qi, Some qs =>
            let cand := sp_select s t (ord_holds desc cursor f) in
            N.eqb (rq_e qi) 0 && bool_decide (rq_rows qs = cand) &&
            page_ok desc limit (match f with Some _ => true | None => false end) (rq_rows qi) cand
        | _, _ => false
        end
      else true
  | Get t i' vs =>
      if sp_open s t && nodupZ vs &&
         negb (match i' with IA => p_lb (io_p i) | IB => p_sb (io_p i) end) then
        match io_g i with
        | Some g => bool_decide (g = sort_keys (flat_map (fun v => keys_with i' v (sp_view s t)) vs))
        | None => false
        end
      else true
  | _ => true
  end.

(* the monitor's scope: an Update driven by a filter without index leaf may be the bare-keys
   form whose all-or-nothing NotFound contract is outside C17 *)
Definition in_scope (o : op) : bool :=
  match o with UpdateF _ f _ _ _ => has_idx f | _ => true end.

Fixpoint steps_ok (s : sst) (av bv : list Z) (tr : list (op * iout)) : bool :=
  match tr with
  | [] => true
  | (o, i) :: tl =>
      if in_scope o then
        let s' := sp_step s o in
        query_ok s o i && probe_ok s' av bv (io_p i) && steps_ok s' av bv tl
      else true
  end.

Definition ok_C17 (c : case_t) : bool :=
  let s0 := sp_init (c_seed c) in
  probe_ok s0 (c_avals c) (c_bvals c) (c_p0 c) && steps_ok s0 (c_avals c) (c_bvals c) (c_steps c).

Definition violates (c : case_t) : bool := negb (ok_C17 c).

Definition mismatches (cs : list case_t) : list nat := find_idx mismatch cs.
Definition violations (cs : list case_t) : list nat := find_idx violates cs.

(* replay aid: the model's outputs and probes along a case *)
Fixpoint model_trace (s : st) (av bv : list Z) (tr : list (op * iout)) : list (out * probe) :=
  match tr with
  | [] => []
  | (o, i) :: tl =>
      let '(s', out) := step s o in
      (out, model_probe s' av bv) :: model_trace (resync s' (io_p i)) av bv tl
  end.
Definition model_dump (c : case_t) : list (out * probe) :=
  model_trace (resync (init (c_mode1 c) (c_dedup c) (c_seed c)) (c_p0 c)) (c_avals c) (c_bvals c) (c_steps c).
(* index of the first step whose output or probe differs (None: the initial probe differs / all agree) *)
Fixpoint first_diff (s : st) (av bv : list Z) (tr : list (op * iout)) (n : nat) : option nat :=
  match tr with
  | [] => None
  | (o, i) :: tl =>
      let '(s', out) := step s o in
      if out_matches out i && probe_eqb (model_probe s' av bv) (io_p i)
      then first_diff (resync s' (io_p i)) av bv tl (S n) else Some n
  end.
Definition where_diff (c : case_t) : option nat :=
  first_diff (resync (init (c_mode1 c) (c_dedup c) (c_seed c)) (c_p0 c)) (c_avals c) (c_bvals c) (c_steps c) O.
