(* Monitors/Mon_C11_Sound.v — every event sequence the pledge model accepts is judged
   by the monitor of Mon_C11.v to be free of every violation kind except possibly
   "same key, disjoint approving quorums" (the known finding), and free of that one too
   when all candidate snapshots of the sequence pairwise satisfy the intersection guard.
   So the monitor is never stricter than the model: on an implementation run that the
   model accepts (mismatches = 0) a monitor rejection is exactly the finding. *)
From stdpp Require Import gmap.
From Coq Require Import NArith Lia.
From Synnax Require Import Common.Base Aspen.Pledge Aspen.PledgeQuorum Aspen.PledgeProofs Monitors.Mon_C11.
Local Open Scope N_scope.

Section sound.
(* a predicate every candidate snapshot of the sequence satisfies *)
Variable P : nview -> Prop.
Definition Pcompat : Prop := forall v1 v2, P v1 -> P v2 -> compat v1 v2.
Definition kind_ok (k : N) : Prop := k = k_dup_disjoint /\ ~ Pcompat.

Definition appr_ok (s : state) (x : N * N * N * bool) : Prop :=
  x.2 = false /\ granted_to s x.1.1.2 x.1.1.1 x.1.2.
Definition resp_ok (s : state) (x : N * N * N * N) : Prop :=
  exists rn js, s_runs s !! x.1.1.2 = Some rn /\ r_pledge rn = x.1.1.1 /\ r_phase rn = PhDone 0 false /\
                r_prop rn = x.1.2 /\ s_jur s !! r_member rn = Some js /\ j_ck js = x.2.
Definition adm_ok (s : state) (x : N * N * list N) : Prop :=
  p_done (pl_of s x.1.1) = true /\
  exists r rn, s_runs s !! r = Some rn /\ r_pledge rn = x.1.1 /\ admitted_run rn = true /\
               r_prop rn = x.1.2 /\ forall j, j ∈ x.2 -> granted_to s j r x.1.2.

Record Sim (s : state) (m : mst) : Prop := {
  sim_views : m_views m = s_views s;
  sim_ck : forall a, m_ck m !! a = j_ck <$> (s_jur s !! a);
  sim_run : forall r, m_run m !! r = (fun rn => (r_pledge rn, r_member rn)) <$> (s_runs s !! r);
  sim_snap : forall r rn, s_runs s !! r = Some rn -> r_prop rn <> 0 ->
               m_snap m !! r = Some (r_snap rn) /\ P (r_snap rn);
  sim_appr : forall x, x ∈ m_appr m -> appr_ok s x;
  sim_appr_complete : forall r rn j, s_runs s !! r = Some rn -> (j, true) ∈ r_asked rn ->
               exists b, (r, j, r_prop rn, b) ∈ m_appr m;
  sim_resp : forall x, x ∈ m_resp m -> resp_ok s x;
  sim_resp_complete : forall p k c, result_of s p = Some (k, c) -> exists r, (p, r, k, c) ∈ m_resp m;
  sim_adm : forall x, x ∈ m_adm m -> adm_ok s x;
  sim_kinds : Forall kind_ok (m_kinds m)
}.

(* ---- old entries stay justified across any step ---- *)
Lemma appr_ok_step pmax s e s' x : step pmax s e = Some s' -> appr_ok s x -> appr_ok s' x.
Proof.
  intros Hs [H1 H2]. split; [done|]. eapply granted_mono; [eapply step_jmono; eauto|done].
Qed.

Lemma resp_ok_step pmax s e s' x : step pmax s e = Some s' -> resp_ok s x -> resp_ok s' x.
Proof.
  intros Hs (rn & js & H1 & H2 & H3 & H4 & H5 & H6).
  destruct (step_runs _ _ _ _ Hs _ _ H1) as (rn' & Hr' & (_ & _ & Hd & _)).
  rewrite (Hd _ _ H3) in Hr'.
  destruct (step_jmono _ _ _ _ Hs _ _ H5) as (js' & Hj' & _ & _ & Hck & _).
  exists rn, js'. repeat split; auto. congruence.
Qed.

Lemma adm_ok_step pmax s e s' x : step pmax s e = Some s' -> adm_ok s x -> adm_ok s' x.
Proof.
  intros Hs (Hd & r & rn & H1 & H2 & H3 & H4 & H5).
  destruct (step_runs _ _ _ _ Hs _ _ H1) as (rn' & Hr' & (E1 & _ & _ & Ha)).
  destruct (Ha H3) as (A1 & A2 & _).
  split; [apply (step_pl _ _ _ _ Hs); done|].
  exists r, rn'. repeat split; auto; try congruence.
  intros j Hj. eapply granted_mono; [eapply step_jmono; eauto|auto].
Qed.

(* ---- facts about the monitor's helper functions ---- *)
Lemma approvers_elem m r key j :
  j ∈ approvers m r key <-> exists b, (r, j, key, b) ∈ m_appr m.
Proof.
  unfold approvers, dedup. rewrite elem_of_remove_dups, elem_of_list_omap. split.
  - intros ([[[r0 j0] k0] b0] & Hin & Hs). simpl in Hs.
    destruct (bool_decide (r0 = r)) eqn:E1; simpl in Hs; [|discriminate].
    destruct (bool_decide (k0 = key)) eqn:E2; simpl in Hs; [|discriminate].
    apply bool_decide_eq_true in E1. apply bool_decide_eq_true in E2. inversion Hs; subst. eauto.
  - intros (b & Hin). exists (r, j, key, b). split; [done|]. simpl.
    rewrite !bool_decide_eq_true_2 by done. done.
Qed.

Lemma inter_elem a b x : x ∈ inter a b <-> x ∈ a /\ x ∈ b.
Proof. unfold inter. rewrite elem_of_list_filter. tauto. Qed.

Lemma NoDup_incl_length (Q L : list N) : NoDup Q -> (forall x, x ∈ Q -> x ∈ L) -> (length Q <= length L)%nat.
Proof. intros Hnd Hsub. apply submseteq_length, NoDup_submseteq; auto. Qed.

Lemma knows_false vs j key :
  max_key (default [] (vs !! j)) < key -> knows vs j key = false.
Proof.
  intros Hlt. unfold knows. apply bool_decide_eq_false. intros Hin.
  apply max_key_ge in Hin. lia.
Qed.

(* ---- the admission judgement ---- *)
Lemma judge_admit_sound s m p key ck :
  Inv s -> Sim s m ->
  result_of s p = Some (key, ck) -> p_done (pl_of s p) = false ->
  exists js,
    judge_admit m p key ck =
      Mst (m_views m) (<[p := ck]> (m_ck m)) (m_run m) (m_snap m) (m_appr m) (m_resp m)
          (m_adm m ++ [(p, key, js)]) (m_kinds (judge_admit m p key ck)) /\
    Forall kind_ok (m_kinds (judge_admit m p key ck)) /\
    exists r rn, s_runs s !! r = Some rn /\ r_pledge rn = p /\ admitted_run rn = true /\
                 r_prop rn = key /\ forall j, j ∈ js -> granted_to s j r key.
Proof.
  intros HI HS Hres Hnd.
  destruct (sim_resp_complete s m HS p key ck Hres) as (r0 & Hin0).
  unfold judge_admit.
  destruct (list_find (fun x : N * N * N * N => x.1.1.1 = p /\ x.1.2 = key /\ x.2 = ck) (m_resp m))
    as [[i x]|] eqn:Ef.
  2:{ exfalso. eapply list_find_None in Ef. rewrite Forall_forall in Ef.
      apply (Ef _ Hin0). simpl. auto. }
  apply list_find_Some in Ef. destruct Ef as (Hlk & (X1 & X2 & X3) & _).
  apply elem_of_list_lookup_2 in Hlk.
  destruct x as [[[p' r] key'] ck']. simpl in X1, X2, X3. subst p' key' ck'. simpl.
  destruct (sim_resp s m HS _ Hlk) as (rn & js & R1 & R2 & R3 & R4 & R5 & R6). simpl in *.
  assert (Hadm : admitted_run rn = true) by (unfold admitted_run; rewrite R3; done).
  destruct (admit_needs_full_quorum s r rn HI R1 Hadm) as (Q1 & Q2 & Q3).
  destruct (inv_run s HI r rn R1) as (_ & _ & _ & _ & _ & I6 & _).
  assert (Hp0 : r_prop rn <> 0) by (apply I6; auto).
  destruct (sim_snap s m HS r rn R1 Hp0) as [Hsnap HP].
  pose proof (sim_run s m HS r) as Hrun. rewrite R1 in Hrun. simpl in Hrun.
  rewrite Hrun, Hsnap. simpl.
  set (js0 := approvers m r key).
  assert (Hgr : forall j, j ∈ js0 -> granted_to s j r key).
  { intros j Hj. apply approvers_elem in Hj. destruct Hj as (b & Hb).
    destruct (sim_appr s m HS _ Hb) as [_ Hg]. exact Hg. }
  exists js0. split; [reflexivity|]. split.
  2:{ exists r, rn. repeat split; auto. }
  (* the kinds *)
  apply Forall_app. split; [apply (sim_kinds s m HS)|].
  (* quorum clause *)
  assert (Hq : bool_decide (qsize (r_snap rn) <= length (inter js0 (map vaddr (active (r_snap rn)))))%nat = true).
  { apply bool_decide_eq_true. rewrite <- Q2.
    apply NoDup_incl_length; [exact Q1|].
    intros j Hj. apply inter_elem. destruct (Q3 j Hj) as [Hh Hg]. split.
    - subst js0. apply approvers_elem.
      destruct (inv_run s HI r rn R1) as (_ & _ & _ & I4 & _).
      destruct (I4 Hadm) as [_ Hok].
      destruct (sim_appr_complete s m HS r rn j R1 (all_ok_true _ _ Hok Hj)) as (b & Hb).
      subst key. eauto.
    - apply healthy_sub_active. exact Hh. }
  rewrite Hq. simpl.
  (* cluster key clause *)
  assert (Hk : bool_decide (m_ck m !! r_member rn = Some ck) = true).
  { apply bool_decide_eq_true. rewrite (sim_ck s m HS). rewrite R5. simpl. congruence. }
  rewrite Hk. simpl.
  (* approving jurors did not know the key *)
  assert (Hn : existsb (fun a : N * N * N * bool => bool_decide (a.1.1.1 = r) && bool_decide (a.1.2 = key) && a.2)
                 (m_appr m) = false).
  { apply not_true_is_false. intros Hex. apply existsb_exists in Hex. destruct Hex as (a & Hin & Ha).
    apply elem_of_list_In in Hin. destruct (sim_appr s m HS a Hin) as [Hf _].
    rewrite Hf in Ha. rewrite andb_false_r in Ha. discriminate. }
  rewrite Hn. rewrite app_nil_r.
  (* duplicates: only with a disjoint quorum, and never under the guard *)
  apply Forall_forall. intros k Hk'. apply elem_of_list_In, in_flat_map in Hk'.
  destruct Hk' as (a & Hina & Hka). apply elem_of_list_In in Hina.
  destruct (bool_decide (a.1.2 = key)) eqn:Ekey; [|inversion Hka].
  apply bool_decide_eq_true in Ekey.
  destruct (sim_adm s m HS a Hina) as (Hd1 & r1 & rn1 & A1 & A2 & A3 & A4 & A5).
  assert (Hne : r1 <> r).
  { intros ->. rewrite A1 in R1. inversion R1; subst rn1. rewrite R2 in A2. rewrite <- A2 in Hd1. congruence. }
  destruct (bool_decide (inter js0 a.2 = [])) eqn:Eint.
  - (* disjoint: the finding; impossible under the guard *)
    destruct Hka as [<-|[]]. split; [done|]. intros HPc.
    destruct (inv_run s HI r1 rn1 A1) as (_ & _ & _ & _ & _ & I6' & _).
    destruct (sim_snap s m HS r1 rn1 A1 (I6' (or_introl A3))) as [_ HP1].
    eapply (unique_partial s r1 r rn1 rn HI A1 R1 Hne A3 Hadm); [apply HPc; auto|]. congruence.
  - (* a shared juror would have approved the key twice *)
    exfalso. apply bool_decide_eq_false in Eint.
    destruct (inter js0 a.2) as [|j l] eqn:El; [done|].
    assert (Hj : j ∈ inter js0 a.2) by (rewrite El; left).
    apply inter_elem in Hj. destruct Hj as [Hj0 Hj1].
    destruct (Hgr j Hj0) as (jsj & m0 & J1 & J2).
    destruct (A5 j Hj1) as (jsj' & m1 & J1' & J2'). rewrite J1 in J1'. inversion J1'; subst jsj'.
    destruct (inv_jur s HI j jsj J1) as [_ Jnd].
    rewrite Ekey in J2'.
    assert (E : (r, key, m0) = (r1, key, m1)) by (eapply (NoDup_fmap_inj_on gkey); eauto).
    inversion E. congruence.
Qed.


(* ---- one step of the model is simulated by one step of the monitor ---- *)
Lemma Sim_frame pmax s e s' m m' :
  Sim s m -> step pmax s e = Some s' ->
  m_views m' = s_views s' ->
  (forall a, m_ck m' !! a = j_ck <$> (s_jur s' !! a)) ->
  (forall r, m_run m' !! r = (fun rn => (r_pledge rn, r_member rn)) <$> (s_runs s' !! r)) ->
  (forall r rn, s_runs s' !! r = Some rn -> r_prop rn <> 0 ->
      m_snap m' !! r = Some (r_snap rn) /\ P (r_snap rn)) ->
  (forall x, x ∈ m_appr m' -> x ∈ m_appr m \/ appr_ok s' x) ->
  (forall r rn j, s_runs s' !! r = Some rn -> (j, true) ∈ r_asked rn ->
      exists b, (r, j, r_prop rn, b) ∈ m_appr m') ->
  (forall x, x ∈ m_resp m' -> x ∈ m_resp m \/ resp_ok s' x) ->
  (forall p k c, result_of s' p = Some (k, c) -> exists r, (p, r, k, c) ∈ m_resp m') ->
  (forall x, x ∈ m_adm m' -> x ∈ m_adm m \/ adm_ok s' x) ->
  Forall kind_ok (m_kinds m') ->
  Sim s' m'.
Proof.
  intros HS Hs H1 H2 H3 H4 H5 H6 H7 H8 H9 H10. split; auto.
  - intros x Hx. destruct (H5 x Hx) as [Ho|Hn]; [|done].
    eapply appr_ok_step; eauto. apply (sim_appr s m HS). done.
  - intros x Hx. destruct (H7 x Hx) as [Ho|Hn]; [|done].
    eapply resp_ok_step; eauto. apply (sim_resp s m HS). done.
  - intros x Hx. destruct (H9 x Hx) as [Ho|Hn]; [|done].
    eapply adm_ok_step; eauto. apply (sim_adm s m HS). done.
Qed.

(* the part of the simulation that only looks at the table of runs, when a step rewrites
   the entry of one run r (or creates it) *)
Lemma runs_part s m r rn' (m_run' : gmap N (N * N)) (m_snap' : gmap N nview) (appr' : list (N * N * N * bool)) :
  Sim s m ->
  m_run' = <[r := (r_pledge rn', r_member rn')]> (m_run m) ->
  (forall r0, r0 <> r -> m_snap' !! r0 = m_snap m !! r0) ->
  (r_prop rn' <> 0 -> m_snap' !! r = Some (r_snap rn') /\ P (r_snap rn')) ->
  (forall x, x ∈ m_appr m -> x ∈ appr') ->
  (forall j, (j, true) ∈ r_asked rn' -> exists b, (r, j, r_prop rn', b) ∈ appr') ->
  (forall r0, m_run' !! r0 = (fun rn => (r_pledge rn, r_member rn)) <$> (<[r := rn']> (s_runs s) !! r0)) /\
  (forall r0 rn, <[r := rn']> (s_runs s) !! r0 = Some rn -> r_prop rn <> 0 ->
      m_snap' !! r0 = Some (r_snap rn) /\ P (r_snap rn)) /\
  (forall r0 rn j, <[r := rn']> (s_runs s) !! r0 = Some rn -> (j, true) ∈ r_asked rn ->
      exists b, (r0, j, r_prop rn, b) ∈ appr').
Proof.
  intros HS -> Hsn Hsr Happ Hnew. split; [|split].
  - intros r0. destruct (decide (r0 = r)) as [->|Hne].
    + rewrite !lookup_insert. done.
    + rewrite !lookup_insert_ne by done. apply (sim_run s m HS).
  - intros r0 rn Hl Hp. destruct (decide (r0 = r)) as [->|Hne].
    + rewrite lookup_insert in Hl. inversion Hl; subst. auto.
    + rewrite lookup_insert_ne in Hl by done. rewrite Hsn by done. apply (sim_snap s m HS); auto.
  - intros r0 rn j Hl Hj. destruct (decide (r0 = r)) as [->|Hne].
    + rewrite lookup_insert in Hl. inversion Hl; subst. auto.
    + rewrite lookup_insert_ne in Hl by done.
      destruct (sim_appr_complete s m HS r0 rn j Hl Hj) as (b & Hb). eauto.
Qed.

Definition ev_P (e : ev) : Prop := match e with ESnap _ v => P v | _ => True end.

Lemma same_ids_insert (mr : gmap N (N * N)) r x : mr !! r = Some x -> <[r := x]> mr = mr.
Proof. apply insert_id. Qed.

Lemma sim_step pmax s m e s' :
  Inv s -> Sim s m -> ev_P e -> step pmax s e = Some s' -> Sim s' (mon_step m e).
Proof.
  intros HI HS HP Hs.
  destruct e as [a v|p a r|p a|r v|r j key how vd|r j key vd|j key vd|r key ck err lost|p ok key ck].
  - (* EGossip *)
    pose proof Hs as Hs0. simpl in Hs0. inversion Hs0; subst s'; clear Hs0.
    eapply Sim_frame; eauto; simpl; auto.
    + rewrite (sim_views s m HS). done.
    + apply (sim_ck s m HS).
    + apply (sim_run s m HS).
    + apply (sim_snap s m HS).
    + apply (sim_appr_complete s m HS).
    + apply (sim_resp_complete s m HS).
    + apply (sim_kinds s m HS).
  - (* EPStart *)
    destruct (step_EPStart_inv _ _ _ _ _ _ Hs) as [Hnone ->].
    destruct (runs_part s m r (Run p a 0 0 0%nat [] [] PhIdle) (<[r := (p, a)]> (m_run m)) (m_snap m) (m_appr m) HS)
      as (R1 & R2 & R3); simpl; auto; try done.
    { intros j Hj. inversion Hj. }
    eapply Sim_frame; eauto; simpl; auto.
    + apply (sim_views s m HS).
    + apply (sim_ck s m HS).
    + apply (sim_resp_complete s m HS).
    + apply (sim_kinds s m HS).
  - (* EPFail *)
    assert (s' = s) by (simpl in Hs; destruct (_ && _); [inversion Hs; done|discriminate]). subst s'.
    simpl. eapply Sim_frame; eauto.
    + apply (sim_views s m HS).
    + apply (sim_ck s m HS).
    + apply (sim_run s m HS).
    + apply (sim_snap s m HS).
    + apply (sim_appr_complete s m HS).
    + apply (sim_resp_complete s m HS).
    + apply (sim_kinds s m HS).
  - (* ESnap *)
    destruct (step_ESnap_inv _ _ _ _ _ Hs) as (rn & prop & base & ph & Hr & Hph & Hp0 & ->).
    pose proof (sim_run s m HS r) as Hid. rewrite Hr in Hid. simpl in Hid.
    destruct (runs_part s m r (Run (r_pledge rn) (r_member rn) prop base (S (r_rounds rn)) v [] ph)
                (m_run m) (<[r := v]> (m_snap m)) (m_appr m) HS) as (R1 & R2 & R3); simpl; auto.
    { symmetry. apply insert_id. done. }
    { intros r0 Hne. rewrite lookup_insert_ne; done. }
    { intros _. rewrite lookup_insert. split; [done|exact HP]. }
    { intros j Hj. inversion Hj. }
    eapply Sim_frame; eauto; simpl; auto.
    + apply (sim_views s m HS).
    + apply (sim_ck s m HS).
    + apply (sim_resp_complete s m HS).
    + apply (sim_kinds s m HS).
  - (* EReq *)
    destruct (step_EReq_inv _ _ _ _ _ _ _ _ Hs)
      as (rn & s1 & ok & Hr & Hph & -> & -> & F1 & F2 & F3 & Fj & Fok & Fdel).
    pose proof (sim_run s m HS r) as Hid. rewrite Hr in Hid. simpl in Hid.
    destruct (inv_run s HI r rn Hr) as (_ & _ & _ & _ & _ & I6 & _).
    assert (Hp0 : r_prop rn <> 0) by (apply I6; auto).
    set (b := (bool_decide (how = 0) || bool_decide (how = 2)) && bool_decide (vd = VApprove)).
    set (appr' := if b then m_appr m ++ [(r, j, r_prop rn, knows (m_views m) j (r_prop rn))] else m_appr m).
    assert (Hm' : mon_step m (EReq r j (r_prop rn) how vd) =
                  Mst (m_views m) (m_ck m) (m_run m) (m_snap m) appr' (m_resp m) (m_adm m) (m_kinds m)).
    { simpl. subst appr' b. destruct (_ && _); [reflexivity|]. destruct m; reflexivity. }
    rewrite Hm'. clear Hm'.
    assert (Hsub : forall x, x ∈ m_appr m -> x ∈ appr').
    { intros x Hx. subst appr'. destruct b; [apply elem_of_app; auto|done]. }
    set (rn' := Run (r_pledge rn) (r_member rn) (r_prop rn) (r_base rn) (r_rounds rn) (r_snap rn)
                    (r_asked rn ++ [(j, ok)])
                    (if bool_decide (length (r_asked rn ++ [(j, ok)]) = qsize (r_snap rn))
                     then if all_ok (r_asked rn ++ [(j, ok)]) then PhEnd 0 else PhIdle else PhConsult)).
    destruct (runs_part s m r rn' (m_run m) (m_snap m) appr' HS) as (R1 & R2 & R3); simpl; auto.
    { symmetry. apply insert_id. done. }
    { intros _. apply (sim_snap s m HS r rn Hr Hp0). }
    { intros j0 Hj0. apply elem_of_app in Hj0. destruct Hj0 as [Hj0|Hj0].
      - destruct (sim_appr_complete s m HS r rn j0 Hr Hj0) as (b0 & Hb0). eauto.
      - apply elem_of_list_singleton in Hj0. inversion Hj0; subst j0 ok.
        destruct (Fok eq_refl) as [-> ->]. subst appr' b. simpl.
        eexists. apply elem_of_app. right. apply elem_of_list_singleton. reflexivity. }
    assert (Hck : forall a, j_ck <$> (s_jur s1 !! a) = j_ck <$> (s_jur s !! a)).
    { destruct Fj as [E|Hjp]; [intros a; rewrite E; done|].
      apply (juror_process_frame _ _ _ _ _ _ Hjp). }
    eapply Sim_frame; eauto; unfold record_answer; simpl; fold rn'.
    + rewrite F2. apply (sim_views s m HS).
    + intros a. rewrite Hck. apply (sim_ck s m HS).
    + rewrite F1. exact R1.
    + rewrite F1. exact R2.
    + intros x Hx. subst appr'. destruct b eqn:Eb; [|auto].
      apply elem_of_app in Hx. destruct Hx as [Hx|Hx]; [auto|]. right.
      apply elem_of_list_singleton in Hx. subst x.
      subst b. apply andb_true_iff in Eb. destruct Eb as [Eh Ev].
      apply bool_decide_eq_true in Ev. subst vd.
      assert (Hjp : juror_process s r j (r_prop rn) = Some (VApprove, s1)).
      { apply Fdel. apply orb_true_iff in Eh. destruct Eh as [Eh|Eh]; apply bool_decide_eq_true in Eh; auto. }
      destruct (juror_process_approve _ _ _ _ _ Hjp) as [Hg Hlt].
      split; simpl.
      * apply knows_false. rewrite (sim_views s m HS). exact Hlt.
      * destruct Hg as (js & m0 & G1 & G2). exists js, m0. simpl. auto.
    + rewrite F1. exact R3.
    + intros p0 k c Hres. apply (sim_resp_complete s m HS).
      unfold result_of, pl_of in *. simpl in Hres. rewrite F3 in Hres. exact Hres.
    + apply (sim_kinds s m HS).
  - (* ELate *)
    destruct (step_ELate_inv _ _ _ _ _ _ _ Hs) as (l' & [Hjp|[-> ->]]).
    + destruct (juror_process_frame _ _ _ _ _ _ Hjp) as (F1 & F2 & F3 & Hck). simpl in F1, F2, F3.
      set (appr' := if bool_decide (vd = VApprove)
                    then m_appr m ++ [(r, j, key, knows (m_views m) j key)] else m_appr m).
      assert (Hm' : mon_step m (ELate r j key vd) =
                    Mst (m_views m) (m_ck m) (m_run m) (m_snap m) appr' (m_resp m) (m_adm m) (m_kinds m)).
      { simpl. subst appr'. destruct (bool_decide _); [reflexivity|]. destruct m; reflexivity. }
      rewrite Hm'. clear Hm'.
      assert (Hsub : forall x, x ∈ m_appr m -> x ∈ appr').
      { intros x Hx. subst appr'. destruct (bool_decide _); [apply elem_of_app; auto|done]. }
      eapply Sim_frame; eauto; simpl.
      * rewrite F2. apply (sim_views s m HS).
      * intros a. rewrite Hck. simpl. apply (sim_ck s m HS).
      * rewrite F1. apply (sim_run s m HS).
      * rewrite F1. apply (sim_snap s m HS).
      * intros x Hx. subst appr'. destruct (bool_decide (vd = VApprove)) eqn:Ev; [|auto].
        apply bool_decide_eq_true in Ev. subst vd.
        apply elem_of_app in Hx. destruct Hx as [Hx|Hx]; [auto|]. right.
        apply elem_of_list_singleton in Hx. subst x.
        destruct (juror_process_approve _ _ _ _ _ Hjp) as [Hg Hlt]. split; simpl.
        -- apply knows_false. rewrite (sim_views s m HS). exact Hlt.
        -- exact Hg.
      * rewrite F1. intros r0 rn0 j0 H1 H2.
        destruct (sim_appr_complete s m HS r0 rn0 j0 H1 H2) as (b0 & Hb0). eauto.
      * intros p0 k c Hres. apply (sim_resp_complete s m HS).
        unfold result_of, pl_of in *. rewrite F3 in Hres. exact Hres.
      * apply (sim_kinds s m HS).
    + assert (Hm' : mon_step m (ELate r j key VNone) = m) by (simpl; reflexivity).
      rewrite Hm'. eapply Sim_frame; eauto; simpl.
      * apply (sim_views s m HS).
      * apply (sim_ck s m HS).
      * apply (sim_run s m HS).
      * apply (sim_snap s m HS).
      * apply (sim_appr_complete s m HS).
      * apply (sim_resp_complete s m HS).
      * apply (sim_kinds s m HS).
  - (* EProbe *)
    simpl. destruct (step_EProbe_inv _ _ _ _ _ _ Hs) as [Hjp| ->].
    + destruct (juror_process_frame _ _ _ _ _ _ Hjp) as (F1 & F2 & F3 & Hck).
      eapply Sim_frame; eauto.
      * rewrite F2. apply (sim_views s m HS).
      * intros a. rewrite Hck. apply (sim_ck s m HS).
      * rewrite F1. apply (sim_run s m HS).
      * rewrite F1. apply (sim_snap s m HS).
      * rewrite F1. apply (sim_appr_complete s m HS).
      * intros p0 k c Hres. apply (sim_resp_complete s m HS).
        unfold result_of, pl_of in *. rewrite F3 in Hres. exact Hres.
      * apply (sim_kinds s m HS).
    + eapply Sim_frame; eauto.
      * apply (sim_views s m HS).
      * apply (sim_ck s m HS).
      * apply (sim_run s m HS).
      * apply (sim_snap s m HS).
      * apply (sim_appr_complete s m HS).
      * apply (sim_resp_complete s m HS).
      * apply (sim_kinds s m HS).
  - (* EREnd *)
    destruct (step_EREnd_inv _ _ _ _ _ _ _ _ Hs)
      as (rn & ms & x & Hr & Hm & Hx0 & Hnd & -> & -> & Herr & Hcase).
    pose proof (sim_run s m HS r) as Hid. rewrite Hr in Hid. simpl in Hid.
    set (rn' := Run (r_pledge rn) (r_member rn) (r_prop rn) (r_base rn) (r_rounds rn) (r_snap rn)
                    (r_asked rn) (PhDone x lost)) in *.
    set (resp' := if bool_decide (err = 0) && negb lost
                  then m_resp m ++ [(r_pledge rn, r, r_prop rn, j_ck ms)] else m_resp m).
    assert (Hm' : mon_step m (EREnd r (r_prop rn) (j_ck ms) err lost) =
                  Mst (m_views m) (m_ck m) (m_run m) (m_snap m) (m_appr m) resp' (m_adm m) (m_kinds m)).
    { simpl. subst resp'. destruct (_ && _); [rewrite Hid; reflexivity|]. destruct m; reflexivity. }
    rewrite Hm'. clear Hm'.
    assert (Hsub : forall y, y ∈ m_resp m -> y ∈ resp').
    { intros y Hy. subst resp'. destruct (_ && _); [apply elem_of_app; auto|done]. }
    destruct (runs_part s m r rn' (m_run m) (m_snap m) (m_appr m) HS) as (R1 & R2 & R3); simpl; auto.
    { symmetry. apply insert_id. done. }
    { intros Hp0. apply (sim_snap s m HS r rn Hr Hp0). }
    { intros j0 Hj0. apply (sim_appr_complete s m HS r rn j0 Hr Hj0). }
    assert (Hnew : forall s2, s_runs s2 = <[r := rn']> (s_runs s) -> s_jur s2 = s_jur s ->
              bool_decide (err = 0) && negb lost = true ->
              resp_ok s2 (r_pledge rn, r, r_prop rn, j_ck ms)).
    { intros s2 E1 E2 Hb. apply andb_true_iff in Hb. destruct Hb as [Hb1 Hb2].
      apply bool_decide_eq_true in Hb1. destruct lost; [discriminate|].
      assert (x = 0) by (apply Herr; done). subst x.
      exists rn', ms. simpl. rewrite E1, E2, lookup_insert. repeat split; auto. }
    destruct Hcase as [[-> Hnot]|(-> & -> & -> & Hnone)].
    + eapply Sim_frame; eauto; simpl.
      * apply (sim_views s m HS).
      * apply (sim_ck s m HS).
      * intros y Hy. subst resp'. destruct (bool_decide (err = 0) && negb lost) eqn:Eb; [|auto].
        apply elem_of_app in Hy. destruct Hy as [Hy|Hy]; [auto|]. right.
        apply elem_of_list_singleton in Hy. subst y. apply Hnew; auto.
      * intros p0 k c Hres.
        destruct (sim_resp_complete s m HS p0 k c) as (r1 & Hr1); [exact Hres|]. eauto.
      * apply (sim_kinds s m HS).
    + assert (Eb : bool_decide (err = 0) && negb false = true).
      { rewrite andb_true_r. apply bool_decide_eq_true. apply Herr. done. }
      eapply Sim_frame; eauto; simpl.
      * apply (sim_views s m HS).
      * apply (sim_ck s m HS).
      * intros y Hy. subst resp'. rewrite Eb in Hy.
        apply elem_of_app in Hy. destruct Hy as [Hy|Hy]; [auto|]. right.
        apply elem_of_list_singleton in Hy. subst y. apply Hnew; auto.
      * intros p0 k c Hres. unfold result_of, pl_of in Hres. simpl in Hres.
        destruct (decide (p0 = r_pledge rn)) as [->|Hne].
        -- rewrite lookup_insert in Hres. simpl in Hres. inversion Hres; subst k c.
           exists r. subst resp'. rewrite Eb. apply elem_of_app. right. apply elem_of_list_singleton. done.
        -- rewrite lookup_insert_ne in Hres by done.
           destruct (sim_resp_complete s m HS p0 k c) as (r1 & Hr1); [exact Hres|]. eauto.
      * apply (sim_kinds s m HS).
  - (* EPEnd *)
    destruct (step_EPEnd_inv _ _ _ _ _ _ _ Hs) as [Hnd [(-> & Hres & Hjn & ->)|(-> & Hres & ->)]].
    + destruct (judge_admit_sound s m p key ck HI HS Hres Hnd) as (js & Hm' & Hk & r & rn & A1 & A2 & A3 & A4 & A5).
      simpl. rewrite Hm'.
      eapply Sim_frame; eauto; simpl.
      * apply (sim_views s m HS).
      * intros a. destruct (decide (a = p)) as [->|Hne].
        -- rewrite !lookup_insert. done.
        -- rewrite !lookup_insert_ne by done. apply (sim_ck s m HS).
      * apply (sim_run s m HS).
      * apply (sim_snap s m HS).
      * apply (sim_appr_complete s m HS).
      * intros p0 k c Hr0. apply (sim_resp_complete s m HS).
        unfold result_of, pl_of in *. simpl in Hr0.
        destruct (decide (p0 = p)) as [->|Hne].
        -- rewrite lookup_insert in Hr0. simpl in Hr0. rewrite <- Hr0. exact Hres.
        -- rewrite lookup_insert_ne in Hr0 by done. exact Hr0.
      * intros y Hy. apply elem_of_app in Hy. destruct Hy as [Hy|Hy]; [auto|]. right.
        apply elem_of_list_singleton in Hy. subst y. split; simpl.
        -- unfold pl_of. simpl. rewrite lookup_insert. done.
        -- exists r, rn. repeat split; auto. intros j Hj.
           eapply granted_mono; [eapply step_jmono; eauto|auto].
    + simpl. eapply Sim_frame; eauto; simpl.
      * apply (sim_views s m HS).
      * apply (sim_ck s m HS).
      * apply (sim_run s m HS).
      * apply (sim_snap s m HS).
      * apply (sim_appr_complete s m HS).
      * intros p0 k c Hr0. apply (sim_resp_complete s m HS).
        unfold result_of, pl_of in *. simpl in Hr0.
        destruct (decide (p0 = p)) as [->|Hne].
        -- rewrite lookup_insert in Hr0. simpl in Hr0. discriminate.
        -- rewrite lookup_insert_ne in Hr0 by done. exact Hr0.
      * apply (sim_kinds s m HS).
Qed.


End sound.

(* ---- whole event sequences ---- *)
Lemma ck_maps_agree (ms : list member_cfg) a :
  (list_to_map (map (fun m : member_cfg => (m.1.1.1, m.1.1.2)) ms) : gmap N N) !! a =
  j_ck <$> ((list_to_map (map (fun m : member_cfg => (m.1.1.1, Jst [] [] m.1.1.2 m.1.2)) ms) : gmap N jst) !! a).
Proof.
  induction ms as [|m ms IH]; simpl.
  - rewrite !lookup_empty. done.
  - destruct (decide (a = m.1.1.1)) as [->|Hne].
    + rewrite !lookup_insert. done.
    + rewrite !lookup_insert_ne by done. exact IH.
Qed.

Lemma sim_init P ms : Sim P (init ms) (mon_init ms).
Proof.
  split; simpl.
  - reflexivity.
  - apply ck_maps_agree.
  - intros r. rewrite !lookup_empty. done.
  - intros r rn Hr. rewrite lookup_empty in Hr. discriminate.
  - intros x Hx. inversion Hx.
  - intros r rn j Hr. rewrite lookup_empty in Hr. discriminate.
  - intros x Hx. inversion Hx.
  - intros p k c Hr. unfold result_of, pl_of in Hr. simpl in Hr. rewrite lookup_empty in Hr. discriminate.
  - intros x Hx. inversion Hx.
  - constructor.
Qed.

Lemma sim_exec P pmax tr : forall s m s',
  Inv s -> Sim P s m -> Forall (ev_P P) tr -> exec pmax s tr = Some s' ->
  Sim P s' (foldl mon_step m tr).
Proof.
  induction tr as [|e tr IH]; simpl; intros s m s' HI HS HP He.
  - inversion He; subst. done.
  - destruct (step pmax s e) as [s1|] eqn:Es; [|discriminate].
    apply Forall_cons in HP. destruct HP as [HP1 HP2].
    eapply (IH s1); eauto.
    + eapply step_preserves; eauto.
    + eapply sim_step; eauto.
Qed.

Definition snaps (tr : list ev) : list nview :=
  omap (fun e => match e with ESnap _ v => Some v | _ => None end) tr.

Lemma ev_P_snaps tr : Forall (ev_P (fun v => v ∈ snaps tr)) tr.
Proof.
  apply Forall_forall. intros e He. destruct e; simpl; auto.
  apply elem_of_list_omap. eexists. split; [exact He|done].
Qed.

Lemma accepts_exec c : accepts c = true -> exists s, exec (lookup_pmax c.1.2) (init c.1.1) c.2 = Some s.
Proof. unfold accepts. destruct (exec _ _ _) as [s|]; [eauto|discriminate]. Qed.

(* whatever the model accepts, the monitor can only object with the known signature *)
Lemma monitor_sound c :
  accepts c = true -> Forall (fun k => k = k_dup_disjoint) (viol_kinds c).
Proof.
  intros Ha. destruct (accepts_exec c Ha) as (s & He).
  pose proof (sim_exec (fun _ => True) (lookup_pmax c.1.2) c.2 (init c.1.1) (mon_init c.1.1) s
                (Inv_init _) (sim_init _ _)) as HS.
  assert (HP : Forall (ev_P (fun _ : nview => True)) c.2).
  { apply Forall_forall. intros e _. destruct e; simpl; auto. }
  specialize (HS HP He). unfold viol_kinds, mon_run.
  apply Forall_forall. intros k Hk. rewrite elem_of_remove_dups in Hk.
  pose proof (sim_kinds _ _ _ HS) as Hks. rewrite Forall_forall in Hks.
  destruct (Hks k Hk) as [E _]. exact E.
Qed.

(* and not at all when the candidate snapshots pairwise satisfy the intersection guard *)
Lemma monitor_sound_guarded c :
  accepts c = true ->
  (forall v1 v2, v1 ∈ snaps c.2 -> v2 ∈ snaps c.2 -> compat v1 v2) ->
  ok_C11 c = true.
Proof.
  intros Ha Hg. destruct (accepts_exec c Ha) as (s & He).
  pose proof (sim_exec (fun v => v ∈ snaps c.2) (lookup_pmax c.1.2) c.2 (init c.1.1) (mon_init c.1.1) s
                (Inv_init _) (sim_init _ _) (ev_P_snaps c.2) He) as HS.
  unfold ok_C11, viol_kinds, mon_run. apply bool_decide_eq_true.
  pose proof (sim_kinds _ _ _ HS) as Hks.
  destruct (m_kinds (foldl mon_step (mon_init c.1.1) c.2)) as [|k l]; [done|].
  apply Forall_cons in Hks. destruct Hks as [[_ Hn] _]. exfalso. apply Hn. exact Hg.
Qed.
