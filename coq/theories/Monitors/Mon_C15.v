(* Monitors/Mon_C15.v — decidable monitor for C15 on what the implementation showed, and the
   model-vs-implementation comparison used by the generated case files. *)
From stdpp Require Import gmap strings sorting.
From Coq Require Import NArith Ascii String.
From Synnax Require Import Common.Base Generated.Consts_C15 Core.Channel.
Local Open Scope N_scope.
Notation length := List.length.

(* The model instance that corresponds to /repo's working tree: cesium.DeleteChannels removes
   virtual channels (fix F9) and a forwarded create does not add a second auto index (fix F16). *)
Definition tree_fixed : bool := true.

(* ---- raw observations (as printed by the harness) *)
(* name lease dt isidx lkey lidx virt internal expr *)
Definition raw_chan : Type := string * N * N * bool * N * N * bool * bool * N.
(* name dt isidx index virt *)
Definition raw_echan : Type := string * N * bool * N * bool.

Record obs := Obs {
  ob_tab : list (N * raw_chan);               (* metadata as every node reports it, key as Go computed it *)
  ob_eng : list (N * list (N * raw_echan));   (* node -> engine listing *)
  ob_ctr : list (N * N);                      (* node -> leased counter *)
  ob_free : N;                                (* free counter on the bootstrapper *)
  ob_gone : list (N * bool)                   (* key removed by a successful delete/overwrite ->
                                                 did any retrieve/open-writer/open-iterator probe
                                                 at either layer on any node still succeed *)
}.
Definition step_t : Type := op * err * list (N * raw_chan) * obs.
(* validate-names flag, state before the first op, steps *)
Definition ccase_t : Type := bool * obs * list step_t.

(* engine-level cases: ONE cesium engine on a memory file system, closed and reopened on the same
   file system in the middle of the history (the in-memory cluster cannot reopen a node's engine) *)
Inductive eop :=
| ECreate (l : list (N * raw_echan))
| EDelete (keys : list N)         (* DeleteChannels, the batch call the channel service uses *)
| EDelete1 (k : N)                (* DeleteChannel *)
| ERename (kn : list (N * string))
| EReopen.
(* operation, result class, engine listing afterwards *)
Definition estep_t : Type := eop * err * list (N * raw_echan).

Inductive case_t :=
| CCluster (c : ccase_t)
| CEngine (tr : list estep_t).

Definition mk_chan (r : raw_chan) : chan :=
  match r with (n, l, d, i, k, x, v, t, e) => Chan n l d i k x v t e end.
Definition un_chan (c : chan) : raw_chan :=
  (c_name c, c_lease c, c_dt c, c_isidx c, c_lkey c, c_lidx c, c_virt c, c_int c, c_expr c).
Definition mk_echan (r : raw_echan) : echan :=
  match r with (n, d, i, x, v) => EChan n d i x v end.
Definition un_echan (c : echan) : raw_echan := (e_name c, e_dt c, e_isidx c, e_index c, e_virt c).

Definition st_of (o : obs) : st :=
  St (list_to_map ((fun kc => (kc.1, mk_chan kc.2)) <$> ob_tab o))
     (list_to_map ((fun ne => (ne.1, (list_to_map ((fun kc => (kc.1, mk_echan kc.2)) <$> ne.2) : engine))) <$> ob_eng o))
     (list_to_map (ob_ctr o)) (ob_free o) false.

Definition nkey_le {A} (a b : N * A) : Prop := (a.1 <= b.1)%N.
Global Instance nkey_le_dec {A} (a b : N * A) : Decision (nkey_le a b) := decide (a.1 <= b.1)%N.
Definition sort_by_key {A} (l : list (N * A)) : list (N * A) := merge_sort nkey_le l.

(* canonical projection of a model state, comparable with [obs] *)
Definition dump_tab (s : st) : list (N * raw_chan) :=
  sort_by_key ((fun kc => (kc.1, un_chan kc.2)) <$> map_to_list (s_tab s)).
Definition dump_eng (s : st) : list (N * list (N * raw_echan)) :=
  sort_by_key ((fun ne => (ne.1, sort_by_key ((fun kc => (kc.1, un_echan kc.2)) <$> map_to_list ne.2)))
                 <$> map_to_list (s_eng s)).
Definition dump_ctr (s : st) : list (N * N) := sort_by_key (map_to_list (s_ctr s)).

Definition same_obs (s : st) (o : obs) : bool :=
  bool_decide (dump_tab s = sort_by_key (ob_tab o)) &&
  bool_decide (dump_eng s = sort_by_key ((fun ne => (ne.1, sort_by_key ne.2)) <$> ob_eng o)) &&
  bool_decide (dump_ctr s = sort_by_key (ob_ctr o)) &&
  (s_free s =? ob_free o).

Definition ret_of (l : list chan) : list (N * raw_chan) :=
  sort_by_key ((fun c => (chan_key c, un_chan c)) <$> l).

(* ---- model vs implementation: the model runs on its own from the observed initial state; the
   comparison stops (without complaint) once the model reports an order-dependent outcome *)
Fixpoint mism_steps (validate : bool) (s : st) (tr : list step_t) : bool :=
  match tr with
  | [] => false
  | (o, er, ret, ob) :: rest =>
      let '(s', (er', ret')) := step tree_fixed validate s o in
      if s_amb s' then false else
      negb (bool_decide (er' = er) && bool_decide (ret_of ret' = sort_by_key ret) && same_obs s' ob)
      || mism_steps validate s' rest
  end.
Definition estep (e : engine) (o : eop) : engine * err :=
  match o with
  | ECreate l => ts_create e ((fun kc => (kc.1, mk_echan kc.2)) <$> l)
  | EDelete keys => ts_delete tree_fixed e keys
  | EDelete1 k => ts_delete1 e k
  | ERename kn => ts_rename e kn
  | EReopen => (e, EOk)           (* every channel is described by its own meta file *)
  end.
Definition dump_engine (e : engine) : list (N * raw_echan) :=
  sort_by_key ((fun kc => (kc.1, un_echan kc.2)) <$> map_to_list e).
Fixpoint emism (e : engine) (tr : list estep_t) : bool :=
  match tr with
  | [] => false
  | (o, er, lst) :: rest =>
      let '(e', er') := estep e o in
      negb (bool_decide (er' = er) && bool_decide (dump_engine e' = sort_by_key lst)) || emism e' rest
  end.

Definition mismatch (c : case_t) : bool :=
  match c with
  | CCluster (v, o0, tr) => mism_steps v (st_of o0) tr
  | CEngine tr => emism ∅ tr
  end.

(* ---- the monitor: the property on the IMPLEMENTATION's observations *)
Definition okeys (o : obs) : list N :=
  (fst <$> ob_tab o) ++ flat_map (fun ne => fst <$> ne.2) (ob_eng o).
Definition mem (k : N) (l : list N) : bool := existsb (N.eqb k) l.

Fixpoint nodupb (l : list N) : bool :=
  match l with [] => true | x :: r => negb (mem x r) && nodupb r end.
Fixpoint nodup_names (l : list string) : bool :=
  match l with [] => true | x :: r => negb (existsb (name_eqb x) r) && nodup_names r end.

Definition ends_with_suffix (base full : string) : bool := name_eqb (base +:+ calc_suffix) full.

(* normalised lease a request entry asks for, issued through gateway gw *)
Definition want_lease (gw : N) (c : chan) : N :=
  if is_calc c then node_free else if c_lease c =? 0 then gw else c_lease c.

(* clause 1+2 for a create: every returned channel is either brand new (key never seen in the
   whole history, well-formed, leaseholder as requested) or, with retrieve/overwrite, an existing
   live channel of that name *)
Definition ok_returned (gw : N) (req : list chan) (retr over : bool) (seen : list N)
           (before : obs) (ret : list (N * raw_chan)) : bool :=
  let fresh := filter (fun kc => negb (mem kc.1 seen)) ret in
  (* with retrieve/overwrite a channel created by this very request may be handed back a second
     time (found by name): identical entries count once *)
  nodupb (fst <$> (if retr || over then remove_dups fresh else fresh)) &&
  forallb (fun kc =>
     let c := mk_chan kc.2 in
     if mem kc.1 seen then
       (* an existing live channel: found by name through retrieve/overwrite, or the request itself
          carried its key (re-submission of an existing channel) *)
       ((retr || over) &&
        existsb (fun kb => (kb.1 =? kc.1) && name_eqb (c_name (mk_chan kb.2)) (c_name c)) (ob_tab before)) ||
       (existsb (fun r => negb (c_lkey r =? 0) && (new_key (want_lease gw r) (c_lkey r) =? kc.1)) req &&
        existsb (fun kb => kb.1 =? kc.1) (ob_tab before))
     else
       (kc.1 =? chan_key c) && (leaseholder kc.1 =? c_lease c) && (local_key kc.1 =? c_lkey c) &&
       (0 <? c_lkey c) &&
       (existsb (fun r => name_eqb (c_name r) (c_name c) && (want_lease gw r =? c_lease c)) req ||
        (c_isidx c && (c_lease c =? node_free) &&
         existsb (fun r => is_calc r && ends_with_suffix (c_name r) (c_name c)) req))) ret.

(* clause 3: names valid and pairwise distinct among live channels (validation on) *)
Definition ok_names (o : obs) : bool :=
  let names := (fun kc => c_name (mk_chan kc.2)) <$> ob_tab o in
  forallb valid_name names && nodup_names names.

(* clause 4: leased channels in metadata = union of the engines' listings, field by field, and
   every engine holds only channels it is the leaseholder of *)
Definition meta_leased (o : obs) : list (N * raw_echan) :=
  sort_by_key ((fun kc => (kc.1, un_echan (to_echan (mk_chan kc.2))))
                 <$> filter (fun kc => negb (is_free (mk_chan kc.2))) (ob_tab o)).
Definition ok_meta_engine (o : obs) : bool :=
  bool_decide (meta_leased o = sort_by_key (flat_map snd (ob_eng o))) &&
  forallb (fun ne => forallb (fun kc => leaseholder kc.1 =? ne.1) ne.2) (ob_eng o).

(* clause 5: deleted channels are gone at both layers *)
Definition ok_gone (o : obs) : bool :=
  forallb (fun kb => negb kb.2 && negb (mem kb.1 (okeys o))) (ob_gone o).

(* clause 6 (the counter part of [Inv], C15_invariant_history): every key present in a store lies
   at or below the PERSISTED counter of its leaseholder as the node's channel service reports it —
   in particular right after the service was restarted over the same DB, which is what keeps the
   next create from handing the key out again *)
Definition ok_counters (o : obs) : bool :=
  forallb (fun k =>
    let n := leaseholder k in
    if n =? node_free then local_key k <=? ob_free o
    else match List.find (fun nc => nc.1 =? n) (ob_ctr o) with
         | Some nc => local_key k <=? nc.2
         | None => true
         end) (okeys o).

Definition same_stores (a b : obs) : bool :=
  bool_decide (sort_by_key (ob_tab a) = sort_by_key (ob_tab b)) &&
  bool_decide (sort_by_key ((fun ne => (ne.1, sort_by_key ne.2)) <$> ob_eng a) =
               sort_by_key ((fun ne => (ne.1, sort_by_key ne.2)) <$> ob_eng b)).

Definition is_rename (o : op) : bool :=
  match o with
  | Rename _ _ _ => true
  (* requests hit by an injected storage fault run in a transaction: whatever they return, the
     stores must still agree afterwards *)
  | FaultedRename _ _ _ _ | FaultedCreate _ _ _ => true
  | _ => false
  end.

(* [clean]: metadata = engines was observed to hold before this operation. The clause is demanded
   again after the operation when it succeeded, and after ANY rename, accepted or rejected: a
   rename has no window in which one store is ahead of the other (the metadata update is the
   validating step and runs first), so a rejected rename must not leave the two stores apart.
   Rejected creates and deletes may (engine-first / metadata-first windows, see
   C15_failed_delete_diverges); the clause is re-armed as soon as the stores agree again. *)
Fixpoint ok_steps (validate : bool) (seen : list N) (clean : bool) (before : obs) (tr : list step_t) : bool :=
  match tr with
  | [] => true
  | (o, er, ret, ob) :: rest =>
      let okr := match o with
                 | Create gw req retr over =>
                     if is_ok er then ok_returned gw req retr over seen before ret else true
                 | CreatePair gw a b =>
                     if is_ok er then ok_returned gw (a ++ b) false false seen before ret else true
                 | _ => true
                 end in
      (* a key that shows up in a store now and was not there before the op was never seen *)
      let appeared := filter (fun k => negb (mem k (okeys before))) (okeys ob) in
      let ok_new := forallb (fun k => negb (mem k seen)) appeared in
      let demanded := clean && (is_ok er || is_rename o) in
      let cons_now := ok_meta_engine ob in
      okr && ok_new &&
      (if validate then ok_names ob else true) &&
      (if demanded then cons_now else true) &&
      ok_gone ob && ok_counters ob &&
      ok_steps validate (seen ++ okeys ob ++ (fst <$> ret)) cons_now ob rest
  end.

(* engine level, clause 5: a channel removed by a successful delete is listed by no later state of
   the engine — in particular not after the engine is reopened on the same files *)
Fixpoint eok (before : list (N * raw_echan)) (gone : list N) (tr : list estep_t) : bool :=
  match tr with
  | [] => true
  | (o, er, lst) :: rest =>
      let gone' :=
        if is_ok er then
          match o with
          | EDelete keys => gone ++ filter (fun k => mem k (fst <$> before)) keys
          | EDelete1 k => if mem k (fst <$> before) then gone ++ [k] else gone
          | _ => gone
          end
        else gone in
      forallb (fun k => negb (mem k (fst <$> lst))) gone' && eok lst gone' rest
  end.

(* which clause fails at which step (for replays): 1 returned keys, 2 reappearing key, 3 names,
   4 metadata = engines, 5 deleted channel still reachable, 6 key above its leaseholder's counter; step 0 = initial state *)
Fixpoint why_steps (validate : bool) (i : nat) (seen : list N) (clean : bool) (before : obs) (tr : list step_t)
  : list (nat * nat) :=
  match tr with
  | [] => []
  | (o, er, ret, ob) :: rest =>
      let okr := match o with
                 | Create gw req retr over =>
                     if is_ok er then ok_returned gw req retr over seen before ret else true
                 | CreatePair gw a b =>
                     if is_ok er then ok_returned gw (a ++ b) false false seen before ret else true
                 | _ => true
                 end in
      let appeared := filter (fun k => negb (mem k (okeys before))) (okeys ob) in
      let ok_new := forallb (fun k => negb (mem k seen)) appeared in
      let demanded := clean && (is_ok er || is_rename o) in
      let cons_now := ok_meta_engine ob in
      (if okr then [] else [(i, 1%nat)]) ++ (if ok_new then [] else [(i, 2%nat)]) ++
      (if validate && negb (ok_names ob) then [(i, 3%nat)] else []) ++
      (if demanded && negb cons_now then [(i, 4%nat)] else []) ++
      (if ok_gone ob then [] else [(i, 5%nat)]) ++
      (if ok_counters ob then [] else [(i, 6%nat)]) ++
      why_steps validate (S i) (seen ++ okeys ob ++ (fst <$> ret)) cons_now ob rest
  end.
Definition why (c : case_t) : list (nat * nat) :=
  match c with
  | CCluster (v, o0, tr) =>
      (if v && negb (ok_names o0) then [(0%nat, 3%nat)] else []) ++
      (if ok_meta_engine o0 then [] else [(0%nat, 4%nat)]) ++
      (if ok_counters o0 then [] else [(0%nat, 6%nat)]) ++
      why_steps v 1 (okeys o0) (ok_meta_engine o0) o0 tr
  | CEngine tr => if eok [] [] tr then [] else [(0%nat, 5%nat)]
  end.

Definition ok_C15 (c : case_t) : bool :=
  match c with
  | CCluster (v, o0, tr) =>
      (* the initial state (system channels created by the cluster itself) already obeys 3 and 4 *)
      (if v then ok_names o0 else true) && ok_meta_engine o0 && ok_counters o0 &&
      ok_steps v (okeys o0) (ok_meta_engine o0) o0 tr
  | CEngine tr => eok [] [] tr
  end.
Definition violates (c : case_t) : bool := negb (ok_C15 c).

Definition mismatches (cs : list case_t) : list nat := find_idx mismatch cs.
Definition violations (cs : list case_t) : list nat := find_idx violates cs.

(* what the model computes for a case: per step (error, returned, table, engines, counters, amb) *)
Fixpoint model_steps (validate : bool) (s : st) (tr : list step_t) :=
  match tr with
  | [] => []
  | (o, _, _, _) :: rest =>
      let '(s', (er', ret')) := step tree_fixed validate s o in
      (er', ret_of ret', dump_tab s', dump_eng s', dump_ctr s', s_free s', s_amb s') :: model_steps validate s' rest
  end.
Fixpoint emodel (e : engine) (tr : list estep_t) : list (err * list (N * raw_echan)) :=
  match tr with
  | [] => []
  | (o, _, _) :: rest => let '(e', er') := estep e o in (er', dump_engine e') :: emodel e' rest
  end.
Definition model_dump (c : case_t) :=
  match c with
  | CCluster (v, o0, tr) => (why c, inl (model_steps v (st_of o0) tr))
  | CEngine tr => (why c, inr (emodel ∅ tr))
  end.
