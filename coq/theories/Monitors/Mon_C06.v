(* Monitors/Mon_C06.v — case type, model-vs-implementation comparison and the decidable monitor
   for C06, applied to what the implementation did. *)
From stdpp Require Import gmap.
From Coq Require Import NArith ZArith.
From Synnax Require Import Common.Base Aspen.KV.
Local Open Scope N_scope.

(* which kvStore.apply the tree under test has (see KV.store_put) *)
Definition fx_tree : bool := true.

(* ---- what the harness observed after a step ---- *)
(* engine row: key, has value, value, digest state (0 none, 1 ok, 2 digest of another key),
   version, leaseholder, delete variant *)
Record reng := REng { re_k : N; re_hasv : bool; re_v : N; re_hasd : N; re_ver : Z; re_lh : N; re_del : bool }.
Global Instance reng_eq_dec : EqDecision reng.
Proof. solve_decision. Defined.

Record rnode := RNode { rn_key : N; rn_ctr : Z; rn_eng : list reng; rn_store : list op }.
Record rfb := RFb { rf_dest : N; rf_from : N; rf_done : bool; rf_digs : list op }.
Global Instance rfb_eq_dec : EqDecision rfb.
Proof. solve_decision. Defined.

Record obs := Obs { ob_rc : N; ob_nodes : list rnode; ob_fbs : list rfb }.

Record case_t := Case { c_nodes : list N; c_T : N; c_steps : list (step_t * obs) }.

(* ---- model vs implementation ---- *)
Definition reng_of (o : op) : reng :=
  REng (o_key o) (negb (o_del o)) (o_val o) 1 (o_ver o) (o_lh o) (o_del o).

Definition node_eq (w : world) (r : rnode) : bool :=
  match w_nodes w !! rn_key r with
  | None => false
  | Some nd =>
      bool_decide (n_ctr nd = rn_ctr r) &&
      bool_decide ((reng_of <$> n_eng nd) = list_to_map (map (fun x => (re_k x, x)) (rn_eng r))) &&
      bool_decide (length (rn_eng r) = size (n_eng nd)) &&
      bool_decide (infected (n_store nd) = rn_store r)
  end.

Definition fb_of (f : fbmsg) : rfb := RFb (fb_dest f) (fb_from f) (fb_done f) (fb_digs f).

Definition obs_eq (x : world * N) (o : obs) : bool :=
  bool_decide (x.2 = ob_rc o) &&
  forallb (node_eq x.1) (ob_nodes o) &&
  bool_decide (length (ob_nodes o) = size (w_nodes x.1)) &&
  bool_decide (map fb_of (w_fbs x.1) = ob_fbs o).

Fixpoint all2 {A B} (f : A -> B -> bool) (l : list A) (m : list B) : bool :=
  match l, m with
  | [], [] => true
  | a :: l', b :: m' => f a b && all2 f l' m'
  | _, _ => false
  end.

Definition model_trace (c : case_t) : list (world * N) :=
  trace fx_tree (c_T c) (world0 (c_nodes c)) (map fst (c_steps c)).

Definition mismatch (c : case_t) : bool :=
  negb (all2 obs_eq (model_trace c) (map snd (c_steps c))).

Definition violates (c : case_t) : bool := false.

Definition mismatches (cs : list case_t) : list nat := find_idx mismatch cs.
Definition violations (cs : list case_t) : list nat := find_idx violates cs.

(* ---- readable dump of the model's states, for replays ---- *)
Definition dump_node (kn : N * node) :=
  (kn.1, n_ctr kn.2, map (fun kx : N * op => kx.2) (map_to_list (n_eng kn.2)), infected (n_store kn.2),
   map_to_list (n_rec kn.2)).
Definition model_dump (c : case_t) :=
  map (fun x : world * N => (x.2, map dump_node (map_to_list (w_nodes x.1)), map fb_of (w_fbs x.1)))
      (model_trace c).
