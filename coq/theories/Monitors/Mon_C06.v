(* Monitors/Mon_C06.v — case type, model-vs-implementation comparison and the decidable monitor
   for C06, applied to what the implementation did. *)
From stdpp Require Import gmap.
From Coq Require Import NArith ZArith.
From Synnax Require Import Common.Base Aspen.KV.
Local Open Scope N_scope.

(* which kvStore.apply the tree under test has (see KV.store_put) *)
Definition fx_tree : bool := true.

(* ---- what the harness observed after a step ---- *)
(* engine row: key, has value, value, digest state (0 none, 1 ok, 2 digest of another key),
   version, leaseholder, delete variant *)
Record reng := REng { re_k : N; re_hasv : bool; re_v : N; re_hasd : N; re_ver : Z; re_lh : N; re_del : bool }.
Global Instance reng_eq_dec : EqDecision reng.
Proof. solve_decision. Defined.

Record rnode := RNode { rn_key : N; rn_ctr : Z; rn_eng : list reng; rn_store : list op }.
Record rfb := RFb { rf_dest : N; rf_from : N; rf_done : bool; rf_digs : list op }.
Global Instance rfb_eq_dec : EqDecision rfb.
Proof. solve_decision. Defined.

Record obs := Obs { ob_rc : N; ob_nodes : list rnode; ob_fbs : list rfb }.

Record case_t := Case { c_nodes : list N; c_T : N; c_steps : list (step_t * obs) }.

(* ---- model vs implementation ---- *)
Definition reng_of (o : op) : reng :=
  REng (o_key o) (negb (o_del o)) (o_val o) 1 (o_ver o) (o_lh o) (o_del o).

Definition node_eq (w : world) (r : rnode) : bool :=
  match w_nodes w !! rn_key r with
  | None => false
  | Some nd =>
      bool_decide (n_ctr nd = rn_ctr r) &&
      bool_decide ((reng_of <$> n_eng nd) = list_to_map (map (fun x => (re_k x, x)) (rn_eng r))) &&
      bool_decide (length (rn_eng r) = size (n_eng nd)) &&
      bool_decide (infected (n_store nd) = rn_store r)
  end.

Definition fb_of (f : fbmsg) : rfb := RFb (fb_dest f) (fb_from f) (fb_done f) (fb_digs f).

Definition obs_eq (x : world * N) (o : obs) : bool :=
  bool_decide (x.2 = ob_rc o) &&
  forallb (node_eq x.1) (ob_nodes o) &&
  bool_decide (length (ob_nodes o) = size (w_nodes x.1)) &&
  bool_decide (map fb_of (w_fbs x.1) = ob_fbs o).

Fixpoint all2 {A B} (f : A -> B -> bool) (l : list A) (m : list B) : bool :=
  match l, m with
  | [], [] => true
  | a :: l', b :: m' => f a b && all2 f l' m'
  | _, _ => false
  end.

Definition model_trace (c : case_t) : list (world * N) :=
  trace fx_tree (c_T c) (world0 (c_nodes c)) (map fst (c_steps c)).

Definition mismatch (c : case_t) : bool :=
  negb (all2 obs_eq (model_trace c) (map snd (c_steps c))).

(* ================= the monitor: C06 stated on the implementation's observations =================
   Only the script and what the harness read back from the real nodes are used (never the model).
   (1) never older: between two consecutive observations no node's digest of a key moves down in
       the (version, leaseholder) order, disappears, or changes content at an equal position.
   (2) the resolution rule: every node's entry of a key is the LWW maximum — higher version, then
       higher leaseholder — of the operations that node has received so far (injected batches,
       delivered payloads = the sender's observed infected operations, gossip replies, its own
       local writes, recovery streams = the peer's observed entries at or above the observed
       high-water mark); so two nodes that received the same set hold the same entries.
       Keys whose received set is incoherent (one (version, leaseholder), two contents) are skipped.
   (3) quiescence: when, at the end of the script, no node holds an infected operation, every node
       holds, for each key, exactly the entry of the node that leads it (the node whose own entry
       names itself as leaseholder). *)
Definition lex_lt (v1 : Z) (l1 : N) (v2 : Z) (l2 : N) : bool :=
  (v1 <? v2)%Z || ((v1 =? v2)%Z && (l1 <? l2)).
Definition op_lt (a b : op) : bool := lex_lt (o_ver a) (o_lh a) (o_ver b) (o_lh b).

Definition find_node (o : obs) (n : N) : option rnode :=
  find (fun r => rn_key r =? n) (ob_nodes o).
Definition obs_store (o : obs) (n : N) : list op :=
  match find_node o n with Some r => rn_store r | None => [] end.
Definition op_of_row (r : reng) : op := Op (re_k r) (re_ver r) (re_lh r) (re_del r) (if re_del r then 0 else re_v r).
Definition obs_eng_ops (o : obs) (n : N) : list op :=
  match find_node o n with
  | Some r => map op_of_row (filter (fun x => re_hasd x =? 1) (rn_eng r))
  | None => []
  end.
Definition obs_hw (o : obs) (n : N) : Z :=
  fold_left (fun acc x => Z.max acc (o_ver x)) (obs_eng_ops o n) 0%Z.
Definition obs_ctr (o : obs) (n : N) : Z :=
  match find_node o n with Some r => rn_ctr r | None => 0%Z end.
Definition is_node (o : obs) (n : N) : bool := bool_decide (is_Some (find_node o n)).

(* (1) *)
Definition row_ok_after (nxt : list reng) (r : reng) : bool :=
  if negb (re_hasd r =? 1) then true else
  match find (fun x => re_k x =? re_k r) nxt with
  | None => false
  | Some x =>
      (re_hasd x =? 1) &&
      (lex_lt (re_ver r) (re_lh r) (re_ver x) (re_lh x) ||
       ((re_ver r =? re_ver x)%Z && (re_lh r =? re_lh x) && bool_decide (x = r)))
  end.
(* offending (old row, new row) pairs; the new row is the old one when the key vanished *)
Definition regress_pairs (po no : obs) : list (reng * reng) :=
  flat_map (fun r => match find_node no (rn_key r) with
                     | Some r' => map (fun x => (x, default x (find (fun y => re_k y =? re_k x) (rn_eng r'))))
                                      (filter (fun x => negb (row_ok_after (rn_eng r') x)) (rn_eng r))
                     | None => map (fun x => (x, x)) (rn_eng r)
                     end) (ob_nodes po).
Definition no_regress (po no : obs) : bool := match regress_pairs po no with [] => true | _ => false end.

(* (2) *)
Record mstate := MS { ms_recv : gmap N (list op); ms_msgs : list (list op); ms_hw : gmap (N * N) Z }.
Definition ms0 : mstate := MS ∅ [] ∅.
Definition recv_add (m : mstate) (n : N) (l : list op) : mstate :=
  MS (<[n := default [] (ms_recv m !! n) ++ l]> (ms_recv m)) (ms_msgs m) (ms_hw m).

Definition mon_begin (m : mstate) (po : obs) (n p : N) : mstate :=
  if is_node po n && is_node po p && negb (n =? p) then
    match ms_hw m !! (n, p) with
    | Some _ => m
    | None => MS (ms_recv m) (ms_msgs m) (<[(n, p) := obs_hw po n]> (ms_hw m))
    end
  else m.
Definition mon_end (m : mstate) (po : obs) (n p : N) : mstate :=
  if is_node po n && is_node po p then
    match ms_hw m !! (n, p) with
    | None => m
    | Some h =>
        let m' := recv_add m n (filter (fun x => (h <=? o_ver x)%Z) (obs_eng_ops po p)) in
        MS (ms_recv m') (ms_msgs m') (delete (n, p) (ms_hw m'))
    end
  else m.

Fixpoint spec_accept (e : gmap N (Z * N)) (b : list op) : list op :=
  match b with
  | [] => []
  | o :: r =>
      let sup := match e !! o_key o with
                 | None => true
                 | Some (v, l) => if (o_ver o =? v)%Z then l <? o_lh o else (v <? o_ver o)%Z
                 end in
      if sup then o :: spec_accept (<[o_key o := (o_ver o, o_lh o)]> e) r else spec_accept e r
  end.

Definition obs_digests (o : obs) (n : N) : gmap N (Z * N) :=
  list_to_map (map (fun x => (o_key x, (o_ver x, o_lh x))) (obs_eng_ops o n)).


(* does the storage fault hit this ingestion at its node? Decided by the resolution rule on the
   observed pre-state: a commit fault hits a transaction that wrote something, a Set fault on key
   k hits when an operation on k is accepted *)
Definition gstep_batch (m_msgs : list (list op)) (po no : obs) (target : N) (g : gstep) : list op :=
  match g with
  | GInject _ _ b => b
  | GDeliver i _ => default [] (m_msgs !! i)
  | GRound i j late => if target =? j then obs_store po i else (if late then obs_store no j else obs_store po j)
  end.
Definition fault_hits_batch (f : fault) (po : obs) (b : list op) : bool :=
  let acc := spec_accept (obs_digests po (f_node f)) b in
  match f with
  | FCommit _ => match acc with [] => false | _ => true end
  | FSet _ k => existsb (fun o => o_key o =? k) acc
  end.

Definition mon_write (m : mstate) (po no : obs) (k : N) (del : bool) (v : N) : mstate :=
  if negb (ob_rc no =? 0) then m else
  match filter (fun r => (rn_ctr r =? obs_ctr po (rn_key r) + 1)%Z) (ob_nodes no) with
  | [r] => recv_add m (rn_key r) [Op k (rn_ctr r) (rn_key r) del (if del then 0 else v)]
  | _ => m
  end.

(* the node a DB.Set/Delete on node n is routed to, from the digest node n was observed to hold *)
Definition obs_leaseholder (po : obs) (n k lease : N) (del : bool) : N :=
  match obs_digests po n !! k with
  | Some (_, l) => if del then l else if lease =? 0 then l else lease
  | None => if del then n else if lease =? 0 then n else lease
  end.

Definition mon_step (m : mstate) (po : obs) (s : step_t) (no : obs) : mstate :=
  match s with
  | SWrite _ k v _ => mon_write m po no k false v
  | SDel _ k => mon_write m po no k true 0
  | SInject n _ b => if is_node po n then recv_add m n b else m
  | SSnap n => if is_node po n then MS (ms_recv m) (ms_msgs m ++ [obs_store po n]) (ms_hw m) else m
  | SDeliver i n =>
      match ms_msgs m !! i with
      | Some l => if is_node po n then recv_add m n l else m
      | None => m
      end
  | SRound i j late =>
      if is_node po i && is_node po j && negb (i =? j) then
        match obs_store po i with
        | [] => m
        | pl => recv_add (recv_add m j pl) i (if late then obs_store no j else obs_store po j)
        end
      else m
  | SRecBegin n p => mon_begin m po n p
  | SRecEnd n p => mon_end m po n p
  | SRecover n p => mon_end (mon_begin m po n p) po n p
  | SRestart n => MS (ms_recv m) (ms_msgs m) (filter (fun kx => negb (kx.1.1 =? n) = true) (ms_hw m))
  | SFaulty fn g =>
      (* node fn's ingress transaction fails to commit if it accepted anything: it then received
         nothing; if it accepted nothing the batch was dominated and leaving it out changes no maximum *)
      let radd (m : mstate) (n : N) (l : list op) :=
        if (n =? f_node fn) && fault_hits_batch fn po l then m else recv_add m n l in
      match g with
      | GInject n _ b => if is_node po n then radd m n b else m
      | GDeliver i n =>
          match ms_msgs m !! i with
          | Some l => if is_node po n then radd m n l else m
          | None => m
          end
      | GRound i j late =>
          if is_node po i && is_node po j && negb (i =? j) then
            match obs_store po i with
            | [] => m
            | pl => radd (radd m j pl) i (if late then obs_store no j else obs_store po j)
            end
          else m
      end
  | SWriteCF n k lease del =>
      (* not acknowledged (rc 3): nothing was created; the leaseholder's kv layer was reopened *)
      let m1 := mon_write m po no k del 0 in
      if ob_rc no =? 3 then
        let lh := obs_leaseholder po n k lease del in
        MS (ms_recv m1) (ms_msgs m1) (filter (fun kx => negb (kx.1.1 =? lh) = true) (ms_hw m1))
      else m1
  | SFb _ | SFbAll | SSub _ _ _ | SStall _ _ => m
  end.

(* Outside the quantifier: an injected operation that names a cluster node as leaseholder with a
   version that node has not assigned yet (versions are assigned only by the leaseholder). *)
Definition forged_step (po : obs) (s : step_t) : bool :=
  match s with
  | SInject _ _ b | SFaulty _ (GInject _ _ b) => existsb (fun x => is_node po (o_lh x) && (obs_ctr po (o_lh x) <? o_ver x)%Z) b
  | _ => false
  end.
Fixpoint forged (po : obs) (l : list (step_t * obs)) : bool :=
  match l with
  | [] => false
  | (s, no) :: r => forged_step po s || forged no r
  end.

Definition coherentb (l : list op) : bool :=
  forallb (fun a => forallb (fun b =>
     negb ((o_ver a =? o_ver b)%Z && (o_lh a =? o_lh b)) || bool_decide (a = b)) l) l.
Definition lww_max (l : list op) : option op :=
  fold_left (fun acc x => match acc with
                          | None => Some x
                          | Some a => if op_lt a x then Some x else acc
                          end) l None.

(* None = fine; Some true = the entry differs from the maximum and both are led by different
   nodes; Some false = any other difference *)
Definition key_rule (recv : list op) (eng : list reng) (k : N) : option bool :=
  let R := filter (fun x => o_key x =? k) recv in
  if negb (coherentb R) then None else
  match lww_max R, find (fun x => re_k x =? k) eng with
  | None, None => None
  | Some a, Some r => if bool_decide (r = reng_of a) then None else Some (negb (re_lh r =? o_lh a))
  | _, _ => Some false
  end.
Definition node_rule (m : mstate) (r : rnode) : list bool :=
  let recv := default [] (ms_recv m !! rn_key r) in
  omap (key_rule recv (rn_eng r)) (map o_key recv ++ map re_k (rn_eng r)).
Definition rule_bad (m : mstate) (o : obs) : list bool := flat_map (node_rule m) (ob_nodes o).
Definition rule_ok (m : mstate) (o : obs) : bool := match rule_bad m o with [] => true | _ => false end.

(* (3) *)
Definition quiescent (o : obs) : bool :=
  forallb (fun r => match rn_store r with [] => true | _ => false end) (ob_nodes o).
Definition leader_rows (o : obs) : list reng :=
  flat_map (fun r => filter (fun x => (re_hasd x =? 1) && (re_lh x =? rn_key r)) (rn_eng r)) (ob_nodes o).
Definition converged (o : obs) : bool :=
  forallb (fun lead => forallb (fun r =>
     match find (fun x => re_k x =? re_k lead) (rn_eng r) with
     | Some x => bool_decide (x = lead)
     | None => false
     end) (ob_nodes o)) (leader_rows o).
Definition quiescence_ok (o : obs) : bool := if quiescent o then converged o else true.

Definition obs0 (ns : list N) : obs := Obs 0 (map (fun n => RNode n 0 [] []) ns) [].

(* Violation codes. The first violation of (1)/(2) ends the run (what follows is a consequence).
   1x = an entry was replaced by an older one, 2x = an entry is not the LWW maximum of what the node
   received, with x = 1: at a DB.Set/Delete step and the two entries are led by different nodes (the
        leaseholder path applies without consulting the digest),
        x = 2: at a recovery apply that was separated from its high-water read, or whose two
               entries are led by different nodes (recovery applies without consulting the digest),
        x = 0: anything else;
   3x = quiesced without convergence, x = 1: a restart happened (the gossip store is in memory
        only), 3: no restart, three or more nodes (SIR stops after T+1 redundant feedbacks from
        any peers), 0: two nodes, no restart. *)
Definition is_write (s : step_t) : bool := match s with SWrite _ _ _ _ | SDel _ _ => true | _ => false end.
Definition is_recapply (s : step_t) : bool := match s with SRecEnd _ _ | SRecover _ _ => true | _ => false end.
Definition is_restart (s : step_t) : bool := match s with SRestart _ | SWriteCF _ _ _ _ => true | _ => false end.

Definition is_recend (s : step_t) : bool := match s with SRecEnd _ _ => true | _ => false end.
Definition step_suffix (s : step_t) (other_leader : bool) : N :=
  if is_recend s || (is_recapply s && other_leader) then 2
  else if is_write s && other_leader then 1 else 0.

Definition quiescence_code (c_nodes : list N) (steps : list step_t) : N :=
  if existsb is_restart steps then 31
  else if (2 <? length c_nodes)%nat then 33 else 30.

Fixpoint mon_run (m : mstate) (po : obs) (l : list (step_t * obs)) : option N :=
  match l with
  | [] => None
  | (s, no) :: rest =>
      let m' := mon_step m po s no in
      match regress_pairs po no with
      | p :: ps => Some (10 + step_suffix s (forallb (fun p => negb (re_lh p.1 =? re_lh p.2)) (p :: ps)))
      | [] =>
          match rule_bad m' no with
          | b :: bs => Some (20 + step_suffix s (forallb id (b :: bs)))
          | [] => mon_run m' no rest
          end
      end
  end.

Definition last_obs (c : case_t) : obs := default (obs0 (c_nodes c)) (last (map snd (c_steps c))).

Definition violation_kinds (c : case_t) : list N :=
  if forged (obs0 (c_nodes c)) (c_steps c) then [] else
  match mon_run ms0 (obs0 (c_nodes c)) (c_steps c) with
  | Some k => [k]
  | None => if quiescence_ok (last_obs c) then [] else [quiescence_code (c_nodes c) (map fst (c_steps c))]
  end.

Definition violates (c : case_t) : bool :=
  match violation_kinds c with [] => false | _ => true end.

Definition mismatches (cs : list case_t) : list nat := find_idx mismatch cs.
Definition violations (cs : list case_t) : list nat := find_idx violates cs.

(* ---- readable dump of the model's states, for replays ---- *)
Definition dump_node (kn : N * node) :=
  (kn.1, n_ctr kn.2, map (fun kx : N * op => kx.2) (map_to_list (n_eng kn.2)), infected (n_store kn.2),
   map_to_list (n_rec kn.2)).
Definition model_dump (c : case_t) :=
  map (fun x : world * N => (x.2, map dump_node (map_to_list (w_nodes x.1)), map fb_of (w_fbs x.1)))
      (model_trace c).
