(* Monitors/Mon_C03_Sound.v — the invariant part of the C03 monitor accepts every state that
   satisfies the proved invariant: on observations produced by the model, [inv_ok] never
   raises an alarm (so an alarm on implementation observations is a departure from what
   the theorems establish). *)
From stdpp Require Import gmap.
From Coq Require Import ZArith NArith List Bool Lia.
From Synnax Require Import Common.Base Common.Telem Cesium.Domain Cesium.DomainProofs Cesium.DomainInv
  Monitors.Mon_C03.
Import ListNotations.
Local Open Scope Z_scope.

Definition row_of (p : pointer) : pt_row := (p_start p, p_end p, p_file p, p_off p, p_size p).

Lemma ordered_sound ps : idx_ok ps -> ordered (map row_of ps) = true.
Proof.
  induction ps as [|p l IH]; intros Hok; [reflexivity|].
  apply idx_ok_cons in Hok. destruct Hok as ([_ Hlt] & Hl & Hb).
  simpl. rewrite (IH Hl), andb_true_r. apply andb_true_iff. split; [apply Z.leb_le; lia|].
  destruct l as [|q l']; [reflexivity|]. simpl.
  specialize (Hb q (or_introl eq_refl)). unfold before in Hb.
  apply andb_true_iff. split; [apply Z.leb_le; lia|apply Z.ltb_lt; lia].
Qed.

Lemma file_size_of_files : forall fs k0 k f, (k0 <= k)%N ->
  nth_error fs (N.to_nat (k - k0)) = Some f -> file_size_of (m_files_from fs k0) k = Some (f_size f).
Proof.
  induction fs as [|x l IH]; intros k0 k f Hle Hn; [destruct (N.to_nat (k - k0)); discriminate|].
  simpl. destruct (N.eqb_spec k0 k) as [->|Hne].
  - replace (N.to_nat (k - k)) with 0%nat in Hn by lia. simpl in Hn. congruence.
  - apply IH; [lia|]. replace (N.to_nat (k - k0)) with (S (N.to_nat (k - (k0 + 1)))) in Hn by lia. exact Hn.
Qed.

Lemma within_files_sound fs ps :
  Forall (ptr_in_files fs) ps -> within_files (m_files_from fs 1%N) (map row_of ps) = true.
Proof.
  intros H. unfold within_files. rewrite forallb_forall. intros r Hr.
  apply in_map_iff in Hr. destruct Hr as (p & <- & Hp). rewrite Forall_forall in H.
  destruct (H p Hp) as (f & Hf & Hb & _). unfold row_of.
  unfold get_file in Hf. destruct (N.eqb_spec (p_file p) 0); [discriminate|].
  rewrite (file_size_of_files fs 1%N (p_file p) f); [apply N.leb_le; assumption|lia|assumption].
Qed.

Lemma content_length fs p : ptr_in_files fs p -> length (content fs p) = N.to_nat (p_size p).
Proof.
  intros (f & Hf & Hb & _). unfold content. rewrite Hf, firstn_length, skipn_length.
  unfold f_size in Hb. lia.
Qed.

(* the invariant clause of the monitor holds of every state satisfying [Inv] *)
Theorem inv_ok_sound st : Inv st -> inv_ok (m_obs st) = true.
Proof.
  intros HI. pose proof HI as (Hok & Hpf & _). unfold inv_ok, m_obs.
  change (m_ptrs st) with (map row_of (d_ptrs st)).
  rewrite (ordered_sound _ Hok), (within_files_sound _ _ Hpf). simpl.
  unfold Mon_C03.readable_all, m_iter. rewrite (DomainInv.readable_all st HI), !map_map. simpl.
  apply andb_true_iff. split.
  - apply bool_decide_eq_true_2. apply map_ext. intros p. reflexivity.
  - rewrite forallb_forall. intros r Hr. apply in_map_iff in Hr. destruct Hr as (p & <- & Hp).
    rewrite Forall_forall in Hpf. rewrite (content_length _ _ (Hpf p Hp)). apply N.eqb_eq. lia.
Qed.
