(* Monitors/Mon_C13.v — case type, model-vs-implementation comparison and the decidable monitor for
   C13 (key-value observers), applied to what the implementation's subscribers were handed. *)
From stdpp Require Import gmap.
From Coq Require Import NArith ZArith.
From Synnax Require Import Common.Base Aspen.KV Monitors.Mon_C06.
Local Open Scope N_scope.

(* a change as a subscriber sees it: key, delete?, value *)
Notation chg := (N * bool * N)%type.
Definition chg_of (o : op) : chg := (o_key o, o_del o, o_val o).

(* the batches subscriber [rs_sub] on node [rs_node] was handed during one step *)
Record rsub := RSub { rs_node : N; rs_sub : N; rs_new : list (list chg) }.

Record case_t := Case13 { c_nodes : list N; c_T : N; c_steps : list (step_t * obs * list rsub) }.

Definition steps06 (c : case_t) : list (step_t * obs) := map (fun x => (x.1.1, x.1.2)) (c_steps c).
Definition as_c06 (c : case_t) : Mon_C06.case_t := Mon_C06.Case (c_nodes c) (c_T c) (steps06 c).

(* ---- model vs implementation ---- *)
Definition model_view (w : world) (n s : N) : option (list (list chg)) :=
  match w_nodes w !! n with
  | Some nd => match n_subs nd !! s with
               | Some sb => Some (map (map chg_of) (sub_view n nd sb))
               | None => None
               end
  | None => None
  end.

(* what the model hands a subscriber during the step from w to w' *)
Definition model_new (w w' : world) (n s : N) : option (list (list chg)) :=
  match model_view w' n s with
  | None => None
  | Some v' =>
      match model_view w n s with
      | Some v => Some (drop (length v) v')
      | None => Some v'
      end
  end.

Definition count_subs (w : world) : nat :=
  fold_right (fun kn acc => (size (n_subs kn.2) + acc)%nat) 0%nat (map_to_list (w_nodes w)).

Definition subs_eq (w w' : world) (l : list rsub) : bool :=
  forallb (fun r => bool_decide (model_new w w' (rs_node r) (rs_sub r) = Some (rs_new r))) l &&
  bool_decide (length l = count_subs w').

Fixpoint subs_all (w : world) (tr : list (world * N)) (ls : list (list rsub)) : bool :=
  match tr, ls with
  | [], [] => true
  | x :: tr', l :: ls' => subs_eq w x.1 l && subs_all x.1 tr' ls'
  | _, _ => false
  end.

Definition mismatch (c : case_t) : bool :=
  Mon_C06.mismatch (as_c06 c) ||
  negb (subs_all (world0 (c_nodes c)) (Mon_C06.model_trace (as_c06 c)) (map snd (c_steps c))).

(* ================= the monitor: C13 stated on the implementation's observations =================
   For every step, every node and every subscriber registered there, the changes the subscriber
   was handed during the step (all batches of the step flattened; batch boundaries and the order
   inside a step are not part of the property) must be, as a multiset, exactly the operations that
   changed the node's stored state in that step, where "changed" is decided by the resolution rule
   on the engine the harness OBSERVED before the step:
     - a gossip batch (injected, delivered payload = the sender's observed infected operations,
       round payload / reply): the operations that supersede the stored digest at their turn —
       so a redelivered operation (at most once) and an operation that lost to a newer stored one
       (never stale) must not show up, and every accepted one must (completeness);
     - DB.Set / Delete: the one operation the leaseholder created, on the leaseholder's node;
     - a subscriber that stopped keeping up (SStall: its handler blocks, its buffers overflow) is
       outside the property from then on; every OTHER subscriber must still be handed everything;
     - an ingress transaction the engine refused to commit (SFaulty) changed nothing: nothing is
       expected from it and nothing may be delivered; the later redelivery counts as usual;
     - recovery writes below the observers (it runs inside kv.Open, before any subscriber can
       exist): nothing is expected from it and nothing may be delivered.
   With IgnoreHostLeaseholder the expected changes are those NOT led by the host (leaseholder of the
   operation <> host), whatever path they took.
   In addition, over the whole script, no subscriber is handed the same (key, version, leaseholder)
   twice (the identity of a handed change is that of the expected operation it matches).
   Codes: 1 = handed something that did not change the state (duplicate / stale / spurious),
          2 = a state-changing operation was not handed (for a filtered subscriber: one not led by
              the host), 3 = a filtered subscriber was handed a change led by the host,
          4 = the same (key, version, leaseholder) handed twice over the script. *)
(* operations that changed node n's state in this step, per the rule on the observed pre-state *)
Definition expected_plain (po no : obs) (msgs : list (list op)) (s : step_t) (n : N) : list op :=
  match s with
  | SWrite _ k v _ =>
      match filter (fun r => (rn_ctr r =? obs_ctr po (rn_key r) + 1)%Z) (ob_nodes no) with
      | [r] => if (rn_key r =? n) && (ob_rc no =? 0) then [Op k (rn_ctr r) n false v] else []
      | _ => []
      end
  | SDel _ k =>
      match filter (fun r => (rn_ctr r =? obs_ctr po (rn_key r) + 1)%Z) (ob_nodes no) with
      | [r] => if (rn_key r =? n) && (ob_rc no =? 0) then [Op k (rn_ctr r) n true 0] else []
      | _ => []
      end
  | SInject m _ b => if m =? n then spec_accept (obs_digests po n) b else []
  | SDeliver i m => if m =? n then spec_accept (obs_digests po n) (default [] (msgs !! i)) else []
  | SRound i j late =>
      if is_node po i && is_node po j && negb (i =? j) then
        match obs_store po i with
        | [] => []
        | pl => if j =? n then spec_accept (obs_digests po n) pl
                else if i =? n then spec_accept (obs_digests po n) (if late then obs_store no j else obs_store po j)
                else []
        end
      else []
  | _ => []
  end.

(* a transaction that fails to commit stores nothing: nobody may be told anything about it *)
Definition expected_at (po no : obs) (msgs : list (list op)) (s : step_t) (n : N) : list op :=
  match s with
  | SFaulty fn g =>
      if (f_node fn =? n) && fault_hits_batch fn po (gstep_batch msgs po no n g) then [] else
      expected_plain po no msgs (match g with
                                 | GInject a b c => SInject a b c
                                 | GDeliver a b => SDeliver a b
                                 | GRound a b c => SRound a b c
                                 end) n
  | _ => expected_plain po no msgs s n
  end.

Definition chg_eqb (a b : chg) : bool := bool_decide (a = b).
Fixpoint remove_one (x : chg) (l : list chg) : option (list chg) :=
  match l with
  | [] => None
  | y :: r => if chg_eqb x y then Some r else option_map (cons y) (remove_one x r)
  end.
(* multiset difference test: (missing from got, extra in got) *)
Fixpoint ms_diff (want got : list chg) : list chg * list chg :=
  match want with
  | [] => ([], got)
  | x :: r => match remove_one x got with
              | Some got' => ms_diff r got'
              | None => let '(m, e) := ms_diff r got in (x :: m, e)
              end
  end.

Record sstate := SS { ss_subs : gmap (N * N) bool;          (* (node, sub) -> filtered? *)
                      ss_seen : gmap (N * N) (list (N * Z * N));   (* handed so far *)
                      ss_msgs : list (list op) }.
Definition ss0 : sstate := SS ∅ ∅ [].

Definition sub_codes (po no : obs) (st : sstate) (s : step_t) (r : rsub) : list N :=
  match ss_subs st !! (rs_node r, rs_sub r) with
  | None => match rs_new r with [] => [] | _ => [1] end
  | Some filt =>
      let n := rs_node r in
      let exp_all := expected_at po no (ss_msgs st) s n in
      let exp : list op := if (filt : bool) then filter (fun o : op => negb (o_lh o =? n)) exp_all else exp_all in
      let got := concat (rs_new r) in
      let '(missing, extra) := ms_diff (map chg_of exp) got in
      let shown_wrongly := filt && existsb (fun c => existsb (fun o => chg_eqb c (chg_of o)) (filter (fun o : op => o_lh o =? n) exp_all)) extra in
      (if shown_wrongly then [3] else []) ++
      (match extra with [] => [] | _ => if shown_wrongly then [] else [1] end) ++
      (match missing with [] => [] | _ => [2] end) ++
      (let seen := default [] (ss_seen st !! (n, rs_sub r)) in
       if existsb (fun o => existsb (fun t => bool_decide (t = (o_key o, o_ver o, o_lh o))) seen) exp then [4] else [])
  end.

Definition ss_step (po no : obs) (st : sstate) (s : step_t) (rs : list rsub) : sstate :=
  let subs1 := match s with
               | SSub n sb f => if is_node po n then
                                  match ss_subs st !! (n, sb) with Some _ => ss_subs st | None => <[(n, sb) := f]> (ss_subs st) end
                                else ss_subs st
               | SRestart n => filter (fun kx => negb (kx.1.1 =? n) = true) (ss_subs st)
               | SStall n sb => delete (n, sb) (ss_subs st)
               | SWriteCF n k lease del =>
                   if ob_rc no =? 3 then
                     filter (fun kx => negb (kx.1.1 =? obs_leaseholder po n k lease del) = true) (ss_subs st)
                   else ss_subs st
               | _ => ss_subs st
               end in
  let seen1 := fold_left (fun acc (kf : N * N * bool) =>
                 let n := kf.1.1 in
                 let exp_all := expected_at po no (ss_msgs st) s n in
                 let exp : list op := if (kf.2 : bool) then filter (fun o : op => negb (o_lh o =? n)) exp_all else exp_all in
                 <[kf.1 := default [] (acc !! kf.1) ++ map (fun o => (o_key o, o_ver o, o_lh o)) exp]> acc)
               (map_to_list (ss_subs st)) (ss_seen st) in
  let seen2 := match s with
               | SRestart n => filter (fun kx => negb (kx.1.1 =? n) = true) seen1
               | SWriteCF n k lease del =>
                   if ob_rc no =? 3 then filter (fun kx => negb (kx.1.1 =? obs_leaseholder po n k lease del) = true) seen1 else seen1
               | _ => seen1 end in
  let msgs1 := match s with SSnap n => if is_node po n then ss_msgs st ++ [obs_store po n] else ss_msgs st | _ => ss_msgs st end in
  SS subs1 seen2 msgs1.

Fixpoint mon13 (po : obs) (st : sstate) (l : list (step_t * obs * list rsub)) : list N :=
  match l with
  | [] => []
  | (s, no, rs) :: rest =>
      flat_map (sub_codes po no st s) rs ++ mon13 no (ss_step po no st s rs) rest
  end.

Definition violation_kinds (c : case_t) : list N :=
  if forged (obs0 (c_nodes c)) (steps06 c) then [] else
  remove_dups (mon13 (obs0 (c_nodes c)) ss0 (c_steps c)).

Definition violates (c : case_t) : bool := match violation_kinds c with [] => false | _ => true end.

Definition mismatches (cs : list case_t) : list nat := find_idx mismatch cs.
Definition violations (cs : list case_t) : list nat := find_idx violates cs.

Definition model_dump (c : case_t) :=
  (Mon_C06.model_dump (as_c06 c),
   map (fun x : world * N => map (fun kn : N * node => (kn.1, n_log kn.2, map_to_list (n_subs kn.2))) (map_to_list (w_nodes x.1)))
       (Mon_C06.model_trace (as_c06 c))).
