(* Monitors/Mon_C03.v — case type, model-vs-implementation comparison ([mismatches]) and the
   decidable statement of C03 on the IMPLEMENTATION's observations ([violations]). *)
From stdpp Require Import gmap.
From Coq Require Import ZArith NArith List Bool.
From Synnax Require Import Common.Base Common.Telem Cesium.Domain.
Import ListNotations.
Local Open Scope Z_scope.

(* ---- what the harness records after every operation ---- *)
(* iterator enumeration: (start, end, size, bytes read) *)
Definition it_row : Type := Z * Z * N * list N.
(* raw index pointers: (start, end, fileKey, offset, size) *)
Definition pt_row : Type := Z * Z * N * N * N.
(* data files: (key, size) *)
Definition fl_row : Type := N * N.
Definition iobs : Type := list it_row * list pt_row * list fl_row.
(* (result class, (file key, Start, End of the op's writer after the op), observation);
   the observation is None when the call panicked (the index mutex stays locked). *)
Definition sobs : Type := res * (N * Z * Z) * option iobs.
(* one history step: the operation, its observation, and — for a DeleteC — the nested
   writer operations that actually ran inside the resolvers, each with its observation *)
Definition hstep : Type := op * sobs * list (wop * sobs).
(* ((nominal file size, real cap), history with observations) *)
Definition case_t : Type := (N * N) * list hstep.

(* ---- projection of a model state to the same shape ---- *)
Definition m_iter (st : db) : list it_row :=
  map (fun x => match x with (tr, sz, bs) => (tr_start tr, tr_end tr, sz, bs) end) (readable st).
Definition m_ptrs (st : db) : list pt_row :=
  map (fun p => (p_start p, p_end p, p_file p, p_off p, p_size p)) (d_ptrs st).
Fixpoint m_files_from (fs : list file) (k : N) : list fl_row :=
  match fs with [] => [] | f :: r => (k, f_size f) :: m_files_from r (k + 1)%N end.
Definition m_obs (st : db) : iobs := (m_iter st, m_ptrs st, m_files_from (d_files st) 1%N).

Definition wop_op (x : wop) : op :=
  match x with
  | WOpen w s e k => Open w s e k | WWrite w d => Write w d
  | WCommit w e k => Commit w e k | WClose w => Close w
  end.
Definition op_writer (o : op) : option N :=
  match o with
  | Open w _ _ _ | Write w _ | Commit w _ _ | Close w => Some w
  | Delete _ _ | DeleteC _ _ _ _ | Reopen => None
  end.
Definition m_winfo (st : db) (o : op) : N * Z * Z :=
  match op_writer o with
  | Some w => match d_writers st !! w with
              | Some wr => (w_file wr, w_start wr, w_end wr)
              | None => (0%N, 0, 0)
              end
  | None => (0%N, 0, 0)
  end.

Definition res_eqb (a b : res) : bool :=
  match a, b with
  | ROk, ROk | RBadOp, RBadOp => true
  | RErr x, RErr y =>
      match x, y with
      | EConflict, EConflict | EValidation, EValidation | ENotFound, ENotFound
      | EClosed, EClosed | EOther, EOther | EPanic, EPanic => true
      | _, _ => false
      end
  | _, _ => false
  end.

Definition it_row_eqb (a b : it_row) : bool := bool_decide (a = b).
Definition iobs_eqb (a b : iobs) : bool := bool_decide (a = b).

(* exact comparison of one step *)
Definition step_agrees (st' : db) (r : res) (o : op) (ob : sobs) : bool :=
  let '(ri, wi, oi) := ob in
  res_eqb r ri &&
  match oi with
  | None => true
  | Some io => bool_decide (m_winfo st' o = wi) && iobs_eqb (m_obs st') io
  end.

(* the nested operations of a DeleteC: the model's states/results against what the
   implementation reported for the operations that ran (same number, same order) *)
Fixpoint nested_agree (ms : list (db * res)) (ns : list (wop * sobs)) : bool * bool :=
  match ms, ns with
  | [], [] => (true, false)
  | (st', r) :: ms', (x, ob) :: ns' =>
      if step_agrees st' r (wop_op x) ob then
        match ob with
        | (_, _, None) => (true, true)     (* a panic ends the case: nothing runs after it *)
        | _ => nested_agree ms' ns'
        end
      else (false, false)
  | _, _ => (false, false)
  end.

Fixpoint agrees (st : db) (tr : list hstep) : bool :=
  match tr with
  | [] => true
  | (o, ob, ns) :: rest =>
      let '(st', r) := step st o in
      let '(okn, stopped) := nested_agree (step_nested st o) ns in
      okn && (if stopped then true else step_agrees st' r o ob && agrees st' rest)
  end.

Definition mismatch (c : case_t) : bool :=
  let '((nominal, cap), tr) := c in negb (agrees (init nominal cap) tr).

(* ---- the property on implementation observations ---- *)
Definition pt_s (p : pt_row) : Z := match p with (s, _, _, _, _) => s end.
Definition pt_e (p : pt_row) : Z := match p with (_, e, _, _, _) => e end.

Fixpoint file_size_of (fs : list fl_row) (k : N) : option N :=
  match fs with
  | [] => None
  | (k', sz) :: r => if (k' =? k)%N then Some sz else file_size_of r k
  end.

(* time-ordered, pairwise non-overlapping (half-open), each range start <= end *)
Fixpoint ordered (ps : list pt_row) : bool :=
  match ps with
  | [] => true
  | p :: rest =>
      (pt_s p <=? pt_e p) &&
      match rest with
      | [] => true
      | q :: _ => (pt_e p <=? pt_s q) && (pt_s p <? pt_s q)
      end && ordered rest
  end.

Definition within_files (fs : list fl_row) (ps : list pt_row) : bool :=
  forallb (fun p => match p with (_, _, k, off, sz) =>
     match file_size_of fs k with Some fsz => (off + sz <=? fsz)%N | None => false end end) ps.

(* every committed domain is reachable through the iterator, with [size] bytes read *)
Definition readable_all (it : list it_row) (ps : list pt_row) : bool :=
  bool_decide (map (fun r => match r with (s, e, sz, _) => (s, e, sz) end) it =
               map (fun p => match p with (s, e, _, _, sz) => (s, e, sz) end) ps) &&
  forallb (fun r => match r with (_, _, sz, bs) => (N.of_nat (length bs) =? sz)%N end) it.

Definition inv_ok (o : iobs) : bool :=
  let '(it, ps, fs) := o in ordered ps && within_files fs ps && readable_all it ps.

(* committed data unchanged and readable: same pointers, same bytes through the iterator *)
Definition unchanged (pre post : iobs) : bool :=
  let '(it, ps, _) := pre in let '(it', ps', _) := post in
  bool_decide (ps = ps') && bool_decide (it = it').

(* per-writer bookkeeping derived from the observed history only *)
Record wbook := mkWB {
  b_start : Z;            (* Start as observed *)
  b_preset : option Z;    (* preset End *)
  b_prev : option Z;      (* end of the last successful commit since open / file switch *)
  b_pending : bool;       (* bytes written since open / file switch *)
  b_live : bool;
  b_taint : bool          (* a Delete reached at or beyond this writer's start: the unary
                             control gate refuses such deletes; no demands afterwards *)
}.
Notation book := (list (N * wbook)).
Fixpoint book_get (b : book) (w : N) : option wbook :=
  match b with [] => None | (w', x) :: r => if (w' =? w)%N then Some x else book_get r w end.
Fixpoint book_set (b : book) (w : N) (x : wbook) : book :=
  match b with
  | [] => [(w, x)]
  | (w', y) :: r => if (w' =? w)%N then (w, x) :: r else (w', y) :: book_set r w x
  end.

Definition is_okb (r : res) : bool := match r with ROk => true | _ => false end.
Definition is_failb (r : res) : bool := match r with RErr _ => true | _ => false end.

(* commit (S, end) must be refused: it would overlap data of another domain, or (no preset
   end) it moves backwards *)
Definition commit_must_fail (pre : list pt_row) (wb : wbook) (e : Z) : bool :=
  let S := b_start wb in
  (* with a preset end E the committed range is [S,E), or [S,e) on a file switch; a call
     with e > E is refused for that reason alone (not a validation error) *)
  let in_bound := match b_preset wb with Some E => e <=? E | None => true end in
  let own p := match b_prev wb with Some _ => pt_s p =? S | None => false end in
  (in_bound && (S <? e) && existsb (fun p => negb (own p) && (pt_s p <? e) && (S <? pt_e p)) pre) ||
  match b_preset wb, b_prev wb with
  | None, Some pv => e <? pv
  | _, _ => false
  end.

Definition step_ok (pre : iobs) (b : book) (o : op) (ob : sobs) : bool :=
  let '(r, wi, oi) := ob in
  match oi with
  | None =>
      (* a panic is never a clean failure, except for a commit of a tainted writer *)
      match o with
      | Commit w _ _ => match book_get b w with Some wb => b_taint wb | None => false end
      | _ => false
      end
  | Some post =>
      inv_ok post &&
      match o with
      | Open w s e _ =>
          let '(_, ps, _) := pre in
          (if existsb (fun p => (pt_s p <=? s) && (s <? pt_e p)) ps then negb (is_okb r) else true) &&
          (if is_failb r then unchanged pre post else true)
      | Write _ _ | Close _ => if is_failb r then unchanged pre post else true
      | Commit w e _ =>
          let '(_, ps, _) := pre in
          (if is_failb r then unchanged pre post else true) &&
          match book_get b w with
          | Some wb =>
              if b_live wb && b_pending wb && negb (b_taint wb) && commit_must_fail ps wb e
              then is_validation r else true
          | None => true
          end
      | Delete _ _ | DeleteC _ _ _ _ => true
      (* after a restart the loaded index is judged by [inv_ok] like any other state *)
      | Reopen => true
      end
  end.

Definition book_step (b : book) (o : op) (ob : sobs) : book :=
  let '(r, (_, ws, _), oi) := ob in
  match o with
  | Open w s e _ =>
      if is_okb r then
        book_set b w (mkWB ws (if e =? 0 then None else Some e) None false true false)
      else b
  | Write w d =>
      match book_get b w with
      | Some wb => if is_okb r && negb (match d with [] => true | _ => false end)
                   then book_set b w (mkWB (b_start wb) (b_preset wb) (b_prev wb) true (b_live wb) (b_taint wb))
                   else b
      | None => b
      end
  | Commit w e _ =>
      match book_get b w with
      | Some wb =>
          if is_okb r && b_pending wb && b_live wb then
            if negb (ws =? b_start wb) then
              book_set b w (mkWB ws (b_preset wb) None false true (b_taint wb))
            else
              let ce := match oi with
                        | Some (_, ps, _) =>
                            match find (fun p => pt_s p =? b_start wb) ps with
                            | Some p => pt_e p | None => e end
                        | None => e
                        end in
              book_set b w (mkWB (b_start wb) (b_preset wb) (Some ce) true true (b_taint wb))
          else b
      | None => b
      end
  | Close w =>
      match book_get b w with
      | Some wb => book_set b w (mkWB (b_start wb) (b_preset wb) (b_prev wb) (b_pending wb) false (b_taint wb))
      | None => b
      end
  | Reopen =>
      map (fun wx => let '(w, wb) := wx in
             (w, mkWB (b_start wb) (b_preset wb) (b_prev wb) (b_pending wb) false (b_taint wb))) b
  | Delete a d | DeleteC a d _ _ =>
      map (fun wx => let '(w, wb) := wx in
             if b_live wb && (b_start wb <? d)
             then (w, mkWB (b_start wb) (b_preset wb) (b_prev wb) (b_pending wb) (b_live wb) true)
             else (w, wb)) b
  end.

(* the nested writer operations of a DeleteC are judged like top-level ones ("at every
   moment"); returns the verdict, the last observation and the book after them *)
Fixpoint ok_nested (pre : iobs) (b : book) (ns : list (wop * sobs)) : bool * bool * iobs * book :=
  match ns with
  | [] => (true, false, pre, b)
  | (x, ob) :: rest =>
      let o := wop_op x in
      if step_ok pre b o ob then
        match ob with
        | (_, _, Some post) => ok_nested post (book_step b o ob) rest
        | (_, _, None) => (true, true, pre, b)      (* judged panic: nothing observable after it *)
        end
      else (false, false, pre, b)
  end.

Fixpoint ok_from (pre : iobs) (b : book) (tr : list hstep) : bool :=
  match tr with
  | [] => true
  | (o, ob, ns) :: rest =>
      (* a delete first taints the writers it reaches; nested operations follow *)
      let b0 := match o with DeleteC _ _ _ _ => book_step b o ob | _ => b end in
      let '(okn, stopped, pre', b1) := ok_nested pre b0 ns in
      okn &&
      (if stopped then true
       else step_ok pre' b1 o ob &&
            match ob with
            | (_, _, Some post) => ok_from post (book_step b1 o ob) rest
            | (_, _, None) => true
            end)
  end.

(* the monitor: applied to IMPLEMENTATION observations *)
Definition ok_C03 (c : case_t) : bool := ok_from ([], [], []) [] (snd c).

Definition violates (c : case_t) : bool := negb (ok_C03 c).

Definition mismatches (cs : list case_t) : list nat := find_idx mismatch cs.
Definition violations (cs : list case_t) : list nat := find_idx violates cs.

(* model results / observations after each op (nested ones first), for replays *)
Definition m_row (st' : db) (r : res) (o : op) : res * (N * Z * Z) * iobs := (r, m_winfo st' o, m_obs st').
Fixpoint model_trace (st : db) (ops : list op) : list (list (res * iobs) * (res * (N * Z * Z) * iobs)) :=
  match ops with
  | [] => []
  | o :: rest =>
      let '(st', r) := step st o in
      (map (fun sr => (snd sr, m_obs (fst sr))) (step_nested st o), m_row st' r o) :: model_trace st' rest
  end.
Definition model_dump (c : case_t) : list (list (res * iobs) * (res * (N * Z * Z) * iobs)) :=
  let '((nominal, cap), tr) := c in model_trace (init nominal cap) (map (fun h => fst (fst h)) tr).

(* ---- function-level differential test of Common/Telem.v against x/go/telem ---- *)
(* ((tr.Start, tr.End, rng.Start, rng.End),
    (OverlapsWith, ContainsRange, BoundBy, ContainsStamp rng.Start, Valid, MakeValid)) *)
Definition telem_case : Type := (Z * Z * Z * Z) * (bool * bool * (Z * Z) * bool * bool * (Z * Z)).
Definition telem_model (q : Z * Z * Z * Z) : bool * bool * (Z * Z) * bool * bool * (Z * Z) :=
  let '(a, b, c, d) := q in
  let tr := mkTR a b in let rng := mkTR c d in
  let bb := bound_by tr rng in let mv := tr_make_valid tr in
  (overlaps_with tr rng, contains_range tr rng, (tr_start bb, tr_end bb),
   contains_stamp tr c, tr_valid tr, (tr_start mv, tr_end mv)).
Definition telem_mismatch (c : telem_case) : bool := negb (bool_decide (telem_model (fst c) = snd c)).
Definition telem_mismatches (cs : list telem_case) : list nat := find_idx telem_mismatch cs.
