(* Monitors/Mon_C11.v — decidable monitor for C11 on the event log the harness records
   from the real pledge code, and the model-vs-implementation comparison (trace
   acceptance by the LTS of Aspen/Pledge.v) used by the generated case files.

   The monitor is an independent fold over the observations (it does not use the
   model's step function). It demands what the property text states:
     (Q) a pledge is handed a key only after every member of some majority quorum
         (|active|/2+1 distinct addresses) of the active members of the coordinator's
         latest candidate snapshot approved that key for that run;
     (K) the cluster key it receives is the coordinating member's cluster key;
     (U) no two pledges are handed the same key, and no pledge is handed a key that an
         approving juror, at the time of its approval, knew to belong to a member.
   The response the pledge returns must be one that a coordinator sent to it (T). *)
From stdpp Require Import gmap.
From Coq Require Import NArith.
From Synnax Require Import Common.Base Aspen.Pledge Aspen.PledgeCluster.
Local Open Scope N_scope.

Definition case_t : Type := (list member_cfg * list (N * nat)) * list ev.

Record mst := Mst {
  m_views : gmap N nview;                 (* address -> current Candidates() view *)
  m_ck : gmap N N;                        (* address -> cluster key of an arbitrating node *)
  m_run : gmap N (N * N);                 (* run -> (pledge, member) *)
  m_snap : gmap N nview;                  (* run -> latest candidate snapshot *)
  m_appr : list (N * N * N * bool);       (* approvals: (run, juror, key, juror knew the key) *)
  m_resp : list (N * N * N * N);          (* successful responses that reached a pledge: (pledge, run, key, ck) *)
  m_adm : list (N * N * list N);          (* admitted: (pledge, key, approving jurors of its run) *)
  m_kinds : list N                        (* violations found so far *)
}.

Definition mon_init (ms : list member_cfg) : mst :=
  Mst (list_to_map (map (fun m => (m.1.1.1, m.2)) ms))
      (list_to_map (map (fun m => (m.1.1.1, m.1.1.2)) ms))
      ∅ ∅ [] [] [] [].

Definition knows (vs : gmap N nview) (j key : N) : bool :=
  bool_decide (key ∈ map vkey (default [] (vs !! j))).

Definition note_approval (m : mst) (r j key : N) : mst :=
  Mst (m_views m) (m_ck m) (m_run m) (m_snap m)
      (m_appr m ++ [(r, j, key, knows (m_views m) j key)]) (m_resp m) (m_adm m) (m_kinds m).

Definition dedup (l : list N) : list N := remove_dups l.

Definition approvers (m : mst) (r key : N) : list N :=
  dedup (omap (fun a => if bool_decide (a.1.1.1 = r) && bool_decide (a.1.2 = key) then Some a.1.1.2 else None)
              (m_appr m)).

Definition inter (a b : list N) : list N := filter (fun x => x ∈ b) a.

(* violation kinds *)
Definition k_quorum : N := 1.
Definition k_ck : N := 2.
Definition k_dup_shared : N := 3.      (* same key, the two approving quorums share a juror *)
Definition k_dup_disjoint : N := 4.    (* same key, the two approving quorums are disjoint *)
Definition k_known_key : N := 5.       (* an approving juror knew a member with that key *)
Definition k_phantom : N := 6.         (* the pledge returned a key/ck no coordinator sent it *)

Definition judge_admit (m : mst) (p key ck : N) : mst :=
  match list_find (fun x => x.1.1.1 = p /\ x.1.2 = key /\ x.2 = ck) (m_resp m) with
  | None => Mst (m_views m) (<[p := ck]> (m_ck m)) (m_run m) (m_snap m) (m_appr m) (m_resp m)
                (m_adm m ++ [(p, key, [])]) (m_kinds m ++ [k_phantom])
  | Some (_, x) =>
      let r := x.1.1.2 in
      let member := match m_run m !! r with Some pm => pm.2 | None => 0 end in
      let snap := default [] (m_snap m !! r) in
      let js := approvers m r key in
      let inq := inter js (map vaddr (active snap)) in
      let kq := if bool_decide (qsize snap <= length inq)%nat then [] else [k_quorum] in
      let kk := if bool_decide (m_ck m !! member = Some ck) then [] else [k_ck] in
      let kd := flat_map (fun a => if bool_decide (a.1.2 = key)
                                   then (if bool_decide (inter js a.2 = []) then [k_dup_disjoint] else [k_dup_shared])
                                   else []) (m_adm m) in
      let kn := if existsb (fun a => bool_decide (a.1.1.1 = r) && bool_decide (a.1.2 = key) && a.2) (m_appr m)
                then [k_known_key] else [] in
      Mst (m_views m) (<[p := ck]> (m_ck m)) (m_run m) (m_snap m) (m_appr m) (m_resp m)
          (m_adm m ++ [(p, key, js)]) (m_kinds m ++ kq ++ kk ++ kd ++ kn)
  end.

Definition mon_step (m : mst) (e : ev) : mst :=
  match e with
  | EGossip a v => Mst (<[a := v]> (m_views m)) (m_ck m) (m_run m) (m_snap m) (m_appr m) (m_resp m) (m_adm m) (m_kinds m)
  | EPStart p a r => Mst (m_views m) (m_ck m) (<[r := (p, a)]> (m_run m)) (m_snap m) (m_appr m) (m_resp m) (m_adm m) (m_kinds m)
  | EPFail _ _ => m
  | ESnap r v => Mst (m_views m) (m_ck m) (m_run m) (<[r := v]> (m_snap m)) (m_appr m) (m_resp m) (m_adm m) (m_kinds m)
  | EReq r j key how vd =>
      if (bool_decide (how = 0) || bool_decide (how = 2)) && bool_decide (vd = VApprove)
      then note_approval m r j key else m
  | ELate r j key vd => if bool_decide (vd = VApprove) then note_approval m r j key else m
  | EProbe _ _ _ => m
  | EREnd r key ck err lost =>
      if bool_decide (err = 0) && negb lost
      then match m_run m !! r with
           | Some pm => Mst (m_views m) (m_ck m) (m_run m) (m_snap m) (m_appr m)
                            (m_resp m ++ [(pm.1, r, key, ck)]) (m_adm m) (m_kinds m)
           | None => m
           end
      else m
  | EPEnd p ok key ck => if ok then judge_admit m p key ck else m
  end.

Definition mon_run (ms : list member_cfg) (tr : list ev) : mst := foldl mon_step (mon_init ms) tr.

(* the monitor: applied to IMPLEMENTATION observations *)
Definition viol_kinds (c : case_t) : list N := remove_dups (m_kinds (mon_run c.1.1 c.2)).
Definition ok_C11 (c : case_t) : bool := bool_decide (viol_kinds c = []).
Definition violates (c : case_t) : bool := negb (ok_C11 c).

(* correspondence: the model accepts exactly what the implementation did *)
Definition accepts (c : case_t) : bool :=
  match exec (lookup_pmax c.1.2) (init c.1.1) c.2 with Some _ => true | None => false end.
Definition mismatch (c : case_t) : bool := negb (accepts c).

(* ---- cluster.Open-level scripts (Aspen/PledgeCluster.v) ---- *)
Definition ccase_t : Type := cscript.

(* the bootstrapper's cluster key is the first one seen: canonical number 1 *)
Definition cmismatch (c : ccase_t) : bool := negb (bool_decide (crun 1 ∅ c = map snd c)).

Definition k_join_ck : N := 12.     (* a joiner holds a cluster key other than the bootstrapper's *)
Definition k_node_dup : N := 13.    (* two nodes hold the same node key *)

Record cmst := CMst { cm_boot : option N; cm_keys : list (N * N); cm_kinds : list N }.

Definition other_has (keys : list (N * N)) (i key : N) : bool :=
  existsb (fun x => negb (bool_decide (x.1 = i)) && bool_decide (x.2 = key)) keys.
Definition set_key (keys : list (N * N)) (i key : N) : list (N * N) :=
  filter (fun x => x.1 <> i) keys ++ [(i, key)].

Definition cmon_step (m : cmst) (x : cop * cobs) : cmst :=
  let '(o, (ok, key, ck)) := x in
  if negb ok then m else
  let dup := if other_has (cm_keys m) match o with CStart i | CJoin i _ | CClose i | CReopen i => i end key
             then [k_node_dup] else [] in
  match o with
  | CStart i => CMst (match cm_boot m with None => Some ck | b => b end) (set_key (cm_keys m) i key) (cm_kinds m ++ dup)
  | CJoin i _ =>
      CMst (cm_boot m) (set_key (cm_keys m) i key)
           (cm_kinds m ++ (if bool_decide (cm_boot m = Some ck) && negb (bool_decide (ck = 0)) then [] else [k_join_ck]) ++ dup)
  | CReopen i => CMst (cm_boot m) (set_key (cm_keys m) i key) (cm_kinds m ++ dup)
  | CClose _ => m
  end.

Definition cviol_kinds (c : ccase_t) : list N :=
  remove_dups (cm_kinds (foldl cmon_step (CMst None [] []) c)).
Definition cviolates (c : ccase_t) : bool := negb (bool_decide (cviol_kinds c = [])).

(* ---- what the runner evaluates: a case of either level ---- *)
Inductive acase_t := PCase (c : case_t) | CCase (c : ccase_t).
Definition amismatch (c : acase_t) : bool := match c with PCase c => mismatch c | CCase c => cmismatch c end.
Definition aviolates (c : acase_t) : bool := match c with PCase c => violates c | CCase c => cviolates c end.
Definition mismatches (cs : list acase_t) : list nat := find_idx amismatch cs.
Definition violations (cs : list acase_t) : list nat := find_idx aviolates cs.
(* the kinds a pledge-level case is rejected for; 99 in front when the model does not accept the log *)
Definition judged_kinds (c : case_t) : list N := (if accepts c then [] else [99]) ++ viol_kinds c.
Definition cmodel_dump (c : ccase_t) := (crun 1 ∅ c, cviol_kinds c).

(* for replays: where the model stops accepting, what it knew there, and the admitted keys *)
Definition dump_jur (s : state) := map (fun x => (x.1, j_appr x.2, j_granted x.2)) (map_to_list (s_jur s)).
Definition dump_runs (s : state) :=
  map (fun x => (x.1, (r_pledge x.2, r_member x.2, r_prop x.2, r_rounds x.2), r_snap x.2, r_asked x.2, r_phase x.2))
      (map_to_list (s_runs s)).
Definition model_dump (c : case_t) :=
  match exec_idx (lookup_pmax c.1.2) (init c.1.1) c.2 0 with
  | Some (i, s) => (Some (i, nth_error c.2 i), dump_jur s, dump_runs s, viol_kinds c)
  | None => (None, [], [], viol_kinds c)
  end.
