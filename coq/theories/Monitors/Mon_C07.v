(* Monitors/Mon_C07.v — decidable monitor for C07 on what the implementation showed, and the
   model-vs-implementation comparison used by the generated case files. *)
From stdpp Require Import gmap sorting.
From Coq Require Import NArith.
From Synnax Require Import Common.Base Generated.Consts_C15 Core.Channel Core.Dist.
Local Open Scope N_scope.
Notation length := List.length.

(* The model instance that corresponds to /repo's working tree: the iterator synchronizer ORs the
   acknowledgements and forwards the accumulated response (tree after fix F15); the writer
   synchronizer is unchanged: it still forwards the last response it received. *)
Definition tree_fixed : bool := true.
Definition tree_wsync_fixed : bool := false.

(* ---- observations *)
(* answer to one traversal command: acknowledgement and, per key (ascending, empty ones left out),
   the samples returned *)
Definition cmd_obs : Type := bool * list (N * series).
(* an iterator opened on some node: open result, answers *)
Definition trav_obs : Type := ires * list cmd_obs.

Record iter_case := IterCase {
  ic_keys : list N;
  ic_cluster : list (N * trav_obs);       (* gateway node -> cluster iterator *)
  ic_direct : list (N * list cmd_obs);    (* node -> its own storage iterator over its own keys *)
  ic_ref : option (list cmd_obs)          (* the single reference store (when all keys are stored ones) *)
}.

Record ccase := CCase {
  cc_chans : list N;        (* every channel key in cluster metadata *)
  cc_persist : list N;      (* the keys that store data (index and data channels) *)
  cc_nodes : list N;
  (* operation, its result class, and for a commit: key -> samples read from the key's
     leaseholder engine right after the acknowledgement *)
  cc_script : list (dop * dres * list (N * series));
  cc_stores : list (N * list (N * series));   (* node -> what its engine holds at the end *)
  cc_ref : list (N * series);                 (* what the single reference store holds *)
  cc_iters : list iter_case
}.

Inductive case_t :=
| CSyncW (nodes : nat) (resps : list wresp) (outs : list (option wresp))
| CSyncI (nodes : nat) (resps : list iresp) (outs : list (option iresp))
| CCluster (c : ccase).

Definition nkey_le {A} (a b : N * A) : Prop := (a.1 <= b.1)%N.
Global Instance nkey_le_dec {A} (a b : N * A) : Decision (nkey_le a b) := decide (a.1 <= b.1)%N.
Definition sort_by_key {A} (l : list (N * A)) : list (N * A) := merge_sort nkey_le l.

Fixpoint look {A} (k : N) (l : list (N * A)) : option A :=
  match l with [] => None | (k', v) :: r => if k' =? k then Some v else look k r end.

Definition wresp_eqb (a b : wresp) : bool :=
  (wr_seq a =? wr_seq b) && Bool.eqb (wr_commit a) (wr_commit b) && (wr_end a =? wr_end b) &&
  Bool.eqb (wr_auth a) (wr_auth b).
Definition iresp_eqb (a b : iresp) : bool :=
  Bool.eqb (ir_data a) (ir_data b) && (ir_seq a =? ir_seq b) && Bool.eqb (ir_ack a) (ir_ack b).
Definition opt_eqb {A} (f : A -> A -> bool) (a b : option A) : bool :=
  match a, b with Some x, Some y => f x y | None, None => true | _, _ => false end.
Fixpoint list_eqb {A} (f : A -> A -> bool) (a b : list A) : bool :=
  match a, b with
  | [], [] => true
  | x :: a', y :: b' => f x y && list_eqb f a' b'
  | _, _ => false
  end.

(* ---- cluster cases: the model *)
Definition cluster0 (c : ccase) : cluster := Cluster (cc_chans c) ∅ ∅.
Definition single0 (c : ccase) : single := Single (cc_chans c) ∅ ∅.

Fixpoint script_mismatch (cl : cluster) (tr : list (dop * dres * list (N * series))) : bool :=
  match tr with
  | [] => false
  | (o, r, _) :: rest => let '(cl', r') := dstep cl o in
                         negb (bool_decide (r' = r)) || script_mismatch cl' rest
  end.

Definition ops_of (c : ccase) : list dop := (fun x => x.1.1) <$> cc_script c.

Definition obs_store (c : ccase) (n k : N) : option series :=
  match look n (cc_stores c) with Some m => look k m | None => None end.

Definition stores_mismatch (c : ccase) : bool :=
  let cl := drun (cluster0 c) (ops_of c) in
  let sg := srun (single0 c) (ops_of c) in
  negb (forallb (fun k =>
      bool_decide (default [] (obs_store c (lease_of k) k) = cluster_read cl k) &&
      forallb (fun n => (n =? lease_of k) ||
                        (match obs_store c n k with None => true | Some _ => false end &&
                         bool_decide (stray cl n k = []))) (cc_nodes c) &&
      bool_decide (default [] (look k (cc_ref c)) = single_read sg k)) (cc_persist c)).

(* per-command combination of what the nodes' own iterators answered *)
Definition nth_cmd (i : nat) (l : list cmd_obs) : cmd_obs := default (false, []) (l !! i).
Definition merged (ic : iter_case) (i : nat) : list (N * series) :=
  sort_by_key (flat_map (fun nd => (nth_cmd i nd.2).2) (ic_direct ic)).
Definition acks (ic : iter_case) (i : nat) : list bool := (fun nd => (nth_cmd i nd.2).1) <$> ic_direct ic.

Definition iter_mismatch (c : ccase) (ic : iter_case) : bool :=
  let expect_open := iter_open (cc_chans c) (ic_keys ic) in
  negb (forallb (fun g =>
     bool_decide (g.2.1 = expect_open) &&
     match expect_open with
     | IOk =>
         forallb (fun i =>
            let o := nth_cmd i g.2.2 in
            bool_decide (sort_by_key o.2 = merged ic i) &&
            (if tree_fixed then Bool.eqb o.1 (existsb id (acks ic i))
             else existsb (Bool.eqb o.1) (acks ic i)))   (* upstream: the last node to answer decides *)
           (seq 0 (length g.2.2))
     | _ => true
     end) (ic_cluster ic)) ||
  (* the reference store behaves as the union / disjunction over the channels' own iterators *)
  match ic_ref ic with
  | Some r => negb (forallb (fun i =>
                 let o := nth_cmd i r in
                 bool_decide (sort_by_key o.2 = merged ic i) && Bool.eqb o.1 (existsb id (acks ic i)))
                 (seq 0 (length r)))
  | None => false
  end.

Definition mismatch (c : case_t) : bool :=
  match c with
  | CSyncW n rs outs => negb (list_eqb (opt_eqb wresp_eqb) (wsync_run tree_wsync_fixed n wsync0 rs) outs)
  | CSyncI n rs outs => negb (list_eqb (opt_eqb iresp_eqb) (isync_run tree_fixed n isync0 rs) outs)
  | CCluster cc =>
      script_mismatch (cluster0 cc) (cc_script cc) || stores_mismatch cc || existsb (iter_mismatch cc) (cc_iters cc)
  end.

(* ---- the monitor: the property on the IMPLEMENTATION's observations *)
(* (1) stored by each channel's leaseholder, exactly what a single store holds, nowhere else *)
Definition ok_placement (c : ccase) : bool :=
  forallb (fun k =>
     bool_decide (default [] (obs_store c (lease_of k) k) = default [] (look k (cc_ref c))) &&
     forallb (fun n => (n =? lease_of k) || match obs_store c n k with None => true | Some _ => false end)
             (cc_nodes c)) (cc_persist c).

(* (2) an iterator opened on any node answers every command exactly as the single store does *)
Definition ok_iter (c : ccase) (ic : iter_case) : bool :=
  match ic_ref ic with
  | Some r =>
      forallb (fun g =>
         bool_decide (g.2.1 = IOk) &&
         list_eqb (fun a b => Bool.eqb a.1 b.1 && bool_decide (sort_by_key a.2 = sort_by_key b.2)) g.2.2 r)
        (ic_cluster ic)
  | None =>
      (* (3) a key that is not a stored channel of the cluster: opening fails on every node *)
      if forallb (fun k => memb k (cc_chans c) && negb (is_free_key k)) (ic_keys ic) then true
      else forallb (fun g => negb (bool_decide (g.2.1 = IOk))) (ic_cluster ic)
  end.

(* (3) writers on unknown channels fail to open; (4) an acknowledged commit: every involved
   leaseholder's engine already holds everything a single store would hold at that point *)
Fixpoint ok_script (c : ccase) (sg : single) (tr : list (dop * dres * list (N * series))) : bool :=
  match tr with
  | [] => true
  | (o, r, after) :: rest =>
      let '(sg', _) := sstep sg o in
      (match o, r with
       | OpenW _ _ keys _, DOk => forallb (fun k => memb k (cc_chans c)) keys
       | OpenCut _ _ _ keys _, DOk => forallb (fun k => memb k (cc_chans c)) keys
       | CommitW id, DAck =>
           match sg_writers sg !! id with
           | Some w => forallb (fun k => negb (memb k (cc_persist c)) ||
                                         bool_decide (default [] (look k after) = single_read sg' k)) (sw_keys w)
           | None => true
           end
       | _, _ => true
       end) && ok_script c sg' rest
  end.

Definition ok_C07 (c : case_t) : bool :=
  match c with
  | CSyncW _ _ _ | CSyncI _ _ _ => true   (* component-level cases: compared with the model only *)
  | CCluster cc =>
      ok_placement cc && forallb (ok_iter cc) (cc_iters cc) && ok_script cc (single0 cc) (cc_script cc)
  end.
Definition violates (c : case_t) : bool := negb (ok_C07 c).

Definition mismatches (cs : list case_t) : list nat := find_idx mismatch cs.
Definition violations (cs : list case_t) : list nat := find_idx violates cs.

(* for replays: which parts fail: (placement ok, per-iterator ok, script ok),
   (model: script mismatch, stores mismatch, per-iterator mismatch) *)
Definition why (c : case_t) :=
  match c with
  | CCluster cc =>
      ((ok_placement cc, (ok_iter cc) <$> cc_iters cc, ok_script cc (single0 cc) (cc_script cc)),
       (script_mismatch (cluster0 cc) (cc_script cc), stores_mismatch cc, (iter_mismatch cc) <$> cc_iters cc))
  | _ => ((true, [], true), (mismatch c, false, []))
  end.
Definition model_dump (c : case_t) :=
  match c with
  | CSyncW n rs _ => (why c, inl (wsync_run tree_wsync_fixed n wsync0 rs))
  | CSyncI n rs _ => (why c, inr (inl (isync_run tree_fixed n isync0 rs)))
  | CCluster cc =>
      let cl := drun (cluster0 cc) (ops_of cc) in
      (why c, inr (inr ((fun k => (k, cluster_read cl k)) <$> cc_persist cc)))
  end.
