(* Monitors/Mon_C16.v — case type, model-vs-implementation comparison and the decidable
   monitor for C16 (the property stated on the IMPLEMENTATION's observations against a
   plain digraph with reachability). *)
From stdpp Require Import gmap.
From Coq Require Import NArith.
From Synnax Require Import Common.Base Core.Ontology.
Local Open Scope N_scope.

(* the configuration the correspondence runs the model in (= what /repo carries) *)
Definition model_cfg : cfg := fixed.

(* ---- observations ---- *)
Definition raw_id : Type := str * str.
Definition raw_rel : Type := raw_id * str * raw_id.
Definition raw_view : Type := list raw_id * list raw_rel.
Definition raw_q : Type := err * list raw_id.
(* error of the op, view through the writer's transaction, committed view,
   per universe id: [parents; children; parents-then-children; descendants] *)
Definition obs : Type := err * raw_view * raw_view * list (list raw_q).
Definition case_t : Type := list raw_id * list (op * obs).

Definition mk_id (r : raw_id) : id := Id r.1 r.2.
Definition mk_rel (r : raw_rel) : rel := Rel (mk_id r.1.1) r.1.2 (mk_id r.2).
Definition mk_resmap (l : list raw_id) : resmap :=
  list_to_map ((fun r => (id_str (mk_id r), mk_id r)) <$> l).
Definition mk_relmap (l : list raw_rel) : relmap :=
  list_to_map ((fun r => (rel_key (mk_rel r), mk_rel r)) <$> l).
Definition mk_ost (v : raw_view) : ost := OSt (mk_resmap v.1) (mk_relmap v.2).

Definition count_id (i : id) (l : list id) : nat :=
  length (filter (fun j => i = j) l).
Definition multiset_eqb (l1 l2 : list id) : bool :=
  forallb (fun i => Nat.eqb (count_id i l1) (count_id i l2)) (l1 ++ l2).
Definition subsetb (l1 l2 : list id) : bool := forallb (fun i => memb i l2) l1.
Definition set_eqb (l1 l2 : list id) : bool := subsetb l1 l2 && subsetb l2 l1.

Definition ost_eqb (a b : ost) : bool :=
  bool_decide (o_res a = o_res b) && bool_decide (o_rels a = o_rels b).

(* ---- correspondence: model vs implementation, exact ---- *)
Definition q_match (as_set : bool) (m : result (list id)) (o : raw_q) : bool :=
  match m, o with
  | Ok l, (EOk, l') => if as_set then set_eqb l (mk_id <$> l') else multiset_eqb l (mk_id <$> l')
  | Err e, (e', _) => bool_decide (e = e') && negb (bool_decide (e = EOk))
  | _, _ => false
  end.

Definition model_queries (st : ost) (i : id) : list (bool * result (list id)) :=
  [ (false, query st i [TParents]);
    (false, query st i [TChildren]);
    (false, query st i [TParents; TChildren]);
    (true, descendants model_cfg st i) ].

Fixpoint all2 {A B} (f : A -> B -> bool) (l1 : list A) (l2 : list B) : bool :=
  match l1, l2 with
  | [], [] => true
  | x :: l1', y :: l2' => f x y && all2 f l1' l2'
  | _, _ => false
  end.

Definition step_match (univ : list id) (s : sys) (e : err) (o : obs) : bool :=
  let '(e', v, cv, qs) := o in
  bool_decide (e = e') &&
  ost_eqb (cur s) (mk_ost v) &&
  ost_eqb (s_db s) (mk_ost cv) &&
  all2 (fun i q => all2 (fun m oq => q_match m.1 m.2 oq) (model_queries (cur s) i) q) univ qs.

Fixpoint trace_match (univ : list id) (s : sys) (tr : list (op * obs)) : bool :=
  match tr with
  | [] => true
  | (o, ob) :: rest =>
      let '(s', e) := step model_cfg s o in
      step_match univ s' e ob && trace_match univ s' rest
  end.

Definition mismatch (c : case_t) : bool :=
  negb (trace_match (mk_id <$> c.1) init c.2).

(* ---- the monitor: plain digraph on the observed tables ---- *)
Definition succs (E : list rel) (a : id) : list id :=
  r_to <$> filter (fun r => r_from r = a) E.
Definition preds_parent (E : list rel) (a : id) : list id :=
  r_from <$> filter (fun r => r_to r = a /\ r_type r = s_parent) E.
Definition succs_parent (E : list rel) (a : id) : list id :=
  r_to <$> filter (fun r => r_from r = a /\ r_type r = s_parent) E.

Fixpoint reach_n (n : nat) (E : list rel) (front : list id) : list id :=
  match n with
  | O => front
  | S n' => reach_n n' E (remove_dups (front ++ flat_map (succs E) front))
  end.
(* every vertex reachable from a by one or more edges *)
Definition reachable (E : list rel) (a : id) : list id := reach_n (length E) E (succs E a).

Definition acyclic_obs (E : list rel) : bool :=
  forallb (fun r => negb (memb (r_from r) (reachable E (r_from r)))) E.
Definition no_dangling_obs (V : list id) (E : list rel) : bool :=
  forallb (fun r => memb (r_from r) V && memb (r_to r) V) E.

Definition memb_rel (r : rel) (E : list rel) : bool := existsb (fun r' => bool_decide (r = r')) E.
Definition rels_eqb (E1 E2 : list rel) : bool :=
  forallb (fun r => memb_rel r E2) E1 && forallb (fun r => memb_rel r E1) E2.

Record gview := GView { g_V : list id; g_E : list rel }.
Definition mk_gview (v : raw_view) : gview := GView (mk_id <$> v.1) (mk_rel <$> v.2).
Definition gview_eqb (a b : gview) : bool :=
  set_eqb (g_V a) (g_V b) && rels_eqb (g_E a) (g_E b).

(* would adding f -> t keep the graph acyclic *)
Definition closes_no_cycle (E : list rel) (f t : id) : bool :=
  negb (bool_decide (f = t)) && negb (memb f (reachable E t)).

Definition touches (x : id) (r : rel) : bool :=
  bool_decide (r_from r = x) || bool_decide (r_to r = x).

(* what the property demands of one data operation, given the view before and after *)
Definition op_ok (o : op) (pre : gview) (e : err) (post : gview) : bool :=
  let V := g_V pre in let E := g_E pre in
  match o with
  | DefRes i =>
      if id_valid i then bool_decide (e = EOk) && gview_eqb post (GView (i :: V) E)
      else rels_eqb (g_E post) E
  | DelRes x =>
      bool_decide (e = EOk) &&
      gview_eqb post (GView (filter (fun i => i <> x) V) (filter (fun r => touches x r = false) E))
  | DefRel f ty t =>
      if memb f V && memb t V && closes_no_cycle E f t
      then bool_decide (e = EOk) && gview_eqb post (GView V (Rel f ty t :: E))
      else negb (bool_decide (e = EOk)) && gview_eqb post pre
  | DefMany f ty ts =>
      if memb f V && forallb (fun t => memb t V && closes_no_cycle E f t) ts
      then bool_decide (e = EOk) && gview_eqb post (GView V (((fun t => Rel f ty t) <$> ts) ++ E))
      else negb (bool_decide (e = EOk)) && gview_eqb post pre
  | DelRel f ty t =>
      bool_decide (e = EOk) &&
      gview_eqb post (GView V (filter (fun r => r <> Rel f ty t) E))
  | DelMany xs =>
      bool_decide (e = EOk) &&
      gview_eqb post (GView (filter (fun i => i ∉ xs) V)
                            (filter (fun r => r_from r ∉ xs /\ r_to r ∉ xs) E))
  | DefManyRes xs =>
      if forallb id_valid xs then bool_decide (e = EOk) && gview_eqb post (GView (xs ++ V) E)
      else rels_eqb (g_E post) E
  | _ => true
  end.

Definition q_set_ok (expect : list id) (o : raw_q) : bool :=
  match o with
  | (EOk, l) => set_eqb expect (mk_id <$> l)
  | _ => false
  end.

(* traversals of a surviving resource agree with graph search over surviving resources *)
Definition queries_ok (g : gview) (i : id) (q : list raw_q) : bool :=
  if memb i (g_V g) then
    let alive := filter (fun j => memb j (g_V g) = true) in
    match q with
    | [p; c; pc; d] =>
        q_set_ok (alive (preds_parent (g_E g) i)) p &&
        q_set_ok (alive (succs_parent (g_E g) i)) c &&
        q_set_ok (alive (flat_map (succs_parent (g_E g)) (alive (preds_parent (g_E g) i)))) pc &&
        q_set_ok (alive (reachable (g_E g) i)) d
    | _ => false
    end
  else true.

Definition view_ok (g : gview) : bool := acyclic_obs (g_E g) && no_dangling_obs (g_V g) (g_E g).

(* one observed step. [intx] = a transaction is open before the op. *)
Definition step_ok (univ : list id) (intx : bool) (pre cpre : gview) (o : op) (ob : obs)
  : bool * bool :=
  let '(e, v, cv, qs) := ob in
  let post := mk_gview v in let cpost := mk_gview cv in
  let intx' := match o with Begin => true | Commit | Abort => false | _ => intx end in
  let tx_ok :=
    match o with
    | Begin => gview_eqb post pre && gview_eqb cpost cpre
    | Commit => gview_eqb cpost pre && gview_eqb post pre
    | Abort => gview_eqb cpost cpre && gview_eqb post cpre
    | _ => if intx then gview_eqb cpost cpre else gview_eqb cpost post
    end in
  (tx_ok && op_ok o pre e post && view_ok post && view_ok cpost &&
   all2 (queries_ok post) univ qs, intx').

Fixpoint steps_ok (univ : list id) (intx : bool) (pre cpre : gview) (tr : list (op * obs)) : bool :=
  match tr with
  | [] => true
  | (o, ob) :: rest =>
      let '(ok, intx') := step_ok univ intx pre cpre o ob in
      ok && steps_ok univ intx' (mk_gview ob.1.1.2) (mk_gview ob.1.2) rest
  end.

Definition init_gview : gview := GView [root_id] [].

Definition ok_C16 (c : case_t) : bool :=
  steps_ok (mk_id <$> c.1) false init_gview init_gview c.2.

Definition violates (c : case_t) : bool := negb (ok_C16 c).

Definition mismatches (cs : list case_t) : list nat := find_idx mismatch cs.
Definition violations (cs : list case_t) : list nat := find_idx violates cs.

(* ---- replay aid: what the model does on the case's ops ---- *)
Definition dump_ost (st : ost) : list (str * str) * list (str * str * str * str * str) :=
  ((fun kr => (id_type kr.2, id_key kr.2)) <$> map_to_list (o_res st),
   (fun kr => (id_type (r_from kr.2), id_key (r_from kr.2), r_type kr.2,
               id_type (r_to kr.2), id_key (r_to kr.2))) <$> map_to_list (o_rels st)).
Definition dump_q (r : result (list id)) : err * list (str * str) :=
  match r with
  | Ok l => (EOk, (fun i => (id_type i, id_key i)) <$> l)
  | Err e => (e, [])
  end.
Fixpoint model_trace (univ : list id) (s : sys) (ops : list op) :=
  match ops with
  | [] => []
  | o :: rest =>
      let '(s', e) := step model_cfg s o in
      (e, dump_ost (cur s'), dump_ost (s_db s'),
       (fun i => (fun m => dump_q m.2) <$> model_queries (cur s') i) <$> univ)
      :: model_trace univ s' rest
  end.
Definition model_dump (c : case_t) := model_trace (mk_id <$> c.1) init (fst <$> c.2).
