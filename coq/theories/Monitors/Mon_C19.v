(* Monitors/Mon_C19.v — decidable monitor for C19 on what the real tool chain did with a
   generated program (stage reached, emitted code-section entry, imports, wazero results), and
   the model-vs-implementation comparison used by the generated case files. *)
From Coq Require Import ZArith NArith List Bool.
From Synnax Require Import Common.Base Arc.Syntax Arc.Spec Arc.Wasm Arc.Compile Arc.Guard Arc.FloatExec.
Import ListNotations.
Local Open Scope Z_scope.

(* stage reached by arc.CompileText + wazero: 0 ok, 1 parse diagnostics, 2 analyzer diagnostics,
   3 compiler error, 4 module does not validate, 5 does not instantiate, 6 function not exported *)
Definition st_ok : N := 0%N.
Definition st_compile : N := 3%N.
Definition st_validate : N := 4%N.

(* one call: raw argument registers, and RV raw-result | RT trap-class
   (1 div by zero, 2 integer overflow, 3 invalid conversion, 4 unreachable, 5 host panic, 0 other) *)
Inductive irun := RV (z : Z) | RT (k : N).
Definition obs : Type := (N * list Z * list imp * list (list Z * irun))%type.
Definition case_t : Type := (func * obs)%type.

Definition o_stage (o : obs) : N := fst (fst (fst o)).
Definition o_code (o : obs) : list Z := snd (fst (fst o)).
Definition o_imports (o : obs) : list imp := snd (fst o).
Definition o_runs (o : obs) : list (list Z * irun) := snd o.

Notation fo := fo_exec.

Definition trap_id (k : trap) : N :=
  match k with TDivZero => 1 | TIntOverflow => 2 | TInvalidConv => 3 | TUnreachable => 4 | THostPanic => 5 end%N.

(* argument registers -> WebAssembly values / source values *)
Definition warg (t : ty) (z : Z) : wval fo :=
  match t with TI it => WI (regw it) z | TF f => WF f (f_of_bits fo f z) end.
Definition sarg (t : ty) (z : Z) : val fo :=
  match t with
  | TI it => VI (if signed it then sgn (regw it) z else z)
  | TF f => VF (f_of_bits fo f z)
  end.
Fixpoint zipw {A} (g : ty -> Z -> A) (ts : list ty) (zs : list Z) : list A :=
  match ts, zs with t :: tr, z :: zr => g t z :: zipw g tr zr | _, _ => [] end.

(* arguments must be canonical registers of in-range values *)
Definition arg_ok (t : ty) (z : Z) : bool :=
  match t with
  | TI it => (0 <=? z) && (z <? wmod (regw it)) && in_range it (if signed it then sgn (regw it) z else z)
  | TF F32 => (0 <=? z) && (z <? 2 ^ 32)
  | TF F64 => (0 <=? z) && (z <? 2 ^ 64)
  end.
Fixpoint args_ok (ts : list ty) (zs : list Z) : bool :=
  match ts, zs with
  | [], [] => true
  | t :: tr, z :: zr => arg_ok t z && args_ok tr zr
  | _, _ => false
  end.

Definition wres_irun (r : wres fo) : option irun :=
  match r with
  | WOk (WI _ z) => Some (RV z)
  | WOk (WF f x) => Some (RV (f_bits fo f x))
  | WTrap k => Some (RT (trap_id k))
  | WFuel => Some (RT 6%N)         (* the harness reports a call that does not finish as trap 6 *)
  | WStuck => None
  end.

Definition list_eqb {A} (eq : A -> A -> bool) :=
  fix go (a b : list A) : bool :=
    match a, b with
    | [], [] => true
    | x :: r, y :: s => eq x y && go r s
    | _, _ => false
    end.

Definition irun_eqb (a b : irun) : bool :=
  match a, b with
  | RV x, RV y => x =? y
  | RT x, RT y => N.eqb x y
  | _, _ => false
  end.

(* programs whose values the executable float instance can compute: no float '^' and no float '%' *)
Fixpoint fpow_free (tys : list ty) (e : expr) : bool :=
  match e with
  | ELit _ _ | ELitF _ _ | EVar _ | ESVar _ | EGlob _ _ => true
  | ECall _ _ _ _ _ body a b =>
      fpow_free tys body && fpow_free tys a && match b with Some e => fpow_free tys e | None => true end
  | EParen a | ENeg a | ENot a | ECast _ a => fpow_free tys a
  | EPow a b => fpow_free tys a && fpow_free tys b && match ety tys a with Some (TI _) => true | _ => false end
  | EArith op a b =>
      fpow_free tys a && fpow_free tys b &&
      match op, ety tys a with AMod, Some (TF _) => false | _, _ => true end
  | ECmp _ a b | EAnd a b | EOr a b => fpow_free tys a && fpow_free tys b
  end.
Fixpoint fpow_free_s (tys : list ty) (s : stmt) : bool :=
  match s with
  | SDecl _ _ e | SAssign _ e | SReturn e | SStateDecl _ _ e | SSAssign _ e => fpow_free tys e
  | SCompound i op e | SSCompound i op e => fpow_free tys e && match op, nth_error tys i with AMod, Some (TF _) => false | _, _ => true end
  | SIf c th el => fpow_free tys c && fpow_free_b tys th && fpow_free_e tys el
  | SFor c b => fpow_free tys c && fpow_free_b tys b
  | SLoop b => fpow_free_b tys b
  | SRange _ _ _ start stop step b =>
      match start with Some e => fpow_free tys e | None => true end && fpow_free tys stop &&
      match step with Some (_, e) => fpow_free tys e | None => true end && fpow_free_b tys b
  | SBreak | SContinue => true
  end
with fpow_free_b (tys : list ty) (b : block) : bool :=
  match b with BNil => true | BCons s r => fpow_free_s tys s && fpow_free_b tys r end
with fpow_free_e (tys : list ty) (el : els) : bool :=
  match el with
  | ElNone => true
  | ElElse b => fpow_free_b tys b
  | ElElif c th el' => fpow_free tys c && fpow_free_b tys th && fpow_free_e tys el'
  end.
Definition evaluable (f : func) : bool := fpow_free_b (f_tys f) (f_body f).

(* ---- the calls of a case are ONE sequence of invocations on one instance: stateful variables
   persist from one call to the next (for functions without stateful variables the calls are
   independent) ---- *)
Definition stateful (f : func) : bool := negb (match state_vars f with [] => true | _ => false end).

Definition model_results (f : func) (w : wfunc) (o : obs) : list (option (wres fo)) :=
  let calls := map (fun r => zipw warg (f_params f) (fst r)) (o_runs o) in
  if stateful f then wasm_calls fo w calls else map (fun a => Some (wasm_run fo w a)) calls.

Definition spec_results (f : func) (o : obs) : list (res (val fo)) :=
  let calls := map (fun r => zipw sarg (f_params f) (fst r)) (o_runs o) in
  if stateful f then spec_calls fo f (state_vars f) calls else map (spec_run fo f) calls.

Definition flag_results (f : func) (o : obs) : list (list tag) :=
  let calls := map (fun r => zipw sarg (f_params f) (fst r)) (o_runs o) in
  map (fun fl => static_flags f ++ fl)
      (if stateful f then dyn_flags_calls fo f (state_vars f) calls else map (dyn_flags fo f) calls).

Fixpoint zip {A B} (a : list A) (b : list B) : list (A * B) :=
  match a, b with x :: r, y :: s => (x, y) :: zip r s | _, _ => [] end.

(* ---- model vs implementation (exact) ---- *)
Definition mismatch (c : case_t) : bool :=
  let '(f, o) := c in
  if negb (check_func f && locals_ok f && forallb (fun r => args_ok (f_params f) (fst r)) (o_runs o)) then true
  else
    match compile f, compile_module f with
    | Some w, Some ws =>
        (* the code-section entries of the helpers (in order) and of f, and the module's imports *)
        negb (list_eqb Z.eqb (concat (enc_module ws)) (o_code o)) ||
        negb (list_eqb imp_eqb (module_imports ws) (o_imports o)) ||
        if forallb validate ws then
          negb (N.eqb (o_stage o) st_ok) ||
          (evaluable f &&
           existsb (fun mr => match fst mr with
                              | None => false          (* after a trap in a stateful sequence *)
                              | Some m => match wres_irun m with
                                          | Some x => negb (irun_eqb x (snd (snd mr)))
                                          | None => true
                                          end
                              end) (zip (model_results f w o) (o_runs o)))
        else negb (N.eqb (o_stage o) st_validate)
    | _, _ => negb (N.eqb (o_stage o) st_compile)
    end.

(* ---- the property on the implementation's observations ---- *)
(* the value the runtime keeps of a result register: its low bits at the declared type *)
Definition res_matches (t : ty) (v : val fo) (r : irun) : bool :=
  match t, v, r with
  | TI it, VI z, RV raw => (raw mod 2 ^ bits it) =? (z mod 2 ^ bits it)
  | TF f, VF x, RV raw => raw =? f_bits fo f x
  | _, _, _ => false
  end.

Definition run_bad1 (f : func) (sr : res (val fo)) (r : list Z * irun) : bool :=
  match sr with
  | Ok v => negb (res_matches (f_ret f) v (snd r))
  | RtErr => match snd r with RT _ => false | RV _ => true end
  | Unspec => false
  end.

(* "every program the analyzer accepts compiles to a module that validates and instantiates" *)
Definition stage_bad (o : obs) : bool := (3 <=? o_stage o)%N.

Definition is_nil {A} (l : list A) := match l with [] => true | _ => false end.

(* per call: (violates the spec, signatures carried) *)
Definition call_verdicts (f : func) (o : obs) : list (bool * list tag) :=
  map (fun x => (run_bad1 f (fst (fst x)) (snd x), snd (fst x)))
      (zip (zip (spec_results f o) (flag_results f o)) (o_runs o)).

(* full strength *)
Definition violates_full (c : case_t) : bool :=
  let '(f, o) := c in
  stage_bad o || (N.eqb (o_stage o) st_ok && evaluable f && existsb fst (call_verdicts f o)).

(* the same, not counting what carries the signature of a known divergence (Arc/Guard.v) *)
Definition violates (c : case_t) : bool :=
  let '(f, o) := c in
  (stage_bad o && is_nil (static_flags f)) ||
  (N.eqb (o_stage o) st_ok && evaluable f &&
   existsb (fun v => fst v && is_nil (snd v)) (call_verdicts f o)).

(* for each failing item of [violates_full] the signatures it carries ([] = unexplained) *)
Definition explain (c : case_t) : list (list N) :=
  let '(f, o) := c in
  (if stage_bad o then [map tag_id (static_flags f)] else []) ++
  (if N.eqb (o_stage o) st_ok && evaluable f
   then map (fun v => map tag_id (snd v)) (filter fst (call_verdicts f o)) else []).

(* coverage: calls compared with the spec semantics in total / outside every signature *)
Definition run_counts (cs : list case_t) : N * N :=
  fold_left (fun acc c =>
    let '(f, o) := c in
    if N.eqb (o_stage o) st_ok && evaluable f then
      (fst acc + N.of_nat (length (o_runs o)),
       snd acc + N.of_nat (length (filter (fun v => is_nil (snd v)) (call_verdicts f o))))%N
    else acc) cs (0, 0)%N.

Definition mismatches (cs : list case_t) : list nat := find_idx mismatch cs.
Definition violations (cs : list case_t) : list nat := find_idx violates cs.
Definition violations_full (cs : list case_t) : list nat := find_idx violates_full cs.

(* ---- dump for replays ---- *)
Definition sres_dump (t : ty) (r : res (val fo)) : (N * Z) :=
  match r with
  | Ok (VI z) => (0%N, z)
  | Ok (VF x) => (0%N, match t with TF f => f_bits fo f x | _ => 0 end)
  | RtErr => (1%N, 0)
  | Unspec => (2%N, 0)
  end.
Definition model_dump (c : case_t) :=
  let '(f, o) := c in
  (check_func f, locals_ok f, map tag_id (static_flags f),
   match compile f, compile_module f with
   | Some w, Some ws => Some (forallb validate ws, concat (enc_module ws), module_imports ws,
                     map (fun x => (fst (snd x),
                                    match fst (fst (fst x)) with Some m => wres_irun m | None => None end,
                                    sres_dump (f_ret f) (snd (fst (fst x))),
                                    map tag_id (snd (fst x))))
                         (zip (zip (zip (model_results f w o) (spec_results f o)) (flag_results f o)) (o_runs o)))
   | _, _ => None
   end).
