(* Monitors/Mon_C10.v — case type, model-vs-implementation comparison and the decidable
   monitor of C10 applied to the IMPLEMENTATION's observations. *)
From Coq Require Import ZArith List Bool.
From Synnax Require Import Common.Base Cesium.Store Cesium.IndexSearch Cesium.Distance Cesium.Stamp
     Cesium.UnaryIter Cesium.UnaryWrite Cesium.Read Cesium.LayoutOk.
Import ListNotations.
Local Open Scope Z_scope.

(* one outcome of a worker of the concurrent phase: an iterator of its own on a channel of the
   same database, opened and driven while other workers do the same (and a writer commits
   beyond every worker's bounds) *)
Record conc_t := Conc {
  q_key : Z;
  q_bounds : tr;
  q_chunk : Z;
  q_cmds : list cmd;
  q_obs : list obs;
  q_late : list (list series);
  q_cmp : bool    (* false: a writer was committing later domains meanwhile; what lies after the
                     bounds (visible to automatic steps at the end of the data) is then not
                     fixed, and only the monitor applies, not the comparison with the model *)
}.

Record case_t := Case {
  k_cap : Z;
  k_chans : list (Z * Z * Z);        (* key, index key (0 = index channel), data type kind *)
  k_script : list wop;
  k_sres : list (Z * Z);             (* implementation: error class and commit end per op *)
  k_key : Z;                         (* channel iterated *)
  k_bounds : tr;
  k_chunk : Z;
  k_cmds : list cmd;
  k_obs : list obs;                  (* implementation: observation after every command *)
  k_late : list (list series);       (* implementation: the frame of every command, held by the
                                        caller and looked at again after the last command *)
  k_conc : list conc_t               (* implementation: the distinct outcomes of the concurrent
                                        phase that follows (stored content unchanged) *)
}.

(* a worker's outcome is judged as a sequential case of its own on the same history *)
Definition sub_case (c : case_t) (q : conc_t) : case_t :=
  Case (k_cap c) (k_chans c) (k_script c) (k_sres c) (q_key q) (q_bounds q) (q_chunk q)
       (q_cmds q) (q_obs q) (q_late q) [].

(* error class of a scripted one-shot read fault (harness: cesh.EInjected): the step after which
   it is reported may fail; until the next seek the model is not compared with the
   implementation (errors are sticky and the model does not know which read failed) *)
Definition INJECTED : Z := 99.
Definition is_seek (c : cmd) : bool :=
  match c with SeekFirst | SeekLast | SeekLE _ | SeekGE _ => true | _ => false end.

(* ---- model side ---- *)
Definition model_state (c : case_t) : state * list (Z * Z) :=
  w_run (init_state (k_cap c) (k_chans c)) (k_script c).

Definition model_obs_of (legacy : bool) (c : case_t) : list obs :=
  let '(st, _) := model_state c in
  let '(P, D, var) := chan_layout (s_db st) (k_key c) in
  u_run P D var (eff_chunk (k_chunk c)) legacy (u_open (k_bounds c)) (k_cmds c).
(* the correspondence runs the stepping code /repo carries (after the fix) *)
Definition model_obs (c : case_t) : list obs := model_obs_of false c.

Definition series_eqb (a b : series) : bool :=
  tr_eqb (sr_tr a) (sr_tr b) && list_eqb Z.eqb (sr_data a) (sr_data b).
Definition obs_eqb (a b : obs) : bool :=
  Bool.eqb (o_ok a) (o_ok b) && Bool.eqb (o_valid a) (o_valid b) && tr_eqb (o_view a) (o_view b) &&
  (o_err a =? o_err b) && list_eqb series_eqb (o_frame a) (o_frame b).
Definition zz_eqb (a b : Z * Z) : bool := (fst a =? fst b) && (snd a =? snd b).

Fixpoint obs_match (desync : bool) (cs : list cmd) (ms os : list obs) : bool :=
  match cs, ms, os with
  | [], [], [] => true
  | c :: cs', m :: ms', o :: os' =>
      (* a seek that finds a domain reloads the domain iterator; one that does not leaves the
         pointer of the interrupted step behind, on which the view of the failed seek depends *)
      let desync := desync && negb (is_seek c && o_ok o) in
      if desync || (o_err o =? INJECTED) then obs_match true cs' ms' os'
      else obs_eqb m o && obs_match false cs' ms' os'
  | _, _, _ => false
  end.

(* a frame never changes once it has been returned *)
Definition late_same (c : case_t) : bool :=
  list_eqb (list_eqb series_eqb) (map o_frame (k_obs c)) (k_late c).

Definition mismatch1 (c : case_t) : bool :=
  negb (list_eqb zz_eqb (snd (model_state c)) (k_sres c)) ||
  negb (obs_match false (k_cmds c) (model_obs c) (k_obs c)) ||
  negb (late_same c).
(* concurrency changes nothing: every worker's outcome is the sequential model's *)
Definition mismatch (c : case_t) : bool :=
  mismatch1 c || existsb (fun q => q_cmp q && mismatch1 (sub_case c q)) (k_conc c).

(* ---- the property on observations ---- *)
Definition truth (c : case_t) : assoc :=
  committed (k_chans c) (k_script c) (map fst (k_sres c)) (k_key c).

Definition is_fwd (c : cmd) : bool := match c with Next _ | NextAuto => true | _ => false end.
Definition is_bwd (c : cmd) : bool := match c with Prev _ | PrevAuto => true | _ => false end.
Definition is_step (c : cmd) : bool := is_fwd c || is_bwd c.

Definition frame_data (f : list series) : list Z := concat (map sr_data f).

Fixpoint series_ordered (f : list series) : bool :=
  match f with
  | a :: ((b :: _) as r) => (t_e (sr_tr a) <=? t_s (sr_tr b)) && series_ordered r
  | _ => true
  end.

(* (1) the value is exactly the stored samples of the view, in order; every series lies in
   the view and carries exactly the samples of its own range; Valid <-> data and no error.
   An observation that reports an error (Error() <> nil: "the iterator stopped moving",
   cleared only by a seek) claims no value; it must only be invalid. *)
Definition exact_ok (tru : assoc) (o : obs) : bool :=
  if negb (o_err o =? 0) then negb (o_valid o) else
  list_eqb Z.eqb (frame_data (o_frame o)) (read_spec tru (o_view o)) &&
  forallb (fun s => contains_range (o_view o) (sr_tr s) &&
                    list_eqb Z.eqb (sr_data s) (read_spec tru (sr_tr s))) (o_frame o) &&
  series_ordered (o_frame o) &&
  Bool.eqb (o_valid o) (negb (match frame_data (o_frame o) with [] => true | _ => false end) && (o_err o =? 0)).

(* (2) consecutive steps in one direction: adjacent views; (3) step views inside the bounds *)
Definition adjacent_ok (c1 c2 : cmd) (o1 o2 : obs) : bool :=
  if negb (o_err o2 =? 0) then true else
  (if is_fwd c1 && is_fwd c2 then t_s (o_view o2) =? t_e (o_view o1) else true) &&
  (if is_bwd c1 && is_bwd c2 then t_e (o_view o2) =? t_s (o_view o1) else true).
Definition within_ok (b : tr) (c : cmd) (o : obs) : bool :=
  if is_step c && (o_err o =? 0) then (t_s b <=? t_s (o_view o)) && (t_s (o_view o) <=? t_e (o_view o)) && (t_e (o_view o) <=? t_e b)
  else true.

(* (4) a full traversal (SeekFirst; Next ... until the view reaches the end of the bounds, or
   SeekLast; Prev ... until it reaches the start) visits every in-bounds sample exactly once.
   A traversal made of automatic steps only must not stop with an error while in-bounds
   samples are still unvisited (after an explicit step the position may lie between
   domains, where the index cannot resolve a chunk: that error is outside the statement). *)
Definition is_auto (c : cmd) : bool := match c with NextAuto | PrevAuto => true | _ => false end.
Definition no_data (l : list Z) : bool := match l with [] => true | _ => false end.

Fixpoint trav_fwd (tru : assoc) (b : tr) (l : list (cmd * obs)) (acc : list Z) (pure : bool) : bool :=
  match l with
  | (c, o) :: r =>
      if is_fwd c then
        let pure := pure && is_auto c in
        if negb (o_err o =? 0) then
          if pure && negb (o_err o =? INJECTED) then no_data (read_spec tru (TR (t_s (o_view o)) (t_e b))) else true
        else
        let acc := acc ++ frame_data (o_frame o) in
        if t_e (o_view o) =? t_e b then list_eqb Z.eqb acc (read_spec tru b)
        else trav_fwd tru b r acc pure
      else true
  | [] => true
  end.
Fixpoint trav_bwd (tru : assoc) (b : tr) (l : list (cmd * obs)) (acc : list Z) (pure : bool) : bool :=
  match l with
  | (c, o) :: r =>
      if is_bwd c then
        let pure := pure && is_auto c in
        if negb (o_err o =? 0) then
          if pure && negb (o_err o =? INJECTED) then no_data (read_spec tru (TR (t_s b) (t_e (o_view o)))) else true
        else
        let acc := frame_data (o_frame o) ++ acc in
        if t_s (o_view o) =? t_s b then list_eqb Z.eqb acc (read_spec tru b)
        else trav_bwd tru b r acc pure
      else true
  | [] => true
  end.

(* clauses (2) and (3) alone *)
Fixpoint views_trace (b : tr) (prev : option (cmd * obs)) (l : list (cmd * obs)) : bool :=
  match l with
  | [] => true
  | (c, o) :: r =>
      let b' := match c with SetBounds nb => nb | _ => b end in
      within_ok b' c o &&
      match prev with Some (c0, o0) => adjacent_ok c0 c o0 o | None => true end &&
      views_trace b' (Some (c, o)) r
  end.

Fixpoint ok_trace (tru : assoc) (b : tr) (prev : option (cmd * obs)) (l : list (cmd * obs)) : bool :=
  match l with
  | [] => true
  | (c, o) :: r =>
      let b' := match c with SetBounds nb => nb | _ => b end in
      exact_ok tru o && within_ok b' c o &&
      match prev with Some (c0, o0) => adjacent_ok c0 c o0 o | None => true end &&
      match c with
      | SeekFirst => trav_fwd tru b' r [] true
      | SeekLast => trav_bwd tru b' r [] true
      | _ => true
      end &&
      ok_trace tru b' (Some (c, o)) r
  end.

Definition ok_C10 (tru : assoc) (b : tr) (cmds : list cmd) (os : list obs) : bool :=
  ok_trace tru b None (combine cmds os).

(* The stored content is known from the history only if every write and commit of it
   succeeded as a whole (a commit that fails for one channel may have committed others). *)
Definition script_clean (c : case_t) : bool :=
  forallb (fun oc => match fst oc with
                     | WWrite _ | WCommit => (fst (snd oc) =? 0) || (fst (snd oc) =? 6)
                     | _ => true end) (combine (k_script c) (k_sres c)).

(* the frame the caller holds keeps carrying exactly the samples of the view it was returned
   for: clause (1) again, on the frames looked at after the last command *)
Definition with_frame (o : obs) (f : list series) : obs := Obs (o_ok o) (o_valid o) (o_view o) (o_err o) f.
Definition late_ok (tru : assoc) (os : list obs) (late : list (list series)) : bool :=
  forallb (fun ol => exact_ok tru (with_frame (fst ol) (snd ol))) (combine os late).

Definition violates1 (c : case_t) : bool :=
  script_clean c &&
  (negb (ok_C10 (truth c) (k_bounds c) (k_cmds c) (k_obs c)) ||
   negb (late_ok (truth c) (k_obs c) (k_late c))).
(* the property holds for every iterator, also while other iterators and a writer are at work *)
Definition violates (c : case_t) : bool :=
  violates1 c || existsb (fun q => violates1 (sub_case c q)) (k_conc c).

Definition mismatches (cs : list case_t) : list nat := find_idx mismatch cs.
Definition violations (cs : list case_t) : list nat := find_idx violates cs.

(* what the model computes for a case: script results, final layout of the channel and its
   index, observations *)
Definition model_dump (c : case_t) :=
  let '(st, sres) := model_state c in
  (sres, chan_layout (s_db st) (k_key c), truth c, model_obs c).

(* ---- diagnosis: which clause fails at which command (for replays and tags) ---- *)
(* codes: 1 value <> samples of view, 2 a series not inside the view / not its own samples,
   3 series out of order, 4 Valid flag, 5 view outside bounds, 6 adjacency, 7 traversal *)
Definition exact_codes (tru : assoc) (o : obs) : list Z :=
  if negb (o_err o =? 0) then (if o_valid o then [4] else []) else
  (if list_eqb Z.eqb (frame_data (o_frame o)) (read_spec tru (o_view o)) then [] else [1]) ++
  (if forallb (fun s => contains_range (o_view o) (sr_tr s) &&
                    list_eqb Z.eqb (sr_data s) (read_spec tru (sr_tr s))) (o_frame o) then [] else [2]) ++
  (if series_ordered (o_frame o) then [] else [3]) ++
  (if Bool.eqb (o_valid o) (negb (match frame_data (o_frame o) with [] => true | _ => false end) && (o_err o =? 0)) then [] else [4]).

Fixpoint diag_trace (tru : assoc) (b : tr) (prev : option (cmd * obs)) (l : list (cmd * obs)) (n : Z)
  : list (Z * list Z) :=
  match l with
  | [] => []
  | (c, o) :: r =>
      let b' := match c with SetBounds nb => nb | _ => b end in
      let codes :=
        exact_codes tru o ++
        (if within_ok b' c o then [] else [5]) ++
        (match prev with Some (c0, o0) => if adjacent_ok c0 c o0 o then [] else [6] | None => [] end) ++
        (match c with
         | SeekFirst => if trav_fwd tru b' r [] true then [] else [7]
         | SeekLast => if trav_bwd tru b' r [] true then [] else [7]
         | _ => [] end) in
      (match codes with [] => [] | _ => [(n, codes)] end) ++ diag_trace tru b' (Some (c, o)) r (n + 1)
  end.
(* code 8: the frame held by the caller no longer carries the samples of its view *)
Fixpoint diag_late (tru : assoc) (l : list (obs * list series)) (n : Z) : list (Z * list Z) :=
  match l with
  | [] => []
  | (o, f) :: r => (if exact_ok tru (with_frame o f) then [] else [(n, [8])]) ++ diag_late tru r (n + 1)
  end.
Definition diagnose1 (c : case_t) : list (Z * list Z) :=
  diag_trace (truth c) (k_bounds c) None (combine (k_cmds c) (k_obs c)) 0 ++
  diag_late (truth c) (combine (k_obs c) (k_late c)) 0.
(* commands of the concurrent phase are numbered from 1000 * (1 + index of the outcome) *)
Fixpoint diag_conc (c : case_t) (qs : list conc_t) (n : Z) : list (Z * list Z) :=
  match qs with
  | [] => []
  | q :: r => map (fun e => (1000 * n + fst e, snd e)) (diagnose1 (sub_case c q)) ++ diag_conc c r (n + 1)
  end.
Definition diagnose (c : case_t) : list (Z * list Z) :=
  diagnose1 c ++ diag_conc c (k_conc c) 1.

(* does the layout the model computes for the case satisfy the decidable hypothesis of the
   exactness theorems (C10_step_exact_partial)? — reported as coverage of the guard *)
Definition in_guard (c : case_t) : bool :=
  let '(st, _) := model_state c in
  let '(P, D, _) := chan_layout (s_db st) (k_key c) in layout_okb P D.
