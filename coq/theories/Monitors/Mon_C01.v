(* Monitors/Mon_C01.v — case type, model-vs-implementation comparison and the decidable
   monitor of C01 applied to the IMPLEMENTATION's observations. *)
From Coq Require Import ZArith List Bool.
From Synnax Require Import Common.Base Cesium.Store Cesium.IndexSearch Cesium.Distance Cesium.Stamp
     Cesium.UnaryIter Cesium.UnaryWrite Cesium.Read Cesium.LayoutOk.
Import ListNotations.
Local Open Scope Z_scope.

(* one step of a history: a writer operation, a DB.Read, or one pass of the garbage collector
   (the background ticker's function; no writer session is open and none follows it) *)
Inductive hop := HW (o : wop) | HRead (keys : list Z) (t : tr) | HGC.
(* what the implementation answered: error class + commit end, or the series per channel
   (error class <> 0: the read failed) *)
Inductive hobs := OW (code end_ : Z) | ORead (code : Z) (r : list (Z * list series)).

Record case_t := Case {
  k_cap : Z;
  k_chans : list (Z * Z * Z);
  k_ops : list hop;
  k_obs : list hobs;
  k_final : list hop;            (* reads after the history (writer closed) *)
  k_final_a : list hobs;         (* ... before reopening *)
  k_final_b : list hobs          (* ... after Close + Open *)
}.

Definition series_eqb (a b : series) : bool :=
  tr_eqb (sr_tr a) (sr_tr b) && list_eqb Z.eqb (sr_data a) (sr_data b).
Definition kread_eqb (a b : Z * list series) : bool :=
  (fst a =? fst b) && list_eqb series_eqb (snd a) (snd b).
Definition hobs_eqb (a b : hobs) : bool :=
  match a, b with
  | OW c e, OW c' e' => (c =? c') && (e =? e')
  | ORead c r, ORead c' r' => (c =? c') && list_eqb kread_eqb r r'
  | _, _ => false
  end.

(* ---- model ---- *)
Definition model_read (st : state) (keys : list Z) (t : tr) : hobs :=
  match db_read (s_db st) keys t with
  | None => ORead (err_code ENotFound) []
  | Some r => ORead 0 r
  end.

Fixpoint model_run (st : state) (ops : list hop) : state * list hobs :=
  match ops with
  | [] => (st, [])
  | HW o :: r =>
      let '(st1, (c, e)) := w_step st o in
      let '(st2, os) := model_run st1 r in (st2, OW c e :: os)
  | HRead keys t :: r =>
      let '(st2, os) := model_run st r in (st2, model_read st keys t :: os)
  | HGC :: r =>
      (* compaction moves bytes inside files; it succeeds and no read changes *)
      let '(st2, os) := model_run st r in (st2, OW 0 0 :: os)
  end.

Definition model_all (c : case_t) : list hobs * list hobs * list hobs :=
  let '(st, os) := model_run (init_state (k_cap c) (k_chans c)) (k_ops c) in
  let st := close_writer st in
  let fa := snd (model_run st (k_final c)) in
  let st' := fst (w_step st WReopen) in
  (os, fa, snd (model_run st' (k_final c))).

Definition mismatch (c : case_t) : bool :=
  let '(os, fa, fb) := model_all c in
  negb (list_eqb hobs_eqb os (k_obs c) && list_eqb hobs_eqb fa (k_final_a c) &&
        list_eqb hobs_eqb fb (k_final_b c)).

(* ---- the property on observations ---- *)
Fixpoint series_ordered (f : list series) : bool :=
  match f with
  | a :: ((b :: _) as r) => (t_e (sr_tr a) <=? t_s (sr_tr b)) && series_ordered r
  | _ => true
  end.

(* a read of range t on a channel whose committed samples are [tru] *)
Definition read_ok (tru : assoc) (t : tr) (f : list series) : bool :=
  list_eqb Z.eqb (concat (map sr_data f)) (read_spec tru t) &&
  forallb (fun s => contains_range t (sr_tr s) && list_eqb Z.eqb (sr_data s) (read_spec tru (sr_tr s))) f &&
  series_ordered f.

Definition reads_ok (s : spec_state) (keys : list Z) (t : tr) (o : hobs) : bool :=
  match o with
  | ORead code r =>
      if forallb (fun k => match aget (sp_chans s) k with Some _ => true | None => false end) keys then
        (code =? 0) && list_eqb Z.eqb (map fst r) keys &&
        forallb (fun kr => read_ok (agetd (sp_comm s) (fst kr) []) t (snd kr)) r
      else true
  | _ => false
  end.

(* the history with the outcomes the implementation reported drives the specification;
   a write or commit that fails as a whole may still have committed some channels, after
   which the history no longer determines the stored content: checking stops there *)
Fixpoint ok_hist (s : spec_state) (l : list (hop * hobs)) : bool * spec_state * bool :=
  match l with
  | [] => (true, s, true)
  | (HW o, OW code _) :: r =>
      (* 99 = a write stopped by an injected short write: nothing of the session is committed *)
      let dirty := match o with WWrite _ | WCommit | WWriteFault _ _ _ => negb ((code =? 0) || (code =? 6) || (code =? 99)) | _ => false end in
      if dirty then (true, s, false) else ok_hist (spec_step s o code) r
  | (HRead keys t, o) :: r =>
      if reads_ok s keys t o then ok_hist s r else (false, s, true)
  | (HGC, OW _ _) :: r => ok_hist s r      (* the committed samples are what they were *)
  | _ :: _ => (false, s, true)
  end.

Definition ok_C01 (c : case_t) : bool :=
  let '(ok, s, clean) := ok_hist (spec_init (k_chans c)) (combine (k_ops c) (k_obs c)) in
  ok &&
  (if clean then
     let s := SP (sp_chans s) (sp_comm s) None in
     fst (fst (ok_hist s (combine (k_final c) (k_final_a c)))) &&
     fst (fst (ok_hist s (combine (k_final c) (k_final_b c)))) &&
     list_eqb hobs_eqb (k_final_a c) (k_final_b c)
   else true).

Definition violates (c : case_t) : bool := negb (ok_C01 c).

Definition mismatches (cs : list case_t) : list nat := find_idx mismatch cs.
Definition violations (cs : list case_t) : list nat := find_idx violates cs.

Definition model_dump (c : case_t) :=
  let '(st, _) := model_run (init_state (k_cap c) (k_chans c)) (k_ops c) in
  (model_all c, map (fun ch => (c_key ch, c_doms ch, c_tail ch)) (s_db st)).

(* does every channel's final layout of the model satisfy the decidable hypothesis of
   C01_read_exact_partial? — reported as coverage of the guard *)
Definition in_guard (c : case_t) : bool :=
  let '(st, _) := model_run (init_state (k_cap c) (k_chans c)) (k_ops c) in
  forallb (fun ch => let '(P, D, _) := chan_layout (s_db st) (c_key ch) in layout_okb P D) (s_db st).
