(* Monitors/Mon_C05.v — case types, model-vs-implementation comparison and the decidable
   monitor of C05 (defined in Cesium/ControlMonitor.v) applied to the IMPLEMENTATION's
   observations; concurrent-history and end-to-end variants. *)
From stdpp Require Import prelude.
From Coq Require Import NArith ZArith.
From Synnax Require Import Common.Base Cesium.Control Cesium.ControlMonitor.
Local Open Scope N_scope.

Definition case_t : Type := bool * list (op * iout).

Definition mismatch (c : case_t) : bool :=
  negb (bool_decide (model_trace true c.1 init (map fst c.2) = map snd c.2)).

Definition ok_C05 (c : case_t) : bool := ok_trace c.1 (MS [] [] []) c.2.
Definition violates (c : case_t) : bool := negb (ok_C05 c).

Definition mismatches (cs : list case_t) : list nat := find_idx mismatch cs.
Definition violations (cs : list case_t) : list nat := find_idx violates cs.

Definition model_dump (c : case_t) : list iout := model_trace true c.1 init (map fst c.2).

(* ---- concurrent histories (validation only): is there a sequential order of the recorded
   calls, consistent with their real-time order, that the model reproduces? ---- *)
Inductive cop := COp (o : op) | CAuth (h : N).
(* status code, transfer from/to (resource included: the harness numbers resources by
   OpenResource call, which happens under the controller lock, i.e. in linearization order),
   and the Authorize answer (2 = not an Authorize call) *)
Definition cres : Type := N * option cstate * option cstate * N.
(* call stamp, return stamp, call, result *)
Definition cev : Type := N * N * cop * cres.
Definition conc_case_t : Type := bool * list cev.

Definition cstep (shared : bool) (s : ctl) (c : cop) : ctl * cres :=
  match c with
  | COp o =>
      let '(s', ou) := step true shared s o in
      (s', (st_code (out_st ou), x_from (out_x ou), x_to (out_x ou), 2))
  | CAuth h =>
      if existsb (N.eqb h) (c_live s)
      then (s, (0, None, None, if fst (authorize shared s h) then 1 else 0))
      else (s, (5, None, None, 2))
  end.

Definition ev_call (e : cev) : N := e.1.1.1.
Definition ev_ret (e : cev) : N := e.1.1.2.
Definition minimal (e : cev) (pend : list cev) : bool :=
  forallb (fun e' => negb (ev_ret e' <? ev_call e)) pend.

Fixpoint lin (fuel : nat) (shared : bool) (s : ctl) (pend : list cev) : bool :=
  match fuel with
  | O => false
  | S f =>
      match pend with
      | [] => true
      | _ =>
          (fix try (pre post : list cev) : bool :=
             match post with
             | [] => false
             | e :: post' =>
                 if (if minimal e pend then
                       let '(s', r) := cstep shared s e.1.2 in
                       if bool_decide (r = e.2) then lin f shared s' (rev_append pre post')
                       else false
                     else false)
                 then true else try (e :: pre) post'
             end) [] pend
      end
  end.

Definition conc_reject (c : conc_case_t) : bool := negb (lin (S (length c.2)) c.1 init c.2).
Definition conc_rejects (cs : list conc_case_t) : list nat := find_idx conc_reject cs.

(* ---- end-to-end cases (model in Cesium/ControlMonitor.v) ---- *)
Definition e2e_case_t : Type := bool * list (eop * eobs) * list Z.

Definition e2e_mismatch (c : e2e_case_t) : bool :=
  let '(shared, tr, rd) := c in
  negb (bool_decide (e2e_run shared (ES init 10 []) (map fst tr) = (map snd tr, rd))).

(* the property on the implementation's observations: open writers in open order with their
   authority; a write is authorized iff its writer is the highest-authority / earliest-open one
   (exclusive) or has the highest authority (shared); Read returns exactly the stamps of the
   authorized writes, in order. *)
Definition wl : Type := list (N * N).
Fixpoint wleader (l : wl) : option (N * N) :=
  match l with
  | [] => None
  | g :: rest => match wleader rest with
                 | None => Some g
                 | Some m => if m.2 <=? g.2 then Some g else Some m
                 end
  end.
Definition wget (l : wl) (w : N) : option N :=
  match filter (fun p => p.1 =? w) l with p :: _ => Some p.2 | [] => None end.

Fixpoint e2e_ok (shared : bool) (l : wl) (acc : list Z) (tr : list (eop * eobs)) (rd : list Z) : bool :=
  match tr with
  | [] => bool_decide (rd = acc)
  | (o, (st, az, ts)) :: rest =>
      match o with
      | EOpen w _ au _ => e2e_ok shared (if st =? 0 then l ++ [(w, au)] else l) acc rest rd
      | ESet w a =>
          e2e_ok shared (if st =? 0 then map (fun p => if p.1 =? w then (w, a) else p) l else l) acc rest rd
      | EClose w => e2e_ok shared (if st =? 0 then filter (fun p => negb (p.1 =? w)) l else l) acc rest rd
      | EWrite w _ =>
          if st =? 0 then
            match wget l w, wleader l with
            | Some a, Some m =>
                let should := if shared then a =? m.2 else w =? m.1 in
                if bool_decide (az = if should then 1 else 0)
                then e2e_ok shared l (if should then acc ++ ts else acc) rest rd
                else false
            | _, _ => false
            end
          else e2e_ok shared l acc rest rd
      end
  end.

Definition e2e_violates (c : e2e_case_t) : bool :=
  let '(shared, tr, rd) := c in negb (e2e_ok shared [] [] tr rd).
Definition e2e_mismatches (cs : list e2e_case_t) : list nat := find_idx e2e_mismatch cs.
Definition e2e_violations (cs : list e2e_case_t) : list nat := find_idx e2e_violates cs.

(* ---- end-to-end cases on virtual channels (model in Cesium/ControlMonitor.v) ---- *)
Definition e2ev_case_t : Type := list (vop * vobs).

Definition e2ev_mismatch (c : e2ev_case_t) : bool :=
  negb (bool_decide (e2ev_run vinit (map fst c) = map snd c)).

(* the property on the implementation's observations: per channel the open writers with their
   authority; virtual channels are shared-mode, so a writer may write a channel iff nobody open
   on it has a higher authority; a frame is reported authorized iff that holds for every channel
   of the frame the writer holds. *)
Definition vtab : Type := list (N * N * N).   (* channel, writer, authority *)
Definition vmax (t : vtab) (k : N) : N :=
  foldr (fun e m => if e.1.1 =? k then N.max e.2 m else m) 0 t.
Definition vauth (t : vtab) (k w : N) : option N :=
  match filter (fun e => (e.1.1 =? k) && (e.1.2 =? w)) t with e :: _ => Some e.2 | [] => None end.

Fixpoint e2ev_ok (t : vtab) (tr : list (vop * vobs)) : bool :=
  match tr with
  | [] => true
  | (o, (st, az)) :: rest =>
      match o with
      | VOpen w _ chans _ =>
          e2ev_ok (if st =? 0 then t ++ map (fun p => (p.1, w, p.2)) chans else t) rest
      | VSet w chans =>
          e2ev_ok (if st =? 0 then
                     map (fun e => match filter (fun p => (p.1 =? e.1.1)) chans with
                                   | p :: _ => if e.1.2 =? w then (e.1.1, w, p.2) else e
                                   | [] => e end) t
                   else t) rest
      | VClose w => e2ev_ok (if st =? 0 then filter (fun e => negb (e.1.2 =? w)) t else t) rest
      | VWrite w keys =>
          if st =? 0 then
            let should := forallb (fun k => match vauth t k w with
                                            | Some a => vmax t k <=? a
                                            | None => true end) keys in
            if bool_decide (az = if should then 1 else 0) then e2ev_ok t rest else false
          else e2ev_ok t rest
      end
  end.

Definition e2ev_violates (c : e2ev_case_t) : bool := negb (e2ev_ok [] c).
Definition e2ev_mismatches (cs : list e2ev_case_t) : list nat := find_idx e2ev_mismatch cs.
Definition e2ev_violations (cs : list e2ev_case_t) : list nat := find_idx e2ev_violates cs.

(* ---- end-to-end cases on index groups + virtual channels ---- *)
(* ops with observations, then per group 1..3 what Read returned: (index stamps, data values) *)
Definition e2eg_case_t : Type := list (gop * eobs) * list (list Z * list Z).

Definition e2eg_mismatch (c : e2eg_case_t) : bool :=
  let '(obs, st) := e2eg_run ginit (map fst c.1) in
  negb (bool_decide (obs = map snd c.1) && bool_decide (map (fun p => (p.2, p.2)) st = c.2)).

(* the property on the implementation's observations. [t]: (unit, writer, authority) of the open
   writers in open order. A writer may write a group iff it is the highest-authority /
   earliest-open writer on it, a virtual channel iff nobody on it has a higher authority. A
   write is reported authorized iff that holds for every unit of the frame the writer holds;
   the samples of exactly the allowed group writes are what Read returns. *)
Definition gleaderw (t : vtab) (k : N) : option (N * N) :=
  wleader (map (fun e => (e.1.2, e.2)) (filter (fun e => e.1.1 =? k) t)).
Definition gallowed (t : vtab) (w k : N) : bool :=
  match vauth t k w with
  | None => true
  | Some a => if ushared k then vmax t k <=? a
              else match gleaderw t k with Some m => m.1 =? w | None => false end
  end.

Fixpoint e2eg_ok (t : vtab) (acc : list (N * list Z)) (tr : list (gop * eobs))
         (rd : list (list Z * list Z)) : bool :=
  match tr with
  | [] => bool_decide (map (fun p => (p.2, p.2)) acc = rd)
  | (o, (st, az, ts)) :: rest =>
      match o with
      | GOpen w _ units _ =>
          e2eg_ok (if st =? 0 then t ++ map (fun p => (p.1, w, p.2)) units else t) acc rest rd
      | GSet w units =>
          e2eg_ok (if st =? 0 then
                     map (fun e => match filter (fun p => (p.1 =? e.1.1)) units with
                                   | p :: _ => if e.1.2 =? w then (e.1.1, w, p.2) else e
                                   | [] => e end) t
                   else t) acc rest rd
      | GClose w => e2eg_ok (if st =? 0 then filter (fun e => negb (e.1.2 =? w)) t else t) acc rest rd
      | GCommit _ => e2eg_ok t acc rest rd
      | GWrite w keys _ =>
          if st =? 0 then
            let mine := filter (fun k => is_some (vauth t k w)) keys in
            let should := forallb (gallowed t w) mine in
            let acc' := map (fun p => if existsb (N.eqb p.1) mine && gallowed t w p.1
                                      then (p.1, p.2 ++ ts) else p) acc in
            if bool_decide (az = if should then 1 else 0) then e2eg_ok t acc' rest rd else false
          else e2eg_ok t acc rest rd
      end
  end.

Definition e2eg_violates (c : e2eg_case_t) : bool :=
  negb (e2eg_ok [] [(1, []); (2, []); (3, [])] c.1 c.2).
Definition e2eg_mismatches (cs : list e2eg_case_t) : list nat := find_idx e2eg_mismatch cs.
Definition e2eg_violations (cs : list e2eg_case_t) : list nat := find_idx e2eg_violates cs.

(* ---- writers with auto-commit disabled and explicit commits (monitor only, no model of the
   deferred-commit layer): the authorized flags follow the control rule; a rejected write
   contributes nothing — every persisted sample comes from a write the rule allows, index and
   data channel agree, every stored domain ends 1ns after its last sample, and a commit that
   reports "1ns after second s" names a sample of an allowed write. ---- *)
Definition e2ec_case_t : Type := list (gop * eobs) * list (list Z * list Z) * list Z.

Fixpoint sublistZ (a b : list Z) : bool :=   (* a is a subsequence of b *)
  match a, b with
  | [], _ => true
  | _, [] => false
  | x :: a', y :: b' => if bool_decide (x = y) then sublistZ a' b' else sublistZ a b'
  end.

Fixpoint e2ec_ok (t : vtab) (acc : list (N * list Z)) (tr : list (gop * eobs))
         (rd : list (list Z * list Z)) (gaps : list Z) : bool :=
  match tr with
  | [] => forallb (fun g => bool_decide (g = 1%Z)) gaps &&
          forallb (fun pr => bool_decide (pr.2.1 = pr.2.2) && sublistZ pr.2.1 pr.1.2) (combine acc rd) &&
          bool_decide (length rd = length acc)
  | (o, (st, az, ts)) :: rest =>
      match o with
      | GOpen w _ units _ =>
          e2ec_ok (if st =? 0 then t ++ map (fun p => (p.1, w, p.2)) units else t) acc rest rd gaps
      | GSet w units =>
          e2ec_ok (if st =? 0 then
                     map (fun e => match filter (fun p => (p.1 =? e.1.1)) units with
                                   | p :: _ => if e.1.2 =? w then (e.1.1, w, p.2) else e
                                   | [] => e end) t
                   else t) acc rest rd gaps
      | GClose w => e2ec_ok (if st =? 0 then filter (fun e => negb (e.1.2 =? w)) t else t) acc rest rd gaps
      | GCommit w =>
          match ts with
          | [s; 0%Z] => if existsb (fun p => existsb (fun x => bool_decide (x = s)) p.2) acc
                        then e2ec_ok t acc rest rd gaps else false
          | _ => e2ec_ok t acc rest rd gaps
          end
      | GWrite w keys _ =>
          if st =? 0 then
            let mine := filter (fun k => is_some (vauth t k w)) keys in
            let should := forallb (gallowed t w) mine in
            let acc' := map (fun p => if existsb (N.eqb p.1) mine && gallowed t w p.1
                                      then (p.1, p.2 ++ ts) else p) acc in
            if bool_decide (az = if should then 1 else 0) then e2ec_ok t acc' rest rd gaps else false
          else e2ec_ok t acc rest rd gaps
      end
  end.

Definition e2ec_violates (c : e2ec_case_t) : bool :=
  negb (e2ec_ok [] [(1, []); (2, []); (3, [])] c.1.1 c.1.2 c.2).
Definition e2ec_violations (cs : list e2ec_case_t) : list nat := find_idx e2ec_violates cs.
Definition e2ec_mismatches (cs : list e2ec_case_t) : list nat := [].
