(* Monitors/Mon_C05.v — case type, model-vs-implementation comparison and the decidable
   monitor of C05 applied to the IMPLEMENTATION's observations. *)
From stdpp Require Import prelude.
From Coq Require Import NArith ZArith.
From Synnax Require Import Common.Base Cesium.Control.
Local Open Scope N_scope.

(* ---- observations (plain tuples so that decidable equality is derived) ---- *)
(* handle, subject, authority, resource (PeekResource), authorized 0/1, resource returned by Authorize *)
Definition gobs : Type := N * N * N * N * N * N.
Definition xobs : Type := option cstate * option cstate.
(* status code, gate returned, transfer, resource returned by Release *)
Definition oobs : Type := N * bool * xobs * N.
(* start, end, counter, resource, curr (subject, authority, position, in gates), gates by position *)
Definition robs : Type := Z * Z * N * N * option (N * N * N * bool) * list (N * N * N).
Definition sobs : Type := list gobs * option cstate * list robs.
Definition iout : Type := oobs * sobs.
Definition case_t : Type := bool * list (op * iout).

Definition gh (g : gobs) : N := g.1.1.1.1.1.
Definition gsubj (g : gobs) : N := g.1.1.1.1.2.
Definition gauth (g : gobs) : N := g.1.1.1.2.
Definition gres (g : gobs) : N := g.1.1.2.
Definition gaz (g : gobs) : N := g.1.2.

Definition st_code (s : ostat) : N :=
  match s with Ok => 0 | Unauth => 1 | Valid => 2 | Multi => 3 | ResFail => 4 | Skip => 5 | Panic => 6 | Config => 7 end.

(* ---- the model's observations ---- *)
Fixpoint insN (x : N) (l : list N) : list N :=
  match l with [] => [x] | y :: r => if x <=? y then x :: l else y :: insN x r end.
Definition sortN (l : list N) : list N := foldr insN [] l.

Definition obs_gate (shared : bool) (s : ctl) (h : N) : gobs :=
  match region_of h (c_regions s) with
  | Some r =>
      match find_gate h (r_gates r) with
      | Some g => let '(az, ar) := authorize shared s h in
                  (h, g_subj g, g_auth g, r_res r, if az then 1 else 0, ar)
      | None => (h, 0, 0, 0, 0, 0)
      end
  | None => (h, 0, 0, 0, 0, 0)
  end.

Definition obs_region (r : region) : robs :=
  (t_start (r_tr r), t_end (r_tr r), r_counter r, r_res r,
   match r_curr r with
   | Some h => match find_gate h (r_gates r) with
               | Some g => Some (g_subj g, g_auth g, g_pos g, true)
               | None => None
               end
   | None => None
   end,
   map (fun g => (g_subj g, g_auth g, g_pos g)) (r_gates r)).

Definition obs_state (shared : bool) (s : ctl) : sobs :=
  (map (obs_gate shared s) (sortN (c_live s)), leading_state s, map obs_region (c_regions s)).

Definition obs_out (o : out) : oobs :=
  (st_code (out_st o), out_gate o, (x_from (out_x o), x_to (out_x o)), out_res o).

Fixpoint model_trace (fixed shared : bool) (s : ctl) (ops : list op) : list iout :=
  match ops with
  | [] => []
  | o :: rest =>
      let '(s', ou) := step fixed shared s o in
      (obs_out ou, obs_state shared s') :: model_trace fixed shared s' rest
  end.

Definition mismatch (c : case_t) : bool :=
  negb (bool_decide (model_trace true c.1 init (map fst c.2) = map snd c.2)).

(* ---- the property, stated on what the implementation showed ---- *)
(* gates of region [rho] in order of open ([order] = live handles, earliest open first) *)
Definition members (rho : N) (gs : list gobs) (order : list N) : list gobs :=
  flat_map (fun h => filter (fun g => bool_decide (gh g = h) && bool_decide (gres g = rho)) gs) order.
(* highest authority, ties to the earliest open *)
Fixpoint leader (ms : list gobs) : option gobs :=
  match ms with
  | [] => None
  | g :: rest =>
      match leader rest with
      | None => Some g
      | Some m => if gauth m <=? gauth g then Some g else Some m
      end
  end.
Definition spec_holder (gs : list gobs) (order : list N) (rho : N) : option cstate :=
  match leader (members rho gs order) with
  | Some g => Some (gsubj g, gauth g, rho)
  | None => None
  end.

Definition xoccurred (x : xobs) : bool := occurred (X x.1 x.2).

Definition hmap : Type := list (N * cstate).
Definition hget (H : hmap) (rho : N) : option cstate :=
  match filter (fun kv => bool_decide (kv.1 = rho)) H with kv :: _ => Some kv.2 | [] => None end.
Definition hdel (H : hmap) (rho : N) : hmap := filter (fun kv => negb (bool_decide (kv.1 = rho))) H.
Definition happly (H : hmap) (x : xobs) : hmap :=
  if xoccurred x then
    match x.2, x.1 with
    | Some t, _ => (t.2, t) :: hdel H t.2
    | None, Some f => hdel H f.2
    | None, None => H
    end
  else H.

Fixpoint dedup (l : list N) : list N :=
  match l with [] => [] | x :: r => if existsb (N.eqb x) r then dedup r else x :: dedup r end.

Record mstate := MS { m_gs : list gobs; m_order : list N; m_H : hmap }.

Definition next_order (order : list N) (o : op) (st : N) : list N :=
  match o with
  | Open c => if st =? 0 then order ++ [o_h c] else order
  | Release h => if st =? 0 then filter (fun k => negb (k =? h)) order else order
  | SetAuth _ _ => order
  end.

Definition ok_step (shared : bool) (m : mstate) (o : op) (io : iout) : bool * mstate :=
  let '((st, _, x, _), (gs, lead, _)) := io in
  let order := next_order (m_order m) o st in
  let H := happly (m_H m) x in
  let rhos := dedup (map gres (m_gs m) ++ map gres gs ++ map fst H) in
  let before := spec_holder (m_gs m) (m_order m) in
  let after := spec_holder gs order in
  (* the harness reports exactly the gates the caller holds *)
  let c1 := bool_decide (map gh gs = sortN order) in
  (* the controller is the highest authority / earliest open; Authorize agrees with it *)
  let c2 := forallb (fun g =>
              match leader (members (gres g) gs order) with
              | None => false
              | Some l =>
                  let should := if shared then bool_decide (gauth g = gauth l)
                                else bool_decide (gh g = gh l) in
                  bool_decide (gaz g = if should then 1 else 0)
              end) gs in
  (* exactly one transfer, with the right previous and next holder *)
  let changed := filter (fun rho => negb (bool_decide (before rho = after rho))) rhos in
  let c3 := match changed with
            | [] => negb (xoccurred x)
            | [rho] => bool_decide (x = (before rho, after rho))
            | _ => false
            end in
  (* the transfers so far reconstruct the current holders *)
  let c4 := forallb (fun rho => bool_decide (hget H rho = after rho)) rhos in
  (* LeadingState names the holder of its region *)
  let c5 := match lead with
            | None => match gs with [] => true | _ => false end
            | Some s => bool_decide (after s.2 = Some s)
            end in
  (c1 && c2 && c3 && c4 && c5, MS gs order H).

Fixpoint ok_trace (shared : bool) (m : mstate) (tr : list (op * iout)) : bool :=
  match tr with
  | [] => true
  | (o, io) :: rest => let '(b, m') := ok_step shared m o io in b && ok_trace shared m' rest
  end.

Definition ok_C05 (c : case_t) : bool := ok_trace c.1 (MS [] [] []) c.2.
Definition violates (c : case_t) : bool := negb (ok_C05 c).

Definition mismatches (cs : list case_t) : list nat := find_idx mismatch cs.
Definition violations (cs : list case_t) : list nat := find_idx violates cs.

Definition model_dump (c : case_t) : list iout := model_trace true c.1 init (map fst c.2).

(* ---- concurrent histories (validation only): is there a sequential order of the recorded
   calls, consistent with their real-time order, that the model reproduces? ---- *)
Inductive cop := COp (o : op) | CAuth (h : N).
(* status code, transfer from/to as (subject, authority) — resources are not compared, see
   runner/props/C05.py — and the Authorize answer (2 = not an Authorize call) *)
Definition cres : Type := N * option (N * N) * option (N * N) * N.
(* call stamp, return stamp, call, result *)
Definition cev : Type := N * N * cop * cres.
Definition conc_case_t : Type := bool * list cev.

Definition erase (s : option cstate) : option (N * N) :=
  match s with Some (sj, au, _) => Some (sj, au) | None => None end.

Definition cstep (shared : bool) (s : ctl) (c : cop) : ctl * cres :=
  match c with
  | COp o =>
      let '(s', ou) := step true shared s o in
      (s', (st_code (out_st ou), erase (x_from (out_x ou)), erase (x_to (out_x ou)), 2))
  | CAuth h =>
      if existsb (N.eqb h) (c_live s)
      then (s, (0, None, None, if fst (authorize shared s h) then 1 else 0))
      else (s, (5, None, None, 2))
  end.

Definition ev_call (e : cev) : N := e.1.1.1.
Definition ev_ret (e : cev) : N := e.1.1.2.
Definition minimal (e : cev) (pend : list cev) : bool :=
  forallb (fun e' => negb (ev_ret e' <? ev_call e)) pend.

Fixpoint lin (fuel : nat) (shared : bool) (s : ctl) (pend : list cev) : bool :=
  match fuel with
  | O => false
  | S f =>
      match pend with
      | [] => true
      | _ =>
          (fix try (pre post : list cev) : bool :=
             match post with
             | [] => false
             | e :: post' =>
                 if (if minimal e pend then
                       let '(s', r) := cstep shared s e.1.2 in
                       if bool_decide (r = e.2) then lin f shared s' (rev_append pre post')
                       else false
                     else false)
                 then true else try (e :: pre) post'
             end) [] pend
      end
  end.

Definition conc_reject (c : conc_case_t) : bool := negb (lin (S (length c.2)) c.1 init c.2).
Definition conc_rejects (cs : list conc_case_t) : list nat := find_idx conc_reject cs.

(* ---- end-to-end cases: cesium writers on one index channel ---- *)
Inductive eop := EOpen (w subj auth : N) (eou : bool) | EWrite (w n : N) | ESet (w a : N) | EClose (w : N).
(* status code, authorized flag (2 = not a write), stamps carried by the write *)
Definition eobs : Type := N * N * list Z.
Definition e2e_case_t : Type := bool * list (eop * eobs) * list Z.

Definition ts_max : Z := 9223372036854775807.
Fixpoint stamps (next : Z) (n : nat) : list Z :=
  match n with O => [] | S k => next :: stamps (next + 1)%Z k end.

Record estate := ES { e_ctl : ctl; e_next : Z; e_store : list Z }.

(* the writer layer over the control model: a write is persisted iff its gate authorizes *)
Definition e2e_step (shared : bool) (s : estate) (o : eop) : estate * eobs :=
  match o with
  | EOpen w sj au eou =>
      let c := OCfg w sj au (TR (e_next s * 1000000000)%Z ts_max) false eou false in
      let '(c', ou) := step true shared (e_ctl s) (Open c) in
      (ES c' (e_next s) (e_store s), (st_code (out_st ou), 2, []))
  | ESet w a =>
      let '(c', ou) := step true shared (e_ctl s) (SetAuth w a) in
      (ES c' (e_next s) (e_store s), (st_code (out_st ou), 2, []))
  | EClose w =>
      let '(c', ou) := step true shared (e_ctl s) (Release w) in
      (ES c' (e_next s) (e_store s), (st_code (out_st ou), 2, []))
  | EWrite w n =>
      if existsb (N.eqb w) (c_live (e_ctl s)) then
        let k := N.to_nat (N.max n 1) in
        let ts := stamps (e_next s) k in
        let az := fst (authorize shared (e_ctl s) w) in
        (ES (e_ctl s) (e_next s + Z.of_nat k)%Z (if az then e_store s ++ ts else e_store s),
         (0, if az then 1 else 0, ts))
      else (s, (5, 2, []))
  end.

Fixpoint e2e_run (shared : bool) (s : estate) (ops : list eop) : list eobs * list Z :=
  match ops with
  | [] => ([], e_store s)
  | o :: rest =>
      let '(s', ob) := e2e_step shared s o in
      let '(obs, st) := e2e_run shared s' rest in (ob :: obs, st)
  end.

Definition e2e_mismatch (c : e2e_case_t) : bool :=
  let '(shared, tr, rd) := c in
  negb (bool_decide (e2e_run shared (ES init 10 []) (map fst tr) = (map snd tr, rd))).

(* the property on the implementation's observations: open writers in open order with their
   authority; a write is authorized iff its writer is the highest-authority / earliest-open one
   (exclusive) or has the highest authority (shared); Read returns exactly the stamps of the
   authorized writes, in order. *)
Definition wl : Type := list (N * N).
Fixpoint wleader (l : wl) : option (N * N) :=
  match l with
  | [] => None
  | g :: rest => match wleader rest with
                 | None => Some g
                 | Some m => if m.2 <=? g.2 then Some g else Some m
                 end
  end.
Definition wget (l : wl) (w : N) : option N :=
  match filter (fun p => p.1 =? w) l with p :: _ => Some p.2 | [] => None end.

Fixpoint e2e_ok (shared : bool) (l : wl) (acc : list Z) (tr : list (eop * eobs)) (rd : list Z) : bool :=
  match tr with
  | [] => bool_decide (rd = acc)
  | (o, (st, az, ts)) :: rest =>
      match o with
      | EOpen w _ au _ => e2e_ok shared (if st =? 0 then l ++ [(w, au)] else l) acc rest rd
      | ESet w a =>
          e2e_ok shared (if st =? 0 then map (fun p => if p.1 =? w then (w, a) else p) l else l) acc rest rd
      | EClose w => e2e_ok shared (if st =? 0 then filter (fun p => negb (p.1 =? w)) l else l) acc rest rd
      | EWrite w _ =>
          if st =? 0 then
            match wget l w, wleader l with
            | Some a, Some m =>
                let should := if shared then a =? m.2 else w =? m.1 in
                if bool_decide (az = if should then 1 else 0)
                then e2e_ok shared l (if should then acc ++ ts else acc) rest rd
                else false
            | _, _ => false
            end
          else e2e_ok shared l acc rest rd
      end
  end.

Definition e2e_violates (c : e2e_case_t) : bool :=
  let '(shared, tr, rd) := c in negb (e2e_ok shared [] [] tr rd).
Definition e2e_mismatches (cs : list e2e_case_t) : list nat := find_idx e2e_mismatch cs.
Definition e2e_violations (cs : list e2e_case_t) : list nat := find_idx e2e_violates cs.
