(* Monitors/Mon_C12.v — decidable monitor for C12 on observed cluster states, and the
   model-vs-implementation comparison used by the generated case files. *)
From stdpp Require Import gmap.
From Coq Require Import NArith.
From Synnax Require Import Common.Base Aspen.Membership.
Local Open Scope N_scope.

Definition rec_leb (n n' : member) : bool :=
  bool_decide (n' = n) || older (m_hb n') (m_hb n).
Definition vleb (v w : view) : bool :=
  forallb (fun kn => match w !! kn.1 with Some n' => rec_leb kn.2 n' | None => false end)
          (map_to_list v).
Definition cleb (c c' : cluster) : bool :=
  forallb (fun iv => match c' !! iv.1 with Some v' => vleb iv.2 v' | None => false end)
          (map_to_list c).

(* one observed step: nothing regresses (the per-exchange join equality is part of the
   model correspondence, not of the property, so the monitor does not demand it); a restart
   must bring the host to a strictly newer generation than anything its previous run used *)
Definition host_gen (c : cluster) (i : N) : option N :=
  match c !! i with
  | Some v => match v !! i with Some m => Some (gen (m_hb m)) | None => None end
  | None => None
  end.
Definition ok_step (c : cluster) (o : op) (c' : cluster) : bool :=
  cleb c c' &&
  match o with
  | Restart i => match host_gen c i, host_gen c' i with
                 | Some g, Some g' => g <? g'
                 | Some _, None => false
                 | None, _ => true
                 end
  | _ => true
  end.

Definition is_exchangeb (o : op) : bool := match o with Exchange _ _ => true | _ => false end.

Definition coversb (c : cluster) (ops : list op) : bool :=
  forallb (fun i => forallb (fun j =>
     bool_decide (i = j) ||
     existsb (fun o => bool_decide (o = Exchange i j) || bool_decide (o = Exchange j i)) ops)
     (map fst (map_to_list c))) (map fst (map_to_list c)).

Definition all_equal (c : cluster) : bool :=
  match map_to_list c with
  | [] => true
  | (_, v) :: rest => forallb (fun iv => bool_decide (iv.2 = v)) rest
  end.

Definition knows_all (c0 c : cluster) : bool :=
  forallb (fun iv => forallb (fun jv =>
     match jv.2 !! jv.1 with
     | Some _ => match iv.2 !! jv.1 with Some _ => true | None => false end
     | None => true
     end) (map_to_list c0)) (map_to_list c).

(* convergence clause, evaluated on (state before the exchange-only suffix, suffix, final) *)
Definition conv_ok (c0 : cluster) (ops : list op) (c : cluster) : bool :=
  if forallb is_exchangeb ops && coversb c0 ops then all_equal c && knows_all c0 c else true.

(* longest exchange-only suffix together with the state it starts from *)
Fixpoint split_suffix (c0 : cluster) (tr : list (op * cluster)) (acc : cluster * list op)
  : cluster * list op :=
  match tr with
  | [] => acc
  | (o, c') :: rest =>
      if is_exchangeb o then split_suffix c0 rest (acc.1, acc.2 ++ [o])
      else split_suffix c0 rest (c', [])
  end.

Fixpoint ok_steps (c : cluster) (tr : list (op * cluster)) : bool :=
  match tr with
  | [] => true
  | (o, c') :: rest => ok_step c o c' && ok_steps c' rest
  end.

Definition last_state (c0 : cluster) (tr : list (op * cluster)) : cluster :=
  default c0 (last (map snd tr)).

(* an exchange during which other operations completed is observed a second time, in the middle (after the inner
   operations, before the initiator processes the ack): nothing may regress from the state before to the middle,
   nor from the middle to the end — what the initiator learnt meanwhile must survive its own merge *)
Fixpoint ok_mids (c : cluster) (tr : list (op * cluster)) (mids : list cluster) : bool :=
  match tr with
  | [] => true
  | (ExchangeN _ _ _, c') :: rest =>
      match mids with
      | m :: ms => cleb c m && cleb m c' && ok_mids c' rest ms
      | [] => ok_mids c' rest []
      end
  | (_, c') :: rest => ok_mids c' rest mids
  end.

(* the monitor: applied to IMPLEMENTATION observations *)
Definition ok_C12 (c0 : cluster) (tr : list (op * cluster)) : bool :=
  ok_steps c0 tr &&
  (let '(cs, sfx) := split_suffix c0 tr (c0, []) in conv_ok cs sfx (last_state c0 tr)).

(* ---- case files ---- *)
Definition raw_view := list (N * (N * N * N * N)).
Definition raw_cluster := list (N * raw_view).
Definition case_t : Type := raw_cluster * list (op * raw_cluster) * list raw_cluster.

Definition obs_of (c : case_t) : cluster * list (op * cluster) :=
  (mk_cluster c.1.1, map (fun oc => (oc.1, mk_cluster oc.2)) c.1.2).
Definition mids_of (c : case_t) : list cluster := map mk_cluster c.2.

(* the state in the middle of an exchange with inner operations (the state itself for any other operation) *)
Definition mid_of (strict : bool) (c : cluster) (o : op) : cluster :=
  match o with
  | ExchangeN i j inner =>
      if decide (i = j) then c else
      match c !! i, c !! j with
      | Some _, Some _ => fold_left (fun c kl => bstep strict c (inner_op kl)) inner c
      | _, _ => c
      end
  | _ => c
  end.
Definition is_nested (o : op) : bool := match o with ExchangeN _ _ _ => true | _ => false end.
Fixpoint model_mids (strict : bool) (c : cluster) (ops : list op) : list cluster :=
  match ops with
  | [] => []
  | o :: rest => (if is_nested o then [mid_of strict c o] else []) ++ model_mids strict (step strict c o) rest
  end.

(* model states after each op *)
Fixpoint model_trace (strict : bool) (c : cluster) (ops : list op) : list cluster :=
  match ops with
  | [] => []
  | o :: rest => let c' := step strict c o in c' :: model_trace strict c' rest
  end.

Definition mismatch (c : case_t) : bool :=
  let '(c0, tr) := obs_of c in
  negb (bool_decide (model_trace false c0 (map fst tr) = map snd tr)) ||
  negb (bool_decide (model_mids false c0 (map fst tr) = mids_of c)).

Definition violates (c : case_t) : bool :=
  let '(c0, tr) := obs_of c in negb (ok_C12 c0 tr && ok_mids c0 tr (mids_of c)).

Definition mismatches (cs : list case_t) : list nat := find_idx mismatch cs.
Definition violations (cs : list case_t) : list nat := find_idx violates cs.

Definition model_dump (c : case_t) : list (list (N * raw_view)) :=
  let '(c0, tr) := obs_of c in
  map (fun cl => map (fun iv => (iv.1, dump_view iv.2)) (map_to_list cl))
      (model_trace false c0 (map fst tr)).
