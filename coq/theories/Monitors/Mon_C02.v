(* Monitors/Mon_C02.v — case type, model-vs-implementation comparison and the decidable
   monitor of property C02 on the implementation's observations.

   A case is one operation script run on the real cesium.DB over a recording file system:
   the recorded mutation log (tagged by channel directory), and for every crash image
   (prefix length k, torn length t) what the implementation did with it: cesium.Open,
   reads of every channel, a follow-up write on the reopened database and reads again
   (public API, judged by the monitor), and domain.Open + domain listing + probes +
   a domain-level follow-up (compared with the model). *)
From Coq Require Import List NArith ZArith Bool Arith.
From Synnax Require Import Common.Base Cesium.FsLog Cesium.Crash.
Import ListNotations.
Local Open Scope Z_scope.

(* ------------------------------------------------------------------ observations *)
Inductive chst := CAbsent | COk | CErr.
Definition chst_eqb a b := match a, b with CAbsent, CAbsent | COk, COk | CErr, CErr => true | _, _ => false end.

(* one channel through the public API: state, all values over [0,MAX), values of the
   narrow reads [s,s+1) at each probe stamp *)
Record chobs := mkChobs { co_key : N; co_st : chst; co_full : list Z; co_nar : list (list Z) }.

Record domobs := mkDomobs {
  do_key : N;
  do_list : list (Z * Z * option bytes);
  do_probe : list (bool * option trange);      (* OpenWriter(start=s) refused?, SeekLE(s) hit *)
  do_fw : bool;                                (* follow-up write succeeded *)
  do_list2 : list (Z * Z * option bytes);
  do_probe2 : list (bool * option trange)
}.

Record obs := mkObs {
  ob_open : bool;                  (* cesium.Open succeeded *)
  ob_ch : list chobs;              (* after reopen *)
  ob_fw : list (list N * bool);    (* follow-up groups: channels, write succeeded *)
  ob_ch2 : list chobs;             (* after the follow-up write *)
  ob_dom : list domobs
}.

(* In the generated case files observations are interned: byte strings, per-channel
   public-API observations and per-channel domain observations are tables, an image's
   observation refers to them by position. *)
Record rdom := mkRdom {
  rd_key : N;
  rd_list : list (Z * Z * option nat);
  rd_probe : list (bool * option trange);
  rd_fw : bool;
  rd_list2 : list (Z * Z * option nat);
  rd_probe2 : list (bool * option trange)
}.
Record robs := mkRobs {
  ro_open : bool; ro_ch : list nat; ro_fw : list (list N * bool); ro_ch2 : list nat; ro_dom : list nat
}.

(* ------------------------------------------------------------------ the script (specification level) *)
Inductive sop :=
| SCreate (c : N) (idx : N)
| SOpen (w : N) (cs : list N) (md : mode)
| SWrite (w : N) (stamps : list Z)
| SCommit (w : N)
| SClose (w : N)
| SDelete (cs : list N) (a b : Z)
| SGC
| SDelChan (cs : list N)
| SReopen
| SWriteFault (w : N)
    (* a Write that hit an I/O fault: it returns an error, commits nothing, and the writer
       is closed (as cesium.Writer does on any error): what it had committed stays *)
| SWriteTF (w : N) (stamps : list Z) (c : N)
    (* a Write of an always-persist writer during which the index Truncate of channel c
       failed: every channel of the frame is committed (in memory), channel c's commit did
       not reach its index file, the Write returns the error and the writer is closed *).

Record chan_case := mkChan {
  cc_key : N;
  cc_ops : list (dop * outcome);   (* the domain-level history of this channel + expected outcomes *)
  cc_probes : list Z
}.

Record case_t := mkCase {
  c_full : bool;                   (* judge every image (true) or only those outside the known windows *)
  c_cap : N;
  c_thr : Z;
  c_dfollow : Z;                   (* start stamp of the domain-level follow-up, 0 = none *)
  c_follow : list (list N * Z);    (* public-API follow-up groups: channels, start stamp *)
  c_script : list (sop * bool);    (* operation, expected to fail *)
  c_errs : list bool;              (* observed: operation returned an error *)
  c_chans : list chan_case;
  c_glog : list (N * fsop);        (* recorded mutation log, tagged with the channel directory *)
  c_bounds : list nat;             (* length of the log after each script operation *)
  c_imgs : list (nat * nat * nat); (* k, t, index into c_robs *)
  c_blobs : list bytes;
  c_chtab : list chobs;
  c_domtab : list rdom;
  c_robs : list robs
}.

Definition res_ent (c : case_t) (e : Z * Z * option nat) : Z * Z * option bytes :=
  (fst e, match snd e with Some i => Some (nth i (c_blobs c) []) | None => None end).
Definition res_dom (c : case_t) (d : rdom) : domobs :=
  mkDomobs (rd_key d) (map (res_ent c) (rd_list d)) (rd_probe d) (rd_fw d)
           (map (res_ent c) (rd_list2 d)) (rd_probe2 d).
Definition res_chs (c : case_t) (l : list nat) : list chobs :=
  flat_map (fun i => match nth_error (c_chtab c) i with Some x => [x] | None => [] end) l.
Definition res_obs (c : case_t) (r : robs) : obs :=
  mkObs (ro_open r) (res_chs c (ro_ch r)) (ro_fw r) (res_chs c (ro_ch2 r))
        (flat_map (fun i => match nth_error (c_domtab c) i with Some d => [res_dom c d] | None => [] end) (ro_dom r)).
Definition get_obs (c : case_t) (i : nat) : option obs := option_map (res_obs c) (nth_error (c_robs c) i).

(* ------------------------------------------------------------------ model side *)
Fixpoint probes_run (s : st) (ps : list Z) : st * list (bool * option trange) :=
  match ps with
  | [] => (s, [])
  | x :: r =>
      let '(s1, _, oc) := step s (DOpenW 98 x MManual 0) in
      let s2 := match oc with ROk => fst (fst (step s1 (DCloseW 98))) | _ => s1 end in
      let found := seek_found s2 x in
      let '(s3, rest) := probes_run s2 r in
      (s3, (negb (outcome_eqb oc ROk), found) :: rest)
  end.

Definition follow_payload : bytes := [240; 241; 242; 243; 244; 245; 246; 247]%N.

Definition follow_run (s : st) (f : Z) : st * bool :=
  let '(s1, _, o1) := step s (DOpenW 99 f MManual 0) in
  match o1 with
  | ROk =>
      let '(s2, _, o2) := step s1 (DWrite 99 follow_payload) in
      let '(s3, _, o3) := step s2 (DCommit 99 (f + 10) 0) in
      let '(s4, _, o4) := step s3 (DCloseW 99) in
      (s4, outcome_eqb o2 ROk && outcome_eqb o3 ROk && outcome_eqb o4 ROk)
  | _ => (s1, false)
  end.

(* what the model predicts domain.Open + the harness's domain-level script observe *)
Definition predict (cap : N) (thr : Z) (dfollow : Z) (key : N) (probes : list Z) (d : dirst) : domobs :=
  let r := recover cap thr d in
  let l1 := dlist r in
  let '(r1, p1) := probes_run r probes in
  if dfollow =? 0 then mkDomobs key l1 p1 true [] [] else
  let '(r2, ok) := follow_run r1 dfollow in
  let l2 := dlist r2 in
  let '(_, p2) := probes_run r2 probes in
  mkDomobs key l1 p1 ok l2 p2.

Definition obytes_eqb (a b : option bytes) : bool :=
  match a, b with Some x, Some y => bytes_eqb x y | None, None => true | _, _ => false end.
Definition ent_eqb (a b : Z * Z * option bytes) : bool :=
  (fst (fst a) =? fst (fst b)) && (snd (fst a) =? snd (fst b)) && obytes_eqb (snd a) (snd b).
Fixpoint list_eqb {A} (f : A -> A -> bool) (a b : list A) : bool :=
  match a, b with
  | [], [] => true
  | x :: r, y :: r' => f x y && list_eqb f r r'
  | _, _ => false
  end.
Definition otr_eqb (a b : option trange) : bool :=
  match a, b with Some x, Some y => tr_eqb x y | None, None => true | _, _ => false end.
Definition probe_eqb (a b : bool * option trange) : bool := Bool.eqb (fst a) (fst b) && otr_eqb (snd a) (snd b).

Definition domobs_eqb (a b : domobs) : bool :=
  N.eqb (do_key a) (do_key b) && list_eqb ent_eqb (do_list a) (do_list b) &&
  list_eqb probe_eqb (do_probe a) (do_probe b) && Bool.eqb (do_fw a) (do_fw b) &&
  list_eqb ent_eqb (do_list2 a) (do_list2 b) && list_eqb probe_eqb (do_probe2 a) (do_probe2 b).

(* per-channel directory states while walking the recorded log *)
Definition dirs := list (N * dirst).
Definition dir_of (ds : dirs) (c : N) : dirst := match assoc ds c with Some d => d | None => None end.
Definition dirs_apply (ds : dirs) (co : N * fsop) : dirs :=
  assoc_set ds (fst co) (apply (dir_of ds (fst co)) (snd co)).

Definition image_dirs (ds : dirs) (next : option (N * fsop)) (t : nat) : dirs :=
  match t, next with
  | S _, Some (c, o) => dirs_apply ds (c, torn o t)
  | _, _ => ds
  end.

(* cesium.Open succeeds iff every existing channel directory has its meta.json *)
Definition model_open_ok (ds : dirs) : bool :=
  forallb (fun cd => match snd cd with
                     | None => true
                     | Some fs => match fget fs FMeta with Some _ => true | None => false end
                     end) ds.

Definition find_dom (l : list domobs) (c : N) : option domobs := find (fun d => N.eqb (do_key d) c) l.

(* the model's prediction for one channel directory (None: the directory does not exist) *)
Definition pred_dir (c : case_t) (cc : chan_case) (d : dirst) : option domobs :=
  match d with
  | None => None
  | Some _ => Some (predict (c_cap c) (c_thr c) (c_dfollow c) (cc_key cc) (cc_probes cc) d)
  end.

Definition odom_eqb (a b : option domobs) : bool :=
  match a, b with Some x, Some y => domobs_eqb x y | None, None => true | _, _ => false end.

Definition image_mismatch (c : case_t) (ds : dirs) (pred : chan_case -> option domobs) (o : obs) : bool :=
  negb (Bool.eqb (model_open_ok ds) (ob_open o)) ||
  existsb (fun cc => negb (odom_eqb (pred cc) (find_dom (ob_dom o) (cc_key cc)))) (c_chans c).

(* predictions are cached per channel and recomputed only when a call touched the directory *)
Notation pcache := (list (N * option domobs)).
Definition ensure (c : case_t) (ds : dirs) (cache : pcache) : pcache :=
  fold_left (fun acc cc =>
               match assoc acc (cc_key cc) with
               | Some _ => acc
               | None => assoc_set acc (cc_key cc) (pred_dir c cc (dir_of ds (cc_key cc)))
               end) (c_chans c) cache.

Definition cached (cache : pcache) (cc : chan_case) : option domobs :=
  match assoc cache (cc_key cc) with Some p => p | None => None end.

Definition eval_image (c : case_t) (ds : dirs) (cache : pcache) (next : option (N * fsop)) (kto : nat * nat * nat) : bool :=
  match get_obs c (snd kto) with
  | None => true
  | Some o =>
      match snd (fst kto), next with
      | S _, Some (tc, op) =>
          let ds' := dirs_apply ds (tc, torn op (snd (fst kto))) in
          image_mismatch c ds'
            (fun cc => if N.eqb (cc_key cc) tc then pred_dir c cc (dir_of ds' tc) else cached cache cc) o
      | _, _ => image_mismatch c ds (cached cache) o
      end
  end.

(* walk the log once, evaluating every image; images are sorted by (k, t) *)
Fixpoint mwalk (c : case_t) (log : list (N * fsop)) (pos : nat) (ds : dirs) (cache : pcache)
         (imgs : list (nat * nat * nat)) (fuel : nat) : list (nat * nat) :=
  match fuel with
  | O => []
  | S fu =>
      match imgs with
      | [] => []
      | (k, t, o) :: r =>
          if (pos <? k)%nat then
            match log with
            | [] => [(k, t)]
            | co :: log' => mwalk c log' (S pos) (dirs_apply ds co) (assoc_del cache (fst co)) imgs fu
            end
          else
            let cache' := ensure c ds cache in
            let rest := mwalk c log pos ds cache' r fu in
            if eval_image c ds cache' (hd_error log) (k, t, o) then (k, t) :: rest else rest
      end
  end.

(* generic walk (diagnostics) *)
Fixpoint walk {A} (f : dirs -> option (N * fsop) -> nat * nat * nat -> A)
         (log : list (N * fsop)) (pos : nat) (ds : dirs) (imgs : list (nat * nat * nat)) (fuel : nat) : list A :=
  match fuel with
  | O => []
  | S fu =>
      match imgs with
      | [] => []
      | (k, t, o) :: r =>
          if (pos <? k)%nat then
            match log with
            | [] => []
            | co :: log' => walk f log' (S pos) (dirs_apply ds co) imgs fu
            end
          else f ds (hd_error log) (k, t, o) :: walk f log pos ds r fu
      end
  end.

Definition walk_fuel (c : case_t) : nat := S (length (c_glog c) + length (c_imgs c)).

Definition bad_images (c : case_t) : list (nat * nat) :=
  mwalk c (c_glog c) O [] [] (c_imgs c) (walk_fuel c).

Definition images_mismatch (c : case_t) : bool :=
  match bad_images c with [] => false | _ => true end.

Definition chan_log (c : case_t) (k : N) : list fsop :=
  map snd (filter (fun co => N.eqb (fst co) k) (c_glog c)).

Definition log_mismatch (c : case_t) : bool :=
  existsb (fun cc =>
     let '(_, ess, ocs) := run (init (c_cap c) (c_thr c)) (map fst (cc_ops cc)) in
     negb (list_eqb fsop_eqb (concat ess) (chan_log c (cc_key cc))) ||
     negb (list_eqb outcome_eqb ocs (map snd (cc_ops cc))) ||
     (* the side conditions under which the theorems are stated hold for this history *)
     negb (legal (c_cap c) (c_thr c) (map fst (cc_ops cc)))) (c_chans c) ||
  (* every recorded call belongs to a channel of the case *)
  existsb (fun co => negb (existsb (fun cc => N.eqb (cc_key cc) (fst co)) (c_chans c))) (c_glog c).

Definition errs_mismatch (c : case_t) : bool :=
  negb (list_eqb Bool.eqb (map snd (c_script c)) (c_errs c)).

Definition mismatch (c : case_t) : bool :=
  log_mismatch c || errs_mismatch c || images_mismatch c.

(* ------------------------------------------------------------------ specification state *)
Record sch := mkSch { sc_idx : N; sc_live : bool; sc_data : list Z; sc_dirty : bool }.
Notation swr := (list N * mode * list Z)%type.
Notation sstate := (list (N * sch) * list (N * swr))%type.

Fixpoint zinsert (x : Z) (l : list Z) : list Z :=
  match l with
  | [] => [x]
  | y :: r => if x <? y then x :: l else if x =? y then l else y :: zinsert x r
  end.
Definition zadd (l : list Z) (xs : list Z) : list Z := fold_left (fun acc x => zinsert x acc) xs l.

Definition upd_ch (chs : list (N * sch)) (c : N) (f : sch -> sch) : list (N * sch) :=
  match assoc chs c with Some x => assoc_set chs c (f x) | None => chs end.
Definition upd_chs (chs : list (N * sch)) (cs : list N) (f : sch -> sch) : list (N * sch) :=
  fold_left (fun acc c => upd_ch acc c f) cs chs.

Definition sstep (s : sstate) (o : sop) : sstate :=
  let '(chs, ws) := s in
  match o with
  | SCreate c idx => (assoc_set chs c (mkSch idx true [] false), ws)
  | SOpen w cs md => (chs, assoc_set ws w (cs, md, []))
  | SWrite w stamps =>
      match assoc ws w with
      | None => s
      | Some (cs, md, pend) =>
          match md with
          | MManual => (chs, assoc_set ws w (cs, md, pend ++ stamps))
          | MAlways => (upd_chs chs cs (fun x => mkSch (sc_idx x) (sc_live x) (zadd (sc_data x) stamps) false), ws)
          | MLazy => (upd_chs chs cs (fun x => mkSch (sc_idx x) (sc_live x) (zadd (sc_data x) stamps)
                                                 (match stamps with [] => sc_dirty x | _ => true end)), ws)
          end
      end
  | SCommit w =>
      match assoc ws w with
      | Some (cs, MManual, pend) =>
          (upd_chs chs cs (fun x => mkSch (sc_idx x) (sc_live x) (zadd (sc_data x) pend) (sc_dirty x)),
           assoc_set ws w (cs, MManual, []))
      | _ => s
      end
  | SClose w =>
      match assoc ws w with
      | Some (cs, MLazy, _) =>
          (upd_chs chs cs (fun x => mkSch (sc_idx x) (sc_live x) (sc_data x) false), assoc_del ws w)
      | Some _ => (chs, assoc_del ws w)
      | None => s
      end
  | SDelete cs a b =>
      (upd_chs chs cs (fun x => mkSch (sc_idx x) (sc_live x)
                                  (filter (fun t => negb ((a <=? t) && (t <? b))) (sc_data x)) (sc_dirty x)), ws)
  | SGC => s
  | SDelChan cs => (upd_chs chs cs (fun x => mkSch (sc_idx x) false [] false), ws)
  | SReopen => (map (fun kc => (fst kc, mkSch (sc_idx (snd kc)) (sc_live (snd kc)) (sc_data (snd kc)) false)) chs, [])
  | SWriteFault w =>
      match assoc ws w with
      | Some (cs, MLazy, _) =>
          (upd_chs chs cs (fun x => mkSch (sc_idx x) (sc_live x) (sc_data x) false), assoc_del ws w)
      | Some _ => (chs, assoc_del ws w)
      | None => s
      end
  | SWriteTF w stamps c =>
      match assoc ws w with
      | Some (cs, MAlways, _) =>
          (* the Write as a whole failed: none of its samples counts as durably committed, on
             any channel of the frame, until a later persist of that channel *)
          (upd_chs chs cs (fun x => mkSch (sc_idx x) (sc_live x) (zadd (sc_data x) stamps) true),
           assoc_del ws w)
      | _ => s
      end
  end.

Fixpoint strace (s : sstate) (l : list (sop * bool)) : list sstate :=
  s :: match l with
       | [] => []
       | (o, fails) :: r =>
           strace (match o with
                   | SWriteFault _ | SWriteTF _ _ _ => sstep s o   (* report an error AND take effect *)
                   | _ => if fails then s else sstep s o
                   end) r
       end.

Definition sample_value (c : N) (x : sch) (t : Z) : Z :=
  if N.eqb (sc_idx x) 0 then t else t * 1000 + Z.of_N c.

(* ------------------------------------------------------------------ the monitor *)
Definition zl_eqb (a b : list Z) : bool := list_eqb Z.eqb a b.

Definition follow_stamps (c : case_t) (o : obs) (k : N) : option (list Z) :=
  (* Some stamps: the follow-up wrote them to channel k and reported success *)
  match find (fun g => nmem k (fst g)) (c_follow c) with
  | Some (cs, f) =>
      match find (fun g => list_eqb N.eqb (fst g) cs) (ob_fw o) with
      | Some (_, true) => Some [f; f + 8]
      | _ => None
      end
  | None => None
  end.

Definition follow_failed (c : case_t) (o : obs) (k : N) : bool :=
  match find (fun g => nmem k (fst g)) (c_follow c) with
  | Some (cs, f) =>
      match find (fun g => list_eqb N.eqb (fst g) cs) (ob_fw o) with
      | Some (_, false) => true
      | _ => false
      end
  | None => false
  end.

Definition find_ch (l : list chobs) (k : N) : option chobs := find (fun x => N.eqb (co_key x) k) l.

(* the live record of channel k in specification state s *)
Definition live_ch (s : sstate) (k : N) : option sch :=
  match assoc (fst s) k with Some x => if sc_live x then Some x else None | None => None end.

(* do the whole-range reads of channel k (after reopen, and after the follow-up write)
   agree with specification state s ? *)
Definition full_matches (c : case_t) (o : obs) (k : N) (s : sstate) : bool :=
  match live_ch s k, find_ch (ob_ch o) k with
  | None, Some x => chst_eqb (co_st x) CAbsent &&
                    match find_ch (ob_ch2 o) k with Some y => chst_eqb (co_st y) CAbsent | None => true end
  | None, None => true
  | Some x, Some y =>
      let vals := map (sample_value k x) (sc_data x) in
      chst_eqb (co_st y) COk && zl_eqb (co_full y) vals &&
      match find_ch (ob_ch2 o) k with
      | None => true
      | Some z =>
          chst_eqb (co_st z) COk &&
          match follow_stamps c o k with
          | Some fs => zl_eqb (co_full z) (vals ++ map (sample_value k x) fs)
          | None =>
              zl_eqb (co_full z) vals ||
              (follow_failed c o k &&
               match find (fun g => nmem k (fst g)) (c_follow c) with
               | Some (_, f) => zl_eqb (co_full z) (vals ++ map (sample_value k x) [f; f + 8])
               | None => false
               end)
          end
      end
  | Some _, None => false
  end.

(* does the narrow read [p, p+1) number i of channel k agree with specification state s ?
   (An absent channel has no narrow reads.) *)
Definition nar_matches (o : obs) (k : N) (i : nat) (p : Z) (s : sstate) : bool :=
  let want := match live_ch s k with
              | Some x => if existsb (Z.eqb p) (sc_data x) then [sample_value k x p] else []
              | None => []
              end in
  let chk (l : list chobs) :=
    match find_ch l k with
    | Some y => match nth_error (co_nar y) i with Some got => zl_eqb got want | None => true end
    | None => true
    end in
  chk (ob_ch o) && chk (ob_ch2 o).

(* channel k is consistent at this image: its whole-range reads equal one allowed state,
   and every narrow read equals what some allowed state holds at that stamp (a crash
   between the per-channel commits of one frame may leave a data channel one commit
   ahead of the index channel its time lookups go through) *)
Definition ch_consistent (c : case_t) (o : obs) (k : N) (probes : list Z) (al : list sstate) : bool :=
  existsb (full_matches c o k) al &&
  forallb (fun ip => existsb (nar_matches o k (fst ip) (snd ip)) al)
          (combine (seq 0 (length probes)) probes).

Definition completed (bounds : list nat) (k : nat) : nat := length (filter (fun b => (b <=? k)%nat) bounds).

Definition in_progress (bounds : list nat) (k t : nat) : bool :=
  let i := completed bounds k in
  negb (Nat.eqb t 0) ||
  ((i <? length bounds)%nat && (match i with O => (0 <? k)%nat | S j => (nth j bounds O <? k)%nat end)).

Definition ch_dirty (s : sstate) (k : N) : bool :=
  match assoc (fst s) k with Some x => sc_dirty x | None => false end.

(* states allowed for channel k at the image: from the last state at which everything
   committed to k had been persisted, up to the state after the operation in progress *)
Definition allowed (tr : list sstate) (k : N) (i : nat) (upper : nat) : list sstate :=
  let idxs := seq 0 (S i) in
  let d := last (filter (fun j => negb (ch_dirty (nth j tr ([], [])) k)) idxs) O in
  map (fun j => nth j tr ([], [])) (seq d (S upper - d)).

(* ---- windows of the known findings (Crash.win_step), per channel directory *)
Definition wins := list (N * win).
Definition win_of (ws : wins) (c : N) : win := match assoc ws c with Some w => w | None => win0 end.
Definition wins_apply (ws : wins) (co : N * fsop) : wins := assoc_set ws (fst co) (win_step (win_of ws (fst co)) (snd co)).
Definition wins_image (ws : wins) (next : option (N * fsop)) (t : nat) : wins :=
  match t, next with
  | S _, Some (c, o) => assoc_set ws c (win_torn (win_of ws c) o)
  | _, _ => ws
  end.

Fixpoint wwalk {A} (f : wins -> nat * nat * nat -> A)
         (log : list (N * fsop)) (pos : nat) (ws : wins) (imgs : list (nat * nat * nat)) (fuel : nat) : list A :=
  match fuel with
  | O => []
  | S fu =>
      match imgs with
      | [] => []
      | (k, t, o) :: r =>
          if (pos <? k)%nat then
            match log with
            | [] => []
            | co :: log' => wwalk f log' (S pos) (wins_apply ws co) imgs fu
            end
          else f (wins_image ws (hd_error log) t) (k, t, o) :: wwalk f log pos ws r fu
      end
  end.

Definition chan_index (c : case_t) (k : N) : N :=
  match find (fun ob => match fst ob with SCreate c' _ => N.eqb c' k | _ => false end) (c_script c) with
  | Some (SCreate _ idx, _) => idx
  | _ => 0%N
  end.

(* class of the window channel k (or the index channel its reads go through) is in *)
Definition chan_class (c : case_t) (ws : wins) (k : N) : nat :=
  let own := win_class (win_of ws k) in
  match own with
  | O => let idx := chan_index c k in if N.eqb idx 0 then O else win_class (win_of ws idx)
  | _ => own
  end.

(* violations of one image: list of window classes, one per violated clause *)
Definition image_violations (c : case_t) (tr : list sstate) (ws : wins) (kto : nat * nat * nat) : list nat :=
  let '(k, t, oi) := kto in
  match get_obs c oi with
  | None => [0%nat]
  | Some o =>
      if negb (ob_open o) then
        [if existsb (fun cw => Nat.eqb (win_class (snd cw)) 1) ws then 1%nat else 0%nat]
      else
        let i := completed (c_bounds c) k in
        let upper := if in_progress (c_bounds c) k t then S i else i in
        flat_map (fun cc =>
            if ch_consistent c o (cc_key cc) (cc_probes cc) (allowed tr (cc_key cc) i upper)
            then [] else [chan_class c ws (cc_key cc)])
          (c_chans c)
  end.

Definition case_violations (c : case_t) : list nat :=
  let tr := strace ([], []) (c_script c) in
  concat (wwalk (fun ws kto => image_violations c tr ws kto) (c_glog c) O [] (c_imgs c) (walk_fuel c)).

(* the monitor.  Full: every image must satisfy the property.  Otherwise only the images
   outside the windows of the known findings are judged (the windows themselves are
   exercised by the witness cases, which are run with c_full = true). *)
Definition violates (c : case_t) : bool :=
  if c_full c then negb (match case_violations c with [] => true | _ => false end)
  else existsb (Nat.eqb 0) (case_violations c).

Definition mismatches (cs : list case_t) : list nat := find_idx mismatch cs.
Definition violations (cs : list case_t) : list nat := find_idx violates cs.

(* window classes of all violations of a case (for the known-finding signature) *)
Definition viol_tags (c : case_t) : list nat := nodup Nat.eq_dec (case_violations c).

(* diagnostics *)
Definition viol_detail (c : case_t) : list (nat * nat * list nat) :=
  let tr := strace ([], []) (c_script c) in
  concat (wwalk (fun ws kto => match image_violations c tr ws kto with
                               | [] => []
                               | l => [(fst (fst kto), snd (fst kto), l)]
                               end) (c_glog c) O [] (c_imgs c) (walk_fuel c)).

Definition model_dump (c : case_t) :=
  map (fun cc =>
     let '(_, ess, ocs) := run (init (c_cap c) (c_thr c)) (map fst (cc_ops cc)) in
     (cc_key cc, concat ess, ocs)) (c_chans c).

Definition mismatch_detail (c : case_t) : bool * bool * list (nat * nat) :=
  (log_mismatch c, errs_mismatch c, bad_images c).

Definition predict_at (c : case_t) (k t : nat) : list domobs :=
  concat (walk (fun ds next kto =>
             if Nat.eqb (fst (fst kto)) k && Nat.eqb (snd (fst kto)) t then
               let ds' := image_dirs ds next t in
               flat_map (fun cc => match dir_of ds' (cc_key cc) with
                                   | Some fs => [predict (c_cap c) (c_thr c) (c_dfollow c) (cc_key cc) (cc_probes cc) (Some fs)]
                                   | None => []
                                   end) (c_chans c)
             else [])
          (c_glog c) O [] (c_imgs c) (walk_fuel c)).
