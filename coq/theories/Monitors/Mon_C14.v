(* Monitors/Mon_C14.v — decidable statement of C14 on the per-side observations of one stream
   (what Send / CloseSend / Receive returned on the client, what Receive / Send returned inside
   the handler and what the handler returned), and the model-vs-implementation comparison
   (trace inclusion in the Stream LTS) used by the generated case files. *)
From Coq Require Import List NArith Bool String Arith.
From Synnax Require Import Common.Base Generated.Consts_C14 Freighter.Stream.
Import ListNotations.
Local Open Scope N_scope.

(* ---------------------------------------------------------------- the property *)

(* The registered error kinds and the Wrap hierarchy of the provider packages, pinned here by
   hand (the monitor must not move with the code): 1 freighter.EOF 2 freighter.ErrStreamClosed
   3 query.ErrNotFound 4 query.ErrUniqueViolation 5 query.ErrInvalidParameters 6 query.ErrQuery
   7 control.ErrUnauthorized 9 validate.ErrValidation are encoded by a provider; 8 control.ErrControl
   and 10/11/12 validate.ErrRequired/ErrInvalidType/ErrConversion are declared but not encoded.
   StreamErrors.parents_pinned / registered_pinned / agree (Properties: C14_tables_pinned) prove
   that the tables regenerated from the Go sources agree. *)
Definition reg_kinds : list N := [1; 2; 3; 4; 5; 6; 7; 9].
Definition kind_parents : list (N * N) := [(3, 6); (4, 6); (5, 6); (7, 8); (10, 9); (11, 9); (12, 9)].
Definition misa (k s : N) : bool := isa_tab kind_parents k s.

(* the registered kind of an error: the nearest sentinel on its Wrap chain that a provider encodes *)
Fixpoint reg_anc_fuel (fuel : nat) (k : N) : option N :=
  if existsb (N.eqb k) reg_kinds then Some k else
  match fuel with
  | O => None
  | S f => match find (fun p => fst p =? k) kind_parents with
           | Some (_, q) => reg_anc_fuel f q
           | None => None
           end
  end.
Definition reg_anc (k : N) : option N := reg_anc_fuel (List.length kind_parents) k.

(* does the error the client received match what the handler returned?
   nil => end-of-stream; an error of a registered kind => errors.Is against that kind's sentinel
   still holds (PathError: still a PathError whose inner error matches); any other error => an
   error, not end-of-stream. *)
Definition matches (e : option err) (o : trip) : bool :=
  let cls := fst (fst o) in
  let inner := snd (fst o) in
  match e with
  | None => cls =? cEOF
  | Some e =>
      if e_path e then
        (cls =? cPath) &&
        match reg_anc (e_kind e) with Some s => misa inner s | None => true end
      else
        match reg_anc (e_kind e) with
        | Some s => misa cls s
        | None => negb (cls =? cEOF)
        end
  end.

(* what the client offered to the wire, from its own observations: every Send (a Send that
   returned an error may or may not have been delivered: optional), then the end marker of the
   first successful CloseSend; nothing after that *)
Fixpoint c_offered (cl : list lab) : list (option pay * bool) :=
  match cl with
  | [] => []
  | CSend x ROk :: rest => (Some x, true) :: c_offered rest
  | CSend x _ :: rest => (Some x, false) :: c_offered rest
  | CClose ROk :: _ => [(None, true)]
  | _ :: rest => c_offered rest
  end.

(* what the handler saw: the values, then the end marker at its first Receive error *)
Fixpoint h_seen (hl : list lab) : list (option pay) :=
  match hl with
  | [] => []
  | HRecv (RVal x) :: rest => Some x :: h_seen rest
  | HRecv _ :: _ => [None]
  | _ :: rest => h_seen rest
  end.

Definition opay_eqb (a b : option pay) : bool :=
  match a, b with
  | Some x, Some y => x =? y
  | None, None => true
  | _, _ => false
  end.

(* [seen] is a prefix of [offered] with the optional entries possibly left out *)
Fixpoint pre (seen : list (option pay)) (offered : list (option pay * bool)) : bool :=
  match seen with
  | [] => true
  | x :: seen' =>
      match offered with
      | [] => false
      | (y, true) :: off' => opay_eqb x y && pre seen' off'
      | (y, false) :: off' => (opay_eqb x y && pre seen' off') || pre seen off'
      end
  end.

(* the handler's Receive errors: end-of-stream class, and always the same one *)
Fixpoint h_errs (hl : list lab) : list trip :=
  match hl with
  | [] => []
  | HRecv (RErr c i m) :: rest => (c, i, m) :: h_errs rest
  | _ :: rest => h_errs rest
  end.
(* after its first Receive error the handler never receives a value again *)
Fixpoint h_no_val_after_err (hl : list lab) (seen_err : bool) : bool :=
  match hl with
  | [] => true
  | HRecv (RVal _) :: rest => negb seen_err && h_no_val_after_err rest seen_err
  | HRecv (RErr _ _ _) :: rest => h_no_val_after_err rest true
  | HRecv ROk :: _ => false
  | _ :: rest => h_no_val_after_err rest seen_err
  end.

Definition all_same (l : list trip) : bool :=
  match l with
  | [] => true
  | o :: rest => forallb (trip_eqb o) rest
  end.

(* what the handler offered: its successful sends, then the terminal result *)
Fixpoint h_offered (hl : list lab) : list (pay * bool + option err) :=
  match hl with
  | [] => []
  | HSend y ROk :: rest => inl (y, true) :: h_offered rest
  | HSend y _ :: rest => inl (y, false) :: h_offered rest
  | HRet e :: _ => [inr e]
  | _ :: rest => h_offered rest
  end.

(* what the client saw: values, then its first Receive error *)
Fixpoint c_seen (cl : list lab) : list (pay + trip) :=
  match cl with
  | [] => []
  | CRecv (RVal y) :: rest => inl y :: c_seen rest
  | CRecv (RErr c i m) :: _ => [inr (c, i, m)]
  | CRecv ROk :: _ => [inr (0, 0, [])]
  | _ :: rest => c_seen rest
  end.

Fixpoint pre2 (seen : list (pay + trip)) (offered : list (pay * bool + option err)) : bool :=
  match seen with
  | [] => true
  | inl y :: seen' =>
      match offered with
      | inl (y', true) :: off' => (y =? y') && pre2 seen' off'
      | inl (y', false) :: off' => ((y =? y') && pre2 seen' off') || pre2 seen off'
      | _ => false
      end
  | inr o :: _ =>
      match offered with
      | inr e :: _ => matches e o
      | inl (_, false) :: off' => pre2 seen off'
      | _ => false        (* a terminal error while a sent response was never delivered, or
                             before the handler returned *)
      end
  end.

Fixpoint c_errs (cl : list lab) : list trip :=
  match cl with
  | [] => []
  | CRecv (RErr c i m) :: rest => (c, i, m) :: c_errs rest
  | _ :: rest => c_errs rest
  end.
Fixpoint c_no_val_after_err (cl : list lab) (seen_err : bool) : bool :=
  match cl with
  | [] => true
  | CRecv (RVal _) :: rest => negb seen_err && c_no_val_after_err rest seen_err
  | CRecv (RErr _ _ _) :: rest => c_no_val_after_err rest true
  | CRecv ROk :: _ => false
  | _ :: rest => c_no_val_after_err rest seen_err
  end.

(* The monitor, applied to IMPLEMENTATION observations.
   (1) requests: what the handler received is a prefix, in order, without duplicates, of what
       the client sent; it sees end-of-stream only after the client closed its sending side and
       only after every earlier request; that end-of-stream is EOF and repeats.
   (2) responses: what the client received is a prefix, in order, without duplicates, of what
       the handler sent; it sees a terminal error only after the handler returned and after
       every response sent before the return; the error matches the handler's result; every
       later Receive returns the same error. CloseSend does not enter (2) at all: the client
       can still receive. *)
Definition ok_C14 (cl hl : list lab) : bool :=
  pre (h_seen hl) (c_offered cl) &&
  forallb (fun o => fst (fst o) =? cEOF) (h_errs hl) && all_same (h_errs hl) &&
  h_no_val_after_err hl false &&
  pre2 (c_seen cl) (h_offered hl) &&
  all_same (c_errs cl) && c_no_val_after_err cl false.

(* ---------------------------------------------------------------- case files *)

(* (transport, client observations, handler observations) *)
Definition case_t : Type := (N * list lab * list lab)%type.

(* mock, websocket and grpc are each checked against their own exact profile *)
Definition prof_of (t : N) : N := if t =? 0 then 0 else if (t =? 1) || (t =? 2) then 2 else 3.

Definition mismatch (c : case_t) : bool :=
  let '(t, cl, hl) := c in negb (accepts (prof_of t) t cl hl).

Definition violates (c : case_t) : bool :=
  let '(t, cl, hl) := c in negb (ok_C14 cl hl).

Definition mismatches (cs : list case_t) : list nat := find_idx mismatch cs.
Definition violations (cs : list case_t) : list nat := find_idx violates cs.

(* for replays: where the checker stops, and the image the model predicts for the handler's
   terminal result on that transport *)
Definition ret_of (hl : list lab) : option err :=
  match h_offered hl with
  | l => match last l (inr None) with inr e => e | inl _ => None end
  end.
Definition model_dump (c : case_t) : (nat * nat) * image * bool * bool :=
  let '(t, cl, hl) := c in
  (greedy_pos (List.length cl + List.length hl) (prof_of t) t init cl hl 0 0,
   wire t (ret_of hl), accepts (prof_of t) t cl hl, ok_C14 cl hl).
