(* Monitors/Mon_C04.v — case type, model-vs-implementation comparison and the decidable
   monitor of property C04 on the IMPLEMENTATION's observations.

   A case is a database configuration, a fixed list of read ranges (the first one is the
   whole time line [0, MAX)), and a script; every step carries what the implementation
   returned after it: error flag, total size, and per channel the persisted pointers, the
   data-file sizes and the result of reading every range.

   [mismatches]: the model's observation after every step differs from the implementation's
   (exact comparison of everything listed above).
   [violations]: the property itself, on the implementation's reads only:
     - a successful DeleteTimeRange(chs, [a,b)) leaves, for every channel in chs and every
       range, exactly the previously read (stamp, value) pairs whose stamp is outside [a,b);
       every other channel reads exactly as before;
     - DeleteTimeRange may fail only for a malformed request (inverted or zero range, unknown
       channel) or through the index guard (a channel indexed by a named index channel owns a
       domain overlapping [a,b)); a failed call leaves each named channel
       either unchanged or exactly reduced (no third outcome), other channels unchanged;
     - DeleteTimeRange naming an index channel while a channel it indexes (not itself named)
       has a sample with stamp in [a,b) must fail and leave the index channel unchanged;
     - GC and reopen change no read;
     - the history is judged up to the first failed write (a failed multi-channel write may
       leave a channel committed without its index: not this property's subject).
   Data samples get their stamps from the index channel's read of the whole time line in
   the same observation (the k-th value of a series covering [s,e) carries the k-th index
   stamp in [s,e)); a series whose length differs from the number of such stamps cannot be
   attributed and is skipped on the "before" side (that would be a read defect, C01). *)
From Coq Require Import ZArith List Bool.
From Synnax Require Import Common.Base Cesium.Store Cesium.IndexSearch Cesium.Distance
  Cesium.Stamp Cesium.DeleteModel Cesium.GCModel Cesium.DeleteCheck Cesium.ReadDB.
Import ListNotations.
Local Open Scope Z_scope.

(* ---- observations ---- *)
Definition sobs := (Z * Z * list Z)%type.                 (* series: start, end, values *)
Definition robs := list sobs.                              (* one read *)
Definition pobs := (Z * Z * Z * Z * Z)%type.              (* start, end, file, offset, size *)
Definition cobs := (Z * list pobs * list (Z * Z) * list robs)%type.  (* key, ptrs, files, reads *)
Definition oobs := (Z * Z * list cobs)%type.              (* error class, db size, channels *)
(* error class: 0 = no error, 1 = refused by the index-channel guard, 2 = any other error *)
Definition failed_of (o : oobs) : bool := negb (fst (fst o) =? 0).

Definition case_t : Type :=
  (Z * Z * list chdecl * list (Z * Z) * list (op * oobs))%type.
  (* file size cap, GC threshold in bytes, channels, ranges, steps *)

(* ---- the model's observation ---- *)
Definition obs_series (s : rseries) : sobs :=
  (t_s (rs_tr s), t_e (rs_tr s), map s_val (rs_data s)).
Definition obs_ptr (p : ptr) : pobs :=
  (t_s (p_tr p), t_e (p_tr p), p_file p, p_off p, p_size p).
Definition obs_chan (d : db) (ranges : list (Z * Z)) (kc : Z * chan) : cobs :=
  let '(k, c) := kc in
  (k, map obs_ptr (c_ptrs c), map (fun f => (f, file_size c f)) (file_keys c),
   map (fun r => map obs_series (read d k (TR (fst r) (snd r)))) ranges).
Definition db_size (d : db) : Z :=
  fold_right (fun kc acc => sum_sizes (c_ptrs (snd kc)) + acc) 0 d.
Definition obs_db (d : db) (ranges : list (Z * Z)) (e : option err) : oobs :=
  (match e with Some EConflict => 1 | Some _ => 2 | None => 0 end, db_size d, map (obs_chan d ranges) d).

Fixpoint model_trace (fx : bool) (g : gcfg) (ranges : list (Z * Z)) (d : db) (ops : list op) : list oobs :=
  match ops with
  | [] => []
  | o :: r => let '(d', e) := step fx g d o in obs_db d' ranges e :: model_trace fx g ranges d' r
  end.

(* ---- flat encoding for comparison ---- *)
Definition enc_list {A} (f : A -> list Z) (l : list A) : list Z :=
  Z.of_nat (length l) :: flat_map f l.
Definition enc_sobs (s : sobs) : list Z := let '(a, b, v) := s in a :: b :: enc_list (fun x => [x]) v.
Definition enc_pobs (p : pobs) : list Z := let '(a, b, f, o, s) := p in [a; b; f; o; s].
Definition enc_cobs (c : cobs) : list Z :=
  let '(k, ps, fs, rs) := c in
  k :: enc_list enc_pobs ps ++ enc_list (fun f => [fst f; snd f]) fs ++
       enc_list (enc_list enc_sobs) rs.
Definition enc_oobs (o : oobs) : list Z :=
  let '(e, sz, cs) := o in e :: sz :: enc_list enc_cobs cs.

Fixpoint zlist_eqb (a b : list Z) : bool :=
  match a, b with
  | [], [] => true
  | x :: a', y :: b' => (x =? y) && zlist_eqb a' b'
  | _, _ => false
  end.

Definition case_ops (c : case_t) : list op := map fst (snd c).
(* which code the correspondence compares against: /repo with the C04 fix commit *)
Definition repo_fx : bool := true.

Definition case_model_fx (fx : bool) (c : case_t) : list oobs :=
  let '(cap, thr, chs, ranges, steps) := c in
  model_trace fx (mk_gcfg cap thr) ranges (init_db chs) (map fst steps).
Definition case_model (c : case_t) : list oobs := case_model_fx repo_fx c.
Definition case_model_old (c : case_t) : list oobs :=
  let '(cap, thr, chs, ranges, steps) := c in
  model_trace false (mk_gcfg cap thr) ranges (init_db chs) (map fst steps).

(* every state the model goes through satisfies the invariant and the index coverage under
   which the theorems of Properties/C04.v are proved (DeleteCheck.db_okb, ReadDB.db_covb, both
   sound by proof) *)
(* (up to the first failed write: a failed multi-channel write may commit on some of its
   channels only, which leaves the invariant — see [failed_write] below) *)
Fixpoint model_states (fx : bool) (g : gcfg) (d : db) (ops : list op) : list db :=
  match ops with
  | [] => []
  | o :: r =>
      let '(d', e) := step fx g d o in
      match o, e with
      | OWrite _ _, Some _ => []
      | _, _ => d' :: model_states fx g d' r
      end
  end.
Definition inv_holds (c : case_t) : bool :=
  let '(cap, thr, chs, ranges, steps) := c in
  forallb (fun d => db_okb d && db_covb d) (model_states repo_fx (mk_gcfg cap thr) (init_db chs) (map fst steps)).

Definition mismatch_obs (c : case_t) : bool :=
  let '(cap, thr, chs, ranges, steps) := c in
  negb (zlist_eqb (enc_list enc_oobs (case_model c)) (enc_list enc_oobs (map snd steps))).

(* a case "mismatches" if the model's observations differ from the implementation's, or if
   the model leaves the invariant *)
Definition mismatch (c : case_t) : bool := mismatch_obs c || negb (inv_holds c).

(* the same comparison against the model of the pinned upstream code (used by the
   detection self-tests: reverting the fix commit must flip both) *)
Definition mismatch_old (c : case_t) : bool :=
  let '(cap, thr, chs, ranges, steps) := c in
  negb (zlist_eqb (enc_list enc_oobs (case_model_old c)) (enc_list enc_oobs (map snd steps))).
Definition mismatches_old (cs : list case_t) : list nat := find_idx mismatch_old cs.

(* index of the first step whose observation differs (for diagnostics) *)
Fixpoint first_diff (m i : list oobs) (n : nat) : option nat :=
  match m, i with
  | x :: m', y :: i' => if zlist_eqb (enc_oobs x) (enc_oobs y) then first_diff m' i' (S n) else Some n
  | [], [] => None
  | _, _ => Some n
  end.

(* ---- the monitor ---- *)
Definition reads_of (o : oobs) (k : Z) : list robs :=
  match find (fun c : cobs => let '(k', _, _, _) := c in k' =? k) (snd o) with
  | Some (_, _, _, rs) => rs
  | None => []
  end.

Definition robs_eqb (a b : robs) : bool :=
  zlist_eqb (enc_list enc_sobs a) (enc_list enc_sobs b).
Definition reads_eqb (a b : list robs) : bool :=
  zlist_eqb (enc_list (enc_list enc_sobs) a) (enc_list (enc_list enc_sobs) b).

(* all index stamps readable over the whole time line (range 0) *)
Definition all_stamps (o : oobs) (ix : Z) : list Z :=
  match reads_of o ix with
  | r0 :: _ => flat_map (fun s : sobs => snd s) r0
  | [] => []
  end.

(* (stamp, value) pairs of one read; None if a series cannot be attributed *)
Fixpoint stamped (stamps : list Z) (r : robs) : option (list (Z * Z)) :=
  match r with
  | [] => Some []
  | (s, e, vals) :: rest =>
      let st := filter (fun t => (s <=? t) && (t <? e)) stamps in
      if Nat.eqb (length st) (length vals) then
        match stamped stamps rest with
        | Some l => Some (combine st vals ++ l)
        | None => None
        end
      else None
  end.

Definition outside (a b : Z) (tv : Z * Z) : bool := negb ((a <=? fst tv) && (fst tv <? b)).
Definition pairs_eqb (x y : list (Z * Z)) : bool :=
  zlist_eqb (flat_map (fun p => [fst p; snd p]) x) (flat_map (fun p => [fst p; snd p]) y).
Definition values_of (r : robs) : list Z := flat_map (fun s : sobs => snd s) r.

(* read [r1] is read [r0] minus the samples stamped in [a,b) *)
Definition reduced (st0 st1 : list Z) (a b : Z) (r0 r1 : robs) : bool :=
  match stamped st0 r0 with
  | None => true                         (* not attributable before: skipped *)
  | Some l0 =>
      let want := filter (outside a b) l0 in
      zlist_eqb (values_of r1) (map snd want) &&
      match stamped st1 r1 with
      | Some l1 => pairs_eqb l1 want
      | None => false
      end
  end.

Fixpoint forall2b {A B} (f : A -> B -> bool) (x : list A) (y : list B) : bool :=
  match x, y with
  | [], [] => true
  | a :: x', b :: y' => f a b && forall2b f x' y'
  | _, _ => false
  end.

Definition index_of (chs : list chdecl) (k : Z) : Z :=
  match find (fun x : chdecl => let '(k', _, _, _, _) := x in k' =? k) chs with
  | Some (_, ix, _, _, _) => ix
  | None => k
  end.
Definition is_index (chs : list chdecl) (k : Z) : bool :=
  match find (fun x : chdecl => let '(k', _, _, _, _) := x in k' =? k) chs with
  | Some (_, _, b, _, _) => b
  | None => false
  end.
Definition keys_of (chs : list chdecl) : list Z := map (fun x : chdecl => let '(k, _, _, _, _) := x in k) chs.
Definition memz (k : Z) (l : list Z) : bool := existsb (Z.eqb k) l.

Definition chan_reduced (chs : list chdecl) (o0 o1 : oobs) (a b k : Z) : bool :=
  let ix := index_of chs k in
  forall2b (reduced (all_stamps o0 ix) (all_stamps o1 ix) a b) (reads_of o0 k) (reads_of o1 k).
Definition chan_same (o0 o1 : oobs) (k : Z) : bool := reads_eqb (reads_of o0 k) (reads_of o1 k).

(* a dependant of index channel [k], not named in the call, has a sample in [a,b) *)
Definition dependant_in_range (chs : list chdecl) (named : list Z) (o0 : oobs) (a b k : Z) : bool :=
  existsb (fun k' =>
    negb (k' =? k) && (index_of chs k' =? k) && negb (memz k' named) &&
    match reads_of o0 k' with
    | r0 :: _ =>
        match stamped (all_stamps o0 k) r0 with
        | Some l => existsb (fun tv => negb (outside a b tv)) l
        | None => false
        end
    | [] => false
    end) (keys_of chs).

(* a dependant of index channel [k] owns a domain overlapping [a,b) (the series of the
   whole-time-line read are the channel's non-empty domains); for a dependant named in the
   same call the domains left after its own deletion count (data channels are deleted first) *)
Definition dependant_domain_overlaps (chs : list chdecl) (named : list Z) (o0 o1 : oobs) (a b k : Z) : bool :=
  existsb (fun k' =>
    negb (k' =? k) && (index_of chs k' =? k) &&
    match reads_of (if memz k' named then o1 else o0) k' with
    | r0 :: _ => existsb (fun s : sobs => let '(s0, e0, _) := s in
                   if a =? b then (s0 <=? a) && (a <? e0) else (Z.max s0 a <? Z.min e0 b)) r0
    | [] => false
    end) (keys_of chs).

(* the only reasons for which DeleteTimeRange may refuse: the index guard (error class 1; a
   channel indexed by a named index channel owns a domain overlapping [a,b) — the guard is
   stated on domains by the implementation, on samples by the property: both readings are
   accepted where they differ), or a malformed request (class 2: inverted or zero range,
   unknown channel) *)
Definition may_fail (chs : list chdecl) (named : list Z) (a b : Z) (o0 o1 : oobs) : bool :=
  (b <? a) || ((a =? 0) && (b =? 0)) || existsb (fun k => negb (memz k (keys_of chs))) named ||
  ((fst (fst o1) =? 1) &&
   existsb (fun k => is_index chs k && dependant_domain_overlaps chs named o0 o1 a b k) named).

Definition ok_delete (chs : list chdecl) (named : list Z) (a b : Z) (o0 o1 : oobs) : bool :=
  let failed := failed_of o1 in
  (if failed then may_fail chs named a b o0 o1 else true) &&
  forallb (fun k =>
    if memz k named then
      (if failed then chan_same o0 o1 k || chan_reduced chs o0 o1 a b k
       else chan_reduced chs o0 o1 a b k) &&
      (if is_index chs k && dependant_in_range chs named o0 a b k
       then failed && chan_same o0 o1 k else true)
    else chan_same o0 o1 k) (keys_of chs).

Definition ok_same (chs : list chdecl) (o0 o1 : oobs) : bool :=
  forallb (chan_same o0 o1) (keys_of chs).

Definition ok_step (chs : list chdecl) (o0 : oobs) (o : op) (o1 : oobs) : bool :=
  match o with
  | ODelete named a b => ok_delete chs named a b o0 o1
  | OGC => negb (failed_of o1) && ok_same chs o0 o1
  | OReopen => ok_same chs o0 o1
  | OWrite _ _ => true
  end.

(* A write that fails may have committed on some of its channels only (each channel of a
   writer commits on its own); such a state is outside this property (C03: conflicting writes
   fail cleanly): the monitor stops judging the history there. *)
Definition failed_write (o : op) (o1 : oobs) : bool :=
  match o with OWrite _ _ => failed_of o1 | _ => false end.

Fixpoint ok_steps (chs : list chdecl) (o0 : oobs) (steps : list (op * oobs)) : bool :=
  match steps with
  | [] => true
  | (o, o1) :: r => if failed_write o o1 then true else ok_step chs o0 o o1 && ok_steps chs o1 r
  end.

(* the observation of the freshly created database: nothing readable *)
Definition empty_obs (chs : list chdecl) (ranges : list (Z * Z)) : oobs :=
  (0, 0, map (fun k => (k, [], [], map (fun _ => []) ranges)) (keys_of chs)).

Definition ok_C04 (c : case_t) : bool :=
  let '(cap, thr, chs, ranges, steps) := c in
  ok_steps chs (empty_obs chs ranges) steps.

Definition violates (c : case_t) : bool := negb (ok_C04 c).

(* diagnostics: indices of the steps the monitor rejects *)
Fixpoint bad_steps_from (chs : list chdecl) (o0 : oobs) (steps : list (op * oobs)) (n : nat) : list nat :=
  match steps with
  | [] => []
  | (o, o1) :: r =>
      if failed_write o o1 then [] else
      (if ok_step chs o0 o o1 then [] else [n]) ++ bad_steps_from chs o1 r (S n)
  end.
Definition bad_steps (c : case_t) : list nat :=
  let '(cap, thr, chs, ranges, steps) := c in
  bad_steps_from chs (empty_obs chs ranges) steps 0.

Definition mismatches (cs : list case_t) : list nat := find_idx mismatch cs.
Definition violations (cs : list case_t) : list nat := find_idx violates cs.

(* diagnostics: first differing step and the model's observation there *)
Definition model_dump (c : case_t) : option nat * list oobs :=
  let m := case_model c in
  let d := first_diff m (map snd (snd c)) 0 in
  (d, match d with Some n => firstn 1 (skipn n m) | None => [] end).
