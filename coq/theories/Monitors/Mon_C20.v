(* Monitors/Mon_C20.v — case type, model-vs-implementation comparison (trace inclusion in
   the LTS of Cesium/Relay.v plus the deterministic outcome of every driver operation) and
   the decidable monitor for C20 evaluated on the IMPLEMENTATION's observations. *)
From stdpp Require Import base list numbers.
From Coq Require Import NArith Bool List.
Import ListNotations.
From Synnax Require Import Common.Base Cesium.Relay.
Local Open Scope N_scope.

(* channels, relay capacity, slow-consumer timeout (ms) *)
Definition cfg_t : Type := list (N * ckind) * nat * N.
(* script with the outcome the implementation reported for every operation (the last
   operations are the harness's teardown: resume every consumer, final barrier), and what
   every streamer's consumer received, in order *)
Definition case_t : Type := cfg_t * list (op * outcome) * observation.

(* ------------------------------------------------------------------ correspondence *)
Fixpoint run_check (obs : observation) (sts : list state) (script : list (op * outcome)) : bool :=
  match script with
  | [] => existsb (final_ok obs) sts
  | (o, out) :: r =>
      forallb (fun st => bool_decide (op_outcome st o = out)) sts &&
      run_check obs (after_op obs sts o) r
  end.

Definition mismatch (c : case_t) : bool :=
  let '(chans, cap, _, script, obs) := c in
  negb (run_check obs (closure obs [init chans cap]) script).

(* ------------------------------------------------------------------ monitor *)
(* Control replay following the outcomes the implementation reported: who holds which
   gate with which authority when a write happens (the authorization of C05). *)
Definition ctl_step (st : state) (oo : op * outcome) : state :=
  match oo with
  | (OpenW w m chans auths, OOk _) =>
      match chan_auths chans auths with
      | Some ca => State (st_unowned st) (st_deadinlet st) (st_chans st) (st_cap st) (st_writers st ++ [(w, Writer true m ca (st_npos st) 0)]) []
                         (st_npos st + 1) [] [] false []
      | None => st
      end
  | (CloseW w, OOk _) => close_writer st w
  | (SetAuth w a, OOk _) => hd st (vstep st (SetAuth w a))
  | (Write w _ _, OErr) => close_writer st w
  | _ => st
  end.

Record wrec := WRec {
  wr_idx : nat;          (* index of the operation that issues the write *)
  wr_hi : nat;           (* index of the operation by which the Write call has returned
                            (the Write itself, or the Join of a background writer) *)
  wr_w : N; wr_seq : N;
  wr_orig : list N;      (* keys written *)
  wr_good : list N;      (* keys the writer holds and is authorized on *)
  wr_unauth : list N;    (* keys the writer holds but is not authorized on *)
  wr_unowned : list N;   (* keys the writer never opened *)
  wr_streams : bool;
  wr_done : bool         (* the Write call reported success *)
}.

Definition mk_wrec (st : state) (i hi : nat) (w q : N) (ks : list N) (done : bool) : wrec :=
  match open_writer_of st w with
  | Some wr =>
      WRec i hi w q ks
           (filter (fun k => owned wr k && negb (excluded st w wr ks k)) ks)
           (filter (fun k => owned wr k && excluded st w wr ks k) ks)
           (filter (fun k => negb (owned wr k)) ks)
           (streams (w_mode wr)) done
  | None => WRec i hi w q ks [] [] ks false false
  end.
Fixpoint find_join (w : N) (j : nat) (sc : list (op * outcome)) : nat :=
  match sc with
  | [] => j
  | (Join w', OOk _) :: r => if w' =? w then j else find_join w (S j) r
  | _ :: r => find_join w (S j) r
  end.
(* does the control state change between a BgWrites and its Join? (then who is authorized
   when the background goroutine writes is not determined by the script) *)
Fixpoint ctl_quiet (w : N) (sc : list (op * outcome)) : bool :=
  match sc with
  | [] => true
  | (Join w', OOk _) :: r => if w' =? w then true else ctl_quiet w r
  | (OpenW _ _ _ _, OOk _) :: _ | (CloseW _, OOk _) :: _ | (SetAuth _ _, OOk _) :: _
  | (Write _ _ _, OErr) :: _ => false
  | _ :: r => ctl_quiet w r
  end.
Definition blur (r : wrec) : wrec :=
  WRec (wr_idx r) (wr_hi r) (wr_w r) (wr_seq r) (wr_orig r) [] [] (wr_unowned r) (wr_streams r) (wr_done r).
Fixpoint bg_wrecs (st : state) (i hi : nat) (w q : N) (kss : list (list N)) : list wrec :=
  match kss with
  | [] => []
  | ks :: r => mk_wrec st i hi w (q + 1) ks true :: bg_wrecs st i hi w (q + 1) r
  end.

Fixpoint wrecs (st : state) (seqs : list (N * N)) (i : nat) (sc : list (op * outcome)) : list wrec :=
  match sc with
  | [] => []
  | (o, out) :: r =>
      let st' := ctl_step st (o, out) in
      match o, out with
      | Write w ks _, OOk _ | Write w ks _, OErr =>
          let q := default 0 (alookup w seqs) + 1 in
          let seqs' := (w, q) :: aremove w seqs in
          mk_wrec st i i w q ks (match out with OOk _ => true | _ => false end)
            :: wrecs st' seqs' (S i) r
      | BgWrites w kss, OOk _ =>
          let q := default 0 (alookup w seqs) in
          let seqs' := (w, q + N.of_nat (length kss)) :: aremove w seqs in
          (if ctl_quiet w r then bg_wrecs st i (find_join w (S i) r) w q kss
           else map blur (bg_wrecs st i (find_join w (S i) r) w q kss))
          ++ wrecs st' seqs' (S i) r
      | _, _ => wrecs st' seqs (S i) r
      end
  end.

Definition idx_script (sc : list (op * outcome)) : list (nat * (op * outcome)) :=
  combine (seq 0 (length sc)) sc.

Definition closedb_idx (isc : list (nat * (op * outcome))) : option nat :=
  match filter (fun x => match x.2 with (CloseDB, OOk _) => true | _ => false end) isc with
  | x :: _ => Some x.1
  | [] => None
  end.
Definition lt_opt (i : nat) (o : option nat) : bool :=   (* i < o, None = infinity *)
  match o with Some j => Nat.ltb i j | None => true end.
Definition sync_idxs (isc : list (nat * (op * outcome))) : list nat :=
  let cd := closedb_idx isc in
  map fst (filter (fun x => match x.2 with (Sync, OOk _) => lt_opt x.1 cd | _ => false end) isc).
Definition paused_at (isc : list (nat * (op * outcome))) (s : N) (i : nat) : bool :=
  fold_left (fun acc x =>
    if Nat.ltb x.1 i then
      match x.2 with
      | (Pause s', OOk _) => if s' =? s then true else acc
      | (Resume s', OOk _) => if s' =? s then false else acc
      | _ => acc
      end
    else acc) isc false.
Definition ever_paused (isc : list (nat * (op * outcome))) (s : N) : bool :=
  existsb (fun x => match x.2 with (Pause s', OOk _) => s' =? s | _ => false end) isc.
Definition first_after (i : nat) (l : list nat) : option nat :=
  match filter (fun j => Nat.ltb i j) l with j :: _ => Some j | [] => None end.
(* subscription requests of s: (index of the op, key set) *)
Definition requests (isc : list (nat * (op * outcome))) (s : N) : list (nat * list N) :=
  flat_map (fun x => match x.2 with
                     | (OpenS s' ks, OOk _) | (Resub s' ks, OOk _) => if s' =? s then [(x.1, ks)] else []
                     | _ => []
                     end) isc.
Definition close_idx (isc : list (nat * (op * outcome))) (s : N) : option nat :=
  match filter (fun x => match x.2 with (CloseS s', OOk _) => s' =? s | _ => false end) isc with
  | x :: _ => Some x.1
  | [] => None
  end.
(* first barrier after the request during which s's consumer is ready: from then on the
   request is certainly in force *)
Definition confirmed (isc : list (nat * (op * outcome))) (s : N) (o : nat) : option nat :=
  match filter (fun j => Nat.ltb o j && negb (paused_at isc s j)) (sync_idxs isc) with
  | j :: _ => Some j
  | [] => None
  end.

(* key sets that may be the current subscription of s when it filters the frame written
   by op i: requested before the frame is certainly consumed (next barrier), and not
   certainly replaced before the frame was written; none once s is closed / the DB is. *)
Fixpoint possible_sets (isc : list (nat * (op * outcome))) (s : N) (i : nat) (e : option nat)
         (rq : list (nat * list N)) : list (list N) :=
  match rq with
  | [] => []
  | (o, ks) :: r =>
      let later := possible_sets isc s i e r in
      let replaced := match r with
                      | (o', _) :: _ => match confirmed isc s o' with
                                        | Some c => Nat.ltb c i
                                        | None => false
                                        end
                      | [] => false
                      end in
      if lt_opt o e && negb replaced then ks :: later else later
  end.
Definition psets (isc : list (nat * (op * outcome))) (s : N) (lo hi : nat) : list (list N) :=
  if lt_opt lo (close_idx isc s) && lt_opt lo (closedb_idx isc)
  then possible_sets isc s lo (first_after hi (sync_idxs isc)) (requests isc s)
  else [].

Definition subsetN (a b : list N) : bool := forallb (fun k => memN k b) a.
Definition interN (a b : list N) : list N := filter (fun k => memN k b) a.

(* violation kinds:
   1 frame not written by a stream-enabled writer's successful Write
   2 duplicate   3 reordered w.r.t. the writer's order   4 series for a key not written
   5 series for a channel the writer held but was not authorized on
   6 series for a channel the writer never opened (no authority at all)
   7 series for a channel outside every possibly-current subscription
   8 always-ready streamer missed a frame (or part of it) it must receive *)
Definition item_kinds (isc : list (nat * (op * outcome))) (ws : list wrec) (s : N) (it : obs_item) : list N :=
  let '(w, q, ks) := it in
  match ks with [] => [] | _ =>     (* an empty frame carries no series: nothing to demand *)
  match filter (fun r => (wr_w r =? w) && (wr_seq r =? q)) ws with
  | [] => [1]
  | r :: _ =>
      (if wr_streams r && wr_done r then [] else [1]) ++
      (if subsetN ks (wr_orig r) then [] else [4]) ++
      (if existsb (fun k => memN k (wr_unauth r)) ks then [5] else []) ++
      (if existsb (fun k => memN k (wr_unowned r) && memN k (wr_orig r)) ks then [6] else []) ++
      (let ps := psets isc s (wr_idx r) (wr_hi r) in
       if forallb (fun k => existsb (memN k) ps) ks then [] else [7])
  end end.

Fixpoint order_kinds (its : list obs_item) : list N :=
  match its with
  | [] => []
  | (w, q, _) :: r =>
      (if existsb (fun x => (x.1.1 =? w) && (x.1.2 =? q)) r then [2] else []) ++
      (if existsb (fun x => (x.1.1 =? w) && (x.1.2 <? q)) r then [3] else []) ++
      order_kinds r
  end.

Definition complete_kinds (tmo : N) (isc : list (nat * (op * outcome))) (ws : list wrec)
           (s : N) (its : list obs_item) : list N :=
  if ever_paused isc s || (tmo <? 1000) then [] else
  match requests isc s with
  | [] => []
  | (o0, _) :: _ =>
    flat_map (fun r =>
      if wr_streams r && wr_done r && Nat.ltb o0 (wr_idx r) then
        match first_after (wr_hi r) (sync_idxs isc) with
        | None => []
        | Some e =>
            if lt_opt e (close_idx isc s) && lt_opt e (closedb_idx isc) then
              let ps := psets isc s (wr_idx r) (wr_hi r) in
              if forallb (fun p => match interN (wr_good r) p with [] => false | _ => true end) ps then
                match filter (fun x => (x.1.1 =? wr_w r) && (x.1.2 =? wr_seq r)) its with
                | [] => [8]
                | x :: _ => if existsb (fun p => subsetN (interN (wr_good r) p) x.2) ps then [] else [8]
                end
              else []
            else []
        end
      else []) ws
  end.

Definition violation_kinds (c : case_t) : list N :=
  let '(chans, cap, tmo, script, obs) := c in
  let isc := idx_script script in
  let ws := wrecs (init chans (S (length script))) [] 0 script in
  remove_dups (
    flat_map (fun so => flat_map (item_kinds isc ws so.1) so.2 ++ order_kinds so.2 ++
                        complete_kinds tmo isc ws so.1 so.2) obs).

Definition violates (c : case_t) : bool := match violation_kinds c with [] => false | _ => true end.

Definition mismatches (cs : list case_t) : list nat := find_idx mismatch cs.
Definition violations (cs : list case_t) : list nat := find_idx violates cs.

(* what the model allows after each operation: number of reachable hidden states and,
   for the first of them, the inboxes *)
Fixpoint dump_run (obs : observation) (sts : list state) (script : list (op * outcome))
  : list (nat * option outcome * observation) :=
  match script with
  | [] => []
  | (o, out) :: r =>
      let sts' := after_op obs sts o in
      (length sts', option_map (fun st => op_outcome st o) (head sts),
       match sts' with st :: _ => observe st | [] => [] end) :: dump_run obs sts' r
  end.
Definition model_dump (c : case_t) :=
  let '(chans, cap, _, script, obs) := c in
  (violation_kinds c, dump_run obs (closure obs [init chans cap]) script).
