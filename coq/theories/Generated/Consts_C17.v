(* generated from x/go/gorp/index.go on every run *)
Definition get_skips_repeated_values : bool := true.
