(* Generated/Consts_C14.v — written by runner/props/C14.py consts() from the Go sources of the
   error providers registered with x/go/errors (freighter/go/errors.go, x/go/query/errors.go,
   x/go/control/authority.go, x/go/validate/errors.go) and x/go/errors/encode.go. Do not edit. *)
From Coq Require Import List NArith String.
Import ListNotations.
Local Open Scope string_scope.
Local Open Scope N_scope.

(* sentinel kinds: 1 EOF 2 ErrStreamClosed 3 ErrNotFound 4 ErrUniqueViolation 5 ErrInvalidParameters 6 ErrQuery 7 ErrUnauthorized 8 ErrControl 9 ErrValidation 10 ErrRequired 11 ErrInvalidType 12 ErrConversion 13 validate.PathError 16 context.Canceled 17 context.DeadlineExceeded *)

(* X = errors.Wrap(Y, ...) declarations: (X, Y) *)
Definition parents : list (N * N) :=
  [(3, 6); (4, 6); (5, 6); (7, 8); (10, 9); (11, 9); (12, 9)].

(* one entry per registered provider: encode rules in source order (sentinel tested with CheapIs,
   payload type), decode exact-type cases, decode prefix fall-backs (0 = errors.New(data)) *)
Definition providers : list (list (N * string) * list (string * N) * list (string * N)) :=
  [ ([(1, "freighter.eof"); (2, "freighter.stream_closed")],
     [("freighter.eof", 1); ("freighter.stream_closed", 2)],
     [("freighter.", 0)]);
    ([(3, "sy.query.not_found"); (4, "sy.query.unique_violation"); (5, "sy.query.invalid_parameters"); (6, "sy.query")],
     [("sy.query.not_found", 3); ("sy.query.unique_violation", 4); ("sy.query.invalid_parameters", 5)],
     [("sy.query", 6)]);
    ([(7, "sy.control.unauthorized")],
     [("sy.control.unauthorized", 7)],
     [("sy.control", 8)]);
    ([(9, "sy.validation")],
     [("sy.validation.path", 13)],
     [("sy.validation", 9)]) ].

Definition path_type : string := "sy.validation.path".

(* Payload.Unmarshal: true = strings.Split(d, "---") with len != 2 => unknown;
   false = strings.SplitN(d, "---", 2) *)
Definition unmarshal_split_all : bool := false.
