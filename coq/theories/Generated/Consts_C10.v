(* generated from cesium/internal/unary/iterator.go by runner/props/C10.py; do not edit *)
From Coq Require Import ZArith.
Local Open Scope Z_scope.
Definition go_auto_span : Z := -1.
Definition go_default_chunk : Z := 100000.
