(* generated from cesium/internal/domain/{db,file_controller}.go and cesium/options.go by runner/props/C01.py *)
From Coq Require Import ZArith.
Local Open Scope Z_scope.
Definition go_nominal_num : Z := 4.
Definition go_nominal_den : Z := 5.
Definition go_realcap_num : Z := 5.
Definition go_realcap_den : Z := 4.
Definition go_default_cap : Z := 1000000000.
