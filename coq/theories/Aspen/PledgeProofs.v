(* Aspen/PledgeProofs.v — invariants of the pledge LTS over every accepted event
   sequence (every interleaving of runs, every loss / delay / cancellation / retry,
   every change of every view). *)
From stdpp Require Import gmap.
From Coq Require Import NArith Lia.
From Synnax Require Import Aspen.Pledge Aspen.PledgeQuorum.
Local Open Scope N_scope.

Definition gkey (x : N * N * N) : N := x.1.2.

(* juror j has, at some point, returned an approval of key k to run r *)
Definition granted_to (s : state) (j r k : N) : Prop :=
  exists js m, s_jur s !! j = Some js /\ (r, k, m) ∈ j_granted js.

Definition jur_inv (js : jst) : Prop :=
  (forall x, x ∈ j_granted js -> gkey x ∈ j_appr js /\ x.2 < gkey x) /\
  NoDup (map gkey (j_granted js)).

Definition run_inv (s : state) (r : N) (rn : run) : Prop :=
  NoDup (quorum_of rn) /\
  (forall j, j ∈ quorum_of rn -> j ∈ map vaddr (healthy (r_snap rn))) /\
  (forall j, (j, true) ∈ r_asked rn -> granted_to s j r (r_prop rn)) /\
  (admitted_run rn = true ->
     length (r_asked rn) = qsize (r_snap rn) /\ all_ok (r_asked rn) = true) /\
  (r_prop rn = 0 \/ r_base rn < r_prop rn) /\
  (admitted_run rn = true \/ r_phase rn = PhConsult -> r_prop rn <> 0) /\
  is_Some (s_jur s !! r_member rn).

Definition pl_inv (s : state) (p : N) (ps : pst) : Prop :=
  forall k c, p_result ps = Some (k, c) ->
    exists r rn js, s_runs s !! r = Some rn /\ r_pledge rn = p /\ r_phase rn = PhDone 0 false /\
                    r_prop rn = k /\ s_jur s !! r_member rn = Some js /\ j_ck js = c.

Record Inv (s : state) : Prop := {
  inv_jur : forall j js, s_jur s !! j = Some js -> jur_inv js;
  inv_run : forall r rn, s_runs s !! r = Some rn -> run_inv s r rn;
  inv_pl : forall p ps, s_pl s !! p = Some ps -> pl_inv s p ps
}.

(* jurors only ever gain memory, and keep their configuration *)
Definition jmono (s s' : state) : Prop :=
  forall j js, s_jur s !! j = Some js ->
    exists js', s_jur s' !! j = Some js' /\
                (forall x, x ∈ j_granted js -> x ∈ j_granted js') /\
                (forall x, x ∈ j_appr js -> x ∈ j_appr js') /\
                j_ck js' = j_ck js /\ j_max js' = j_max js.

Lemma jmono_refl s : jmono s s.
Proof. intros j js H. exists js. auto. Qed.

Lemma jmono_same_jur s s' : s_jur s' = s_jur s -> jmono s s'.
Proof. intros E j js H. exists js. rewrite E. auto. Qed.

Lemma granted_mono s s' j r k : jmono s s' -> granted_to s j r k -> granted_to s' j r k.
Proof.
  intros Hm (js & m & Hj & Hin). destruct (Hm j js Hj) as (js' & Hj' & Hg & _).
  exists js', m. auto.
Qed.

Lemma run_inv_mono s s' r rn : jmono s s' -> run_inv s r rn -> run_inv s' r rn.
Proof.
  intros Hm (H1 & H2 & H3 & H4 & H5 & H6 & H7). repeat split; auto.
  - intros j Hj. eapply granted_mono; eauto.
  - apply H4; auto.
  - apply H4; auto.
  - destruct H7 as [js Hj]. destruct (Hm _ _ Hj) as (js' & Hj' & _). eauto.
Qed.

Lemma NoDup_fmap_inj_on {A B} (f : A -> B) (l : list A) x y :
  NoDup (map f l) -> x ∈ l -> y ∈ l -> f x = f y -> x = y.
Proof.
  induction l as [|a l IH]; simpl; intros Hnd Hx Hy Hf.
  - inversion Hx.
  - apply NoDup_cons in Hnd. destruct Hnd as [Hna Hnd].
    apply elem_of_cons in Hx. apply elem_of_cons in Hy.
    destruct Hx as [->|Hx], Hy as [->|Hy]; auto.
    + exfalso. apply Hna. rewrite Hf. apply elem_of_list_fmap. eauto.
    + exfalso. apply Hna. rewrite <- Hf. apply elem_of_list_fmap. eauto.
Qed.

(* ---- the juror ---- *)
Lemma juror_verdict_spec appr v key vd appr' :
  juror_verdict appr v key = (vd, appr') ->
  (forall x, x ∈ appr -> x ∈ appr') /\
  (vd = VApprove -> key ∉ appr /\ key ∈ appr' /\ max_key v < key) /\
  (vd = VApprove \/ vd = VReject).
Proof.
  unfold juror_verdict. intros H.
  destruct (bool_decide (key ∈ appr)) eqn:E1.
  - inversion H; subst. split; [auto|]. split; [discriminate|auto].
  - apply bool_decide_eq_false in E1.
    destruct (key <=? max_key v) eqn:E2; inversion H; subst.
    + split; [intros x Hx; apply elem_of_app; auto|]. split; [discriminate|auto].
    + apply N.leb_gt in E2.
      split; [intros x Hx; apply elem_of_app; auto|].
      split; [|auto]. intros _. split; [done|]. split; [|done].
      apply elem_of_app. right. apply elem_of_list_singleton. done.
Qed.

Lemma juror_process_spec s r j key vd s' :
  juror_process s r j key = Some (vd, s') ->
  exists js js', s_jur s !! j = Some js /\ s' = set_jur s j js' /\
    j_ck js' = j_ck js /\ j_max js' = j_max js /\
    (forall x, x ∈ j_appr js -> x ∈ j_appr js') /\
    (forall x, x ∈ j_granted js -> x ∈ j_granted js') /\
    (jur_inv js -> jur_inv js') /\
    (vd = VApprove -> exists m, (r, key, m) ∈ j_granted js').
Proof.
  unfold juror_process. intros H.
  destruct (s_jur s !! j) as [js|] eqn:Ej; [|discriminate].
  destruct (juror_verdict (j_appr js) (view_of s j) key) as [vd0 appr'] eqn:Ev.
  inversion H; subst vd0 s'; clear H.
  destruct (juror_verdict_spec _ _ _ _ _ Ev) as (Ha & Hb & Hc).
  eexists js, _. split; [done|]. split; [done|]. simpl.
  split; [done|]. split; [done|]. split; [done|].
  destruct (bool_decide (vd = VApprove)) eqn:Ed.
  - apply bool_decide_eq_true in Ed. destruct (Hb Ed) as (Hn & Hin & Hlt).
    split; [intros x Hx; apply elem_of_app; auto|].
    split.
    + intros (J1 & J2). split.
      * intros x Hx. apply elem_of_app in Hx. destruct Hx as [Hx|Hx].
        -- destruct (J1 x Hx). split; auto.
        -- apply elem_of_list_singleton in Hx. subst x. simpl. auto.
      * simpl. rewrite map_app. simpl. apply NoDup_app. split; [done|]. split.
        -- intros k Hk Hk'. apply elem_of_list_singleton in Hk'. subst k.
           apply elem_of_list_fmap in Hk. destruct Hk as (x & Hx1 & Hx2).
           destruct (J1 x Hx2) as [Hin' _]. rewrite <- Hx1 in Hin'. unfold gkey in Hn. simpl in *. done.
        -- apply NoDup_singleton.
    + intros _. exists (max_key (view_of s j)). apply elem_of_app. right.
      apply elem_of_list_singleton. done.
  - apply bool_decide_eq_false in Ed. split; [done|]. split.
    + intros (J1 & J2). split; [|done]. intros x Hx. destruct (J1 x Hx). split; auto.
    + intros E. done.
Qed.

Lemma jmono_set_jur s j js js' :
  s_jur s !! j = Some js ->
  j_ck js' = j_ck js -> j_max js' = j_max js ->
  (forall x, x ∈ j_appr js -> x ∈ j_appr js') ->
  (forall x, x ∈ j_granted js -> x ∈ j_granted js') ->
  jmono s (set_jur s j js').
Proof.
  intros Hj Hc Hm Ha Hg i is_ Hi. simpl.
  destruct (decide (i = j)) as [->|Hne].
  - rewrite lookup_insert. rewrite Hj in Hi. inversion Hi; subst. eauto 10.
  - rewrite lookup_insert_ne by done. exists is_. auto.
Qed.

(* generic state surgery *)
Lemma Inv_jur_update s j js js' :
  Inv s -> s_jur s !! j = Some js ->
  j_ck js' = j_ck js -> j_max js' = j_max js ->
  (forall x, x ∈ j_appr js -> x ∈ j_appr js') ->
  (forall x, x ∈ j_granted js -> x ∈ j_granted js') ->
  jur_inv js' ->
  Inv (set_jur s j js').
Proof.
  intros [I1 I2 I3] Hj Hc Hm Ha Hg Hi.
  pose proof (jmono_set_jur s j js js' Hj Hc Hm Ha Hg) as Hmono.
  split; simpl.
  - intros i is_ Hl. destruct (decide (i = j)) as [->|Hne].
    + rewrite lookup_insert in Hl. inversion Hl; subst. done.
    + rewrite lookup_insert_ne in Hl by done. eauto.
  - intros r rn Hr. eapply run_inv_mono; eauto.
  - intros p ps Hp k c Hres. destruct (I3 p ps Hp k c Hres) as (r & rn & ms & Hr & H1 & H2 & H3 & H4 & H5).
    destruct (Hmono _ _ H4) as (ms' & Hms' & _ & _ & Hck & _).
    exists r, rn, ms'. repeat split; auto. congruence.
Qed.

Lemma Inv_run_update s r rn' :
  Inv s -> run_inv s r rn' ->
  (forall rn, s_runs s !! r = Some rn -> forall x l, r_phase rn <> PhDone x l) ->
  Inv (set_run s r rn').
Proof.
  intros [I1 I2 I3] Hr Hold. split; simpl.
  - done.
  - intros r0 rn0 Hl. destruct (decide (r0 = r)) as [->|Hne].
    + rewrite lookup_insert in Hl. inversion Hl; subst.
      eapply run_inv_mono; [|exact Hr]. apply jmono_same_jur. done.
    + rewrite lookup_insert_ne in Hl by done.
      eapply run_inv_mono; [|apply I2; exact Hl]. apply jmono_same_jur. done.
  - intros p ps Hp k c Hres. destruct (I3 p ps Hp k c Hres) as (r0 & rn0 & ms & Hr0 & H1 & H2 & H3 & H4 & H5).
    exists r0, rn0, ms. split; [|auto].
    destruct (decide (r0 = r)) as [->|Hne].
    + exfalso. eapply Hold; eauto.
    + simpl. rewrite lookup_insert_ne by done. done.
Qed.

Lemma run_inv_frame_views s r rn vs :
  run_inv s r rn -> run_inv (St vs (s_jur s) (s_runs s) (s_pl s) (s_late s)) r rn.
Proof. intros H. eapply run_inv_mono; [|exact H]. intros j js Hj. exists js. auto. Qed.

Lemma run_inv_frame_late s r rn l :
  run_inv s r rn -> run_inv (set_late s l) r rn.
Proof. intros H. eapply run_inv_mono; [|exact H]. intros j js Hj. exists js. auto. Qed.

Lemma Inv_set_late s l : Inv s -> Inv (set_late s l).
Proof.
  intros [I1 I2 I3]. split; simpl; auto.
Qed.

Lemma Inv_set_views s vs : Inv s -> Inv (St vs (s_jur s) (s_runs s) (s_pl s) (s_late s)).
Proof.
  intros [I1 I2 I3]. split; simpl; auto.
Qed.

(* answering one juror request *)
Lemma run_inv_record_answer s r rn j ok :
  run_inv s r rn ->
  r_phase rn = PhConsult ->
  j ∈ map vaddr (healthy (r_snap rn)) ->
  j ∉ map fst (r_asked rn) ->
  (ok = true -> granted_to s j r (r_prop rn)) ->
  let asked := r_asked rn ++ [(j, ok)] in
  let ph := if bool_decide (length asked = qsize (r_snap rn))
            then (if all_ok asked then PhEnd 0 else PhIdle) else PhConsult in
  run_inv s r (Run (r_pledge rn) (r_member rn) (r_prop rn) (r_base rn) (r_rounds rn) (r_snap rn) asked ph).
Proof.
  intros (H1 & H2 & H3 & H4 & H5 & H6 & H7) Hph Hj Hnew Hok asked ph.
  unfold run_inv, quorum_of, admitted_run; simpl.
  split.
  { subst asked. rewrite map_app. simpl. apply NoDup_app. split; [exact H1|]. split.
    - intros x Hx Hx'. apply elem_of_list_singleton in Hx'. subst x. done.
    - apply NoDup_singleton. }
  split.
  { intros x Hx. subst asked. rewrite map_app in Hx. apply elem_of_app in Hx. destruct Hx as [Hx|Hx].
    - apply H2. exact Hx.
    - simpl in Hx. apply elem_of_list_singleton in Hx. subst x. done. }
  split.
  { intros x Hx. subst asked. apply elem_of_app in Hx. destruct Hx as [Hx|Hx].
    - apply H3. done.
    - apply elem_of_list_singleton in Hx. inversion Hx; subst. auto. }
  split.
  { subst ph. intros Hadm.
    destruct (bool_decide (length asked = qsize (r_snap rn))) eqn:E1; [|discriminate].
    apply bool_decide_eq_true in E1.
    destruct (all_ok asked) eqn:E2; [|discriminate]. auto. }
  split; [exact H5|].
  split; [|exact H7].
  intros _. apply H6. right. exact Hph.
Qed.

Lemma run_inv_fresh s r p a prop base rounds v ph :
  admitted_run (Run p a prop base rounds v [] ph) = false ->
  (prop = 0 \/ base < prop) ->
  (ph = PhConsult -> prop <> 0) ->
  is_Some (s_jur s !! a) ->
  run_inv s r (Run p a prop base rounds v [] ph).
Proof.
  intros Hna Hb Hc Ha. unfold run_inv, quorum_of. simpl.
  split; [constructor|].
  split; [intros j Hj; inversion Hj|].
  split; [intros j Hj; inversion Hj|].
  split; [intros Hadm; rewrite Hadm in Hna; discriminate|].
  split; [exact Hb|].
  split; [|exact Ha].
  intros [Hadm|Hph]; [rewrite Hadm in Hna; discriminate|auto].
Qed.

Lemma run_inv_done s r rn x lost :
  run_inv s r rn -> (x = 0 -> r_phase rn = PhEnd 0) ->
  run_inv s r (Run (r_pledge rn) (r_member rn) (r_prop rn) (r_base rn) (r_rounds rn) (r_snap rn)
                   (r_asked rn) (PhDone x lost)).
Proof.
  intros (H1 & H2 & H3 & H4 & H5 & H6 & H7) Hx.
  assert (Hadm : admitted_run (Run (r_pledge rn) (r_member rn) (r_prop rn) (r_base rn) (r_rounds rn)
                   (r_snap rn) (r_asked rn) (PhDone x lost)) = true -> admitted_run rn = true).
  { unfold admitted_run; simpl. destruct x; [|discriminate]. intros _. rewrite Hx; auto. }
  unfold run_inv, quorum_of in *; simpl.
  split; [exact H1|]. split; [exact H2|]. split; [exact H3|].
  split; [intros Ha; apply H4, Hadm, Ha|].
  split; [exact H5|]. split; [|exact H7].
  intros [Ha|Hc]; [|discriminate]. apply H6. left. apply Hadm, Ha.
Qed.

Lemma Inv_pl_update s p ps' :
  Inv s -> pl_inv s p ps' -> Inv (set_pl s p ps').
Proof.
  intros [I1 I2 I3] Hp. split; simpl; auto.
  intros q qs Hq. destruct (decide (q = p)) as [->|Hne].
  - rewrite lookup_insert in Hq. inversion Hq; subst. exact Hp.
  - rewrite lookup_insert_ne in Hq by done. apply I3 in Hq. exact Hq.
Qed.

Lemma Inv_jur_add s j js' :
  Inv s -> s_jur s !! j = None -> jur_inv js' -> Inv (set_jur s j js').
Proof.
  intros [I1 I2 I3] Hj Hi.
  assert (Hmono : jmono s (set_jur s j js')).
  { intros i is_ Hl. simpl. destruct (decide (i = j)) as [->|Hne]; [congruence|].
    rewrite lookup_insert_ne by done. exists is_. auto. }
  split; simpl.
  - intros i is_ Hl. destruct (decide (i = j)) as [->|Hne].
    + rewrite lookup_insert in Hl. inversion Hl; subst. done.
    + rewrite lookup_insert_ne in Hl by done. eauto.
  - intros r rn Hr. eapply run_inv_mono; eauto.
  - intros p ps Hp k c Hres. destruct (I3 p ps Hp k c Hres) as (r & rn & ms & Hr & H1 & H2 & H3 & H4 & H5).
    destruct (Hmono _ _ H4) as (ms' & Hms' & _ & _ & Hck & _).
    exists r, rn, ms'. repeat split; auto. congruence.
Qed.

Lemma pl_of_inv s p : Inv s -> pl_inv s p (pl_of s p).
Proof.
  intros HI. unfold pl_of. destruct (s_pl s !! p) as [ps|] eqn:E; simpl.
  - eapply inv_pl; eauto.
  - intros k c Hr. discriminate.
Qed.

Lemma step_preserves pmax s e s' : Inv s -> step pmax s e = Some s' -> Inv s'.
Proof.
  intros HI Hs. pose proof HI as [I1 I2 I3].
  destruct e as [a v|p a r|p a|r v|r j key how vd|r j key vd|j key vd|r key ck err lost|p ok key ck];
    simpl in Hs.
  - (* EGossip *) inversion Hs; subst. apply Inv_set_views. done.
  - (* EPStart *)
    destruct (s_runs s !! r) as [rn0|] eqn:Er; [discriminate|].
    destruct (s_jur s !! a) as [ms|] eqn:Ea; [|discriminate].
    destruct (negb (p_done (pl_of s p)) && bool_decide (p_result (pl_of s p) = None)); [|discriminate].
    inversion Hs; subst. apply Inv_run_update; auto.
    + apply run_inv_fresh; simpl; auto.
    + intros rn Hr. rewrite Er in Hr. discriminate.
  - (* EPFail *)
    destruct (negb (p_done (pl_of s p)) && bool_decide (p_result (pl_of s p) = None)); [|discriminate].
    inversion Hs; subst. done.
  - (* ESnap *)
    destruct (s_runs s !! r) as [rn|] eqn:Er; [|discriminate].
    destruct (s_jur s !! r_member rn) as [ms|] eqn:Em; [|discriminate].
    destruct (bool_decide (r_phase rn = PhIdle)) eqn:E1; [|discriminate].
    destruct (bool_decide (r_rounds rn < j_max ms)%nat) eqn:E2; [|discriminate].
    destruct (bool_decide (v = view_of s (r_member rn))) eqn:E3; [|discriminate].
    simpl in Hs. inversion Hs; subst s'; clear Hs.
    apply bool_decide_eq_true in E1.
    destruct (I2 r rn Er) as (H1 & H2 & H3 & H4 & H5 & H6 & H7).
    apply Inv_run_update; auto.
    + apply run_inv_fresh; simpl.
      * unfold admitted_run; simpl. destruct (bool_decide (length (healthy v) < qsize v)%nat); done.
      * destruct (bool_decide (r_prop rn = 0)) eqn:E4.
        -- right. lia.
        -- apply bool_decide_eq_false in E4. right. destruct H5 as [H5|H5]; [done|lia].
      * intros _. destruct (bool_decide (r_prop rn = 0)); lia.
      * rewrite Em. eauto.
    + intros rn0 Hr0 x l. rewrite Er in Hr0. inversion Hr0; subst. rewrite E1. discriminate.
  - (* EReq *)
    destruct (s_runs s !! r) as [rn|] eqn:Er; [|discriminate].
    destruct (bool_decide (r_phase rn = PhConsult)) eqn:E1; [|discriminate].
    destruct (bool_decide (key = r_prop rn)) eqn:E2; [|discriminate].
    destruct (bool_decide (j ∈ map vaddr (healthy (r_snap rn)))) eqn:E3; [|discriminate].
    destruct (bool_decide (j ∉ map fst (r_asked rn))) eqn:E4; [|discriminate].
    simpl in Hs.
    apply bool_decide_eq_true in E1. apply bool_decide_eq_true in E2.
    apply bool_decide_eq_true in E3. apply bool_decide_eq_true in E4. subst key.
    assert (Hnd : forall rn0, s_runs s !! r = Some rn0 -> forall x l, r_phase rn0 <> PhDone x l).
    { intros rn0 Hr0 x l. rewrite Er in Hr0. inversion Hr0; subst. rewrite E1. discriminate. }
    assert (Hplain : forall s0, Inv s0 -> s_runs s0 !! r = Some rn -> Inv (record_answer s0 r rn j false)).
    { intros s0 HI0 Hr0. unfold record_answer. apply Inv_run_update; auto.
      - apply run_inv_record_answer; auto.
        + apply (inv_run s0 HI0 r rn Hr0).
        + discriminate.
      - intros rn0 Hrn0 x l. rewrite Hr0 in Hrn0. inversion Hrn0; subst. rewrite E1. discriminate. }
    assert (Hdeliv : forall ok vd' s1,
              juror_process s r j (r_prop rn) = Some (vd', s1) ->
              (ok = true -> vd' = VApprove) ->
              Inv (record_answer s1 r rn j ok)).
    { intros ok vd' s1 Hjp Hok.
      destruct (juror_process_spec _ _ _ _ _ _ Hjp) as (js & js' & Hj & -> & Hc & Hm & Ha & Hg & Hji & Hgr).
      assert (HI1 : Inv (set_jur s j js')).
      { eapply Inv_jur_update; eauto. }
      unfold record_answer. apply Inv_run_update; auto.
      - apply run_inv_record_answer; auto.
        + apply (inv_run _ HI1 r rn). simpl. done.
        + intros ->. destruct (Hgr (Hok eq_refl)) as (m & Hin).
          exists js', m. simpl. rewrite lookup_insert. auto. }
    destruct (bool_decide (how = 0) || bool_decide (how = 2)) eqn:Eh.
    { destruct (juror_process s r j (r_prop rn)) as [[vd' s1]|] eqn:Ejp; [|discriminate].
      destruct (bool_decide (vd = vd')) eqn:Evd; [|discriminate].
      apply bool_decide_eq_true in Evd. subst vd'.
      inversion Hs; subst s'. eapply Hdeliv; eauto.
      intros Hok. apply andb_true_iff in Hok. destruct Hok as [_ Hok].
      apply bool_decide_eq_true in Hok. done. }
    destruct (bool_decide (how = 1)).
    { inversion Hs; subst s'. apply Hplain; auto. }
    destruct (bool_decide (how = 3)).
    { destruct (s_jur s !! j); [|discriminate].
      destruct (bool_decide (vd = VCtx)); [|discriminate].
      inversion Hs; subst s'. apply Hplain; auto. }
    destruct (bool_decide (how = 4)); [|discriminate].
    inversion Hs; subst s'. apply Hplain; [apply Inv_set_late; auto|done].
  - (* ELate *)
    destruct (remove_first (r, j, key) (s_late s)) as [l'|]; [|discriminate].
    destruct (juror_process (set_late s l') r j key) as [[vd' s1]|] eqn:Ejp.
    + destruct (bool_decide (vd = vd')); [|discriminate]. inversion Hs; subst s'.
      destruct (juror_process_spec _ _ _ _ _ _ Ejp) as (js & js' & Hj & -> & Hc & Hm & Ha & Hg & Hji & Hgr).
      eapply Inv_jur_update; eauto; try (apply Inv_set_late; done).
    + destruct (bool_decide (vd = VNone)); [|discriminate]. inversion Hs; subst s'.
      apply Inv_set_late. done.
  - (* EProbe *)
    destruct (juror_process s 0 j key) as [[vd' s1]|] eqn:Ejp.
    + destruct (bool_decide (vd = vd')); [|discriminate]. inversion Hs; subst s'.
      destruct (juror_process_spec _ _ _ _ _ _ Ejp) as (js & js' & Hj & -> & Hc & Hm & Ha & Hg & Hji & Hgr).
      eapply Inv_jur_update; eauto.
    + destruct (bool_decide (vd = VNone)); [|discriminate]. inversion Hs; subst s'. done.
  - (* EREnd *)
    destruct (s_runs s !! r) as [rn|] eqn:Er; [|discriminate].
    destruct (s_jur s !! r_member rn) as [ms|] eqn:Em; [|discriminate].
    set (res := match r_phase rn with
                | PhEnd x => Some x
                | PhIdle => if bool_decide (r_rounds rn = j_max ms) then Some 1 else None
                | _ => None end) in Hs.
    assert (Hres0 : res = Some 0 -> r_phase rn = PhEnd 0).
    { subst res. destruct (r_phase rn) as [| |y|y l]; try discriminate.
      - destruct (bool_decide (r_rounds rn = j_max ms)); discriminate.
      - intros E. inversion E. done. }
    assert (Hph : forall y l, r_phase rn <> PhDone y l).
    { intros y l Hp. subst res. rewrite Hp in Hs. discriminate. }
    destruct res as [x|] eqn:Eres; [|discriminate].
    destruct (bool_decide (key = r_prop rn)) eqn:E1; [|discriminate].
    destruct (bool_decide (ck = j_ck ms)) eqn:E2; [|discriminate].
    destruct (err_matches x err); [|discriminate]. simpl in Hs.
    apply bool_decide_eq_true in E1. apply bool_decide_eq_true in E2. subst key ck.
    set (rn' := Run (r_pledge rn) (r_member rn) (r_prop rn) (r_base rn) (r_rounds rn) (r_snap rn) (r_asked rn) (PhDone x lost)) in *.
    assert (HI1 : Inv (set_run s r rn')).
    { apply Inv_run_update; auto.
      - apply run_inv_done; auto. intros ->. auto.
      - intros rn0 Hr0 y l. rewrite Er in Hr0. inversion Hr0; subst. apply Hph. }
    destruct (bool_decide (x = 0) && negb lost && bool_decide (p_result (pl_of s (r_pledge rn)) = None)) eqn:Eb;
      inversion Hs; subst s'; [|exact HI1].
    apply andb_true_iff in Eb. destruct Eb as [Eb _]. apply andb_true_iff in Eb. destruct Eb as [Ex El].
    apply bool_decide_eq_true in Ex. subst x. destruct lost; [discriminate|].
    apply Inv_pl_update; auto.
    intros k c Hkc. simpl in Hkc. inversion Hkc; subst k c.
    exists r, rn', ms. simpl. rewrite lookup_insert. repeat split; auto.
  - (* EPEnd *)
    destruct (p_done (pl_of s p)) eqn:Ed; [discriminate|].
    destruct (p_result (pl_of s p)) as [[k c]|] eqn:Ep.
    + destruct (ok && bool_decide (key = k) && bool_decide (ck = c)); [|discriminate].
      destruct (s_jur s !! p) eqn:Ej; [discriminate|]. inversion Hs; subst s'.
      apply Inv_jur_add; simpl; auto.
      * apply Inv_pl_update; auto. intros k' c' Hkc. simpl in Hkc.
        apply (pl_of_inv s p HI). rewrite Ep. done.
      * split; simpl; [intros x Hx; inversion Hx|constructor].
    + destruct (negb ok); [|discriminate]. inversion Hs; subst s'.
      apply Inv_pl_update; auto. intros k' c' Hkc. simpl in Hkc. discriminate.
Qed.


(* ---- reachability ---- *)
Definition reachable (pmax : N -> nat) (ms : list member_cfg) (s : state) : Prop :=
  exists tr, exec pmax (init ms) tr = Some s.

Lemma Inv_init ms : Inv (init ms).
Proof.
  split; simpl.
  - intros j js Hj. apply elem_of_list_to_map_2 in Hj.
    apply elem_of_list_fmap in Hj. destruct Hj as (m & E & _). inversion E; subst.
    split; simpl; [intros x Hx; inversion Hx|constructor].
  - intros r rn Hr. rewrite lookup_empty in Hr. discriminate.
  - intros p ps Hp. rewrite lookup_empty in Hp. discriminate.
Qed.

Lemma exec_preserves pmax tr : forall s s', Inv s -> exec pmax s tr = Some s' -> Inv s'.
Proof.
  induction tr as [|e tr IH]; simpl; intros s s' HI He.
  - inversion He; subst. done.
  - destruct (step pmax s e) as [s1|] eqn:Es; [|discriminate].
    eapply IH; [|exact He]. eapply step_preserves; eauto.
Qed.

Lemma reachable_Inv pmax ms s : reachable pmax ms s -> Inv s.
Proof. intros (tr & He). eapply exec_preserves; [apply Inv_init|exact He]. Qed.

Lemma exec_app pmax tr1 : forall tr2 s,
  exec pmax s (tr1 ++ tr2) = match exec pmax s tr1 with Some s1 => exec pmax s1 tr2 | None => None end.
Proof.
  induction tr1 as [|e tr1 IH]; simpl; intros tr2 s; [done|].
  destruct (step pmax s e); [apply IH|done].
Qed.

(* ---- the property, on invariant states ---- *)
Lemma all_ok_true asked j : all_ok asked = true -> j ∈ map fst asked -> (j, true) ∈ asked.
Proof.
  unfold all_ok. intros Ha Hj. apply elem_of_list_fmap in Hj. destruct Hj as ([j' b] & -> & Hin).
  rewrite forallb_forall in Ha. specialize (Ha (j', b)). simpl in *.
  assert (E : b = true) by (apply Ha, elem_of_list_In, Hin). subst b. done.
Qed.

(* a run that admits has consulted a full majority quorum of its snapshot's active
   members, all of them healthy candidates, all distinct, and every one of them has
   returned an approval of exactly that key to exactly that run *)
Lemma admit_needs_full_quorum s r rn :
  Inv s -> s_runs s !! r = Some rn -> admitted_run rn = true ->
  NoDup (quorum_of rn) /\
  length (quorum_of rn) = qsize (r_snap rn) /\
  (forall j, j ∈ quorum_of rn ->
      j ∈ map vaddr (healthy (r_snap rn)) /\ granted_to s j r (r_prop rn)).
Proof.
  intros HI Hr Ha. destruct (inv_run s HI r rn Hr) as (H1 & H2 & H3 & H4 & H5 & H6 & H7).
  destruct (H4 Ha) as [Hl Hok]. split; [done|]. split.
  - unfold quorum_of. rewrite map_length. done.
  - intros j Hj. split; [auto|]. apply H3. apply all_ok_true; auto.
Qed.

(* every approval in the quorum was given by a juror whose highest known key was below
   the key, and the key is above every key of the coordinator's first snapshot *)
Lemma admitted_key_fresh s r rn :
  Inv s -> s_runs s !! r = Some rn -> admitted_run rn = true ->
  r_base rn < r_prop rn /\
  forall j, j ∈ quorum_of rn ->
    exists js m, s_jur s !! j = Some js /\ (r, r_prop rn, m) ∈ j_granted js /\ m < r_prop rn /\
                 r_prop rn ∈ j_appr js.
Proof.
  intros HI Hr Ha. destruct (inv_run s HI r rn Hr) as (H1 & H2 & H3 & H4 & H5 & H6 & H7).
  split.
  - destruct H5 as [H5|H5]; [|done]. exfalso. apply H6; auto.
  - intros j Hj. destruct (admit_needs_full_quorum s r rn HI Hr Ha) as (_ & _ & Hq).
    destruct (Hq j Hj) as [_ (js & m & Hjs & Hin)].
    exists js, m. split; [done|]. split; [done|].
    destruct (inv_jur s HI j js Hjs) as [J1 _]. destruct (J1 _ Hin) as [Hap Hlt]. simpl in *. auto.
Qed.

(* two different admitting runs whose quorums share a juror cannot have the same key:
   the shared juror would have approved the key twice *)
Lemma unique_under_intersection s r1 r2 rn1 rn2 :
  Inv s -> s_runs s !! r1 = Some rn1 -> s_runs s !! r2 = Some rn2 -> r1 <> r2 ->
  admitted_run rn1 = true -> admitted_run rn2 = true ->
  (exists j, j ∈ quorum_of rn1 /\ j ∈ quorum_of rn2) ->
  r_prop rn1 <> r_prop rn2.
Proof.
  intros HI Hr1 Hr2 Hne Ha1 Ha2 (j & Hj1 & Hj2) Heq.
  destruct (admit_needs_full_quorum s r1 rn1 HI Hr1 Ha1) as (_ & _ & Hq1).
  destruct (admit_needs_full_quorum s r2 rn2 HI Hr2 Ha2) as (_ & _ & Hq2).
  destruct (Hq1 j Hj1) as [_ (js & m1 & Hjs & Hin1)].
  destruct (Hq2 j Hj2) as [_ (js' & m2 & Hjs' & Hin2)].
  rewrite Hjs in Hjs'. inversion Hjs'; subst js'.
  destruct (inv_jur s HI j js Hjs) as [_ J2].
  assert (E : (r1, r_prop rn1, m1) = (r2, r_prop rn2, m2)).
  { eapply (NoDup_fmap_inj_on gkey); eauto. }
  inversion E. done.
Qed.

Lemma unique_partial s r1 r2 rn1 rn2 :
  Inv s -> s_runs s !! r1 = Some rn1 -> s_runs s !! r2 = Some rn2 -> r1 <> r2 ->
  admitted_run rn1 = true -> admitted_run rn2 = true ->
  compat (r_snap rn1) (r_snap rn2) ->
  r_prop rn1 <> r_prop rn2.
Proof.
  intros HI Hr1 Hr2 Hne Ha1 Ha2 Hc.
  eapply unique_under_intersection; eauto.
  destruct (admit_needs_full_quorum s r1 rn1 HI Hr1 Ha1) as (N1 & L1 & Q1).
  destruct (admit_needs_full_quorum s r2 rn2 HI Hr2 Ha2) as (N2 & L2 & Q2).
  eapply quorums_intersect; eauto.
  - intros j Hj. apply Q1. done.
  - intros j Hj. apply Q2. done.
Qed.

(* the pledge level: a key reaches a pledging node only from a run of its own that
   admitted it, and with that run's coordinator's cluster key *)
Lemma pledge_result_from_admitted_run s p ps k c :
  Inv s -> s_pl s !! p = Some ps -> p_result ps = Some (k, c) ->
  exists r rn js, s_runs s !! r = Some rn /\ r_pledge rn = p /\ admitted_run rn = true /\
                  r_prop rn = k /\ s_jur s !! r_member rn = Some js /\ j_ck js = c.
Proof.
  intros HI Hp Hr. destruct (inv_pl s HI p ps Hp k c Hr) as (r & rn & js & H1 & H2 & H3 & H4 & H5 & H6).
  exists r, rn, js. repeat split; auto. unfold admitted_run. rewrite H3. done.
Qed.

Lemma pledge_keys_unique_partial s p1 p2 ps1 ps2 k1 c1 k2 c2 :
  Inv s -> p1 <> p2 ->
  s_pl s !! p1 = Some ps1 -> p_result ps1 = Some (k1, c1) ->
  s_pl s !! p2 = Some ps2 -> p_result ps2 = Some (k2, c2) ->
  (forall r1 r2 rn1 rn2, s_runs s !! r1 = Some rn1 -> s_runs s !! r2 = Some rn2 ->
     admitted_run rn1 = true -> admitted_run rn2 = true -> r_pledge rn1 = p1 -> r_pledge rn2 = p2 ->
     compat (r_snap rn1) (r_snap rn2)) ->
  k1 <> k2.
Proof.
  intros HI Hne H1 R1 H2 R2 Hc.
  destruct (pledge_result_from_admitted_run s p1 ps1 k1 c1 HI H1 R1) as (r1 & rn1 & js1 & A1 & A2 & A3 & A4 & _).
  destruct (pledge_result_from_admitted_run s p2 ps2 k2 c2 HI H2 R2) as (r2 & rn2 & js2 & B1 & B2 & B3 & B4 & _).
  subst k1 k2. eapply (unique_partial s r1 r2); eauto.
  intros ->. rewrite A1 in B1. inversion B1; subst. congruence.
Qed.

(* where the jurors of the successor state come from *)
Lemma step_jur_origin pmax s e s' j js' :
  step pmax s e = Some s' -> s_jur s' !! j = Some js' ->
  (exists js, s_jur s !! j = Some js /\ j_ck js = j_ck js') \/
  (exists k, p_result (pl_of s j) = Some (k, j_ck js')).
Proof.
  intros Hs Hj.
  assert (Hset : forall s0 i x, s_jur s0 = s_jur s ->
            (forall y, s_jur s !! i = Some y -> j_ck y = j_ck x) -> is_Some (s_jur s !! i) ->
            s_jur (set_jur s0 i x) !! j = Some js' ->
            exists js, s_jur s !! j = Some js /\ j_ck js = j_ck js').
  { intros s0 i x E Hck [y Hy] Hl. simpl in Hl. rewrite E in Hl.
    destruct (decide (j = i)) as [->|Hne].
    - rewrite lookup_insert in Hl. inversion Hl; subst. eauto.
    - rewrite lookup_insert_ne in Hl by done. eauto. }
  assert (Hjp : forall s0 r i key vd0 s1, s_jur s0 = s_jur s ->
            juror_process s0 r i key = Some (vd0, s1) -> s_jur s1 !! j = Some js' ->
            exists js, s_jur s !! j = Some js /\ j_ck js = j_ck js').
  { intros s0 r i key vd0 s1 E Hp Hl.
    destruct (juror_process_spec _ _ _ _ _ _ Hp) as (js & js2 & Hi & -> & Hc & _).
    rewrite E in Hi. eapply (Hset s0 i js2); eauto. intros y Hy. congruence. }
  destruct e as [a v|p a r|p a|r v|r i key how vd|r i key vd|i key vd|r key ck err lost|p ok key ck];
    simpl in Hs.
  - inversion Hs; subst; simpl in *. left. eauto.
  - repeat case_match; simplify_eq; simpl in *; left; eauto.
  - repeat case_match; simplify_eq; simpl in *; left; eauto.
  - repeat case_match; simplify_eq; simpl in *; left; eauto.
  - left. unfold record_answer in Hs.
    destruct (s_runs s !! r) as [rn|]; [|discriminate].
    destruct (_ && _ && _ && _); [|discriminate].
    destruct (bool_decide (how = 0) || bool_decide (how = 2)).
    { destruct (juror_process s r i key) as [[vd' s1]|] eqn:Ejp; [|discriminate].
      destruct (bool_decide (vd = vd')); [|discriminate]. inversion Hs; subst s'. simpl in Hj.
      eapply Hjp; eauto. }
    destruct (bool_decide (how = 1)). { inversion Hs; subst s'. simpl in Hj. eauto. }
    destruct (bool_decide (how = 3)).
    { destruct (s_jur s !! i); [|discriminate]. destruct (bool_decide (vd = VCtx)); [|discriminate].
      inversion Hs; subst s'. simpl in Hj. eauto. }
    destruct (bool_decide (how = 4)); [|discriminate]. inversion Hs; subst s'. simpl in Hj. eauto.
  - left. destruct (remove_first (r, i, key) (s_late s)) as [l'|]; [|discriminate].
    destruct (juror_process (set_late s l') r i key) as [[vd' s1]|] eqn:Ejp.
    + destruct (bool_decide (vd = vd')); [|discriminate]. inversion Hs; subst s'.
      eapply Hjp; [|exact Ejp|exact Hj]. done.
    + destruct (bool_decide (vd = VNone)); [|discriminate]. inversion Hs; subst s'. simpl in Hj. eauto.
  - left. destruct (juror_process s 0 i key) as [[vd' s1]|] eqn:Ejp.
    + destruct (bool_decide (vd = vd')); [|discriminate]. inversion Hs; subst s'.
      eapply Hjp; [|exact Ejp|exact Hj]. done.
    + destruct (bool_decide (vd = VNone)); [|discriminate]. inversion Hs; subst s'. eauto.
  - left. repeat case_match; simplify_eq; simpl in *; eauto.
  - destruct (p_done (pl_of s p)); [discriminate|].
    destruct (p_result (pl_of s p)) as [[k c]|] eqn:Ep.
    + destruct (ok && bool_decide (key = k) && bool_decide (ck = c)); [|discriminate].
      destruct (s_jur s !! p) eqn:Ej; [discriminate|]. inversion Hs; subst s'. simpl in Hj.
      destruct (decide (j = p)) as [->|Hne].
      * rewrite lookup_insert in Hj. inversion Hj; subst. simpl. right. eauto.
      * rewrite lookup_insert_ne in Hj by done. left. eauto.
    + destruct (negb ok); [|discriminate]. inversion Hs; subst s'. simpl in Hj. left. eauto.
Qed.

(* cluster key: if every initial member is configured with ck0 then every arbitrating
   node and every response carries ck0 *)
Definition ck_inv (ck0 : N) (s : state) : Prop :=
  (forall j js, s_jur s !! j = Some js -> j_ck js = ck0) /\
  (forall p ps k c, s_pl s !! p = Some ps -> p_result ps = Some (k, c) -> c = ck0).

Lemma step_ck pmax ck0 s e s' : Inv s -> ck_inv ck0 s -> step pmax s e = Some s' -> ck_inv ck0 s'.
Proof.
  intros HI [C1 C2] Hs.
  assert (HI' : Inv s') by (eapply step_preserves; eauto).
  assert (Hall : forall j js, s_jur s' !! j = Some js -> j_ck js = ck0).
  { intros j js' Hj. destruct (step_jur_origin _ _ _ _ _ _ Hs Hj) as [(js & Hjs & E)|(k & Hk)].
    - rewrite <- E. eauto.
    - unfold pl_of in Hk. destruct (s_pl s !! j) as [ps|] eqn:Ep; simpl in Hk; [|discriminate].
      eapply C2; eauto. }
  split; [exact Hall|].
  intros p ps k c Hp Hr.
  destruct (pledge_result_from_admitted_run s' p ps k c HI' Hp Hr) as (r & rn & js & _ & _ & _ & _ & Hj & Hc).
  subst c. eauto.
Qed.

Lemma exec_ck pmax ck0 tr : forall s s', Inv s -> ck_inv ck0 s -> exec pmax s tr = Some s' -> ck_inv ck0 s'.
Proof.
  induction tr as [|e tr IH]; simpl; intros s s' HI HC He.
  - inversion He; subst. done.
  - destruct (step pmax s e) as [s1|] eqn:Es; [|discriminate].
    eapply IH; [| |exact He]; [eapply step_preserves|eapply step_ck]; eauto.
Qed.

Lemma ck_inv_init ck0 ms : Forall (fun m : member_cfg => m.1.1.2 = ck0) ms -> ck_inv ck0 (init ms).
Proof.
  intros Hall. split; simpl.
  - intros j js Hj. apply elem_of_list_to_map_2 in Hj.
    apply elem_of_list_fmap in Hj. destruct Hj as (m & E & Hin). inversion E; subst. simpl.
    rewrite Forall_forall in Hall. apply Hall. done.
  - intros p ps k c Hp. rewrite lookup_empty in Hp. discriminate.
Qed.

(* ---- statements in terms of what a pledging node has been handed ---- *)
Lemma result_of_lookup s p k c :
  result_of s p = Some (k, c) -> exists ps, s_pl s !! p = Some ps /\ p_result ps = Some (k, c).
Proof.
  unfold result_of, pl_of. destruct (s_pl s !! p) as [ps|]; simpl; [eauto|discriminate].
Qed.

(* the event "pledge.Pledge of p returned (key, ck)" is accepted only when p has been
   handed exactly that by a run of its own *)
Lemma pend_accepts pmax s p key ck s' :
  step pmax s (EPEnd p true key ck) = Some s' -> result_of s p = Some (key, ck).
Proof.
  unfold result_of. simpl. destruct (p_done (pl_of s p)); [discriminate|].
  destruct (p_result (pl_of s p)) as [[k c]|]; [|discriminate]. simpl.
  destruct (bool_decide (key = k)) eqn:E1; [|discriminate].
  destruct (bool_decide (ck = c)) eqn:E2; [|discriminate].
  apply bool_decide_eq_true in E1. apply bool_decide_eq_true in E2. subst. done.
Qed.

(* the full clause: whoever is handed a key was handed it by a run of its own that
   gathered the approval of a full majority quorum for exactly that key, and the cluster
   key handed over is the coordinator's *)
Lemma joiner_key_needs_full_quorum s p k c :
  Inv s -> result_of s p = Some (k, c) ->
  exists r rn js,
    s_runs s !! r = Some rn /\ r_pledge rn = p /\ r_prop rn = k /\
    s_jur s !! r_member rn = Some js /\ j_ck js = c /\
    NoDup (quorum_of rn) /\ length (quorum_of rn) = qsize (r_snap rn) /\
    (forall j, j ∈ quorum_of rn ->
        j ∈ map vaddr (healthy (r_snap rn)) /\ granted_to s j r k).
Proof.
  intros HI Hres. destruct (result_of_lookup _ _ _ _ Hres) as (ps & Hp & Hr).
  destruct (pledge_result_from_admitted_run s p ps k c HI Hp Hr) as (r & rn & js & H1 & H2 & H3 & H4 & H5 & H6).
  destruct (admit_needs_full_quorum s r rn HI H1 H3) as (Q1 & Q2 & Q3).
  exists r, rn, js. subst k. repeat split; auto; apply Q3; auto.
Qed.

Lemma joiner_keys_unique_partial s p1 p2 k1 c1 k2 c2 :
  Inv s -> p1 <> p2 ->
  result_of s p1 = Some (k1, c1) -> result_of s p2 = Some (k2, c2) ->
  (forall r1 r2 rn1 rn2, s_runs s !! r1 = Some rn1 -> s_runs s !! r2 = Some rn2 ->
     admitted_run rn1 = true -> admitted_run rn2 = true -> r_pledge rn1 = p1 -> r_pledge rn2 = p2 ->
     compat (r_snap rn1) (r_snap rn2)) ->
  k1 <> k2.
Proof.
  intros HI Hne R1 R2 Hc.
  destruct (result_of_lookup _ _ _ _ R1) as (ps1 & P1 & Q1).
  destruct (result_of_lookup _ _ _ _ R2) as (ps2 & P2 & Q2).
  eapply (pledge_keys_unique_partial s p1 p2); eauto.
Qed.

Lemma cluster_key_uniform pmax ck0 ms s :
  Forall (fun m : member_cfg => m.1.1.2 = ck0) ms -> reachable pmax ms s ->
  (forall j js, s_jur s !! j = Some js -> j_ck js = ck0) /\
  (forall p k c, result_of s p = Some (k, c) -> c = ck0).
Proof.
  intros Hall (tr & He).
  destruct (exec_ck pmax ck0 tr (init ms) s (Inv_init ms) (ck_inv_init ck0 ms Hall) He) as [C1 C2].
  split; [exact C1|]. intros p k c Hr. destruct (result_of_lookup _ _ _ _ Hr) as (ps & Hp & Hq). eauto.
Qed.

(* ---- frame facts used by the monitor-soundness proof ---- *)
Lemma jmono_trans s1 s2 s3 : jmono s1 s2 -> jmono s2 s3 -> jmono s1 s3.
Proof.
  intros H1 H2 j js Hj. destruct (H1 j js Hj) as (js2 & Hj2 & G1 & A1 & C1 & M1).
  destruct (H2 j js2 Hj2) as (js3 & Hj3 & G2 & A2 & C2 & M2).
  exists js3. repeat split; auto; congruence.
Qed.

Lemma juror_process_jmono s r j key vd s' :
  juror_process s r j key = Some (vd, s') -> jmono s s'.
Proof.
  intros H. destruct (juror_process_spec _ _ _ _ _ _ H) as (js & js' & Hj & -> & Hc & Hm & Ha & Hg & _).
  eapply jmono_set_jur; eauto.
Qed.

Lemma step_jmono pmax s e s' : step pmax s e = Some s' -> jmono s s'.
Proof.
  intros Hs.
  destruct e as [a v|p a r|p a|r v|r i key how vd|r i key vd|i key vd|r key ck err lost|p ok key ck];
    simpl in Hs.
  - inversion Hs; subst. apply jmono_same_jur. done.
  - repeat case_match; simplify_eq; apply jmono_same_jur; done.
  - repeat case_match; simplify_eq; apply jmono_refl.
  - repeat case_match; simplify_eq; apply jmono_same_jur; done.
  - unfold record_answer in Hs.
    destruct (s_runs s !! r) as [rn|]; [|discriminate].
    destruct (_ && _ && _ && _); [|discriminate].
    destruct (bool_decide (how = 0) || bool_decide (how = 2)).
    { destruct (juror_process s r i key) as [[vd' s1]|] eqn:Ejp; [|discriminate].
      destruct (bool_decide (vd = vd')); [|discriminate]. inversion Hs; subst s'.
      eapply jmono_trans; [eapply juror_process_jmono; eauto|]. apply jmono_same_jur. done. }
    destruct (bool_decide (how = 1)). { inversion Hs; subst s'. apply jmono_same_jur. done. }
    destruct (bool_decide (how = 3)).
    { destruct (s_jur s !! i); [|discriminate]. destruct (bool_decide (vd = VCtx)); [|discriminate].
      inversion Hs; subst s'. apply jmono_same_jur. done. }
    destruct (bool_decide (how = 4)); [|discriminate]. inversion Hs; subst s'. apply jmono_same_jur. done.
  - destruct (remove_first (r, i, key) (s_late s)) as [l'|]; [|discriminate].
    destruct (juror_process (set_late s l') r i key) as [[vd' s1]|] eqn:Ejp.
    + destruct (bool_decide (vd = vd')); [|discriminate]. inversion Hs; subst s'.
      eapply jmono_trans; [|eapply juror_process_jmono; eauto]. apply jmono_same_jur. done.
    + destruct (bool_decide (vd = VNone)); [|discriminate]. inversion Hs; subst s'. apply jmono_same_jur. done.
  - destruct (juror_process s 0 i key) as [[vd' s1]|] eqn:Ejp.
    + destruct (bool_decide (vd = vd')); [|discriminate]. inversion Hs; subst s'.
      eapply juror_process_jmono; eauto.
    + destruct (bool_decide (vd = VNone)); [|discriminate]. inversion Hs; subst s'. apply jmono_refl.
  - repeat case_match; simplify_eq; apply jmono_same_jur; done.
  - destruct (p_done (pl_of s p)); [discriminate|].
    destruct (p_result (pl_of s p)) as [[k c]|] eqn:Ep.
    + destruct (ok && bool_decide (key = k) && bool_decide (ck = c)); [|discriminate].
      destruct (s_jur s !! p) eqn:Ej; [discriminate|]. inversion Hs; subst s'.
      intros j js Hj. simpl. destruct (decide (j = p)) as [->|Hne]; [congruence|].
      rewrite lookup_insert_ne by done. exists js. auto.
    + destruct (negb ok); [|discriminate]. inversion Hs; subst s'. apply jmono_same_jur. done.
Qed.

Lemma max_key_ge v k : k ∈ map vkey v -> k <= max_key v.
Proof.
  unfold max_key. induction v as [|e v IH]; simpl; intros H.
  - inversion H.
  - apply elem_of_cons in H. destruct H as [->|H]; [lia|]. specialize (IH H). lia.
Qed.

Lemma err_matches_zero x err : err_matches x err = true -> (err = 0 <-> x = 0).
Proof.
  unfold err_matches. intros H.
  destruct (bool_decide (x = 0)) eqn:E0.
  - apply bool_decide_eq_true in E0. apply bool_decide_eq_true in H. tauto.
  - apply bool_decide_eq_false in E0.
    destruct (bool_decide (x = 2)).
    + apply bool_decide_eq_true in H. subst. split; [discriminate|tauto].
    + split; [|tauto]. intros ->. simpl in H. discriminate.
Qed.

(* how one step changes the table of runs: at most the run the event names, and only in
   ways that keep what the later proofs rely on *)
Definition run_evolves (rn rn' : run) : Prop :=
  r_pledge rn' = r_pledge rn /\ r_member rn' = r_member rn /\
  (forall x l, r_phase rn = PhDone x l -> rn' = rn) /\
  (admitted_run rn = true ->
     admitted_run rn' = true /\ r_prop rn' = r_prop rn /\ r_snap rn' = r_snap rn /\ r_asked rn' = r_asked rn).

Lemma run_evolves_refl rn : run_evolves rn rn.
Proof. repeat split; auto. Qed.

Lemma step_runs pmax s e s' :
  step pmax s e = Some s' ->
  forall r rn, s_runs s !! r = Some rn ->
    exists rn', s_runs s' !! r = Some rn' /\ run_evolves rn rn'.
Proof.
  intros Hs r0 rn0 Hr0.
  assert (Hsame : forall s2, s_runs s2 = s_runs s ->
            exists rn', s_runs s2 !! r0 = Some rn' /\ run_evolves rn0 rn').
  { intros s2 E. exists rn0. rewrite E. split; [done|apply run_evolves_refl]. }
  assert (Hupd : forall s0 r rn', s_runs s0 = s_runs s ->
            (r = r0 -> run_evolves rn0 rn') ->
            exists rn2, s_runs (set_run s0 r rn') !! r0 = Some rn2 /\ run_evolves rn0 rn2).
  { intros s0 r rn' E Hev. simpl. rewrite E. destruct (decide (r = r0)) as [->|Hne].
    - rewrite lookup_insert. eauto.
    - rewrite lookup_insert_ne by done. exists rn0. split; [done|apply run_evolves_refl]. }
  destruct e as [a v|p a r|p a|r v|r i key how vd|r i key vd|i key vd|r key ck err lost|p ok key ck];
    simpl in Hs.
  - inversion Hs; subst. apply Hsame. done.
  - destruct (s_runs s !! r) as [x|] eqn:Er; [discriminate|].
    destruct (s_jur s !! a); [|discriminate].
    destruct (_ && _); [|discriminate]. inversion Hs; subst s'.
    apply Hupd; [done|]. intros ->. congruence.
  - destruct (_ && _); [|discriminate]. inversion Hs; subst. apply Hsame. done.
  - destruct (s_runs s !! r) as [rn|] eqn:Er; [|discriminate].
    destruct (s_jur s !! r_member rn) as [ms|]; [|discriminate].
    destruct (bool_decide (r_phase rn = PhIdle)) eqn:E1; [|discriminate].
    destruct (_ && _); [|discriminate]. simpl in Hs. inversion Hs; subst s'.
    apply bool_decide_eq_true in E1.
    apply Hupd; [done|]. intros ->. rewrite Er in Hr0. inversion Hr0; subst rn0.
    unfold run_evolves, admitted_run; simpl. rewrite E1. repeat split; auto; discriminate.
  - destruct (s_runs s !! r) as [rn|] eqn:Er; [|discriminate].
    destruct (bool_decide (r_phase rn = PhConsult)) eqn:E1; [|discriminate].
    destruct (_ && _ && _); [|discriminate]. simpl in Hs.
    apply bool_decide_eq_true in E1.
    assert (Hra : forall s0 ok, s_runs s0 = s_runs s ->
              exists rn2, s_runs (record_answer s0 r rn i ok) !! r0 = Some rn2 /\ run_evolves rn0 rn2).
    { intros s0 ok E. unfold record_answer. apply Hupd; [done|].
      intros ->. rewrite Er in Hr0. inversion Hr0; subst rn0.
      unfold run_evolves, admitted_run; simpl. rewrite E1. repeat split; auto; discriminate. }
    destruct (bool_decide (how = 0) || bool_decide (how = 2)).
    { destruct (juror_process s r i key) as [[vd' s1]|] eqn:Ejp; [|discriminate].
      destruct (bool_decide (vd = vd')); [|discriminate]. inversion Hs; subst s'.
      apply Hra.
      destruct (juror_process_spec _ _ _ _ _ _ Ejp) as (js & js' & Hj & -> & _). done. }
    destruct (bool_decide (how = 1)). { inversion Hs. apply Hra. done. }
    destruct (bool_decide (how = 3)).
    { destruct (s_jur s !! i); [|discriminate]. destruct (bool_decide (vd = VCtx)); [|discriminate].
      inversion Hs. apply Hra. done. }
    destruct (bool_decide (how = 4)); [|discriminate]. inversion Hs. apply Hra. done.
  - destruct (remove_first (r, i, key) (s_late s)) as [l'|]; [|discriminate].
    destruct (juror_process (set_late s l') r i key) as [[vd' s1]|] eqn:Ejp.
    + destruct (bool_decide (vd = vd')); [|discriminate]. inversion Hs; subst s'.
      destruct (juror_process_spec _ _ _ _ _ _ Ejp) as (js & js' & Hj & -> & _). apply Hsame. done.
    + destruct (bool_decide (vd = VNone)); [|discriminate]. inversion Hs; subst s'. apply Hsame. done.
  - destruct (juror_process s 0 i key) as [[vd' s1]|] eqn:Ejp.
    + destruct (bool_decide (vd = vd')); [|discriminate]. inversion Hs; subst s'.
      destruct (juror_process_spec _ _ _ _ _ _ Ejp) as (js & js' & Hj & -> & _). apply Hsame. done.
    + destruct (bool_decide (vd = VNone)); [|discriminate]. inversion Hs; subst s'. apply Hsame. done.
  - destruct (s_runs s !! r) as [rn|] eqn:Er; [|discriminate].
    destruct (s_jur s !! r_member rn) as [ms|]; [|discriminate].
    set (res := match r_phase rn with
                | PhEnd x => Some x
                | PhIdle => if bool_decide (r_rounds rn = j_max ms) then Some 1 else None
                | _ => None end) in Hs.
    assert (Hph : forall y l, r_phase rn <> PhDone y l).
    { intros y l Hp. subst res. rewrite Hp in Hs. discriminate. }
    assert (Hadm : admitted_run rn = true -> res = Some 0).
    { subst res. unfold admitted_run. destruct (r_phase rn) as [| |y|y l] eqn:Ep; try discriminate.
      all: try (intros _; exfalso; eapply Hph; eauto; fail).
      destruct y; [done|discriminate]. }
    destruct res as [x|] eqn:Eres; [|discriminate].
    destruct (_ && _ && _); [|discriminate]. simpl in Hs.
    assert (Hev : r = r0 -> run_evolves rn0 (Run (r_pledge rn) (r_member rn) (r_prop rn) (r_base rn)
                     (r_rounds rn) (r_snap rn) (r_asked rn) (PhDone x lost))).
    { intros ->. rewrite Er in Hr0. inversion Hr0; subst rn0.
      unfold run_evolves; simpl. split; [done|]. split; [done|]. split.
      - intros y l Hp. exfalso. eapply Hph; eauto.
      - intros Ha. specialize (Hadm Ha). inversion Hadm; subst x. unfold admitted_run. simpl. auto. }
    destruct (_ && _ && _); inversion Hs; subst s'.
    + apply (Hupd s r _ eq_refl Hev).
    + apply (Hupd s r _ eq_refl Hev).
  - destruct (p_done (pl_of s p)); [discriminate|].
    destruct (p_result (pl_of s p)) as [[k c]|] eqn:Ep.
    + destruct (ok && bool_decide (key = k) && bool_decide (ck = c)); [|discriminate].
      destruct (s_jur s !! p) eqn:Ej; [discriminate|]. inversion Hs; subst s'. apply Hsame. done.
    + destruct (negb ok); [|discriminate]. inversion Hs; subst s'. apply Hsame. done.
Qed.

(* how one step changes the pledge table *)
Lemma step_pl pmax s e s' :
  step pmax s e = Some s' ->
  forall p, (p_done (pl_of s p) = true -> p_done (pl_of s' p) = true) /\
            (forall x, result_of s p = Some x -> result_of s' p = Some x).
Proof.
  intros Hs p0.
  assert (Hsame : forall s2, s_pl s2 = s_pl s ->
            (p_done (pl_of s p0) = true -> p_done (pl_of s2 p0) = true) /\
            (forall x, result_of s p0 = Some x -> result_of s2 p0 = Some x)).
  { intros s2 E. unfold result_of, pl_of. rewrite E. auto. }
  destruct e as [a v|p a r|p a|r v|r i key how vd|r i key vd|i key vd|r key ck err lost|p ok key ck];
    simpl in Hs.
  - inversion Hs; subst. apply Hsame. done.
  - repeat case_match; simplify_eq; apply Hsame; done.
  - repeat case_match; simplify_eq; apply Hsame; done.
  - repeat case_match; simplify_eq; apply Hsame; done.
  - unfold record_answer in Hs.
    destruct (s_runs s !! r) as [rn|]; [|discriminate].
    destruct (_ && _ && _ && _); [|discriminate].
    destruct (bool_decide (how = 0) || bool_decide (how = 2)).
    { destruct (juror_process s r i key) as [[vd' s1]|] eqn:Ejp; [|discriminate].
      destruct (bool_decide (vd = vd')); [|discriminate]. inversion Hs; subst s'.
      destruct (juror_process_spec _ _ _ _ _ _ Ejp) as (js & js' & Hj & -> & _). apply Hsame. done. }
    destruct (bool_decide (how = 1)). { inversion Hs; subst s'. apply Hsame. done. }
    destruct (bool_decide (how = 3)).
    { destruct (s_jur s !! i); [|discriminate]. destruct (bool_decide (vd = VCtx)); [|discriminate].
      inversion Hs; subst s'. apply Hsame. done. }
    destruct (bool_decide (how = 4)); [|discriminate]. inversion Hs; subst s'. apply Hsame. done.
  - destruct (remove_first (r, i, key) (s_late s)) as [l'|]; [|discriminate].
    destruct (juror_process (set_late s l') r i key) as [[vd' s1]|] eqn:Ejp.
    + destruct (bool_decide (vd = vd')); [|discriminate]. inversion Hs; subst s'.
      destruct (juror_process_spec _ _ _ _ _ _ Ejp) as (js & js' & Hj & -> & _). apply Hsame. done.
    + destruct (bool_decide (vd = VNone)); [|discriminate]. inversion Hs; subst s'. apply Hsame. done.
  - destruct (juror_process s 0 i key) as [[vd' s1]|] eqn:Ejp.
    + destruct (bool_decide (vd = vd')); [|discriminate]. inversion Hs; subst s'.
      destruct (juror_process_spec _ _ _ _ _ _ Ejp) as (js & js' & Hj & -> & _). apply Hsame. done.
    + destruct (bool_decide (vd = VNone)); [|discriminate]. inversion Hs; subst s'. apply Hsame. done.
  - destruct (s_runs s !! r) as [rn|] eqn:Er; [|discriminate].
    destruct (s_jur s !! r_member rn) as [ms|]; [|discriminate].
    destruct (match r_phase rn with PhEnd x => Some x | PhIdle => _ | _ => None end) as [x|]; [|discriminate].
    destruct (_ && _ && _); [|discriminate]. simpl in Hs.
    destruct (bool_decide (x = 0) && negb lost && bool_decide (p_result (pl_of s (r_pledge rn)) = None)) eqn:Eb;
      inversion Hs; subst s'; [|apply Hsame; done].
    apply andb_true_iff in Eb. destruct Eb as [_ Eb]. apply bool_decide_eq_true in Eb.
    unfold result_of, pl_of in *. simpl.
    destruct (decide (p0 = r_pledge rn)) as [->|Hne].
    + rewrite lookup_insert. simpl. split; [auto|]. intros y Hy. rewrite Eb in Hy. discriminate.
    + rewrite lookup_insert_ne by done. auto.
  - destruct (p_done (pl_of s p)) eqn:Ed; [discriminate|].
    destruct (p_result (pl_of s p)) as [[k c]|] eqn:Ep.
    + destruct (ok && bool_decide (key = k) && bool_decide (ck = c)); [|discriminate].
      destruct (s_jur s !! p) eqn:Ej; [discriminate|]. inversion Hs; subst s'.
      unfold result_of, pl_of in *. simpl.
      destruct (decide (p0 = p)) as [->|Hne].
      * rewrite lookup_insert. simpl. split; [auto|]. intros y Hy. congruence.
      * rewrite lookup_insert_ne by done. auto.
    + destruct (negb ok); [|discriminate]. inversion Hs; subst s'.
      unfold result_of, pl_of in *. simpl.
      destruct (decide (p0 = p)) as [->|Hne].
      * rewrite lookup_insert. simpl. split; [auto|]. intros y Hy. congruence.
      * rewrite lookup_insert_ne by done. auto.
Qed.

(* ---- inversion of accepted events: the successor state in closed form ---- *)
Lemma step_EPStart_inv pmax s p a r s' :
  step pmax s (EPStart p a r) = Some s' ->
  s_runs s !! r = None /\ s' = set_run s r (Run p a 0 0 0%nat [] [] PhIdle).
Proof.
  simpl. destruct (s_runs s !! r); [discriminate|]. destruct (s_jur s !! a); [|discriminate].
  destruct (_ && _); [|discriminate]. intros H. inversion H. auto.
Qed.

Lemma step_ESnap_inv pmax s r v s' :
  step pmax s (ESnap r v) = Some s' ->
  exists rn prop base ph, s_runs s !! r = Some rn /\ r_phase rn = PhIdle /\ prop <> 0 /\
    s' = set_run s r (Run (r_pledge rn) (r_member rn) prop base (S (r_rounds rn)) v [] ph).
Proof.
  simpl. destruct (s_runs s !! r) as [rn|] eqn:Er; [|discriminate].
  destruct (s_jur s !! r_member rn); [|discriminate].
  destruct (bool_decide (r_phase rn = PhIdle)) eqn:E1; [|discriminate].
  destruct (_ && _); [|discriminate]. simpl. intros H. inversion H.
  apply bool_decide_eq_true in E1.
  eexists rn, _, _, _. split; [done|]. split; [done|]. split; [|reflexivity].
  destruct (bool_decide (r_prop rn = 0)); lia.
Qed.

Lemma step_EReq_inv pmax s r j key how vd s' :
  step pmax s (EReq r j key how vd) = Some s' ->
  exists rn s1 ok, s_runs s !! r = Some rn /\ r_phase rn = PhConsult /\ key = r_prop rn /\
    s' = record_answer s1 r rn j ok /\
    s_runs s1 = s_runs s /\ s_views s1 = s_views s /\ s_pl s1 = s_pl s /\
    (s_jur s1 = s_jur s \/ juror_process s r j key = Some (vd, s1)) /\
    (ok = true -> how = 0 /\ vd = VApprove) /\
    (how = 0 \/ how = 2 -> juror_process s r j key = Some (vd, s1)).
Proof.
  simpl. destruct (s_runs s !! r) as [rn|] eqn:Er; [|discriminate].
  destruct (bool_decide (r_phase rn = PhConsult)) eqn:E1; [|discriminate].
  destruct (bool_decide (key = r_prop rn)) eqn:E2; [|discriminate].
  destruct (_ && _); [|discriminate]. simpl.
  apply bool_decide_eq_true in E1. apply bool_decide_eq_true in E2.
  destruct (bool_decide (how = 0) || bool_decide (how = 2)) eqn:Eh.
  { destruct (juror_process s r j key) as [[vd' s1]|] eqn:Ejp; [|discriminate].
    destruct (bool_decide (vd = vd')) eqn:Ev; [|discriminate]. apply bool_decide_eq_true in Ev. subst vd'.
    intros H. inversion H.
    destruct (juror_process_spec _ _ _ _ _ _ Ejp) as (js & js' & Hj & Hs1 & _).
    exists rn, s1, (bool_decide (how = 0) && bool_decide (vd = VApprove)).
    subst s1. simpl. repeat split; auto.
    - apply andb_true_iff in H0. destruct H0 as [H0 _]. apply bool_decide_eq_true in H0. done.
    - apply andb_true_iff in H0. destruct H0 as [_ H0]. apply bool_decide_eq_true in H0. done. }
  apply orb_false_iff in Eh. destruct Eh as [Eh0 Eh2].
  apply bool_decide_eq_false in Eh0. apply bool_decide_eq_false in Eh2.
  assert (Hno : how = 0 \/ how = 2 -> juror_process s r j key = Some (vd, s)) by (intros [|]; done).
  destruct (bool_decide (how = 1)).
  { intros H. inversion H. exists rn, s, false. repeat split; auto; discriminate. }
  destruct (bool_decide (how = 3)).
  { destruct (s_jur s !! j); [|discriminate]. destruct (bool_decide (vd = VCtx)); [|discriminate].
    intros H. inversion H. exists rn, s, false. repeat split; auto; discriminate. }
  destruct (bool_decide (how = 4)); [|discriminate].
  intros H. inversion H. exists rn, (set_late s (s_late s ++ [(r, j, r_prop rn)])), false.
  subst key. repeat split; auto; try discriminate. intros [|]; done.
Qed.

Lemma juror_process_frame s r j key vd s1 :
  juror_process s r j key = Some (vd, s1) ->
  s_runs s1 = s_runs s /\ s_views s1 = s_views s /\ s_pl s1 = s_pl s /\
  (forall a, j_ck <$> (s_jur s1 !! a) = j_ck <$> (s_jur s !! a)).
Proof.
  intros H. destruct (juror_process_spec _ _ _ _ _ _ H) as (js & js' & Hj & -> & Hc & _).
  simpl. repeat split; auto. intros a. destruct (decide (a = j)) as [->|Hne].
  - rewrite lookup_insert, Hj. simpl. congruence.
  - rewrite lookup_insert_ne by done. done.
Qed.

Lemma juror_process_approve s r j key s1 :
  juror_process s r j key = Some (VApprove, s1) ->
  granted_to s1 j r key /\ max_key (view_of s j) < key.
Proof.
  unfold juror_process. intros H.
  destruct (s_jur s !! j) as [js|] eqn:Ej; [|discriminate].
  destruct (juror_verdict (j_appr js) (view_of s j) key) as [vd0 appr'] eqn:Ev.
  inversion H; subst vd0 s1; clear H.
  destruct (juror_verdict_spec _ _ _ _ _ Ev) as (_ & Hb & _).
  destruct (Hb eq_refl) as (_ & _ & Hlt). split; [|done].
  eexists _, (max_key (view_of s j)). simpl. rewrite lookup_insert. split; [reflexivity|]. simpl.
  apply elem_of_app. right. apply elem_of_list_singleton. done.
Qed.

Lemma step_ELate_inv pmax s r j key vd s' :
  step pmax s (ELate r j key vd) = Some s' ->
  exists l', juror_process (set_late s l') r j key = Some (vd, s') \/ (s' = set_late s l' /\ vd = VNone).
Proof.
  simpl. destruct (remove_first (r, j, key) (s_late s)) as [l'|]; [|discriminate].
  exists l'. destruct (juror_process (set_late s l') r j key) as [[vd' s1]|].
  - destruct (bool_decide (vd = vd')) eqn:E; [|discriminate]. apply bool_decide_eq_true in E. subst.
    inversion H. auto.
  - destruct (bool_decide (vd = VNone)) eqn:E; [|discriminate]. apply bool_decide_eq_true in E.
    inversion H. auto.
Qed.

Lemma step_EProbe_inv pmax s j key vd s' :
  step pmax s (EProbe j key vd) = Some s' ->
  juror_process s 0 j key = Some (vd, s') \/ s' = s.
Proof.
  simpl. destruct (juror_process s 0 j key) as [[vd' s1]|].
  - destruct (bool_decide (vd = vd')) eqn:E; [|discriminate]. apply bool_decide_eq_true in E. subst.
    intros H. inversion H. auto.
  - destruct (bool_decide (vd = VNone)); [|discriminate]. intros H. inversion H. auto.
Qed.

Lemma step_EREnd_inv pmax s r key ck err lost s' :
  step pmax s (EREnd r key ck err lost) = Some s' ->
  exists rn ms x, s_runs s !! r = Some rn /\ s_jur s !! r_member rn = Some ms /\
    (x = 0 -> r_phase rn = PhEnd 0) /\ (forall y l, r_phase rn <> PhDone y l) /\
    key = r_prop rn /\ ck = j_ck ms /\ (err = 0 <-> x = 0) /\
    let rn' := Run (r_pledge rn) (r_member rn) (r_prop rn) (r_base rn) (r_rounds rn) (r_snap rn)
                   (r_asked rn) (PhDone x lost) in
    ((s' = set_run s r rn' /\ ~ (x = 0 /\ lost = false /\ result_of s (r_pledge rn) = None)) \/
     (s' = set_pl (set_run s r rn') (r_pledge rn) (Pst (Some (key, ck)) (p_done (pl_of s (r_pledge rn)))) /\
      x = 0 /\ lost = false /\ result_of s (r_pledge rn) = None)).
Proof.
  simpl. destruct (s_runs s !! r) as [rn|] eqn:Er; [|discriminate].
  destruct (s_jur s !! r_member rn) as [ms|] eqn:Em; [|discriminate].
  set (res := match r_phase rn with
              | PhEnd x => Some x
              | PhIdle => if bool_decide (r_rounds rn = j_max ms) then Some 1 else None
              | _ => None end).
  intros Hs.
  assert (Hres0 : res = Some 0 -> r_phase rn = PhEnd 0).
  { subst res. destruct (r_phase rn) as [| |y|y l]; try discriminate.
    - destruct (bool_decide (r_rounds rn = j_max ms)); discriminate.
    - intros E. inversion E. done. }
  assert (Hph : forall y l, r_phase rn <> PhDone y l).
  { intros y l Hp. subst res. rewrite Hp in Hs. discriminate. }
  destruct res as [x|] eqn:Eres; [|discriminate].
  destruct (bool_decide (key = r_prop rn)) eqn:E1; [|discriminate].
  destruct (bool_decide (ck = j_ck ms)) eqn:E2; [|discriminate].
  destruct (err_matches x err) eqn:E3; [|discriminate]. simpl in Hs.
  apply bool_decide_eq_true in E1. apply bool_decide_eq_true in E2.
  exists rn, ms, x. split; [done|]. split; [done|].
  split; [intros ->; auto|]. split; [done|]. split; [done|]. split; [done|].
  split; [apply err_matches_zero; done|]. simpl.
  destruct (bool_decide (x = 0)) eqn:Ex; simpl in Hs.
  - apply bool_decide_eq_true in Ex. destruct lost; simpl in Hs.
    + inversion Hs. left. split; [done|]. intros (_ & Hl & _). discriminate.
    + destruct (bool_decide (p_result (pl_of s (r_pledge rn)) = None)) eqn:Erp; inversion Hs.
      * apply bool_decide_eq_true in Erp. right. subst. auto.
      * apply bool_decide_eq_false in Erp. left. split; [done|]. intros (_ & _ & Hn). done.
  - apply bool_decide_eq_false in Ex. inversion Hs. left. split; [done|]. intros (Hx & _). done.
Qed.

Lemma step_EPEnd_inv pmax s p ok key ck s' :
  step pmax s (EPEnd p ok key ck) = Some s' ->
  p_done (pl_of s p) = false /\
  ((ok = true /\ result_of s p = Some (key, ck) /\ s_jur s !! p = None /\
    s' = set_jur (set_pl s p (Pst (Some (key, ck)) true)) p (Jst [] [] ck (pmax p))) \/
   (ok = false /\ result_of s p = None /\ s' = set_pl s p (Pst None true))).
Proof.
  unfold result_of. simpl. destruct (p_done (pl_of s p)); [discriminate|]. split; [done|].
  destruct (p_result (pl_of s p)) as [[k c]|].
  - destruct ok; [|discriminate]. simpl in H.
    destruct (bool_decide (key = k)) eqn:E1; [|discriminate].
    destruct (bool_decide (ck = c)) eqn:E2; [|discriminate]. simpl in H.
    apply bool_decide_eq_true in E1. apply bool_decide_eq_true in E2. subst.
    destruct (s_jur s !! p); [discriminate|]. inversion H. left. auto.
  - destruct ok; [discriminate|]. inversion H. right. auto.
Qed.
