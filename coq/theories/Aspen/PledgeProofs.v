(* Aspen/PledgeProofs.v — invariants of the pledge LTS over every accepted event
   sequence (every interleaving of runs, every loss / delay / cancellation / retry,
   every change of every view). *)
From stdpp Require Import gmap.
From Coq Require Import NArith Lia.
From Synnax Require Import Aspen.Pledge Aspen.PledgeQuorum.
Local Open Scope N_scope.

Definition gkey (x : N * N * N) : N := x.1.2.

(* juror j has, at some point, returned an approval of key k to run r *)
Definition granted_to (s : state) (j r k : N) : Prop :=
  exists js m, s_jur s !! j = Some js /\ (r, k, m) ∈ j_granted js.

Definition jur_inv (js : jst) : Prop :=
  (forall x, x ∈ j_granted js -> gkey x ∈ j_appr js /\ x.2 < gkey x) /\
  NoDup (map gkey (j_granted js)).

Definition run_inv (s : state) (r : N) (rn : run) : Prop :=
  NoDup (quorum_of rn) /\
  (forall j, j ∈ quorum_of rn -> j ∈ map vaddr (healthy (r_snap rn))) /\
  (forall j, (j, true) ∈ r_asked rn -> granted_to s j r (r_prop rn)) /\
  (admitted_run rn = true ->
     length (r_asked rn) = qsize (r_snap rn) /\ all_ok (r_asked rn) = true) /\
  (r_prop rn = 0 \/ r_base rn < r_prop rn) /\
  (admitted_run rn = true \/ r_phase rn = PhConsult -> r_prop rn <> 0) /\
  is_Some (s_jur s !! r_member rn).

Definition pl_inv (s : state) (p : N) (ps : pst) : Prop :=
  forall k c, p_result ps = Some (k, c) ->
    exists r rn js, s_runs s !! r = Some rn /\ r_pledge rn = p /\ r_phase rn = PhDone 0 false /\
                    r_prop rn = k /\ s_jur s !! r_member rn = Some js /\ j_ck js = c.

Record Inv (s : state) : Prop := {
  inv_jur : forall j js, s_jur s !! j = Some js -> jur_inv js;
  inv_run : forall r rn, s_runs s !! r = Some rn -> run_inv s r rn;
  inv_pl : forall p ps, s_pl s !! p = Some ps -> pl_inv s p ps
}.

(* jurors only ever gain memory, and keep their configuration *)
Definition jmono (s s' : state) : Prop :=
  forall j js, s_jur s !! j = Some js ->
    exists js', s_jur s' !! j = Some js' /\
                (forall x, x ∈ j_granted js -> x ∈ j_granted js') /\
                (forall x, x ∈ j_appr js -> x ∈ j_appr js') /\
                j_ck js' = j_ck js /\ j_max js' = j_max js.

Lemma jmono_refl s : jmono s s.
Proof. intros j js H. exists js. auto. Qed.

Lemma jmono_same_jur s s' : s_jur s' = s_jur s -> jmono s s'.
Proof. intros E j js H. exists js. rewrite E. auto. Qed.

Lemma granted_mono s s' j r k : jmono s s' -> granted_to s j r k -> granted_to s' j r k.
Proof.
  intros Hm (js & m & Hj & Hin). destruct (Hm j js Hj) as (js' & Hj' & Hg & _).
  exists js', m. auto.
Qed.

Lemma run_inv_mono s s' r rn : jmono s s' -> run_inv s r rn -> run_inv s' r rn.
Proof.
  intros Hm (H1 & H2 & H3 & H4 & H5 & H6 & H7). repeat split; auto.
  - intros j Hj. eapply granted_mono; eauto.
  - apply H4; auto.
  - apply H4; auto.
  - destruct H7 as [js Hj]. destruct (Hm _ _ Hj) as (js' & Hj' & _). eauto.
Qed.

Lemma NoDup_fmap_inj_on {A B} (f : A -> B) (l : list A) x y :
  NoDup (map f l) -> x ∈ l -> y ∈ l -> f x = f y -> x = y.
Proof.
  induction l as [|a l IH]; simpl; intros Hnd Hx Hy Hf.
  - inversion Hx.
  - apply NoDup_cons in Hnd. destruct Hnd as [Hna Hnd].
    apply elem_of_cons in Hx. apply elem_of_cons in Hy.
    destruct Hx as [->|Hx], Hy as [->|Hy]; auto.
    + exfalso. apply Hna. rewrite Hf. apply elem_of_list_fmap. eauto.
    + exfalso. apply Hna. rewrite <- Hf. apply elem_of_list_fmap. eauto.
Qed.

(* ---- the juror ---- *)
Lemma juror_verdict_spec appr v key vd appr' :
  juror_verdict appr v key = (vd, appr') ->
  (forall x, x ∈ appr -> x ∈ appr') /\
  (vd = VApprove -> key ∉ appr /\ key ∈ appr' /\ max_key v < key) /\
  (vd = VApprove \/ vd = VReject).
Proof.
  unfold juror_verdict. intros H.
  destruct (bool_decide (key ∈ appr)) eqn:E1.
  - inversion H; subst. split; [auto|]. split; [discriminate|auto].
  - apply bool_decide_eq_false in E1.
    destruct (key <=? max_key v) eqn:E2; inversion H; subst.
    + split; [intros x Hx; apply elem_of_app; auto|]. split; [discriminate|auto].
    + apply N.leb_gt in E2.
      split; [intros x Hx; apply elem_of_app; auto|].
      split; [|auto]. intros _. split; [done|]. split; [|done].
      apply elem_of_app. right. apply elem_of_list_singleton. done.
Qed.

Lemma juror_process_spec s r j key vd s' :
  juror_process s r j key = Some (vd, s') ->
  exists js js', s_jur s !! j = Some js /\ s' = set_jur s j js' /\
    j_ck js' = j_ck js /\ j_max js' = j_max js /\
    (forall x, x ∈ j_appr js -> x ∈ j_appr js') /\
    (forall x, x ∈ j_granted js -> x ∈ j_granted js') /\
    (jur_inv js -> jur_inv js') /\
    (vd = VApprove -> exists m, (r, key, m) ∈ j_granted js').
Proof.
  unfold juror_process. intros H.
  destruct (s_jur s !! j) as [js|] eqn:Ej; [|discriminate].
  destruct (juror_verdict (j_appr js) (view_of s j) key) as [vd0 appr'] eqn:Ev.
  inversion H; subst vd0 s'; clear H.
  destruct (juror_verdict_spec _ _ _ _ _ Ev) as (Ha & Hb & Hc).
  eexists js, _. split; [done|]. split; [done|]. simpl.
  split; [done|]. split; [done|]. split; [done|].
  destruct (bool_decide (vd = VApprove)) eqn:Ed.
  - apply bool_decide_eq_true in Ed. destruct (Hb Ed) as (Hn & Hin & Hlt).
    split; [intros x Hx; apply elem_of_app; auto|].
    split.
    + intros (J1 & J2). split.
      * intros x Hx. apply elem_of_app in Hx. destruct Hx as [Hx|Hx].
        -- destruct (J1 x Hx). split; auto.
        -- apply elem_of_list_singleton in Hx. subst x. simpl. auto.
      * simpl. rewrite map_app. simpl. apply NoDup_app. split; [done|]. split.
        -- intros k Hk Hk'. apply elem_of_list_singleton in Hk'. subst k.
           apply elem_of_list_fmap in Hk. destruct Hk as (x & Hx1 & Hx2).
           destruct (J1 x Hx2) as [Hin' _]. rewrite <- Hx1 in Hin'. unfold gkey in Hn. simpl in *. done.
        -- apply NoDup_singleton.
    + intros _. exists (max_key (view_of s j)). apply elem_of_app. right.
      apply elem_of_list_singleton. done.
  - apply bool_decide_eq_false in Ed. split; [done|]. split.
    + intros (J1 & J2). split; [|done]. intros x Hx. destruct (J1 x Hx). split; auto.
    + intros E. done.
Qed.

Lemma jmono_set_jur s j js js' :
  s_jur s !! j = Some js ->
  j_ck js' = j_ck js -> j_max js' = j_max js ->
  (forall x, x ∈ j_appr js -> x ∈ j_appr js') ->
  (forall x, x ∈ j_granted js -> x ∈ j_granted js') ->
  jmono s (set_jur s j js').
Proof.
  intros Hj Hc Hm Ha Hg i is_ Hi. simpl.
  destruct (decide (i = j)) as [->|Hne].
  - rewrite lookup_insert. rewrite Hj in Hi. inversion Hi; subst. eauto 10.
  - rewrite lookup_insert_ne by done. exists is_. auto.
Qed.

(* generic state surgery *)
Lemma Inv_jur_update s j js js' :
  Inv s -> s_jur s !! j = Some js ->
  j_ck js' = j_ck js -> j_max js' = j_max js ->
  (forall x, x ∈ j_appr js -> x ∈ j_appr js') ->
  (forall x, x ∈ j_granted js -> x ∈ j_granted js') ->
  jur_inv js' ->
  Inv (set_jur s j js').
Proof.
  intros [I1 I2 I3] Hj Hc Hm Ha Hg Hi.
  pose proof (jmono_set_jur s j js js' Hj Hc Hm Ha Hg) as Hmono.
  split; simpl.
  - intros i is_ Hl. destruct (decide (i = j)) as [->|Hne].
    + rewrite lookup_insert in Hl. inversion Hl; subst. done.
    + rewrite lookup_insert_ne in Hl by done. eauto.
  - intros r rn Hr. eapply run_inv_mono; eauto.
  - intros p ps Hp k c Hres. destruct (I3 p ps Hp k c Hres) as (r & rn & ms & Hr & H1 & H2 & H3 & H4 & H5).
    destruct (Hmono _ _ H4) as (ms' & Hms' & _ & _ & Hck & _).
    exists r, rn, ms'. repeat split; auto. congruence.
Qed.

Lemma Inv_run_update s r rn' :
  Inv s -> run_inv s r rn' ->
  (forall rn, s_runs s !! r = Some rn -> forall x l, r_phase rn <> PhDone x l) ->
  Inv (set_run s r rn').
Proof.
  intros [I1 I2 I3] Hr Hold. split; simpl.
  - done.
  - intros r0 rn0 Hl. destruct (decide (r0 = r)) as [->|Hne].
    + rewrite lookup_insert in Hl. inversion Hl; subst.
      eapply run_inv_mono; [|exact Hr]. apply jmono_same_jur. done.
    + rewrite lookup_insert_ne in Hl by done.
      eapply run_inv_mono; [|apply I2; exact Hl]. apply jmono_same_jur. done.
  - intros p ps Hp k c Hres. destruct (I3 p ps Hp k c Hres) as (r0 & rn0 & ms & Hr0 & H1 & H2 & H3 & H4 & H5).
    exists r0, rn0, ms. split; [|auto].
    destruct (decide (r0 = r)) as [->|Hne].
    + exfalso. eapply Hold; eauto.
    + simpl. rewrite lookup_insert_ne by done. done.
Qed.

Lemma run_inv_frame_views s r rn vs :
  run_inv s r rn -> run_inv (St vs (s_jur s) (s_runs s) (s_pl s) (s_late s)) r rn.
Proof. intros H. eapply run_inv_mono; [|exact H]. intros j js Hj. exists js. auto. Qed.

Lemma run_inv_frame_late s r rn l :
  run_inv s r rn -> run_inv (set_late s l) r rn.
Proof. intros H. eapply run_inv_mono; [|exact H]. intros j js Hj. exists js. auto. Qed.

Lemma Inv_set_late s l : Inv s -> Inv (set_late s l).
Proof.
  intros [I1 I2 I3]. split; simpl; auto.
Qed.

Lemma Inv_set_views s vs : Inv s -> Inv (St vs (s_jur s) (s_runs s) (s_pl s) (s_late s)).
Proof.
  intros [I1 I2 I3]. split; simpl; auto.
Qed.

(* answering one juror request *)
Lemma run_inv_record_answer s r rn j ok :
  run_inv s r rn ->
  r_phase rn = PhConsult ->
  j ∈ map vaddr (healthy (r_snap rn)) ->
  j ∉ map fst (r_asked rn) ->
  (ok = true -> granted_to s j r (r_prop rn)) ->
  let asked := r_asked rn ++ [(j, ok)] in
  let ph := if bool_decide (length asked = qsize (r_snap rn))
            then (if all_ok asked then PhEnd 0 else PhIdle) else PhConsult in
  run_inv s r (Run (r_pledge rn) (r_member rn) (r_prop rn) (r_base rn) (r_rounds rn) (r_snap rn) asked ph).
Proof.
  intros (H1 & H2 & H3 & H4 & H5 & H6 & H7) Hph Hj Hnew Hok asked ph.
  unfold run_inv, quorum_of, admitted_run; simpl.
  split.
  { subst asked. rewrite map_app. simpl. apply NoDup_app. split; [exact H1|]. split.
    - intros x Hx Hx'. apply elem_of_list_singleton in Hx'. subst x. done.
    - apply NoDup_singleton. }
  split.
  { intros x Hx. subst asked. rewrite map_app in Hx. apply elem_of_app in Hx. destruct Hx as [Hx|Hx].
    - apply H2. exact Hx.
    - simpl in Hx. apply elem_of_list_singleton in Hx. subst x. done. }
  split.
  { intros x Hx. subst asked. apply elem_of_app in Hx. destruct Hx as [Hx|Hx].
    - apply H3. done.
    - apply elem_of_list_singleton in Hx. inversion Hx; subst. auto. }
  split.
  { subst ph. intros Hadm.
    destruct (bool_decide (length asked = qsize (r_snap rn))) eqn:E1; [|discriminate].
    apply bool_decide_eq_true in E1.
    destruct (all_ok asked) eqn:E2; [|discriminate]. auto. }
  split; [exact H5|].
  split; [|exact H7].
  intros _. apply H6. rewrite Hph. discriminate.
Qed.

Lemma step_preserves pmax s e s' : Inv s -> step pmax s e = Some s' -> Inv s'.
Proof.
  intros HI Hs. pose proof HI as [I1 I2 I3].
  destruct e as [a v|p a r|p a|r v|r j key how vd|r j key vd|j key vd|r key ck err lost|p ok key ck];
    simpl in Hs.
  - (* EGossip *) inversion Hs; subst. apply Inv_set_views. done.
  - (* EPStart *)
    destruct (s_runs s !! r) eqn:Er; [discriminate|].
    destruct (s_jur s !! a) eqn:Ea; [|discriminate].
    destruct (negb (p_done (pl_of s p)) && bool_decide (p_result (pl_of s p) = None)); [|discriminate].
    inversion Hs; subst. apply Inv_run_update; auto.
    + unfold run_inv, quorum_of, admitted_run; simpl. repeat split; auto.
      * constructor.
      * intros j Hj. inversion Hj.
      * intros j Hj. inversion Hj.
      * discriminate.
      * discriminate.
      * intros H. done.
      * rewrite Ea. eauto.
    + intros rn Hr. rewrite Er in Hr. discriminate.
  - (* EPFail *)
    destruct (negb (p_done (pl_of s p)) && bool_decide (p_result (pl_of s p) = None)); [|discriminate].
    inversion Hs; subst. done.
  - (* ESnap *)
    destruct (s_runs s !! r) as [rn|] eqn:Er; [|discriminate].
    destruct (s_jur s !! r_member rn) as [ms|] eqn:Em; [|discriminate].
    destruct (bool_decide (r_phase rn = PhIdle)) eqn:E1; [|discriminate].
    destruct (bool_decide (r_rounds rn < j_max ms)%nat) eqn:E2; [|discriminate].
    destruct (bool_decide (v = view_of s (r_member rn))) eqn:E3; [|discriminate].
    simpl in Hs. inversion Hs; subst s'; clear Hs.
    apply bool_decide_eq_true in E1.
    destruct (I2 r rn Er) as (H1 & H2 & H3 & H4 & H5 & H6 & H7).
    apply Inv_run_update; auto.
    + unfold run_inv, quorum_of, admitted_run; simpl. repeat split.
      * constructor.
      * intros j Hj. inversion Hj.
      * intros j Hj. inversion Hj.
      * destruct (bool_decide (length (healthy v) < qsize v)%nat); discriminate.
      * destruct (bool_decide (length (healthy v) < qsize v)%nat); discriminate.
      * destruct (bool_decide (r_prop rn = 0)) eqn:E4.
        -- right. lia.
        -- apply bool_decide_eq_false in E4. right. destruct H5 as [H5|H5]; [done|lia].
      * intros _. destruct (bool_decide (r_prop rn = 0)); lia.
      * rewrite Em. eauto.
    + intros rn0 Hr0 x l. rewrite Er in Hr0. inversion Hr0; subst. rewrite E1. discriminate.
  - (* EReq *)
    destruct (s_runs s !! r) as [rn|] eqn:Er; [|discriminate].
    destruct (bool_decide (r_phase rn = PhConsult)) eqn:E1; [|discriminate].
    destruct (bool_decide (key = r_prop rn)) eqn:E2; [|discriminate].
    destruct (bool_decide (j ∈ map vaddr (healthy (r_snap rn)))) eqn:E3; [|discriminate].
    destruct (bool_decide (j ∉ map fst (r_asked rn))) eqn:E4; [|discriminate].
    simpl in Hs.
    apply bool_decide_eq_true in E1. apply bool_decide_eq_true in E2.
    apply bool_decide_eq_true in E3. apply bool_decide_eq_true in E4. subst key.
    assert (Hnd : forall rn0, s_runs s !! r = Some rn0 -> forall x l, r_phase rn0 <> PhDone x l).
    { intros rn0 Hr0 x l. rewrite Er in Hr0. inversion Hr0; subst. rewrite E1. discriminate. }
    assert (Hplain : forall s0, Inv s0 -> s_runs s0 !! r = Some rn -> Inv (record_answer s0 r rn j false)).
    { intros s0 HI0 Hr0. unfold record_answer. apply Inv_run_update; auto.
      - apply run_inv_record_answer; auto.
        + apply (inv_run s0 HI0 r rn Hr0).
        + discriminate.
      - intros rn0 Hrn0 x l. rewrite Hr0 in Hrn0. inversion Hrn0; subst. rewrite E1. discriminate. }
    assert (Hdeliv : forall ok vd' s1,
              juror_process s r j (r_prop rn) = Some (vd', s1) ->
              (ok = true -> vd' = VApprove) ->
              Inv (record_answer s1 r rn j ok)).
    { intros ok vd' s1 Hjp Hok.
      destruct (juror_process_spec _ _ _ _ _ _ Hjp) as (js & js' & Hj & -> & Hc & Hm & Ha & Hg & Hji & Hgr).
      assert (HI1 : Inv (set_jur s j js')).
      { eapply Inv_jur_update; eauto. apply Hji. eapply I1; eauto. }
      unfold record_answer. apply Inv_run_update; auto.
      - apply run_inv_record_answer; auto.
        + apply (inv_run _ HI1 r rn). simpl. done.
        + intros ->. destruct (Hgr (Hok eq_refl)) as (m & Hin).
          exists js', m. simpl. rewrite lookup_insert. auto. }
    destruct how as [|hp]; [|destruct hp as [[|[]|]|[[]| |]|]]; try discriminate.
    + (* how = 0 *)
      destruct (juror_process s r j (r_prop rn)) as [[vd' s1]|] eqn:Ejp; [|discriminate].
      destruct (bool_decide (vd = vd')) eqn:Evd; [|discriminate].
      apply bool_decide_eq_true in Evd. subst vd'.
      inversion Hs; subst s'. eapply Hdeliv; eauto.
      intros Hok. simpl in Hok. apply bool_decide_eq_true in Hok. done.
    + (* how = 3 *)
      destruct (s_jur s !! j); [|discriminate].
      destruct (bool_decide (vd = VCtx)); [|discriminate].
      inversion Hs; subst s'. apply Hplain; auto.
    + (* how = 2 *)
      destruct (juror_process s r j (r_prop rn)) as [[vd' s1]|] eqn:Ejp; [|discriminate].
      destruct (bool_decide (vd = vd')) eqn:Evd; [|discriminate].
      inversion Hs; subst s'. eapply Hdeliv; eauto.
      intros Hok. simpl in Hok. discriminate.
    + (* how = 4 *)
      inversion Hs; subst s'. apply Hplain; [apply Inv_set_late; auto|done].
    + (* how = 1 *)
      inversion Hs; subst s'. apply Hplain; auto.
  - (* ELate *)
    destruct (remove_first (r, j, key) (s_late s)) as [l'|]; [|discriminate].
    destruct (juror_process (set_late s l') r j key) as [[vd' s1]|] eqn:Ejp.
    + destruct (bool_decide (vd = vd')); [|discriminate]. inversion Hs; subst s'.
      destruct (juror_process_spec _ _ _ _ _ _ Ejp) as (js & js' & Hj & -> & Hc & Hm & Ha & Hg & Hji & Hgr).
      eapply Inv_jur_update; eauto.
      * apply Inv_set_late. done.
      * apply Hji. eapply I1. exact Hj.
    + destruct (bool_decide (vd = VNone)); [|discriminate]. inversion Hs; subst s'.
      apply Inv_set_late. done.
  - (* EProbe *)
    destruct (juror_process s 0 j key) as [[vd' s1]|] eqn:Ejp.
    + destruct (bool_decide (vd = vd')); [|discriminate]. inversion Hs; subst s'.
      destruct (juror_process_spec _ _ _ _ _ _ Ejp) as (js & js' & Hj & -> & Hc & Hm & Ha & Hg & Hji & Hgr).
      eapply Inv_jur_update; eauto. apply Hji. eapply I1. exact Hj.
    + destruct (bool_decide (vd = VNone)); [|discriminate]. inversion Hs; subst s'. done.
  - (* EREnd *)
    destruct (s_runs s !! r) as [rn|] eqn:Er; [|discriminate].
    destruct (s_jur s !! r_member rn) as [ms|] eqn:Em; [|discriminate].
    set (res := match r_phase rn with
                | PhEnd x => Some x
                | PhIdle => if bool_decide (r_rounds rn = j_max ms) then Some 1 else None
                | _ => None end) in Hs.
    destruct res as [x|] eqn:Eres; [|discriminate].
    destruct (bool_decide (key = r_prop rn)) eqn:E1; [|discriminate].
    destruct (bool_decide (ck = j_ck ms)) eqn:E2; [|discriminate].
    destruct (err_matches x err); [|discriminate]. simpl in Hs.
    apply bool_decide_eq_true in E1. apply bool_decide_eq_true in E2. subst key ck.
    destruct (I2 r rn Er) as (H1 & H2 & H3 & H4 & H5 & H6 & H7).
    set (rn' := Run (r_pledge rn) (r_member rn) (r_prop rn) (r_base rn) (r_rounds rn) (r_snap rn) (r_asked rn) (PhDone x lost)) in *.
    assert (Hph : forall y l, r_phase rn <> PhDone y l).
    { intros y l Hp. subst res. rewrite Hp in Eres. discriminate. }
    assert (HI1 : Inv (set_run s r rn')).
    { apply Inv_run_update; auto.
      - unfold run_inv, quorum_of, admitted_run; subst rn'; simpl. repeat split; auto.
        + apply H4. unfold admitted_run. subst res.
          destruct (r_phase rn) as [| |y|y l]; try discriminate.
          * destruct (bool_decide (r_rounds rn = j_max ms)); [|discriminate].
            inversion Eres; subst x. destruct H as [H _] || idtac. simpl in *. discriminate.
          * inversion Eres; subst y. destruct x as [|[]]; simpl in *; auto.
        + apply H4. unfold admitted_run. subst res.
          destruct (r_phase rn) as [| |y|y l]; try discriminate.
          * destruct (bool_decide (r_rounds rn = j_max ms)); [|discriminate].
            inversion Eres; subst x. simpl in *. discriminate.
          * inversion Eres; subst y. destruct x as [|[]]; simpl in *; auto.
        + intros _. subst res. destruct (r_phase rn) as [| |y|y l] eqn:Ep; try discriminate.
          * destruct (bool_decide (r_rounds rn = j_max ms)) eqn:Eb; [|discriminate].
            inversion Eres; subst x. clear Eres.
            (* gave up from PhIdle after at least ... rounds: prop may still be 0 only if j_max = 0 *)
            destruct H5 as [H5|H5]; [|lia].
            (* r_prop = 0 *)
            exfalso. revert H5. admit.
          * apply H6. discriminate.
      - intros rn0 Hr0 y l. rewrite Er in Hr0. inversion Hr0; subst. apply Hph. }
    admit.
  - admit.
Admitted.
