(* The C12 monitor accepts every run of the model: it cannot raise an alarm on an
   implementation that agrees with the model (soundness of the monitor w.r.t. the model). *)
From stdpp Require Import gmap.
From Coq Require Import NArith Lia.
From Synnax Require Import Aspen.Membership Aspen.MembershipProofs Aspen.MembershipConv Monitors.Mon_C12.
Local Open Scope N_scope.

Lemma rec_leb_spec n n' : rec_le n n' -> rec_leb n n' = true.
Proof.
  unfold rec_le, rec_leb. intros [->|H].
  - rewrite bool_decide_eq_true_2 by reflexivity. reflexivity.
  - rewrite H. apply orb_true_r.
Qed.

Lemma vleb_spec v w : vle v w -> vleb v w = true.
Proof.
  intros H. unfold vleb. apply forallb_forall. intros [k n] Hin. simpl.
  apply elem_of_list_In, elem_of_map_to_list in Hin.
  destruct (H _ _ Hin) as (n' & -> & Hle). apply rec_leb_spec. assumption.
Qed.

Lemma cleb_spec c c' : cle c c' -> cleb c c' = true.
Proof.
  intros H. unfold cleb. apply forallb_forall. intros [i v] Hin. simpl.
  apply elem_of_list_In, elem_of_map_to_list in Hin.
  destruct (H _ _ Hin) as (v' & -> & Hle). apply vleb_spec. assumption.
Qed.

Lemma upd_host_lookup c i f v m :
  c !! i = Some v -> v !! i = Some m ->
  upd_host c i f !! i = Some (<[i := f m]> v).
Proof. intros Hc Hv. unfold upd_host. rewrite Hc, Hv. apply lookup_insert. Qed.

Lemma restart_gen strict c i g :
  host_gen c i = Some g -> host_gen (step strict c (Restart i)) i = Some (g + 1).
Proof.
  unfold host_gen. destruct (c !! i) as [v|] eqn:Ec; [|discriminate].
  destruct (v !! i) as [m|] eqn:Ev; [|discriminate]. intros [= <-]. simpl.
  rewrite (upd_host_lookup c i _ v m Ec Ev), lookup_insert. reflexivity.
Qed.

Lemma ok_step_model strict c o : ok_step c o (step strict c o) = true.
Proof.
  unfold ok_step. rewrite (cleb_spec _ _ (step_grows strict c o)). simpl.
  destruct o as [i j|i|i s|i|i j inner]; try reflexivity.
  destruct (host_gen c i) as [g|] eqn:Eg; [|reflexivity].
  rewrite (restart_gen strict c i g Eg). apply N.ltb_lt. lia.
Qed.

(* every step check of the monitor passes on the model's own trace — no hypothesis *)
Theorem monitor_steps_sound strict ops : forall c,
  ok_steps c (combine ops (model_trace strict c ops)) = true.
Proof.
  induction ops as [|o ops IH]; intros c; simpl.
  - reflexivity.
  - rewrite ok_step_model. simpl. apply IH.
Qed.

(* the middle observation of an exchange with inner operations, on the model's own run *)
Lemma mid_grows strict c o : cle c (mid_of strict c o) /\ cle (mid_of strict c o) (step strict c o).
Proof.
  destruct o as [i j|i|i s|i|i j inner]; try (split; [apply cle_refl|apply step_grows]).
  cbn [mid_of step]. destruct (decide (i = j)); [split; apply cle_refl|].
  destruct (c !! i) as [vi0|]; [|split; apply cle_refl]. destruct (c !! j) as [vj0|]; [|split; apply cle_refl].
  split; [apply inner_grows|].
  set (c1 := fold_left (fun c kl => bstep strict c (inner_op kl)) inner c).
  destruct (c1 !! i) as [vi1|] eqn:Ei1; [|apply cle_refl].
  unfold ack. set (vi' := merge vi1 (msg_nodes (sync vj0 (view_digests vi0)))).
  set (c2 := <[i := vi']> c1).
  assert (H12 : cle c1 c2) by (apply (cle_insert_grow c1 i vi1 vi' Ei1), merge_vle_l).
  destruct (c2 !! j) as [vj1|] eqn:Ej2; [|exact H12].
  eapply cle_trans; [exact H12|]. apply (cle_insert_grow c2 j vj1); [assumption|apply merge_vle_l].
Qed.

Theorem monitor_mids_sound strict ops : forall c,
  ok_mids c (combine ops (model_trace strict c ops)) (model_mids strict c ops) = true.
Proof.
  induction ops as [|o ops IH]; intros c; [reflexivity|].
  cbn [model_trace combine model_mids]. destruct o as [i j|i|i s|i|i j inner]; cbn [is_nested app ok_mids]; try apply IH.
  destruct (mid_grows strict c (ExchangeN i j inner)) as [H1 H2].
  rewrite (cleb_spec _ _ H1), (cleb_spec _ _ H2). cbn [andb]. apply IH.
Qed.

Lemma all_equal_spec (c : cluster) :
  (forall i j vi vj, c !! i = Some vi -> c !! j = Some vj -> vi = vj) -> all_equal c = true.
Proof.
  intros H. unfold all_equal. destruct (map_to_list c) as [|[i v] rest] eqn:E; [reflexivity|].
  apply forallb_forall. intros [j w] Hin. simpl. apply bool_decide_eq_true_2.
  assert (Hi : c !! i = Some v) by (apply elem_of_map_to_list; rewrite E; left).
  assert (Hj : c !! j = Some w).
  { apply elem_of_map_to_list. rewrite E. right. apply elem_of_list_In. assumption. }
  eapply H; eauto.
Qed.

Lemma knows_all_spec (c0 c : cluster) :
  (forall i j vj0 vi, c0 !! j = Some vj0 -> c !! i = Some vi -> vle vj0 vi) -> knows_all c0 c = true.
Proof.
  intros H. unfold knows_all. apply forallb_forall. intros [i vi] Hi. simpl.
  apply forallb_forall. intros [j vj0] Hj. simpl.
  apply elem_of_list_In, elem_of_map_to_list in Hi, Hj.
  destruct (vj0 !! j) as [m|] eqn:Em; [|reflexivity].
  destruct (H _ _ _ _ Hj Hi j m Em) as (m' & -> & _). reflexivity.
Qed.

Lemma is_exchangeb_spec o : is_exchangeb o = true -> is_exchange o.
Proof. destruct o; try discriminate. intros _. eexists _, _; reflexivity. Qed.

Lemma coversb_spec c ops : coversb c ops = true -> covers c ops.
Proof.
  unfold coversb, covers. rewrite forallb_forall. intros H i j (vi & Hi) (vj & Hj) Hne.
  assert (Ii : In i (map fst (map_to_list c))).
  { apply in_map_iff. exists (i, vi). split; [reflexivity|]. apply elem_of_list_In, elem_of_map_to_list. assumption. }
  assert (Ij : In j (map fst (map_to_list c))).
  { apply in_map_iff. exists (j, vj). split; [reflexivity|]. apply elem_of_list_In, elem_of_map_to_list. assumption. }
  specialize (H i Ii). rewrite forallb_forall in H. specialize (H j Ij).
  apply orb_true_iff in H. destruct H as [H|H].
  - apply bool_decide_eq_true_1 in H. contradiction.
  - apply existsb_exists in H. destruct H as (o & Ho & Heq).
    apply orb_true_iff in Heq. destruct Heq as [Heq|Heq]; apply bool_decide_eq_true_1 in Heq; subst o; auto.
Qed.

(* the convergence check passes on every model run from a coherent cluster *)
Theorem monitor_conv_sound c ops :
  Coh c -> conv_ok c ops (run false c ops) = true.
Proof.
  intros HC. unfold conv_ok.
  destruct (forallb is_exchangeb ops) eqn:Ea; [|reflexivity].
  destruct (coversb c ops) eqn:Ec; [|reflexivity]. simpl.
  assert (Hex : Forall is_exchange ops).
  { apply Forall_forall. intros o Ho. apply is_exchangeb_spec.
    rewrite forallb_forall in Ea. apply Ea. apply elem_of_list_In. assumption. }
  destruct (converge c ops HC Hex (coversb_spec _ _ Ec)) as (Heq & Hsup & _).
  rewrite (all_equal_spec _ Heq), (knows_all_spec _ _ Hsup). reflexivity.
Qed.
