(* Aspen/KVObserve.v — proofs for C13: what the persist splitter forwards to observers.
   The log of a node (n_log) is every TxRequest the splitter forwarded; a subscriber's view is the
   part of the log after its subscription, minus (with IgnoreHostLeaseholder) the requests whose
   TxRequest.Leaseholder is the host. *)
From stdpp Require Import gmap.
From Coq Require Import NArith ZArith Lia.
From Synnax Require Import Aspen.KV Aspen.KVJoin Aspen.KVInv Aspen.KVQuiesce.
Local Open Scope N_scope.
Arguments supersedes : simpl never.

Definition log_ops (l : list note) : list op := concat (snd <$> l).
Definition pos3 (o : op) : N * Z * N := (o_key o, o_ver o, o_lh o).

(* every logged operation is dominated by the current entry of its key *)
Definition below (e : engine) (l : list op) : Prop := forall o, o ∈ l -> above (e !! o_key o) o.

Lemma below_mono e e' l :
  (forall k d, e !! k = Some d -> exists d', e' !! k = Some d' /\ entry_le d d') -> below e l -> below e' l.
Proof. intros H B o Ho. eapply above_mono; [apply H|apply B, Ho]. Qed.

(* ---------- one node: ingestion ---------- *)
Lemma ingest_log b : forall e l,
  below e l -> NoDup (pos3 <$> l) ->
  below (ingest_eng e b) (l ++ accepted e b) /\ NoDup (pos3 <$> (l ++ accepted e b)).
Proof.
  induction b as [|o r IH]; intros e l B N.
  - unfold accepted. simpl. rewrite app_nil_r. split; assumption.
  - rewrite ingest_eng_cons. unfold accepted. rewrite ingest_cons.
    destruct (supersedes (e !! o_key o) o) eqn:E; simpl.
    + assert (below (<[o_key o := o]> e) (l ++ [o])) as B1.
      { intros x Hx. apply elem_of_app in Hx as [Hx|Hx].
        - destruct (decide (o_key x = o_key o)) as [Ek|Ek].
          + rewrite Ek, lookup_insert. simpl. specialize (B x Hx). rewrite Ek in B.
            destruct (e !! o_key o) as [d|]; [|destruct B]. simpl in B.
            apply supersedes_some in E. eapply op_le_trans; [exact B|left; exact E].
          + rewrite lookup_insert_ne by congruence. apply B, Hx.
        - apply elem_of_list_singleton in Hx as ->. rewrite lookup_insert. apply op_le_refl. }
      assert (NoDup (pos3 <$> (l ++ [o]))) as N1.
      { rewrite fmap_app. apply NoDup_app. split; [exact N|]. split; [|apply NoDup_singleton].
        intros p Hp Hq. apply elem_of_list_singleton in Hq as ->.
        apply elem_of_list_fmap in Hp as (x & Ex & Hx). specialize (B x Hx).
        injection Ex as Ek Ev El. rewrite <- Ek in B.
        destruct (e !! o_key o) as [d|]; [|destruct B]. simpl in B. apply supersedes_some in E.
        unfold op_le, op_lt, same_pos in *. lia. }
      destruct (IH (<[o_key o := o]> e) (l ++ [o]) B1 N1) as [B2 N2].
      assert (l ++ o :: accepted (<[o_key o := o]> e) r = (l ++ [o]) ++ accepted (<[o_key o := o]> e) r) as ->
        by (rewrite <- List.app_assoc; reflexivity).
      split; assumption.
    + apply IH; assumption.
Qed.

(* an accepted operation had not lost to the stored entry ... *)
Lemma accepted_not_above b : forall e o, In o (accepted e b) -> above (e !! o_key o) o -> False.
Proof.
  induction b as [|a r IH]; intros e o H A; [destruct H|].
  unfold accepted in H. rewrite ingest_cons in H.
  destruct (supersedes (e !! o_key a) a) eqn:E; simpl in H.
  - destruct H as [->|H].
    + pose proof (best_id (e !! o_key o) o A) as Bi. unfold best in Bi. rewrite E in Bi.
      rewrite <- Bi in E. rewrite supersedes_irrefl in E. discriminate.
    + apply (IH (<[o_key a := a]> e) o H).
      destruct (decide (o_key o = o_key a)) as [Ek|Ek].
      * rewrite Ek, lookup_insert. simpl. rewrite Ek in A.
        destruct (e !! o_key a) as [d|]; [|destruct A]. simpl in A. apply supersedes_some in E.
        eapply op_le_trans; [exact A|left; exact E].
      * rewrite lookup_insert_ne by congruence. exact A.
  - apply (IH e o H A).
Qed.

(* ... it superseded what was stored at its turn and became the entry of its key *)
Lemma accepted_split b : forall e o, In o (accepted e b) ->
  exists b1 b2, b = b1 ++ o :: b2 /\
    supersedes (ingest_eng e b1 !! o_key o) o = true /\
    ingest_eng e (b1 ++ [o]) !! o_key o = Some o.
Proof.
  induction b as [|a r IH]; intros e o H; [destruct H|].
  unfold accepted in H. rewrite ingest_cons in H.
  destruct (supersedes (e !! o_key a) a) eqn:E; simpl in H.
  - destruct H as [->|H].
    + exists [], r. split; [reflexivity|]. split; [exact E|].
      simpl. rewrite ingest_eng_cons, E. unfold ingest_eng. simpl. apply lookup_insert.
    + destruct (IH _ _ H) as (b1 & b2 & -> & S1 & S2). exists (a :: b1), b2. split; [reflexivity|].
      rewrite <- app_comm_cons, !ingest_eng_cons, E. split; assumption.
  - destruct (IH _ _ H) as (b1 & b2 & -> & S1 & S2). exists (a :: b1), b2. split; [reflexivity|].
    rewrite <- app_comm_cons, !ingest_eng_cons, E. split; assumption.
Qed.

(* completeness at one node: whatever entry differs after the batch was accepted (hence forwarded) *)
Lemma ingest_changed b : forall e k x,
  ingest_eng e b !! k = Some x -> e !! k <> Some x -> In x (accepted e b).
Proof.
  induction b as [|a r IH]; intros e k x H Hne; [unfold ingest_eng in H; simpl in H; congruence|].
  rewrite ingest_eng_cons in H. unfold accepted. rewrite ingest_cons.
  destruct (supersedes (e !! o_key a) a) eqn:E; simpl.
  - destruct (decide (<[o_key a := a]> e !! k = Some x)) as [Eq|Nq].
    + destruct (decide (k = o_key a)) as [->|Hk].
      * rewrite lookup_insert in Eq. injection Eq as ->. left. reflexivity.
      * rewrite lookup_insert_ne in Eq by congruence. congruence.
    + right. apply (IH _ k x H Nq).
  - apply (IH _ k x H Hne).
Qed.

(* ---------- the cluster ---------- *)
Definition Lead (U : op -> Prop) (w : world) : Prop :=
  forall o nd, U o -> w_nodes w !! o_lh o = Some nd -> above (n_eng nd !! o_key o) o.

Definition note_ok (host : N) (x : note) : Prop :=
  (x.1 = 0 /\ forall o, o ∈ x.2 -> o_lh o <> host) \/ (x.1 = host /\ forall o, o ∈ x.2 -> o_lh o = host).

Record node_obs (host : N) (nd : node) : Prop := {
  no_below : below (n_eng nd) (log_ops (n_log nd));
  no_nodup : NoDup (pos3 <$> log_ops (n_log nd));
  no_notes : Forall (note_ok host) (n_log nd)
}.

Record ObsInv (U : op -> Prop) (w : world) : Prop := {
  oi_nodes : forall n nd, w_nodes w !! n = Some nd -> node_obs n nd;
  oi_lead : Lead U w;
  oi_nz : forall n nd, w_nodes w !! n = Some nd -> n <> 0
}.

Lemma log_ops_app l1 l2 : log_ops (l1 ++ l2) = log_ops l1 ++ log_ops l2.
Proof. unfold log_ops. rewrite fmap_app. apply concat_app. Qed.

Lemma log_ops_snoc l x : log_ops (l ++ [x]) = log_ops l ++ x.2.
Proof. rewrite log_ops_app. unfold log_ops at 2. simpl. rewrite app_nil_r. reflexivity. Qed.

(* a step that leaves every log alone and only moves engines up *)
Lemma ObsInv_same_logs U w w' :
  (forall n nd', w_nodes w' !! n = Some nd' -> exists nd, w_nodes w !! n = Some nd /\ n_log nd' = n_log nd) ->
  world_le w w' -> ObsInv U w -> ObsInv U w'.
Proof.
  intros Back L [on ol oz]. constructor.
  - intros n nd' Hn'. destruct (Back _ _ Hn') as (nd & Hn & El). destruct (on _ _ Hn) as [b d f].
    constructor; rewrite El; [|exact d|exact f].
    eapply below_mono; [|exact b]. intros k x Hk.
    destruct (L _ _ _ _ Hn Hk) as (nd'' & x' & Hn'' & Hk' & Le). rewrite Hn' in Hn''. injection Hn'' as <-. eauto.
  - intros o nd' Uo Hl'. destruct (Back _ _ Hl') as (nd & Hl & _).
    eapply world_le_above; [exact L|exact Hl|exact Hl'|]. apply ol; assumption.
  - intros n nd' Hn'. destruct (Back _ _ Hn') as (nd & Hn & _). eapply oz, Hn.
Qed.

Lemma upd_back w n nd nd' msgs' fbs' m ndm :
  w_nodes w !! n = Some nd ->
  w_nodes (upd w n nd' msgs' fbs') !! m = Some ndm ->
  exists ndm0, w_nodes w !! m = Some ndm0 /\ (m = n -> ndm = nd' /\ ndm0 = nd) /\ (m <> n -> ndm = ndm0).
Proof.
  intros Hn. rewrite upd_lookup. destruct (decide (m = n)) as [->|Hm].
  - intros [= <-]. exists nd. split; [exact Hn|]. split; [auto|congruence].
  - intros H. exists ndm. split; [exact H|]. split; [congruence|auto].
Qed.

(* ingestion at node j *)
Lemma ObsInv_ingest_at fx U w j sender ops :
  InvU U w -> ObsInv U w -> (forall o, In o ops -> U o) -> ObsInv U (ingest_at fx w j sender ops).
Proof.
  intros I OI Hops. pose proof (world_le_ingest_at fx w j sender ops) as L.
  destruct (ingest_at_shape fx w j sender ops) as [E|(nd & fbs' & Hj & E)]; [rewrite E; exact OI|].
  destruct OI as [on ol oz]. rewrite E in *. constructor.
  - intros n ndn Hn. destruct (upd_back _ _ _ _ _ _ _ _ Hj Hn) as (nd0 & Hn0 & Eq & Ne).
    destruct (decide (n = j)) as [->|Hnj]; [|rewrite (Ne Hnj); apply on, Hn0].
    destruct (Eq eq_refl) as [-> ->]. destruct (on _ _ Hj) as [b d f].
    destruct (ingest_log ops (n_eng nd) (log_ops (n_log nd)) b d) as [B2 N2].
    assert (forall o, o ∈ accepted (n_eng nd) ops -> o_lh o <> j) as NotHost.
    { intros o Ho Hlh. apply elem_of_list_In in Ho.
      apply (accepted_not_above ops (n_eng nd) o Ho).
      apply ol; [apply Hops, (accepted_in _ _ _ Ho)|]. rewrite Hlh. exact Hj. }
    destruct (accepted (n_eng nd) ops) as [|a acc] eqn:Ea; simpl.
    + rewrite app_nil_r in B2, N2. constructor; simpl; assumption.
    + constructor; simpl.
      * rewrite log_ops_snoc. exact B2.
      * rewrite log_ops_snoc. exact N2.
      * apply Forall_app. split; [exact f|]. apply Forall_singleton. left. split; [reflexivity|exact NotHost].
  - intros o ndl Uo Hl. destruct (upd_back _ _ _ _ _ _ _ _ Hj Hl) as (nd0 & Hl0 & _).
    eapply world_le_above; [exact L|exact Hl0|exact Hl|]. apply ol; assumption.
  - intros n ndn Hn. destruct (upd_back _ _ _ _ _ _ _ _ Hj Hn) as (nd0 & Hn0 & _). eapply oz, Hn0.
Qed.

Lemma ObsInv_ingest_at_f fx fn U w j sender ops :
  InvU U w -> ObsInv U w -> (forall o, In o ops -> U o) -> ObsInv U (ingest_at_f fx fn w j sender ops).
Proof.
  intros I OI Hops. unfold ingest_at_f. destruct (bool_decide (f_node fn = j)); [|apply ObsInv_ingest_at; assumption].
  destruct (ingest_at_fail_cases fx fn w j sender ops) as [->|[E1 _]]; [apply ObsInv_ingest_at; assumption|].
  eapply (ObsInv_same_logs U w); [|apply world_le_ext; symmetry; exact E1|exact OI].
  intros n nd' H. rewrite E1 in H. eauto.
Qed.

(* DB.Set / DB.Delete *)
Lemma ObsInv_write U w n k v lease del :
  InvU U w -> ObsInv U w ->
  (forall nd, w_nodes w !! n = Some nd -> n_eng nd !! k = None -> fresh_key U k) ->
  ObsInv (grow U (new_write w n k v lease del)) (do_write true w n k v lease del).1 /\
  ObsInv (grow U (new_write w n k v lease del)) (do_write false w n k v lease del).1.
Proof.
  intros I OI Hfresh.
  assert (forall fx, ObsInv (grow U (new_write w n k v lease del)) (do_write fx w n k v lease del).1) as X; [|split; apply X].
  intros fx. destruct (step_write U w fx n k v lease del I Hfresh) as [_ L].
  destruct (do_write_shape fx w n k v lease del) as [[E1 E2]|(nd & lh & ndl & Hn & Ha & Hl & E2 & E1)].
  { rewrite E1, E2. destruct OI as [on ol oz]. constructor; auto. intros o ndo [Uo|?]; [apply ol, Uo|discriminate]. }
  rewrite E1 in *. rewrite E2. clear E1 E2.
  destruct (local_force_ok U w n k v lease del nd lh ndl I Hfresh Hn Ha Hl) as [Hsup _].
  destruct OI as [on ol oz]. constructor.
  - intros m ndm Hm. destruct (upd_back _ _ _ _ _ _ _ _ Hl Hm) as (nd0 & Hm0 & Eq & Ne).
    destruct (decide (m = lh)) as [->|Hml]; [|rewrite (Ne Hml); apply on, Hm0].
    destruct (Eq eq_refl) as [-> ->]. destruct (on _ _ Hl) as [b d f].
    set (o := local_op ndl lh k del v) in *.
    destruct (ingest_log [o] (n_eng ndl) (log_ops (n_log ndl)) b d) as [B2 N2].
    assert (accepted (n_eng ndl) [o] = [o]) as Ea.
    { unfold accepted. rewrite ingest_cons. change (o_key o) with k. rewrite Hsup. reflexivity. }
    assert (ingest_eng (n_eng ndl) [o] = <[k := o]> (n_eng ndl)) as Ee.
    { rewrite ingest_eng_cons. change (o_key o) with k. rewrite Hsup. reflexivity. }
    rewrite Ea, Ee in B2. rewrite Ea in N2.
    constructor; simpl.
    + rewrite log_ops_snoc. exact B2.
    + rewrite log_ops_snoc. exact N2.
    + apply Forall_app. split; [exact f|]. apply Forall_singleton. right. split; [reflexivity|].
      intros x Hx. apply elem_of_list_singleton in Hx as ->. reflexivity.
  - intros o ndo [Uo|Eo] Ho.
    + destruct (upd_back _ _ _ _ _ _ _ _ Hl Ho) as (nd0 & Ho0 & _).
      eapply world_le_above; [exact L|exact Ho0|exact Ho|]. apply ol; assumption.
    + injection Eo as <-. simpl in Ho. rewrite lookup_insert in Ho. injection Ho as <-. simpl.
      rewrite lookup_insert. simpl. apply op_le_refl.
  - intros m ndm Hm. destruct (upd_back _ _ _ _ _ _ _ _ Hl Hm) as (nd0 & Hm0 & _). eapply oz, Hm0.
Qed.

Lemma ObsInv_grow_None U w : ObsInv U w -> ObsInv (grow U None) w.
Proof. intros [on ol oz]. constructor; auto. intros o nd [Uo|?]; [apply ol, Uo|discriminate]. Qed.

Lemma fb_deliver_back fx T w f n nd' :
  w_nodes (fb_deliver fx T w f) !! n = Some nd' -> exists nd, w_nodes w !! n = Some nd /\ n_log nd' = n_log nd.
Proof.
  destruct (fb_deliver_shape fx T w f) as [[E1 _]|(dest & nd & out & r' & fbs' & Hd & ->)].
  - rewrite E1. eauto.
  - intros H. destruct (upd_back _ _ _ _ _ _ _ _ Hd H) as (nd0 & H0 & Eq & Ne).
    exists nd0. split; [exact H0|]. destruct (decide (n = dest)) as [->|Hn].
    + destruct (Eq eq_refl) as [-> ->]. reflexivity.
    + rewrite (Ne Hn). reflexivity.
Qed.

Lemma fball_back fx T l : forall w n nd',
  w_nodes (fold_left (fb_deliver fx T) l w) !! n = Some nd' -> exists nd, w_nodes w !! n = Some nd /\ n_log nd' = n_log nd.
Proof.
  induction l as [|f l IH]; intros w n nd' H; [eauto|].
  simpl in H. destruct (IH _ _ _ H) as (nd1 & H1 & E1). destruct (fb_deliver_back _ _ _ _ _ _ H1) as (nd & H0 & E0).
  exists nd. split; [exact H0|congruence].
Qed.

Lemma restart_back w n m ndm :
  w_nodes (restart w n) !! m = Some ndm -> exists nd0, w_nodes w !! m = Some nd0 /\ n_log ndm = n_log nd0.
Proof.
  unfold restart. destruct (w_nodes w !! n) as [nd|] eqn:En; [|eauto].
  intros Hm. destruct (upd_back w n nd _ (w_msgs w) (w_fbs w) m ndm En Hm) as (nd0 & H0 & Eq & Ne).
  exists nd0. split; [exact H0|]. destruct (decide (m = n)) as [->|Hmn].
  - destruct (Eq eq_refl) as [-> ->]. reflexivity.
  - rewrite (Ne Hmn). reflexivity.
Qed.

Theorem ObsInv_step fx T U w s :
  InvU U w -> ObsInv U w -> ok_step U w s -> ObsInv (grow U (new_op w s)) (step fx T w s).1.
Proof.
  intros I OI Hok. destruct (step_preserves fx T U w s I Hok) as [_ L].
  destruct s as [n k v lease|n k|n sender b|n|m n|i j late|f| |n|n p|n p|n p|n s filter|fn g|n k lease del|n s]; simpl in *.
  - destruct (ObsInv_write U w n k v lease false I OI Hok) as [X1 X2]. destruct fx; assumption.
  - destruct (ObsInv_write U w n k 0 0 true I OI Hok) as [X1 X2]. destruct fx; assumption.
  - apply ObsInv_grow_None, ObsInv_ingest_at; assumption.
  - apply ObsInv_grow_None. destruct (w_nodes w !! n); simpl; [|exact OI].
    eapply (ObsInv_same_logs U w); [|apply world_le_ext; reflexivity|exact OI]. simpl. eauto.
  - apply ObsInv_grow_None. destruct (w_msgs w !! m) as [[sender ops]|] eqn:Em; simpl; [|exact OI].
    apply ObsInv_ingest_at; [exact I|exact OI|]. intros o Ho. eapply iu_sub; [exact I|]. eapply iw_msg; eassumption.
  - apply ObsInv_grow_None. unfold round.
    destruct (w_nodes w !! i); [|exact OI]. destruct (w_nodes w !! j); [|exact OI].
    destruct (bool_decide (i = j)); [exact OI|].
    destruct (payload w i) as [|o pl] eqn:Ep; [exact OI|].
    assert (forall x, In x (o :: pl) -> U x) as Hpl by (intros x Hx; rewrite <- Ep in Hx; exact (InvU_payload U w i x I Hx)).
    pose proof (InvU_ingest_at fx U w j i (o :: pl) I Hpl) as I1.
    pose proof (ObsInv_ingest_at fx U w j i (o :: pl) I OI Hpl) as O1.
    destruct late.
    + apply ObsInv_ingest_at; [exact I1|exact O1|]. intros x Hx. exact (InvU_payload U _ j x I1 Hx).
    + apply ObsInv_ingest_at; [exact I1|exact O1|]. intros x Hx. exact (InvU_payload U w j x I Hx).
  - apply ObsInv_grow_None. eapply (ObsInv_same_logs U w); [|exact L|exact OI]. apply fb_deliver_back.
  - apply ObsInv_grow_None. eapply (ObsInv_same_logs U w); [|exact L|exact OI]. apply fball_back.
  - apply ObsInv_grow_None. eapply (ObsInv_same_logs U w); [|exact L|exact OI].
    unfold restart. destruct (w_nodes w !! n) as [nd|] eqn:En; [|eauto].
    intros m ndm Hm. destruct (upd_back w n nd _ (w_msgs w) (w_fbs w) m ndm En Hm) as (nd0 & H0 & Eq & Ne).
    exists nd0. split; [exact H0|]. destruct (decide (m = n)) as [->|Hmn].
    + destruct (Eq eq_refl) as [-> ->]. reflexivity.
    + rewrite (Ne Hmn). reflexivity.
  - destruct Hok.
  - destruct Hok.
  - apply ObsInv_grow_None. eapply (ObsInv_same_logs U w); [|exact L|exact OI].
    destruct (recover_shape U w n p I) as [->|(nd & ndp & Hn & Hp & Hne & ->)]; [eauto|].
    intros m ndm Hm. destruct (upd_back _ _ _ _ _ _ _ _ Hn Hm) as (nd0 & H0 & Eq & Ne).
    exists nd0. split; [exact H0|]. destruct (decide (m = n)) as [->|Hmn].
    + destruct (Eq eq_refl) as [-> ->]. reflexivity.
    + rewrite (Ne Hmn). reflexivity.
  - apply ObsInv_grow_None. eapply (ObsInv_same_logs U w); [|exact L|exact OI].
    unfold subscribe. destruct (w_nodes w !! n) as [nd|] eqn:En; [|eauto].
    destruct (n_subs nd !! s); [eauto|].
    intros m ndm Hm. destruct (upd_back w n nd _ (w_msgs w) (w_fbs w) m ndm En Hm) as (nd0 & H0 & Eq & Ne).
    exists nd0. split; [exact H0|]. destruct (decide (m = n)) as [->|Hmn].
    + destruct (Eq eq_refl) as [-> ->]. reflexivity.
    + rewrite (Ne Hmn). reflexivity.
  - apply ObsInv_grow_None. destruct g as [n sender b|m n|i j late]; simpl in *.
    + apply ObsInv_ingest_at_f; assumption.
    + destruct (w_msgs w !! m) as [[sender ops]|] eqn:Em; simpl; [|exact OI].
      apply ObsInv_ingest_at_f; [exact I|exact OI|]. intros o Ho. eapply iu_sub; [exact I|]. eapply iw_msg; eassumption.
    + unfold round_f.
      destruct (w_nodes w !! i); [|exact OI]. destruct (w_nodes w !! j); [|exact OI].
      destruct (bool_decide (i = j)); [exact OI|].
      destruct (payload w i) as [|o pl] eqn:Ep; [exact OI|].
      assert (forall x, In x (o :: pl) -> U x) as Hpl by (intros x Hx; rewrite <- Ep in Hx; exact (InvU_payload U w i x I Hx)).
      pose proof (InvU_ingest_at_f fx fn U w j i (o :: pl) I Hpl) as I1.
      pose proof (ObsInv_ingest_at_f fx fn U w j i (o :: pl) I OI Hpl) as O1.
      destruct late.
      * apply ObsInv_ingest_at_f; [exact I1|exact O1|]. intros x Hx. exact (InvU_payload U _ j x I1 Hx).
      * apply ObsInv_ingest_at_f; [exact I1|exact O1|]. intros x Hx. exact (InvU_payload U w j x I Hx).
  - apply ObsInv_grow_None. eapply (ObsInv_same_logs U w); [|exact L|exact OI].
    destruct (write_cf_cases w n k lease del) as [->|[lh ->]]; [eauto|apply restart_back].
  - apply ObsInv_grow_None. eapply (ObsInv_same_logs U w); [|exact L|exact OI].
    unfold stall. destruct (w_nodes w !! n) as [nd|] eqn:En; [|eauto].
    intros m ndm Hm. destruct (upd_back w n nd _ (w_msgs w) (w_fbs w) m ndm En Hm) as (nd0 & H0 & Eq & Ne).
    exists nd0. split; [exact H0|]. destruct (decide (m = n)) as [->|Hmn].
    + destruct (Eq eq_refl) as [-> ->]. reflexivity.
    + rewrite (Ne Hmn). reflexivity.
Qed.

Lemma ObsInv_world0 ns : 0 ∉ ns -> ObsInv no_op (world0 ns).
Proof.
  intros Hz.
  assert (forall n nd, w_nodes (world0 ns) !! n = Some nd -> nd = node0 /\ n ∈ ns) as Z.
  { intros n nd H. unfold world0 in H. simpl in H. apply elem_of_list_to_map_2 in H.
    apply elem_of_list_fmap in H as (x & [= -> ->] & Hx). split; [reflexivity|exact Hx]. }
  constructor.
  - intros n nd H. apply Z in H as [-> _]. constructor; simpl.
    + intros o Ho. apply elem_of_nil in Ho. destruct Ho.
    + apply NoDup_nil_2.
    + apply Forall_nil_2.
  - intros o nd [].
  - intros n nd H. apply Z in H as [_ H]. intros ->. exact (Hz H).
Qed.

Lemma ObsInv_run fx T l : forall U w, InvU U w -> ObsInv U w -> ok_run fx T U w l ->
  exists U', InvU U' (run fx T w l) /\ ObsInv U' (run fx T w l).
Proof.
  induction l as [|s r IH]; intros U w I OI Hok; [exists U; split; assumption|].
  destruct Hok as [H1 H2]. destruct (step_preserves fx T U w s I H1) as [I' _].
  pose proof (ObsInv_step fx T U w s I OI H1) as O'. unfold run. simpl. exact (IH _ _ I' O' H2).
Qed.

(* ---------- subscribers ---------- *)
Lemma sub_view_ops_subset host nd sb o :
  o ∈ concat (sub_view host nd sb) -> o ∈ log_ops (n_log nd).
Proof.
  unfold sub_view, log_ops. intros H. apply elem_of_list_In, in_concat in H as (b & Hb & Ho).
  apply elem_of_list_In, in_concat. exists b. split; [|exact Ho].
  apply in_map_iff in Hb as (x & <- & Hx). apply in_map_iff. exists x. split; [reflexivity|].
  apply elem_of_list_In, elem_of_list_filter in Hx as [_ Hx].
  apply elem_of_list_lookup in Hx as (i & Hi). rewrite lookup_drop in Hi.
  apply elem_of_list_In. eapply elem_of_list_lookup_2. exact Hi.
Qed.

(* NoDup is inherited by the flattened view: dropping a prefix and filtering whole batches *)
Lemma nodup_concat_filter (P : note -> bool) : forall L : list note,
  NoDup (pos3 <$> log_ops L) -> NoDup (pos3 <$> concat (snd <$> filter (fun x => P x = true) L)).
Proof.
  induction L as [|x L IH]; intros N; [simpl; apply NoDup_nil_2|].
  change (log_ops (x :: L)) with (x.2 ++ log_ops L) in N. rewrite fmap_app in N.
  apply NoDup_app in N as (N1 & N2 & N3). rewrite filter_cons.
  destruct (decide (P x = true)); [|apply IH, N3].
  simpl. rewrite fmap_app. apply NoDup_app. split; [exact N1|]. split; [|apply IH, N3].
  intros p Hp Hq. apply (N2 p Hp).
  apply elem_of_list_fmap in Hq as (o & -> & Ho). apply elem_of_list_fmap. exists o. split; [reflexivity|].
  unfold log_ops. apply elem_of_list_In, in_concat in Ho as (b & Hb & Ho).
  apply elem_of_list_In, in_concat. exists b. split; [|exact Ho].
  apply in_map_iff in Hb as (y & <- & Hy). apply in_map_iff. exists y. split; [reflexivity|].
  apply elem_of_list_In, elem_of_list_filter in Hy as [_ Hy]. apply elem_of_list_In, Hy.
Qed.

Lemma nodup_drop i (L : list note) :
  NoDup (pos3 <$> log_ops L) -> NoDup (pos3 <$> log_ops (drop i L)).
Proof.
  intros N. rewrite <- (take_drop i L), log_ops_app, fmap_app in N. apply NoDup_app in N as (_ & _ & N). exact N.
Qed.

Lemma sub_view_nodup host nd sb :
  NoDup (pos3 <$> log_ops (n_log nd)) -> NoDup (pos3 <$> concat (sub_view host nd sb)).
Proof.
  intros N. unfold sub_view.
  apply (nodup_concat_filter (fun x : note => negb (sb.1 && (x.1 =? host)))), nodup_drop, N.
Qed.

(* what a subscriber sees grows exactly by the (unfiltered part of the) newly forwarded requests *)
Lemma sub_view_app host nd nd' sb new :
  n_log nd' = n_log nd ++ new -> (sb.2 <= length (n_log nd))%nat ->
  sub_view host nd' sb =
  sub_view host nd sb ++ (snd <$> filter (fun x : note => negb (sb.1 && (x.1 =? host)) = true) new).
Proof.
  intros E Hs. unfold sub_view. rewrite E, drop_app_le by exact Hs. rewrite filter_app, fmap_app. reflexivity.
Qed.

(* ---------- completeness: every change of an entry is forwarded (all steps but recovery) ---------- *)
Definition log_rel (w w' : world) : Prop :=
  forall n nd', w_nodes w' !! n = Some nd' ->
    exists nd new, w_nodes w !! n = Some nd /\ n_log nd' = n_log nd ++ new /\
      forall k x, n_eng nd' !! k = Some x -> n_eng nd !! k <> Some x -> x ∈ log_ops new.

Lemma log_rel_refl w : log_rel w w.
Proof. intros n nd H. exists nd, []. rewrite app_nil_r. split; [exact H|]. split; [reflexivity|]. intros k x H1 H2. congruence. Qed.

Lemma log_rel_trans a b c : log_rel a b -> log_rel b c -> log_rel a c.
Proof.
  intros H1 H2 n ndc Hc. destruct (H2 _ _ Hc) as (ndb & new2 & Hb & E2 & C2).
  destruct (H1 _ _ Hb) as (nda & new1 & Ha & E1 & C1).
  exists nda, (new1 ++ new2). split; [exact Ha|]. split; [rewrite E2, E1, app_assoc; reflexivity|].
  intros k x Hx Hne. rewrite log_ops_app. apply elem_of_app.
  destruct (decide (n_eng ndb !! k = Some x)) as [Eb|Nb].
  - left. apply (C1 k); assumption.
  - right. apply (C2 k); assumption.
Qed.

Lemma log_rel_upd_same w n nd nd' msgs' fbs' :
  w_nodes w !! n = Some nd -> n_eng nd' = n_eng nd -> n_log nd' = n_log nd ->
  log_rel w (upd w n nd' msgs' fbs').
Proof.
  intros Hn Ee El m ndm Hm. destruct (upd_back _ _ _ _ _ _ _ _ Hn Hm) as (nd0 & H0 & Eq & Ne).
  exists nd0, []. rewrite app_nil_r. split; [exact H0|].
  destruct (decide (m = n)) as [->|Hmn].
  - destruct (Eq eq_refl) as [-> ->]. split; [exact El|]. intros k x H1 H2. rewrite Ee in H1. congruence.
  - rewrite (Ne Hmn). split; [reflexivity|]. intros k x H1 H2. congruence.
Qed.

Lemma log_rel_ext w w' : w_nodes w = w_nodes w' -> log_rel w w'.
Proof.
  intros E n nd H. exists nd, []. rewrite app_nil_r, E. split; [exact H|]. split; [reflexivity|]. intros k x H1 H2. congruence.
Qed.

Lemma log_rel_ingest_at fx w j sender ops : log_rel w (ingest_at fx w j sender ops).
Proof.
  destruct (ingest_at_shape fx w j sender ops) as [->|(nd & fbs' & Hj & ->)]; [apply log_rel_refl|].
  intros m ndm Hm. destruct (upd_back _ _ _ _ _ _ _ _ Hj Hm) as (nd0 & H0 & Eq & Ne).
  destruct (decide (m = j)) as [->|Hmj].
  - destruct (Eq eq_refl) as [-> ->]. simpl.
    destruct (accepted (n_eng nd) ops) as [|a acc] eqn:Ea.
    + exists nd, []. rewrite app_nil_r. split; [exact Hj|]. split; [reflexivity|].
      intros k x H1 H2. apply ingest_changed in H1; [|exact H2]. rewrite Ea in H1. destruct H1.
    + exists nd, [(0, a :: acc)]. split; [exact Hj|]. split; [reflexivity|].
      intros k x H1 H2. apply ingest_changed in H1; [|exact H2]. rewrite Ea in H1.
      unfold log_ops. simpl. rewrite app_nil_r. apply elem_of_list_In, H1.
  - rewrite (Ne Hmj). exists nd0, []. rewrite app_nil_r. split; [exact H0|]. split; [reflexivity|]. intros k x H1 H2. congruence.
Qed.

Lemma log_rel_ingest_at_f fx fn w j sender ops : log_rel w (ingest_at_f fx fn w j sender ops).
Proof.
  unfold ingest_at_f. destruct (bool_decide (f_node fn = j)); [|apply log_rel_ingest_at].
  destruct (ingest_at_fail_cases fx fn w j sender ops) as [->|[E1 _]]; [apply log_rel_ingest_at|].
  apply log_rel_ext. symmetry. exact E1.
Qed.

Lemma log_rel_write fx w n k v lease del : log_rel w (do_write fx w n k v lease del).1.
Proof.
  destruct (do_write_shape fx w n k v lease del) as [[-> _]|(nd & lh & ndl & Hn & Ha & Hl & _ & ->)]; [apply log_rel_refl|].
  intros m ndm Hm. destruct (upd_back _ _ _ _ _ _ _ _ Hl Hm) as (nd0 & H0 & Eq & Ne).
  destruct (decide (m = lh)) as [->|Hml].
  - destruct (Eq eq_refl) as [-> ->]. simpl. exists ndl, [(lh, [local_op ndl lh k del v])].
    split; [exact Hl|]. split; [reflexivity|]. intros k' x H1 H2.
    destruct (decide (k' = k)) as [->|Hk].
    + rewrite lookup_insert in H1. injection H1 as <-. unfold log_ops. simpl. apply elem_of_list_here.
    + rewrite lookup_insert_ne in H1 by congruence. congruence.
  - rewrite (Ne Hml). exists nd0, []. rewrite app_nil_r. split; [exact H0|]. split; [reflexivity|]. intros k' x H1 H2. congruence.
Qed.

Lemma log_rel_fb_deliver fx T w f : log_rel w (fb_deliver fx T w f).
Proof.
  destruct (fb_deliver_shape fx T w f) as [[E1 _]|(dest & nd & out & r' & fbs' & Hd & ->)].
  - apply log_rel_ext. symmetry. exact E1.
  - apply (log_rel_upd_same w dest nd); [exact Hd|reflexivity|reflexivity].
Qed.

Lemma log_rel_fball fx T l : forall w, log_rel w (fold_left (fb_deliver fx T) l w).
Proof.
  induction l as [|f l IH]; intros w; [apply log_rel_refl|]. simpl.
  eapply log_rel_trans; [apply log_rel_fb_deliver|apply IH].
Qed.

Definition applies_recovery (s : step_t) : bool :=
  match s with SRecEnd _ _ | SRecover _ _ => true | _ => false end.

Theorem step_complete fx T w s : applies_recovery s = false -> log_rel w (step fx T w s).1.
Proof.
  intros Hs. destruct s as [n k v lease|n k|n sender b|n|m n|i j late|f| |n|n p|n p|n p|n s filter|fn g|n k lease del|n s]; simpl in *; try discriminate.
  - apply log_rel_write.
  - apply log_rel_write.
  - apply log_rel_ingest_at.
  - destruct (w_nodes w !! n); simpl; [apply log_rel_ext; reflexivity|apply log_rel_refl].
  - destruct (w_msgs w !! m) as [[sender ops]|]; simpl; [apply log_rel_ingest_at|apply log_rel_refl].
  - unfold round. destruct (w_nodes w !! i); [|apply log_rel_refl]. destruct (w_nodes w !! j); [|apply log_rel_refl].
    destruct (bool_decide (i = j)); [apply log_rel_refl|].
    destruct (payload w i) as [|o pl]; [apply log_rel_refl|].
    destruct late; (eapply log_rel_trans; [apply log_rel_ingest_at|apply log_rel_ingest_at]).
  - apply log_rel_fb_deliver.
  - apply log_rel_fball.
  - unfold restart. destruct (w_nodes w !! n) as [nd|] eqn:En; [|apply log_rel_refl].
    apply (log_rel_upd_same w n nd); [exact En|reflexivity|reflexivity].
  - unfold rec_begin. destruct (w_nodes w !! n) as [nd|] eqn:En; [|apply log_rel_refl].
    destruct (w_nodes w !! p); [|apply log_rel_refl]. destruct (bool_decide (n = p)); [apply log_rel_refl|].
    destruct (n_rec nd !! p); [apply log_rel_refl|].
    apply (log_rel_upd_same w n nd); [exact En|reflexivity|reflexivity].
  - unfold subscribe. destruct (w_nodes w !! n) as [nd|] eqn:En; [|apply log_rel_refl].
    destruct (n_subs nd !! s); [apply log_rel_refl|].
    apply (log_rel_upd_same w n nd); [exact En|reflexivity|reflexivity].  - destruct g as [n sender b|m n|i j late]; simpl.
    + apply log_rel_ingest_at_f.
    + destruct (w_msgs w !! m) as [[sender ops]|]; simpl; [apply log_rel_ingest_at_f|apply log_rel_refl].
    + unfold round_f. destruct (w_nodes w !! i); [|apply log_rel_refl]. destruct (w_nodes w !! j); [|apply log_rel_refl].
      destruct (bool_decide (i = j)); [apply log_rel_refl|].
      destruct (payload w i) as [|o pl]; [apply log_rel_refl|].
      destruct late; (eapply log_rel_trans; [apply log_rel_ingest_at_f|apply log_rel_ingest_at_f]).
  - destruct (write_cf_cases w n k lease del) as [->|[lh ->]]; [apply log_rel_refl|].
    unfold restart. destruct (w_nodes w !! lh) as [nd|] eqn:En; [|apply log_rel_refl].
    apply (log_rel_upd_same w lh nd); [exact En|reflexivity|reflexivity].
  - unfold stall. destruct (w_nodes w !! n) as [nd|] eqn:En; [|apply log_rel_refl].
    apply (log_rel_upd_same w n nd); [exact En|reflexivity|reflexivity].
Qed.

(* ---------- the theorems over runs ---------- *)
Theorem observers_invariant fx T ns l :
  0 ∉ ns -> ok_run fx T no_op (world0 ns) l ->
  forall n nd, w_nodes (run fx T (world0 ns) l) !! n = Some nd -> node_obs n nd /\ n <> 0.
Proof.
  intros Hz Hok n nd Hn.
  destruct (ObsInv_run fx T l no_op (world0 ns) (InvU_world0 ns) (ObsInv_world0 ns Hz) Hok) as (U & _ & [on _ oz]).
  split; [apply on, Hn|eapply oz, Hn].
Qed.

(* at most once: no subscriber is ever handed the same (key, version, leaseholder) twice *)
Theorem at_most_once fx T ns l :
  0 ∉ ns -> ok_run fx T no_op (world0 ns) l ->
  forall n nd sb, w_nodes (run fx T (world0 ns) l) !! n = Some nd ->
    NoDup (pos3 <$> log_ops (n_log nd)) /\ NoDup (pos3 <$> concat (sub_view n nd sb)).
Proof.
  intros Hz Hok n nd sb Hn. destruct (observers_invariant fx T ns l Hz Hok n nd Hn) as [[b d f] _].
  split; [exact d|apply sub_view_nodup, d].
Qed.

(* the host filter: a forwarded request is hidden from an IgnoreHostLeaseholder subscriber iff it
   carries operations led by the host, and then only such operations; a shown request carries none *)
Theorem host_filter_exact fx T ns l :
  0 ∉ ns -> ok_run fx T no_op (world0 ns) l ->
  forall n nd x, w_nodes (run fx T (world0 ns) l) !! n = Some nd -> x ∈ n_log nd ->
    ((x.1 =? n) = true -> forall o, o ∈ x.2 -> o_lh o = n) /\
    ((x.1 =? n) = false -> forall o, o ∈ x.2 -> o_lh o <> n).
Proof.
  intros Hz Hok n nd x Hn Hx. destruct (observers_invariant fx T ns l Hz Hok n nd Hn) as [[b d f] Hnz].
  rewrite Forall_forall in f. destruct (f x Hx) as [[E H]|[E H]].
  - split; intros Hb; [|exact H]. apply N.eqb_eq in Hb. congruence.
  - split; intros Hb; [exact H|]. apply N.eqb_neq in Hb. congruence.
Qed.
