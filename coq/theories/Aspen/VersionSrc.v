(* Aspen/VersionSrc.v — the heartbeat order of Aspen/Membership.v and the version order used by Aspen/KV.v are
   EQUAL to the Gallina that translator/go2coq regenerates from x/go/version/{heartbeat,counter}.go on every run
   (Generated/Src_Version.v). *)
From stdpp Require Import gmap.
From Coq Require Import ZArith NArith Bool Lia.
From Synnax Require Import Aspen.Membership.
From Synnax Require Aspen.KV.
From Synnax Require Generated.Src_Version.
Module S := Generated.Src_Version.

Definition src (h : hb) : S.Heartbeat := S.mkHeartbeat (Z.of_N (gen h)) (Z.of_N (ver h)).

Lemma src_inj a b : src a = src b -> a = b.
Proof. destruct a, b. unfold src. cbn. intros H. inversion H. f_equal; lia. Qed.

Lemma N_ltb_Z a b : (Z.of_N a <? Z.of_N b)%Z = (a <? b)%N.
Proof. destruct (Z.ltb_spec (Z.of_N a) (Z.of_N b)), (N.ltb_spec a b); try reflexivity; lia. Qed.
Lemma N_eqb_Z a b : (Z.of_N a =? Z.of_N b)%Z = (a =? b)%N.
Proof. destruct (Z.eqb_spec (Z.of_N a) (Z.of_N b)), (N.eqb_spec a b); try reflexivity; lia. Qed.

(* Heartbeat.OlderThan / YoungerThan: equal for ALL heartbeats *)
Lemma older_from_source h o : S.Heartbeat_OlderThan (src h) (src o) = older h o.
Proof.
  unfold S.Heartbeat_OlderThan, older, src. cbn [S.Heartbeat_Generation S.Heartbeat_Version].
  now rewrite !Z.gtb_ltb, !N_ltb_Z, N_eqb_Z.
Qed.

Lemma younger_from_source h o : S.Heartbeat_YoungerThan (src h) (src o) = younger h o.
Proof.
  unfold S.Heartbeat_YoungerThan, younger, src. cbn [S.Heartbeat_Generation S.Heartbeat_Version].
  now rewrite !N_ltb_Z, N_eqb_Z.
Qed.

(* Heartbeat.Increment / Restart: equal as long as the uint32 fields do not wrap (the model counts in N;
   2^32 restarts or 2^32 state changes within one generation are outside it) *)
Lemma increment_from_source h :
  (ver h + 1 < 2 ^ 32)%N -> S.Heartbeat_Increment (src h) = src (hb_incr h).
Proof.
  intros Hb. unfold S.Heartbeat_Increment, hb_incr, src, S.wrap_u.
  cbn [S.Heartbeat_Generation S.Heartbeat_Version gen ver]. f_equal.
  rewrite Z.mod_small by lia. lia.
Qed.

Lemma restart_from_source h :
  (gen h + 1 < 2 ^ 32)%N -> S.Heartbeat_Restart (src h) = src (hb_restart h).
Proof.
  intros Hb. unfold S.Heartbeat_Restart, hb_restart, src, S.wrap_u.
  cbn [S.Heartbeat_Generation S.Heartbeat_Version gen ver]. f_equal.
  rewrite Z.mod_small by lia. lia.
Qed.

(* version.Counter, as used by aspen/internal/kv/filter_persist.go supersedes *)
Lemma supersedes_from_source d o :
  KV.supersedes (Some d) o =
  if S.Counter_EqualTo (KV.o_ver o) (KV.o_ver d) then (KV.o_lh d <? KV.o_lh o)%N
  else S.Counter_NewerThan (KV.o_ver o) (KV.o_ver d).
Proof.
  unfold KV.supersedes, S.Counter_EqualTo, S.Counter_NewerThan. now rewrite Z.gtb_ltb.
Qed.

Lemma counter_increment_from_source c :
  (- 2 ^ 63 <= c < 2 ^ 63 - 1)%Z -> S.Counter_Increment c = (c + 1)%Z.
Proof.
  intros Hc. unfold S.Counter_Increment, S.wrap_s. change (2 ^ (64 - 1))%Z with (2 ^ 63)%Z.
  rewrite Z.mod_small by lia. lia.
Qed.

Theorem version_from_source :
  (forall h o, S.Heartbeat_OlderThan (src h) (src o) = older h o) /\
  (forall h o, S.Heartbeat_YoungerThan (src h) (src o) = younger h o) /\
  (forall h, (ver h + 1 < 2 ^ 32)%N -> S.Heartbeat_Increment (src h) = src (hb_incr h)) /\
  (forall h, (gen h + 1 < 2 ^ 32)%N -> S.Heartbeat_Restart (src h) = src (hb_restart h)).
Proof.
  repeat split; intros; auto using older_from_source, younger_from_source, increment_from_source,
    restart_from_source.
Qed.
