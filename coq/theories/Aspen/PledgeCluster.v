(* Aspen/PledgeCluster.v — the cluster.Open level of joining: which cluster key a node
   holds after bootstrapping, after joining through a member, and after being reopened
   from its persisted state.
   Copies aspen/internal/cluster/cluster.go Open: the three branches (state found in
   storage: keep host key and cluster key, arbitrate with the STORED cluster key; peers
   given: pledge, take the key and the cluster key of the response, i.e. the cluster key
   the coordinating member arbitrates with; neither: bootstrap as node 1 with a fresh
   cluster key) and pledge.Pledge (the joined node arbitrates with the cluster key it
   received). Node keys are handed out by the pledge protocol (Aspen/Pledge.v); here the
   observed key is recorded and must survive a reopen.
   No proofs in this file. *)
From stdpp Require Import gmap.
From Coq Require Import NArith.
Local Open Scope N_scope.

Inductive cop :=
  | CStart (i : N)          (* bootstrap a cluster on node i *)
  | CJoin (i m : N)         (* new node i opens with Peers = [m] *)
  | CClose (i : N)
  | CReopen (i : N).

Record cnode := CNode {
  cn_key : N;       (* host key in its store *)
  cn_ck : N;        (* cluster key in its store = the key its arbitrator answers with *)
  cn_open : bool
}.
Notation cstate := (gmap N cnode).

(* what an op reports: did a cluster open, and with which host key / cluster key *)
Notation cobs := (bool * N * N)%type.
Definition no_obs : cobs := (false, 0, 0).

Definition all_open (s : cstate) : bool := forallb (fun x => cn_open x.2) (map_to_list s).

(* [ck0]: the cluster key the bootstrapper generates; [k]: the node key the pledge
   protocol handed to a joiner (taken from the observation) *)
Definition cstep (ck0 : N) (s : cstate) (o : cop) (k : N) : cstate * cobs :=
  match o with
  | CStart i =>
      if bool_decide (s = ∅) then (<[i := CNode 1 ck0 true]> s, (true, 1, ck0)) else (s, no_obs)
  | CJoin i m =>
      match s !! i, s !! m with
      | None, Some nm =>
          if all_open s then (<[i := CNode k (cn_ck nm) true]> s, (true, k, cn_ck nm)) else (s, no_obs)
      | _, _ => (s, no_obs)
      end
  | CClose i =>
      match s !! i with
      | Some n => if cn_open n then (<[i := CNode (cn_key n) (cn_ck n) false]> s, no_obs) else (s, no_obs)
      | None => (s, no_obs)
      end
  | CReopen i =>
      match s !! i with
      | Some n => if cn_open n then (s, no_obs)
                  else (<[i := CNode (cn_key n) (cn_ck n) true]> s, (true, cn_key n, cn_ck n))
      | None => (s, no_obs)
      end
  end.

(* a script with what the implementation reported for every op *)
Notation cscript := (list (cop * cobs)).

Fixpoint crun (ck0 : N) (s : cstate) (sc : cscript) : list cobs :=
  match sc with
  | [] => []
  | (o, ob) :: rest => let '(s', out) := cstep ck0 s o ob.1.2 in out :: crun ck0 s' rest
  end.

Fixpoint cfinal (ck0 : N) (s : cstate) (sc : cscript) : cstate :=
  match sc with
  | [] => s
  | (o, ob) :: rest => cfinal ck0 (cstep ck0 s o ob.1.2).1 rest
  end.
