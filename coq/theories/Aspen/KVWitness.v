(* Aspen/KVWitness.v — concrete runs of the model (checked by vm_compute) that refute the parts of
   C06 the code does not satisfy. Each was replayed on the real kv.DB nodes by the harness. *)
From stdpp Require Import gmap.
From Coq Require Import NArith ZArith Lia.
From Synnax Require Import Aspen.KV Aspen.KVJoin Aspen.KVInv Aspen.KVQuiesce Aspen.KVObserve.
Local Open Scope N_scope.

Definition entry_at (w : world) (n k : N) : option op :=
  match w_nodes w !! n with Some nd => n_eng nd !! k | None => None end.

Lemma regress_not_world_le w w' n k d d' :
  entry_at w n k = Some d -> entry_at w' n k = Some d' -> op_lt d' d -> ~ world_le w w'.
Proof.
  unfold entry_at. intros H1 H2 L W.
  destruct (w_nodes w !! n) as [nd|] eqn:En; [|discriminate].
  destruct (W _ _ _ _ En H1) as (nd' & d'' & En' & Hk' & Le).
  rewrite En' in H2. rewrite Hk' in H2. injection H2 as ->.
  destruct Le as [->|Lt]; [exact (op_lt_irrefl _ L)|exact (op_lt_asym _ _ L Lt)].
Qed.


(* (a) leaseholder path: two creators of key 1 (nodes 2 and 3); node 1 still names node 3 and
   forwards its write there; node 3 overwrites (3, lh 2) with (2, lh 3). *)
Definition lp_prefix : list step_t :=
  [SWrite 2 2 55 0; SWrite 2 2 85 0; SWrite 2 1 23 0; SWrite 3 1 44 0; SRound 3 1 false; SRound 2 3 false].
Definition lp_last : list step_t := [SWrite 1 1 69 0].

Lemma leasepath_regress fx :
  entry_at (run fx 2 (world0 [1; 2; 3]) lp_prefix) 3 1 = Some (Op 1 3 2 false 23) /\
  entry_at (run fx 2 (world0 [1; 2; 3]) (lp_prefix ++ lp_last)) 3 1 = Some (Op 1 2 3 false 69).
Proof. destruct fx; vm_compute; split; reflexivity. Qed.

Lemma leasepath_refuted fx :
  ~ world_le (run fx 2 (world0 [1; 2; 3]) lp_prefix) (run fx 2 (world0 [1; 2; 3]) (lp_prefix ++ lp_last)).
Proof.
  destruct (leasepath_regress fx) as [H1 H2].
  eapply regress_not_world_le; [exact H1|exact H2|]. left. simpl. lia.
Qed.

(* (b) recovery split from its high-water read, one creator per key: node 3 reads high-water 0,
   gossip from node 1 brings k1@2, the stream from node 2 (still at k1@1) is applied on top. *)
Definition rs_prefix : list step_t :=
  [SWrite 1 1 10 0; SRound 1 2 false; SWrite 1 1 11 0; SRecBegin 3 2; SRound 1 3 false].
Definition rs_last : list step_t := [SRecEnd 3 2].

Lemma recovery_split_regress fx :
  entry_at (run fx 1 (world0 [1; 2; 3]) rs_prefix) 3 1 = Some (Op 1 2 1 false 11) /\
  entry_at (run fx 1 (world0 [1; 2; 3]) (rs_prefix ++ rs_last)) 3 1 = Some (Op 1 1 1 false 10).
Proof. destruct fx; vm_compute; split; reflexivity. Qed.

Lemma recovery_split_refuted fx :
  ~ world_le (run fx 1 (world0 [1; 2; 3]) rs_prefix) (run fx 1 (world0 [1; 2; 3]) (rs_prefix ++ rs_last)).
Proof.
  destruct (recovery_split_regress fx) as [H1 H2].
  eapply regress_not_world_le; [exact H1|exact H2|]. left. simpl. lia.
Qed.

(* (c) two peers (what kv.Open does: one recovery per peer, concurrently): both read high-water 0,
   the commit of the peer that is behind lands last. *)
Definition rp_prefix : list step_t :=
  [SWrite 1 1 10 0; SRound 1 2 false; SWrite 1 1 11 0; SRecBegin 3 1; SRecBegin 3 2; SRecEnd 3 1].
Definition rp_last : list step_t := [SRecEnd 3 2].

Lemma recovery_two_peers_regress fx :
  entry_at (run fx 1 (world0 [1; 2; 3]) rp_prefix) 3 1 = Some (Op 1 2 1 false 11) /\
  entry_at (run fx 1 (world0 [1; 2; 3]) (rp_prefix ++ rp_last)) 3 1 = Some (Op 1 1 1 false 10).
Proof. destruct fx; vm_compute; split; reflexivity. Qed.

(* (d) F5, pinned upstream store (fx = false), two nodes, no restart, nothing lost: feedback for
   version 1 of key 1 arrives after node 1 wrote version 2; gossip quiesces, node 2 keeps version 1.
   With the fixed store (fx = true) the same script converges. *)
Definition f5_script : list step_t :=
  [SWrite 1 1 10 0; SRound 1 2 false; SRound 1 2 false; SRound 1 2 false; SRound 1 2 false;
   SFb 0; SFb 2; SWrite 1 1 11 0; SFb 4;
   SRound 1 2 false; SRound 2 1 false; SFbAll; SRound 2 1 false; SFbAll; SRound 2 1 false; SFbAll;
   SRound 1 2 false; SRound 2 1 false; SFbAll; SRound 1 2 false; SRound 2 1 false; SFbAll;
   SRound 1 2 false; SRound 2 1 false; SFbAll].

Lemma f5_unfixed :
  let w := run false 1 (world0 [1; 2]) f5_script in
  quiescentb w = true /\
  entry_at w 1 1 = Some (Op 1 2 1 false 11) /\ entry_at w 2 1 = Some (Op 1 1 1 false 10).
Proof. vm_compute. repeat split; reflexivity. Qed.

Lemma f5_fixed :
  let w := run true 1 (world0 [1; 2]) f5_script in
  quiescentb w = true /\
  entry_at w 1 1 = Some (Op 1 2 1 false 11) /\ entry_at w 2 1 = Some (Op 1 2 1 false 11).
Proof. vm_compute. repeat split; reflexivity. Qed.

(* (e) a restart drops the gossip store: node 1 writes and restarts before gossiping. *)
Lemma restart_quiesced_diverged fx :
  let w := run fx 1 (world0 [1; 2]) [SWrite 1 1 10 0; SRestart 1; SRound 1 2 false; SRound 2 1 false] in
  quiescentb w = true /\ entry_at w 1 1 = Some (Op 1 1 1 false 10) /\ entry_at w 2 1 = None.
Proof. destruct fx; vm_compute; repeat split; reflexivity. Qed.

(* (f) three nodes: nodes 1 and 2 keep choosing each other; after T+1 redundant feedbacks each the
   operation is no longer gossiped and node 3 never saw it. *)
Definition sir_script : list step_t :=
  [SWrite 1 1 10 0; SRound 1 2 false; SRound 1 2 false; SRound 1 2 false; SRound 1 2 false; SFbAll;
   SRound 2 1 false; SRound 2 1 false; SRound 2 1 false; SFbAll;
   SRound 1 3 false; SRound 2 3 false; SRound 3 1 false; SRound 3 2 false].

Lemma sir_quiesced_diverged fx :
  let w := run fx 1 (world0 [1; 2; 3]) sir_script in
  quiescentb w = true /\ entry_at w 1 1 = Some (Op 1 1 1 false 10) /\
  entry_at w 2 1 = Some (Op 1 1 1 false 10) /\ entry_at w 3 1 = None.
Proof. destruct fx; vm_compute; repeat split; reflexivity. Qed.

(* a non-vacuous instance of the two-node quiescence theorem: the F5 script on the fixed store *)
Lemma f5_script_covered :
  ok_run true 1 no_op (world0 [1; 2]) f5_script /\ q_run 1 (world0 [1; 2]) f5_script /\
  quiescent (run true 1 (world0 [1; 2]) f5_script).
Proof.
  split; [|split].
  - apply (ok_runb_sound true 1 f5_script []); [intros o []|vm_compute; reflexivity].
  - apply q_runb_sound. vm_compute. reflexivity.
  - apply quiescentb_sound. vm_compute. reflexivity.
Qed.

(* ---------- the full (unguarded) statements and their refutations ---------- *)
Definition never_older_full : Prop := forall fx T ns l1 l2,
  world_le (run fx T (world0 ns) l1) (run fx T (world0 ns) (l1 ++ l2)).

Lemma never_older_full_refuted : ~ never_older_full.
Proof. intros H. exact (leasepath_refuted true (H true 2 [1; 2; 3] lp_prefix lp_last)). Qed.

Definition quiescent_full : Prop := forall T ns l,
  quiescent (run true T (world0 ns) l) ->
  forall n m k, entry_at (run true T (world0 ns) l) n k = entry_at (run true T (world0 ns) l) m k.

Lemma sir_quiescent : quiescent (run true 1 (world0 [1; 2; 3]) sir_script).
Proof. apply quiescentb_sound. vm_compute. reflexivity. Qed.
Lemma sir_entry_1 : entry_at (run true 1 (world0 [1; 2; 3]) sir_script) 1 1 = Some (Op 1 1 1 false 10).
Proof. vm_compute. reflexivity. Qed.
Lemma sir_entry_3 : entry_at (run true 1 (world0 [1; 2; 3]) sir_script) 3 1 = None.
Proof. vm_compute. reflexivity. Qed.

Lemma quiescent_full_refuted : ~ quiescent_full.
Proof.
  intros H. pose proof (H 1 [1; 2; 3] sir_script sir_quiescent 1 3 1) as E.
  rewrite sir_entry_1, sir_entry_3 in E. discriminate.
Qed.

Definition restart_script : list step_t := [SWrite 1 1 10 0; SRestart 1; SRound 1 2 false; SRound 2 1 false].
Lemma restart_refutes :
  quiescent (run true 1 (world0 [1; 2]) restart_script) /\
  entry_at (run true 1 (world0 [1; 2]) restart_script) 1 1 = Some (Op 1 1 1 false 10) /\
  entry_at (run true 1 (world0 [1; 2]) restart_script) 2 1 = None.
Proof. split; [apply quiescentb_sound; vm_compute; reflexivity|]. split; vm_compute; reflexivity. Qed.

Lemma f5_unfixed_refutes :
  quiescent (run false 1 (world0 [1; 2]) f5_script) /\
  entry_at (run false 1 (world0 [1; 2]) f5_script) 1 1 = Some (Op 1 2 1 false 11) /\
  entry_at (run false 1 (world0 [1; 2]) f5_script) 2 1 = Some (Op 1 1 1 false 10).
Proof. split; [apply quiescentb_sound; vm_compute; reflexivity|]. split; vm_compute; reflexivity. Qed.

Lemma f5_fixed_entry : entry_at (run true 1 (world0 [1; 2]) f5_script) 2 1 = Some (Op 1 2 1 false 11).
Proof. vm_compute. reflexivity. Qed.

Lemma recovery_refuted_true :
  ~ world_le (run true 1 (world0 [1; 2; 3]) rs_prefix) (run true 1 (world0 [1; 2; 3]) (rs_prefix ++ rs_last)) /\
  entry_at (run true 1 (world0 [1; 2; 3]) rp_prefix) 3 1 = Some (Op 1 2 1 false 11) /\
  entry_at (run true 1 (world0 [1; 2; 3]) (rp_prefix ++ rp_last)) 3 1 = Some (Op 1 1 1 false 10).
Proof. split; [exact (recovery_split_refuted true)|]. split; vm_compute; reflexivity. Qed.

(* ---------- C13: at most once fails where entries can move down ---------- *)
(* subscriber 0 on node 3; the lease-path regress of (a); then node 2 gossips (k1, 3, lh 2) again:
   node 3 accepts it a second time and hands it to the subscriber a second time *)
Definition c13_script : list step_t := SSub 3 0 false :: lp_prefix ++ lp_last ++ [SRound 2 3 false].
Definition view_ops (w : world) (n s : N) : list op :=
  match w_nodes w !! n with
  | Some nd => match n_subs nd !! s with Some sb => concat (sub_view n nd sb) | None => [] end
  | None => []
  end.
Lemma handed_twice :
  length (filter (fun o => o = Op 1 3 2 false 23) (view_ops (run true 2 (world0 [1; 2; 3]) c13_script) 3 0)) = 2%nat /\
  bool_decide (NoDup (pos3 <$> view_ops (run true 2 (world0 [1; 2; 3]) c13_script) 3 0)) = false.
Proof. vm_compute. split; reflexivity. Qed.
