(* Aspen/KVInv.v — proofs over the cluster LTS: the single-leaseholder invariant, under which the
   unconditional applies of the leaseholder path and of (back-to-back) recovery are joins, and no
   step of any kind replaces an entry by an older one. *)
From stdpp Require Import gmap sorting.
From Coq Require Import NArith ZArith Lia.
From Synnax Require Import Aspen.KV Aspen.KVJoin.
Local Open Scope N_scope.
Arguments supersedes : simpl never.

(* ---------- gossip store ---------- *)
Lemma store_put_infected fx s x k o :
  store_put fx s x !! k = Some (o, false) -> s !! k = Some (o, false) \/ x = (o, false).
Proof.
  unfold store_put. destruct x as [xo xr]; simpl.
  destruct (fx && xr) eqn:E.
  - apply andb_true_iff in E as [_ ->].
    destruct (s !! o_key xo) as [[c cr]|] eqn:Es; [|tauto].
    destruct ((o_ver c =? o_ver xo)%Z && (o_lh c =? o_lh xo)); [|tauto].
    destruct (decide (k = o_key xo)) as [->|Hne].
    + rewrite lookup_insert. intros H. congruence.
    + rewrite lookup_insert_ne by congruence. tauto.
  - destruct (decide (k = o_key xo)) as [->|Hne].
    + rewrite lookup_insert. intros [=]; subst. right. reflexivity.
    + rewrite lookup_insert_ne by congruence. tauto.
Qed.

Lemma store_apply_infected fx l : forall s k o,
  store_apply fx s l !! k = Some (o, false) -> s !! k = Some (o, false) \/ In (o, false) l.
Proof.
  induction l as [|x l IH]; intros s k o H; [left; exact H|].
  simpl in H. apply IH in H as [H|H]; [|right; right; exact H].
  apply store_put_infected in H as [H|H]; [left; exact H|right; left; exact H].
Qed.

Lemma in_infected s o : In o (infected s) <-> exists k, s !! k = Some (o, false).
Proof.
  unfold infected. rewrite <- elem_of_list_In, merge_sort_Permutation, elem_of_list_omap. split.
  - intros ([k [x r]] & Hin & Hx). simpl in Hx. destruct r; [discriminate|]. injection Hx as ->.
    apply elem_of_map_to_list in Hin. exists k. exact Hin.
  - intros (k & Hk). exists (k, (o, false)). split; [apply elem_of_map_to_list, Hk|reflexivity].
Qed.

(* ---------- recovery ---------- *)
Lemma high_water_spec e : (0 <= high_water e)%Z /\ forall k o, e !! k = Some o -> (o_ver o <= high_water e)%Z.
Proof.
  unfold high_water.
  apply (map_fold_ind (fun r (m : engine) => (0 <= r)%Z /\ forall k o, m !! k = Some o -> (o_ver o <= r)%Z)).
  - split; [lia|]. intros k o H. rewrite lookup_empty in H. discriminate.
  - intros i x m r Hi [IH0 IH]. split; [lia|]. intros k o H.
    destruct (decide (k = i)) as [->|Hne].
    + rewrite lookup_insert in H. injection H as ->. lia.
    + rewrite lookup_insert_ne in H by congruence. specialize (IH _ _ H). lia.
Qed.

Lemma rec_ops_lookup ep hw k o :
  rec_ops ep hw !! k = Some o <-> ep !! k = Some o /\ (hw <= o_ver o)%Z.
Proof.
  unfold rec_ops. rewrite map_filter_lookup_Some. simpl. rewrite Z.leb_le. tauto.
Qed.

Lemma rec_apply_lookup e ep hw k :
  rec_apply e ep hw !! k = match rec_ops ep hw !! k with Some o => Some o | None => e !! k end.
Proof.
  unfold rec_apply. rewrite lookup_union. destruct (rec_ops ep hw !! k), (e !! k); reflexivity.
Qed.

(* ---------- the operations that exist in a world ---------- *)
Inductive in_world (w : world) (o : op) : Prop :=
| iw_eng n nd k : w_nodes w !! n = Some nd -> n_eng nd !! k = Some o -> in_world w o
| iw_store n nd k : w_nodes w !! n = Some nd -> n_store nd !! k = Some (o, false) -> in_world w o
| iw_msg i s ops : w_msgs w !! i = Some (s, ops) -> In o ops -> in_world w o.

(* The invariant, relative to U = every operation created so far (operations overwritten
   everywhere may still be redelivered by the network). *)
Record InvU (U : op -> Prop) (w : world) : Prop := {
  iu_sub : forall o, in_world w o -> U o;
  iu_key : forall n nd k o, w_nodes w !! n = Some nd -> n_eng nd !! k = Some o -> o_key o = k;
  iu_lh : forall a b, U a -> U b -> o_key a = o_key b -> o_lh a = o_lh b;
  iu_coh : forall a b, U a -> U b -> o_key a = o_key b -> o_ver a = o_ver b -> a = b;
  iu_ctr : forall o nd, U o -> w_nodes w !! o_lh o = Some nd -> (o_ver o <= n_ctr nd)%Z;
  iu_rec : forall n nd, w_nodes w !! n = Some nd -> n_rec nd = ∅
}.

(* the operation a DB.Set / DB.Delete step creates, if any *)
Definition new_write (w : world) (n k v lease : N) (del : bool) : option op :=
  match w_nodes w !! n with
  | None => None
  | Some nd =>
      match alloc nd n k lease del with
      | inr _ => None
      | inl lh => match w_nodes w !! lh with
                  | None => None
                  | Some ndl => Some (local_op ndl lh k del v)
                  end
      end
  end.
Definition new_op (w : world) (s : step_t) : option op :=
  match s with
  | SWrite n k v lease => new_write w n k v lease false
  | SDel n k => new_write w n k 0 0 true
  | _ => None
  end.

Definition fresh_key (U : op -> Prop) (k : N) : Prop := forall o, U o -> o_key o <> k.

(* Steps covered: everything except a recovery whose high-water read and apply are separated;
   a node creates a key (no digest of its own) only if no operation on that key exists (one
   creator per key); the network may deliver any batch of operations that exist. *)
Definition ok_step (U : op -> Prop) (w : world) (s : step_t) : Prop :=
  match s with
  | SWrite n k _ _ | SDel n k =>
      forall nd, w_nodes w !! n = Some nd -> n_eng nd !! k = None -> fresh_key U k
  | SInject _ _ b | SFaulty _ (GInject _ _ b) => forall o, In o b -> U o
  | SRecBegin _ _ | SRecEnd _ _ => False
  | _ => True
  end.

Definition grow (U : op -> Prop) (x : option op) : op -> Prop := fun o => U o \/ x = Some o.

(* ---------- generic update of one node ---------- *)
Definition upd (w : world) (n : N) (nd' : node) (msgs' : list (N * list op)) (fbs' : list fbmsg) : world :=
  World (<[n := nd']> (w_nodes w)) msgs' fbs'.

Lemma InvU_upd U w n nd nd' fbs' x :
  InvU U w -> w_nodes w !! n = Some nd ->
  keyed (n_eng nd') ->
  (forall k o, n_eng nd' !! k = Some o -> U o \/ x = Some o) ->
  (forall k o, n_store nd' !! k = Some (o, false) -> U o \/ x = Some o) ->
  (n_ctr nd <= n_ctr nd')%Z -> n_rec nd' = ∅ ->
  (forall o, x = Some o ->
     o_lh o = n /\ o_ver o = n_ctr nd' /\ (n_ctr nd < o_ver o)%Z /\
     forall a, U a -> o_key a = o_key o -> o_lh a = n) ->
  InvU (grow U x) (upd w n nd' (w_msgs w) fbs').
Proof.
  intros I Hn K He Hs Hc Hr Hx. constructor.
  - intros o H. destruct H as [m ndm k Hm Hk|m ndm k Hm Hk|i s ops Hi Ho].
    + simpl in Hm. destruct (decide (m = n)) as [->|Hne].
      * rewrite lookup_insert in Hm. injection Hm as <-. apply He in Hk. exact Hk.
      * rewrite lookup_insert_ne in Hm by congruence. left. eapply iu_sub; [exact I|]. eapply iw_eng; eassumption.
    + simpl in Hm. destruct (decide (m = n)) as [->|Hne].
      * rewrite lookup_insert in Hm. injection Hm as <-. apply Hs in Hk. exact Hk.
      * rewrite lookup_insert_ne in Hm by congruence. left. eapply iu_sub; [exact I|]. eapply iw_store; eassumption.
    + left. eapply iu_sub; [exact I|]. eapply iw_msg; eassumption.
  - intros m ndm k o Hm Hk. simpl in Hm. destruct (decide (m = n)) as [->|Hne].
    + rewrite lookup_insert in Hm. injection Hm as <-. apply K in Hk. exact Hk.
    + rewrite lookup_insert_ne in Hm by congruence. eapply iu_key; eassumption.
  - intros a b [Ha|Ha] [Hb|Hb] Hk.
    + eapply iu_lh; eassumption.
    + destruct (Hx _ Hb) as (L & _ & _ & F). rewrite L. apply F; assumption.
    + destruct (Hx _ Ha) as (L & _ & _ & F). rewrite L. symmetry. apply F; [assumption|congruence].
    + congruence.
  - intros a b [Ha|Ha] [Hb|Hb] Hk Hv.
    + eapply iu_coh; eassumption.
    + exfalso. destruct (Hx _ Hb) as (L & _ & Hlt & F).
      assert (o_lh a = n) as La by (apply F; assumption).
      pose proof (iu_ctr U w I a nd Ha) as C. rewrite La in C. specialize (C Hn). lia.
    + exfalso. destruct (Hx _ Ha) as (L & _ & Hlt & F).
      assert (o_lh b = n) as Lb by (apply F; [assumption|congruence]).
      pose proof (iu_ctr U w I b nd Hb) as C. rewrite Lb in C. specialize (C Hn). lia.
    + congruence.
  - intros o ndm [Ho|Ho] Hm; simpl in Hm.
    + destruct (decide (o_lh o = n)) as [E|Hne].
      * rewrite E, lookup_insert in Hm. injection Hm as <-.
        pose proof (iu_ctr U w I o nd Ho) as C. rewrite E in C. specialize (C Hn). lia.
      * rewrite lookup_insert_ne in Hm by congruence. eapply iu_ctr; eassumption.
    + destruct (Hx _ Ho) as (L & V & _ & _). rewrite L, lookup_insert in Hm. injection Hm as <-. lia.
  - intros m ndm Hm. simpl in Hm. destruct (decide (m = n)) as [->|Hne].
    + rewrite lookup_insert in Hm. injection Hm as <-. exact Hr.
    + rewrite lookup_insert_ne in Hm by congruence. eapply iu_rec; eassumption.
Qed.

(* an update that creates nothing *)
Lemma InvU_upd0 U w n nd nd' fbs' :
  InvU U w -> w_nodes w !! n = Some nd ->
  keyed (n_eng nd') ->
  (forall k o, n_eng nd' !! k = Some o -> U o) ->
  (forall k o, n_store nd' !! k = Some (o, false) -> U o) ->
  (n_ctr nd <= n_ctr nd')%Z -> n_rec nd' = ∅ ->
  InvU U (upd w n nd' (w_msgs w) fbs').
Proof.
  intros I Hn K He Hs Hc Hr.
  pose proof (InvU_upd U w n nd nd' fbs' None I Hn K) as X.
  assert (InvU (grow U None) (upd w n nd' (w_msgs w) fbs')) as Y.
  { apply X; auto; try discriminate; intros; left; eauto. }
  destruct Y as [a b c d e f]. constructor; auto.
  - intros o H. destruct (a o H) as [?|?]; [assumption|discriminate].
  - intros x y Hx Hy. apply c; left; assumption.
  - intros x y Hx Hy. apply d; left; assumption.
  - intros o ndm Ho. apply e. left. assumption.
Qed.

Lemma InvU_keyed U w n nd : InvU U w -> w_nodes w !! n = Some nd -> keyed (n_eng nd).
Proof. intros I H k o Hk. eapply iu_key; eassumption. Qed.

Lemma InvU_eng U w n nd k o : InvU U w -> w_nodes w !! n = Some nd -> n_eng nd !! k = Some o -> U o.
Proof. intros I H Hk. eapply iu_sub; [exact I|]. eapply iw_eng; eassumption. Qed.

Lemma InvU_store U w n nd k o : InvU U w -> w_nodes w !! n = Some nd -> n_store nd !! k = Some (o, false) -> U o.
Proof. intros I H Hk. eapply iu_sub; [exact I|]. eapply iw_store; eassumption. Qed.

Lemma InvU_payload U w n o : InvU U w -> In o (payload w n) -> U o.
Proof.
  intros I H. unfold payload in H. destruct (w_nodes w !! n) as [nd|] eqn:E; [|destruct H].
  apply in_infected in H as [k Hk]. eapply InvU_store; eassumption.
Qed.

(* ---------- ingestion at a node ---------- *)
Lemma ingest_at_shape fx w j sender ops :
  ingest_at fx w j sender ops = w \/
  exists nd fbs', w_nodes w !! j = Some nd /\
    ingest_at fx w j sender ops =
      upd w j (Node (ingest_eng (n_eng nd) ops) (n_ctr nd)
                    (store_apply fx (n_store nd) (map (fun o => (o, false)) (accepted (n_eng nd) ops)))
                    (n_reps nd) (n_rec nd)
                    (match accepted (n_eng nd) ops with [] => n_log nd | _ => n_log nd ++ [(0, accepted (n_eng nd) ops)] end)
                    (n_subs nd)) (w_msgs w) fbs'.
Proof.
  unfold ingest_at. destruct ops as [|o ops]; [left; reflexivity|].
  destruct (w_nodes w !! j) as [nd|] eqn:E; [|left; reflexivity].
  right. exists nd. unfold ingest_eng, accepted.
  destruct (ingest (n_eng nd) (o :: ops)) as [[e' acc] rej]. simpl.
  eexists. split; [reflexivity|]. unfold upd. reflexivity.
Qed.

Lemma accepted_in e b o : In o (accepted e b) -> In o b.
Proof. intros H. apply (accepted_rejected_split b e o). left. exact H. Qed.

Lemma InvU_ingest_at fx U w j sender ops :
  InvU U w -> (forall o, In o ops -> U o) -> InvU U (ingest_at fx w j sender ops).
Proof.
  intros I Hops. destruct (ingest_at_shape fx w j sender ops) as [->|(nd & fbs' & Hj & ->)]; [exact I|].
  eapply InvU_upd0; [exact I|exact Hj|..]; simpl.
  - apply ingest_keyed. eapply InvU_keyed; eassumption.
  - intros k o H. apply ingest_origin in H as [H|[H _]]; [eapply InvU_eng; eassumption|apply Hops, H].
  - intros k o H. apply store_apply_infected in H as [H|H]; [eapply InvU_store; eassumption|].
    apply in_map_iff in H as (x & [= ->] & Hx). apply Hops, (accepted_in _ _ _ Hx).
  - lia.
  - eapply iu_rec; eassumption.
Qed.

(* never older, for ingestion *)
Definition entry_le (d d' : op) : Prop := d' = d \/ op_lt d d'.
Definition world_le (w w' : world) : Prop :=
  forall n nd k d, w_nodes w !! n = Some nd -> n_eng nd !! k = Some d ->
    exists nd' d', w_nodes w' !! n = Some nd' /\ n_eng nd' !! k = Some d' /\ entry_le d d'.

Lemma entry_le_refl d : entry_le d d.
Proof. left. reflexivity. Qed.
Lemma entry_le_trans a b c : entry_le a b -> entry_le b c -> entry_le a c.
Proof.
  intros [->|H1] [->|H2]; [left; reflexivity|right; exact H2|right; exact H1|right; eapply op_lt_trans; eassumption].
Qed.
Lemma world_le_refl w : world_le w w.
Proof. intros n nd k d H1 H2. exists nd, d. auto using entry_le_refl. Qed.
Lemma world_le_trans a b c : world_le a b -> world_le b c -> world_le a c.
Proof.
  intros H1 H2 n nd k d Hn Hk. destruct (H1 _ _ _ _ Hn Hk) as (nd' & d' & Hn' & Hk' & L).
  destruct (H2 _ _ _ _ Hn' Hk') as (nd'' & d'' & Hn'' & Hk'' & L'). exists nd'', d''. eauto using entry_le_trans.
Qed.

(* updating one node whose engine only moves up *)
Lemma world_le_upd w n nd nd' msgs' fbs' :
  w_nodes w !! n = Some nd ->
  (forall k d, n_eng nd !! k = Some d -> exists d', n_eng nd' !! k = Some d' /\ entry_le d d') ->
  world_le w (upd w n nd' msgs' fbs').
Proof.
  intros Hn H m ndm k d Hm Hk. simpl. destruct (decide (m = n)) as [->|Hne].
  - rewrite lookup_insert. rewrite Hn in Hm. injection Hm as <-.
    destruct (H _ _ Hk) as (d' & Hk' & L). exists nd', d'. auto.
  - rewrite lookup_insert_ne by congruence. exists ndm, d. auto using entry_le_refl.
Qed.

Lemma world_le_ingest_at fx w j sender ops : world_le w (ingest_at fx w j sender ops).
Proof.
  destruct (ingest_at_shape fx w j sender ops) as [->|(nd & fbs' & Hj & ->)]; [apply world_le_refl|].
  eapply world_le_upd; [exact Hj|]. simpl. intros k d H. apply ingest_monotone, H.
Qed.

(* ---------- the invariant only looks at nodes and messages ---------- *)
Lemma in_world_ext w w' o :
  w_nodes w = w_nodes w' -> w_msgs w = w_msgs w' -> in_world w o -> in_world w' o.
Proof.
  intros E1 E2 H. destruct H as [m ndm k Hm Hk|m ndm k Hm Hk|i s ops Hi Ho].
  - eapply iw_eng; [rewrite <- E1|]; eassumption.
  - eapply iw_store; [rewrite <- E1|]; eassumption.
  - eapply iw_msg; [rewrite <- E2|]; eassumption.
Qed.

Lemma InvU_ext U w w' : w_nodes w = w_nodes w' -> w_msgs w = w_msgs w' -> InvU U w -> InvU U w'.
Proof.
  intros E1 E2 [a b c d e f]. constructor; auto.
  - intros o H. apply a. eapply in_world_ext; [symmetry; exact E1|symmetry; exact E2|exact H].
  - intros n nd k o. rewrite <- E1. apply b.
  - intros o nd Ho. rewrite <- E1. apply e, Ho.
  - intros n nd. rewrite <- E1. apply f.
Qed.

Lemma world_le_ext w w' : w_nodes w = w_nodes w' -> world_le w w'.
Proof. intros E n nd k d Hn Hk. exists nd, d. rewrite <- E. auto using entry_le_refl. Qed.

Lemma InvU_msgs U w n ops :
  InvU U w -> (forall o, In o ops -> U o) ->
  InvU U (World (w_nodes w) (w_msgs w ++ [(n, ops)]) (w_fbs w)).
Proof.
  intros [a b c d e f] Hops. constructor; auto.
  intros o H. destruct H as [m ndm k Hm Hk|m ndm k Hm Hk|i s l Hi Ho]; simpl in *.
  - apply a. eapply iw_eng; eassumption.
  - apply a. eapply iw_store; eassumption.
  - apply lookup_app_Some in Hi as [Hi|[_ Hi]].
    + apply a. eapply iw_msg; eassumption.
    + destruct (i - length (w_msgs w))%nat; simpl in Hi; [|discriminate]. injection Hi as <- <-. apply Hops, Ho.
Qed.

Lemma InvU_grow_None U w : InvU (grow U None) w <-> InvU U w.
Proof.
  assert (forall o, grow U None o <-> U o) as G by (intros o; unfold grow; split; [intros [?|?]; [assumption|discriminate]|tauto]).
  split; intros [a b c d e f]; constructor; auto.
  - intros o H. apply G, a, H.
  - intros x y Hx Hy. apply c; apply G; assumption.
  - intros x y Hx Hy. apply d; apply G; assumption.
  - intros o nd Ho. apply e, G, Ho.
  - intros o H. apply G, a, H.
  - intros x y Hx Hy. apply c; apply G; assumption.
  - intros x y Hx Hy. apply d; apply G; assumption.
  - intros o nd Ho. apply e, G, Ho.
Qed.

(* ---------- feedback ---------- *)
Lemma fb_deliver_shape fx T w f :
  (w_nodes (fb_deliver fx T w f) = w_nodes w /\ w_msgs (fb_deliver fx T w f) = w_msgs w) \/
  exists dest nd out r' fbs',
    w_nodes w !! dest = Some nd /\
    fb_deliver fx T w f =
      upd w dest (Node (n_eng nd) (n_ctr nd) (store_apply fx (n_store nd) (map (fun o => (o, true)) out))
                       r' (n_rec nd) (n_log nd) (n_subs nd)) (w_msgs w) fbs'.
Proof.
  unfold fb_deliver. destruct (w_fbs w !! f) as [[dest from digs [|]]|] eqn:E; try (left; split; reflexivity).
  destruct (w_nodes w !! dest) as [nd|] eqn:En; [|left; split; reflexivity].
  right. destruct (fb_transform T (n_reps nd) digs) as [r' out] eqn:Et.
  exists dest, nd, out, r'. eexists. split; [exact En|]. unfold upd. reflexivity.
Qed.

Lemma InvU_fb_deliver fx T U w f : InvU U w -> InvU U (fb_deliver fx T w f).
Proof.
  intros I. destruct (fb_deliver_shape fx T w f) as [[E1 E2]|(dest & nd & out & r' & fbs' & Hd & ->)].
  - eapply InvU_ext; [symmetry; exact E1|symmetry; exact E2|exact I].
  - eapply InvU_upd0; [exact I|exact Hd|..]; simpl.
    + eapply InvU_keyed; eassumption.
    + intros k o H. eapply InvU_eng; eassumption.
    + intros k o H. apply store_apply_infected in H as [H|H]; [eapply InvU_store; eassumption|].
      apply in_map_iff in H as (x & Hx & _). congruence.
    + lia.
    + eapply iu_rec; eassumption.
Qed.

Lemma world_le_fb_deliver fx T w f : world_le w (fb_deliver fx T w f).
Proof.
  destruct (fb_deliver_shape fx T w f) as [[E1 _]|(dest & nd & out & r' & fbs' & Hd & ->)].
  - apply world_le_ext. symmetry. exact E1.
  - eapply world_le_upd; [exact Hd|]. simpl. intros k d H. exists d. auto using entry_le_refl.
Qed.

(* ---------- local writes ---------- *)
Lemma alloc_inl nd n k lease del lh :
  alloc nd n k lease del = inl lh ->
  (exists d, n_eng nd !! k = Some d /\ o_lh d = lh) \/ n_eng nd !! k = None.
Proof.
  unfold alloc. destruct (n_eng nd !! k) as [d|]; [|right; reflexivity].
  intros H. left. exists d. split; [reflexivity|].
  destruct del; [congruence|]. destruct (lease =? 0); [congruence|].
  destruct (o_lh d =? lease) eqn:E; [|discriminate]. apply N.eqb_eq in E. congruence.
Qed.

Lemma do_write_shape fx w n k v lease del :
  (do_write fx w n k v lease del).1 = w /\ new_write w n k v lease del = None \/
  exists nd lh ndl,
    w_nodes w !! n = Some nd /\ alloc nd n k lease del = inl lh /\ w_nodes w !! lh = Some ndl /\
    new_write w n k v lease del = Some (local_op ndl lh k del v) /\
    (do_write fx w n k v lease del).1 = upd w lh (local_apply fx ndl lh k del v) (w_msgs w) (w_fbs w).
Proof.
  unfold do_write, new_write. destruct (w_nodes w !! n) as [nd|] eqn:En; [|left; split; reflexivity].
  destruct (alloc nd n k lease del) as [lh|e] eqn:Ea; [|left; split; reflexivity].
  destruct (w_nodes w !! lh) as [ndl|] eqn:El; [|left; split; reflexivity].
  right. exists nd, lh, ndl. repeat split; try assumption; reflexivity.
Qed.

(* the leaseholder path is a join under the invariant: what it writes supersedes what is stored *)
Lemma local_force_ok U w n k v lease del nd lh ndl :
  InvU U w ->
  (forall nd, w_nodes w !! n = Some nd -> n_eng nd !! k = None -> fresh_key U k) ->
  w_nodes w !! n = Some nd -> alloc nd n k lease del = inl lh -> w_nodes w !! lh = Some ndl ->
  supersedes (n_eng ndl !! k) (local_op ndl lh k del v) = true /\
  forall a, U a -> o_key a = k -> o_lh a = lh.
Proof.
  intros I Hfresh Hn Ha Hl.
  assert (forall a, U a -> o_key a = k -> o_lh a = lh) as F.
  { intros a Ua Ka. apply alloc_inl in Ha as [(d & Hd & <-)|Hnone].
    - eapply iu_lh; [exact I|exact Ua|exact (InvU_eng U w n nd k d I Hn Hd)|].
      rewrite Ka. symmetry. exact (iu_key U w I n nd k d Hn Hd).
    - exfalso. eapply Hfresh; eassumption. }
  split; [|exact F].
  destruct (n_eng ndl !! k) as [d|] eqn:Ed; [|reflexivity].
  apply supersedes_some. left. unfold local_op. simpl.
  assert (U d) as Ud by exact (InvU_eng U w lh ndl k d I Hl Ed).
  assert (o_key d = k) as Kd by exact (iu_key U w I lh ndl k d Hl Ed).
  pose proof (iu_ctr U w I d ndl Ud) as C. rewrite (F d Ud Kd) in C. specialize (C Hl). lia.
Qed.

Lemma step_write U w fx n k v lease del :
  InvU U w ->
  (forall nd, w_nodes w !! n = Some nd -> n_eng nd !! k = None -> fresh_key U k) ->
  InvU (grow U (new_write w n k v lease del)) (do_write fx w n k v lease del).1 /\
  world_le w (do_write fx w n k v lease del).1.
Proof.
  intros I Hfresh.
  destruct (do_write_shape fx w n k v lease del) as [[-> ->]|(nd & lh & ndl & Hn & Ha & Hl & -> & ->)].
  - split; [apply InvU_grow_None, I|apply world_le_refl].
  - destruct (local_force_ok U w n k v lease del nd lh ndl I Hfresh Hn Ha Hl) as [Hsup F].
    split.
    + eapply InvU_upd; [exact I|exact Hl|..]; simpl.
      * intros k' o H. destruct (decide (k' = k)) as [->|Hne].
        -- rewrite lookup_insert in H. injection H as <-. reflexivity.
        -- rewrite lookup_insert_ne in H by congruence. eapply iu_key; eassumption.
      * intros k' o H. destruct (decide (k' = k)) as [->|Hne].
        -- rewrite lookup_insert in H. right. exact H.
        -- rewrite lookup_insert_ne in H by congruence. left. eapply InvU_eng; eassumption.
      * intros k' o H. apply store_put_infected in H as [H|H].
        -- left. eapply InvU_store; eassumption.
        -- right. congruence.
      * lia.
      * eapply iu_rec; eassumption.
      * intros o [= <-]. simpl. repeat split; try lia. intros a Ua Ka. apply F; assumption.
    + eapply world_le_upd; [exact Hl|]. simpl. intros k' d H.
      destruct (decide (k' = k)) as [->|Hne].
      * rewrite lookup_insert. eexists. split; [reflexivity|]. right.
        rewrite H in Hsup. apply supersedes_some in Hsup. exact Hsup.
      * rewrite lookup_insert_ne by congruence. exists d. auto using entry_le_refl.
Qed.

(* ---------- back-to-back recovery ---------- *)
Lemma recover_shape U w n p :
  InvU U w ->
  rec_end (rec_begin w n p) n p = w \/
  exists nd ndp, w_nodes w !! n = Some nd /\ w_nodes w !! p = Some ndp /\ n <> p /\
    rec_end (rec_begin w n p) n p =
      upd w n (Node (rec_apply (n_eng nd) (n_eng ndp) (high_water (n_eng nd))) (n_ctr nd) (n_store nd)
                    (n_reps nd) ∅ (n_log nd) (n_subs nd)) (w_msgs w) (w_fbs w).
Proof.
  intros I. unfold rec_begin.
  destruct (w_nodes w !! n) as [nd|] eqn:En.
  2:{ left. unfold rec_end. rewrite En. reflexivity. }
  destruct (w_nodes w !! p) as [ndp|] eqn:Ep.
  2:{ left. unfold rec_end. rewrite En, Ep. reflexivity. }
  destruct (bool_decide (n = p)) eqn:Enp.
  { apply bool_decide_eq_true in Enp. subst p. left. unfold rec_end. rewrite En.
    rewrite (iu_rec U w I n nd En), lookup_empty. reflexivity. }
  apply bool_decide_eq_false in Enp.
  rewrite (iu_rec U w I n nd En), lookup_empty.
  right. exists nd, ndp. repeat split; try assumption.
  unfold rec_end, set_node. simpl. rewrite lookup_insert, lookup_insert_ne by congruence. rewrite Ep. simpl.
  rewrite lookup_insert. unfold upd. simpl. rewrite insert_insert, delete_insert by apply lookup_empty. reflexivity.
Qed.

(* recovery is a join under the invariant: every streamed operation is the stored one or supersedes it *)
Lemma recover_force_ok U w n p nd ndp k o :
  InvU U w -> w_nodes w !! n = Some nd -> w_nodes w !! p = Some ndp ->
  rec_ops (n_eng ndp) (high_water (n_eng nd)) !! k = Some o ->
  n_eng nd !! k = Some o \/ supersedes (n_eng nd !! k) o = true.
Proof.
  intros I Hn Hp H. apply rec_ops_lookup in H as [Ho Hhw].
  destruct (n_eng nd !! k) as [d|] eqn:Ed; [|right; reflexivity].
  assert (U d) as Ud by exact (InvU_eng U w n nd k d I Hn Ed).
  assert (U o) as Uo by exact (InvU_eng U w p ndp k o I Hp Ho).
  assert (o_key d = k) as Kd by exact (iu_key U w I n nd k d Hn Ed).
  assert (o_key o = k) as Ko by exact (iu_key U w I p ndp k o Hp Ho).
  pose proof (proj2 (high_water_spec (n_eng nd)) _ _ Ed) as Hd.
  destruct (Z.eq_dec (o_ver d) (o_ver o)) as [E|E].
  - left. f_equal. eapply iu_coh; [exact I|exact Ud|exact Uo|congruence|exact E].
  - right. apply supersedes_some. left. lia.
Qed.

Lemma step_recover U w n p :
  InvU U w -> InvU U (rec_end (rec_begin w n p) n p) /\ world_le w (rec_end (rec_begin w n p) n p).
Proof.
  intros I. destruct (recover_shape U w n p I) as [->|(nd & ndp & Hn & Hp & Hne & ->)].
  - split; [exact I|apply world_le_refl].
  - split.
    + eapply InvU_upd0; [exact I|exact Hn|..]; simpl.
      * intros k o H. rewrite rec_apply_lookup in H.
        destruct (rec_ops (n_eng ndp) (high_water (n_eng nd)) !! k) as [x|] eqn:Er.
        -- injection H as <-. apply rec_ops_lookup in Er as [Er _]. exact (iu_key U w I p ndp k x Hp Er).
        -- exact (iu_key U w I n nd k o Hn H).
      * intros k o H. rewrite rec_apply_lookup in H.
        destruct (rec_ops (n_eng ndp) (high_water (n_eng nd)) !! k) as [x|] eqn:Er.
        -- injection H as <-. apply rec_ops_lookup in Er as [Er _]. exact (InvU_eng U w p ndp k x I Hp Er).
        -- exact (InvU_eng U w n nd k o I Hn H).
      * intros k o H. exact (InvU_store U w n nd k o I Hn H).
      * lia.
      * reflexivity.
    + eapply world_le_upd; [exact Hn|]. simpl. intros k d Hd. rewrite rec_apply_lookup.
      destruct (rec_ops (n_eng ndp) (high_water (n_eng nd)) !! k) as [x|] eqn:Er.
      * exists x. split; [reflexivity|].
        destruct (recover_force_ok U w n p nd ndp k x I Hn Hp Er) as [H|H].
        -- left. congruence.
        -- right. rewrite Hd in H. apply supersedes_some, H.
      * exists d. auto using entry_le_refl.
Qed.

(* ---------- an ingress transaction that fails to commit ---------- *)
Lemma ingest_at_fail_cases fx f w j sender ops :
  ingest_at_fail fx f w j sender ops = ingest_at fx w j sender ops \/
  (w_nodes (ingest_at_fail fx f w j sender ops) = w_nodes w /\ w_msgs (ingest_at_fail fx f w j sender ops) = w_msgs w).
Proof.
  unfold ingest_at_fail. destruct ops as [|o ops]; [right; split; reflexivity|].
  destruct (w_nodes w !! j) as [nd|]; [|right; split; reflexivity].
  destruct f as [n|n k].
  - destruct (ingest (n_eng nd) (o :: ops)) as [[e' acc] rej]. destruct acc; [left; reflexivity|right; split; reflexivity].
  - destruct (ingest_abort k (n_eng nd) (o :: ops)); [right; split; reflexivity|left; reflexivity].
Qed.

Lemma InvU_ingest_at_f fx fn U w j sender ops :
  InvU U w -> (forall o, In o ops -> U o) -> InvU U (ingest_at_f fx fn w j sender ops).
Proof.
  intros I Hops. unfold ingest_at_f. destruct (bool_decide (f_node fn = j)); [|apply InvU_ingest_at; assumption].
  destruct (ingest_at_fail_cases fx fn w j sender ops) as [->|[E1 E2]]; [apply InvU_ingest_at; assumption|].
  eapply InvU_ext; [symmetry; exact E1|symmetry; exact E2|exact I].
Qed.

Lemma world_le_ingest_at_f fx fn w j sender ops : world_le w (ingest_at_f fx fn w j sender ops).
Proof.
  unfold ingest_at_f. destruct (bool_decide (f_node fn = j)); [|apply world_le_ingest_at].
  destruct (ingest_at_fail_cases fx fn w j sender ops) as [->|[E1 _]]; [apply world_le_ingest_at|].
  apply world_le_ext. symmetry. exact E1.
Qed.

Lemma round_f_steps fx fn U w i j late : InvU U w -> InvU U (round_f fx fn w i j late) /\ world_le w (round_f fx fn w i j late).
Proof.
  intros I. unfold round_f.
  destruct (w_nodes w !! i); [|split; [exact I|apply world_le_refl]].
  destruct (w_nodes w !! j); [|split; [exact I|apply world_le_refl]].
  destruct (bool_decide (i = j)); [split; [exact I|apply world_le_refl]|].
  destruct (payload w i) as [|o pl] eqn:Ep; [split; [exact I|apply world_le_refl]|].
  assert (forall x, In x (o :: pl) -> U x) as Hpl by (intros x Hx; rewrite <- Ep in Hx; eapply InvU_payload; eassumption).
  pose proof (InvU_ingest_at_f fx fn U w j i (o :: pl) I Hpl) as I1.
  destruct late.
  - split.
    + apply InvU_ingest_at_f; [exact I1|]. intros x Hx. exact (InvU_payload U _ j x I1 Hx).
    + eapply world_le_trans; apply world_le_ingest_at_f.
  - split.
    + apply InvU_ingest_at_f; [exact I1|]. intros x Hx. exact (InvU_payload U w j x I Hx).
    + eapply world_le_trans; apply world_le_ingest_at_f.
Qed.

Lemma restart_steps U w n : InvU U w -> InvU U (restart w n) /\ world_le w (restart w n).
Proof.
  intros I. unfold restart. destruct (w_nodes w !! n) as [nd|] eqn:En; [|split; [exact I|apply world_le_refl]].
  split.
  - eapply (InvU_upd0 U w n nd _ (w_fbs w)); [exact I|exact En|..]; simpl.
    + eapply InvU_keyed; eassumption.
    + intros k o H. eapply InvU_eng; eassumption.
    + intros k o H. rewrite lookup_empty in H. discriminate.
    + lia.
    + reflexivity.
  - eapply (world_le_upd w n nd _ (w_msgs w) (w_fbs w)); [exact En|]. simpl. intros k d H. exists d. auto using entry_le_refl.
Qed.

Lemma write_cf_cases w n k lease del :
  (write_cf w n k lease del).1 = w \/ exists lh, (write_cf w n k lease del).1 = restart w lh.
Proof.
  unfold write_cf. destruct (w_nodes w !! n) as [nd|]; [|left; reflexivity].
  destruct (alloc nd n k lease del) as [lh|e]; [|left; reflexivity].
  destruct (w_nodes w !! lh); [right; exists lh; reflexivity|left; reflexivity].
Qed.

(* ---------- one step ---------- *)
Lemma round_steps fx U w i j late : InvU U w -> InvU U (round fx w i j late) /\ world_le w (round fx w i j late).
Proof.
  intros I. unfold round.
  destruct (w_nodes w !! i); [|split; [exact I|apply world_le_refl]].
  destruct (w_nodes w !! j); [|split; [exact I|apply world_le_refl]].
  destruct (bool_decide (i = j)); [split; [exact I|apply world_le_refl]|].
  destruct (payload w i) as [|o pl] eqn:Ep; [split; [exact I|apply world_le_refl]|].
  assert (forall x, In x (o :: pl) -> U x) as Hpl by (intros x Hx; rewrite <- Ep in Hx; eapply InvU_payload; eassumption).
  pose proof (InvU_ingest_at fx U w j i (o :: pl) I Hpl) as I1.
  destruct late.
  - split.
    + apply InvU_ingest_at; [exact I1|]. intros x Hx. exact (InvU_payload U _ j x I1 Hx).
    + eapply world_le_trans; apply world_le_ingest_at.
  - split.
    + apply InvU_ingest_at; [exact I1|]. intros x Hx. exact (InvU_payload U w j x I Hx).
    + eapply world_le_trans; apply world_le_ingest_at.
Qed.

Lemma fball_steps fx T U l : forall w, InvU U w ->
  InvU U (fold_left (fb_deliver fx T) l w) /\ world_le w (fold_left (fb_deliver fx T) l w).
Proof.
  induction l as [|f l IH]; intros w I; [split; [exact I|apply world_le_refl]|].
  simpl. destruct (IH _ (InvU_fb_deliver fx T U w f I)) as [I' L]. split; [exact I'|].
  eapply world_le_trans; [apply world_le_fb_deliver|exact L].
Qed.

Theorem step_preserves fx T U w s :
  InvU U w -> ok_step U w s ->
  InvU (grow U (new_op w s)) (step fx T w s).1 /\ world_le w (step fx T w s).1.
Proof.
  intros I Hok. destruct s as [n k v lease|n k|n sender b|n|m n|i j late|f| |n|n p|n p|n p|n s filter|fn g|n k lease del|n s]; simpl in *.
  - apply step_write; assumption.
  - apply step_write; assumption.
  - split; [apply InvU_grow_None, InvU_ingest_at; assumption|apply world_le_ingest_at].
  - destruct (w_nodes w !! n) as [nd|] eqn:En; simpl.
    + split; [|apply world_le_ext; reflexivity]. apply InvU_grow_None, InvU_msgs; [exact I|].
      intros o Ho. apply in_infected in Ho as [k Hk]. eapply InvU_store; eassumption.
    + split; [apply InvU_grow_None, I|apply world_le_refl].
  - destruct (w_msgs w !! m) as [[sender ops]|] eqn:Em; simpl.
    + split; [|apply world_le_ingest_at]. apply InvU_grow_None, InvU_ingest_at; [exact I|].
      intros o Ho. eapply iu_sub; [exact I|]. eapply iw_msg; eassumption.
    + split; [apply InvU_grow_None, I|apply world_le_refl].
  - destruct (round_steps fx U w i j late I) as [I' L]. split; [apply InvU_grow_None, I'|exact L].
  - split; [apply InvU_grow_None, InvU_fb_deliver, I|apply world_le_fb_deliver].
  - destruct (fball_steps fx T U (seq 0 (length (w_fbs w))) w I) as [I' L]. split; [apply InvU_grow_None, I'|exact L].
  - unfold restart. destruct (w_nodes w !! n) as [nd|] eqn:En.
    + split.
      * apply InvU_grow_None. eapply (InvU_upd0 U w n nd _ (w_fbs w)); [exact I|exact En|..]; simpl.
        -- eapply InvU_keyed; eassumption.
        -- intros k o H. eapply InvU_eng; eassumption.
        -- intros k o H. rewrite lookup_empty in H. discriminate.
        -- lia.
        -- reflexivity.
      * eapply (world_le_upd w n nd _ (w_msgs w) (w_fbs w)); [exact En|]. simpl. intros k d H. exists d. auto using entry_le_refl.
    + split; [apply InvU_grow_None, I|apply world_le_refl].
  - destruct Hok.
  - destruct Hok.
  - destruct (step_recover U w n p I) as [I' L]. split; [apply InvU_grow_None, I'|exact L].
  - unfold subscribe. destruct (w_nodes w !! n) as [nd|] eqn:En; [|split; [apply InvU_grow_None, I|apply world_le_refl]].
    destruct (n_subs nd !! s); [split; [apply InvU_grow_None, I|apply world_le_refl]|].
    split.
    + apply InvU_grow_None. eapply (InvU_upd0 U w n nd _ (w_fbs w)); [exact I|exact En|..]; simpl.
      * eapply InvU_keyed; eassumption.
      * intros k o H. eapply InvU_eng; eassumption.
      * intros k o H. eapply InvU_store; eassumption.
      * lia.
      * eapply iu_rec; eassumption.
    + eapply (world_le_upd w n nd _ (w_msgs w) (w_fbs w)); [exact En|]. simpl. intros k d H. exists d. auto using entry_le_refl.
  - destruct g as [n sender b|m n|i j late]; simpl in *.
    + split; [apply InvU_grow_None, InvU_ingest_at_f; assumption|apply world_le_ingest_at_f].
    + destruct (w_msgs w !! m) as [[sender ops]|] eqn:Em; simpl.
      * split; [|apply world_le_ingest_at_f]. apply InvU_grow_None, InvU_ingest_at_f; [exact I|].
        intros o Ho. eapply iu_sub; [exact I|]. eapply iw_msg; eassumption.
      * split; [apply InvU_grow_None, I|apply world_le_refl].
    + destruct (round_f_steps fx fn U w i j late I) as [I' L]. split; [apply InvU_grow_None, I'|exact L].
  - destruct (write_cf_cases w n k lease del) as [->|[lh ->]].
    + split; [apply InvU_grow_None, I|apply world_le_refl].
    + destruct (restart_steps U w lh I) as [I' L]. split; [apply InvU_grow_None, I'|exact L].
  - unfold stall. destruct (w_nodes w !! n) as [nd|] eqn:En; [|split; [apply InvU_grow_None, I|apply world_le_refl]].
    split.
    + apply InvU_grow_None. eapply (InvU_upd0 U w n nd _ (w_fbs w)); [exact I|exact En|..]; simpl.
      * eapply InvU_keyed; eassumption.
      * intros k o H. eapply InvU_eng; eassumption.
      * intros k o H. eapply InvU_store; eassumption.
      * lia.
      * eapply iu_rec; eassumption.
    + eapply (world_le_upd w n nd _ (w_msgs w) (w_fbs w)); [exact En|]. simpl. intros k d H. exists d. auto using entry_le_refl.
Qed.

(* ---------- runs ---------- *)
Fixpoint ok_run (fx : bool) (T : N) (U : op -> Prop) (w : world) (l : list step_t) : Prop :=
  match l with
  | [] => True
  | s :: r => ok_step U w s /\ ok_run fx T (grow U (new_op w s)) (step fx T w s).1 r
  end.

Lemma run_preserves fx T l : forall U w, InvU U w -> ok_run fx T U w l ->
  (exists U', InvU U' (run fx T w l)) /\ world_le w (run fx T w l).
Proof.
  induction l as [|s r IH]; intros U w I Hok.
  - split; [exists U; exact I|apply world_le_refl].
  - destruct Hok as [H1 H2]. destruct (step_preserves fx T U w s I H1) as [I' L].
    destruct (IH _ _ I' H2) as [IU L']. split; [exact IU|]. unfold run in *. simpl.
    eapply world_le_trans; eassumption.
Qed.

Definition no_op : op -> Prop := fun _ => False.

Lemma InvU_world0 ns : InvU no_op (world0 ns).
Proof.
  assert (forall n nd, w_nodes (world0 ns) !! n = Some nd -> nd = node0) as Z.
  { intros n nd H. unfold world0 in H. simpl in H. apply elem_of_list_to_map_2 in H.
    apply elem_of_list_fmap in H as (x & [= _ ->] & _). reflexivity. }
  constructor.
  - intros o H. destruct H as [m ndm k Hm Hk|m ndm k Hm Hk|i s ops Hi Ho].
    + apply Z in Hm. subst. simpl in Hk. rewrite lookup_empty in Hk. discriminate.
    + apply Z in Hm. subst. simpl in Hk. rewrite lookup_empty in Hk. discriminate.
    + simpl in Hi. discriminate.
  - intros n nd k o Hn Hk. apply Z in Hn. subst. simpl in Hk. rewrite lookup_empty in Hk. discriminate.
  - intros a b [].
  - intros a b [].
  - intros o nd [].
  - intros n nd Hn. apply Z in Hn. subst. reflexivity.
Qed.

(* Over any run of covered steps from the empty cluster, and any split of it: an entry a node held
   after the first part is, after the whole run, the same entry or a strictly newer one. *)
Theorem never_older fx T ns l1 l2 :
  ok_run fx T no_op (world0 ns) (l1 ++ l2) ->
  world_le (run fx T (world0 ns) l1) (run fx T (world0 ns) (l1 ++ l2)).
Proof.
  intros Hok.
  assert (forall l U w, ok_run fx T U w (l ++ l2) -> InvU U w ->
            exists U', InvU U' (run fx T w l) /\ ok_run fx T U' (run fx T w l) l2) as Split.
  { induction l as [|s r IH]; intros U w H I; [exists U; split; assumption|].
    destruct H as [H1 H2]. destruct (step_preserves fx T U w s I H1) as [I' _].
    destruct (IH _ _ H2 I') as (U' & IU & HU). exists U'. unfold run in *. simpl. split; assumption. }
  destruct (Split l1 no_op (world0 ns) Hok (InvU_world0 ns)) as (U' & I' & H').
  unfold run. rewrite fold_left_app. apply (run_preserves fx T l2 U' _ I' H').
Qed.
