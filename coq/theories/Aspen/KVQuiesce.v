(* Aspen/KVQuiesce.v — the quiescence clause of C06, as far as it holds: on a two-node cluster, with
   the fixed gossip store, one creator per key, no restart and no recovery, a state in which no
   node holds an infected operation has identical engines, and each leaseholder holds the newest
   operation it ever created. (Three nodes, restarts, the unfixed store: refuted in KVWitness.) *)
From stdpp Require Import gmap sorting.
From Coq Require Import NArith ZArith Lia.
From Synnax Require Import Aspen.KV Aspen.KVJoin Aspen.KVInv.
Local Open Scope N_scope.
Arguments supersedes : simpl never.

Definition quiescent (w : world) : Prop :=
  forall n nd k d, w_nodes w !! n = Some nd -> n_store nd !! k = Some (d, false) -> False.

Lemma above_strip r o : above r (strip o) <-> above r o.
Proof. unfold above, op_le, op_lt, same_pos. destruct r; simpl; tauto. Qed.

Lemma above_same_pos r a b : o_ver a = o_ver b -> o_lh a = o_lh b -> above r a -> above r b.
Proof. unfold above, op_le, op_lt, same_pos. destruct r; [|tauto]. intros -> ->. tauto. Qed.

Lemma above_mono r r' x :
  (forall d, r = Some d -> exists d', r' = Some d' /\ entry_le d d') -> above r x -> above r' x.
Proof.
  unfold above. destruct r as [d|]; [|tauto]. intros H A.
  destruct (H d eq_refl) as (d' & -> & [->|L]); [exact A|].
  eapply op_le_trans; [exact A|left; exact L].
Qed.

Record Q (U : op -> Prop) (A B : N) (w : world) : Prop := {
  q_ab : A <> B;
  q_nodes : forall n nd, w_nodes w !! n = Some nd -> n = A \/ n = B;
  (* a feedback message is evidence: its sender holds at least each digest it carries *)
  q_fb : forall i fb, w_fbs w !! i = Some fb ->
           fb_from fb <> fb_dest fb /\
           exists nd, w_nodes w !! fb_from fb = Some nd /\
                      forall d, In d (fb_digs fb) -> above (n_eng nd !! o_key d) d;
  (* what a node holds, the other node holds too (or something newer), unless the node is still
     gossiping it *)
  q_pair : forall X Y ndX ndY k d, X <> Y ->
           w_nodes w !! X = Some ndX -> w_nodes w !! Y = Some ndY -> n_eng ndX !! k = Some d ->
           above (n_eng ndY !! k) d \/ n_store ndX !! k = Some (d, false);
  (* the leaseholder holds at least every operation it created *)
  q_lead : forall o nd, U o -> w_nodes w !! o_lh o = Some nd -> above (n_eng nd !! o_key o) o
}.

(* steps covered by the quiescence theorem *)
Definition q_step (w : world) (s : step_t) : Prop :=
  match s with
  | SDeliver m n => forall sender ops, w_msgs w !! m = Some (sender, ops) -> sender <> n
  | SInject _ _ _ | SRestart _ | SRecBegin _ _ | SRecEnd _ _ | SRecover _ _ | SFaulty _ _ | SWriteCF _ _ _ _ => False
  | _ => True
  end.

(* ---------- engine and gossip store move together on ingestion ---------- *)
Lemma ingest_sync fx b : forall e (s : gstore) k,
  (ingest_eng e b !! k = e !! k /\
   store_apply fx s (map (fun o => (o, false)) (accepted e b)) !! k = s !! k) \/
  (exists o, ingest_eng e b !! k = Some o /\
             store_apply fx s (map (fun o => (o, false)) (accepted e b)) !! k = Some (o, false) /\
             In o b /\ o_key o = k).
Proof.
  induction b as [|o r IH]; intros e s k; [left; split; reflexivity|].
  rewrite ingest_eng_cons. unfold accepted. rewrite ingest_cons.
  destruct (supersedes (e !! o_key o) o); simpl.
  - assert (store_put fx s (o, false) = <[o_key o := (o, false)]> s) as -> by (unfold store_put; simpl; rewrite andb_false_r; reflexivity).
    destruct (IH (<[o_key o := o]> e) (<[o_key o := (o, false)]> s) k) as [[E1 E2]|(x & E1 & E2 & Hin & Hk)].
    + destruct (decide (k = o_key o)) as [->|Hne].
      * right. exists o. rewrite E1, E2, !lookup_insert. repeat split; auto; try (left; reflexivity).
      * left. rewrite E1, E2, !lookup_insert_ne by congruence. split; reflexivity.
    + right. exists x. repeat split; auto; try (right; exact Hin).
  - destruct (IH e s k) as [[E1 E2]|(x & E1 & E2 & Hin & Hk)].
    + left. split; assumption.
    + right. exists x. repeat split; auto; try (right; exact Hin).
Qed.

(* a recovered operation only touches the entry it is the feedback for (fixed store) *)
Lemma store_put_recovered (s : gstore) x k d :
  s !! k = Some (d, false) ->
  store_put true s (x, true) !! k = Some (d, false) \/
  (o_key x = k /\ o_ver x = o_ver d /\ o_lh x = o_lh d).
Proof.
  intros H. unfold store_put. simpl.
  destruct (s !! o_key x) as [[c cr]|] eqn:Ec; [|left; exact H].
  destruct ((o_ver c =? o_ver x)%Z && (o_lh c =? o_lh x)) eqn:Em; [|left; exact H].
  destruct (decide (k = o_key x)) as [->|Hne].
  - right. rewrite H in Ec. injection Ec as <- <-.
    apply andb_true_iff in Em as [E1 E2]. apply Z.eqb_eq in E1. apply N.eqb_eq in E2. auto.
  - left. rewrite lookup_insert_ne by congruence. exact H.
Qed.

Lemma store_apply_recovered l : forall (s : gstore) k d,
  s !! k = Some (d, false) ->
  store_apply true s (map (fun o => (o, true)) l) !! k = Some (d, false) \/
  exists x, In x l /\ o_key x = k /\ o_ver x = o_ver d /\ o_lh x = o_lh d.
Proof.
  induction l as [|x l IH]; intros s k d H; [left; exact H|].
  change (store_apply true s (map (fun o => (o, true)) (x :: l)))
    with (store_apply true (store_put true s (x, true)) (map (fun o => (o, true)) l)).
  destruct (store_put_recovered s x k d H) as [H1|H1].
  - destruct (IH _ k d H1) as [E|(y & Hy & R)]; [left; exact E|right; exists y; split; [right; exact Hy|exact R]].
  - right. exists x. split; [left; reflexivity|exact H1].
Qed.

Lemma fb_step_out T st d x : In x (fb_step T st d).2 -> In x st.2 \/ x = d.
Proof.
  unfold fb_step. destruct (T <? default 0 (st.1 !! (o_key d, o_ver d))); simpl; [|tauto].
  intros H. apply in_app_or in H as [H | [H | H] ]; [left; exact H|right; congruence|destruct H].
Qed.

Lemma fb_transform_out T digs : forall r acc x,
  In x (fold_left (fb_step T) digs (r, acc)).2 -> In x acc \/ In x digs.
Proof.
  induction digs as [|d l IH]; intros r acc x H; [left; exact H|].
  simpl in H. destruct (fb_step T (r, acc) d) as [r1 acc1] eqn:E.
  apply IH in H as [H|H]; [|right; right; exact H].
  pose proof (fb_step_out T (r, acc) d x) as Hs. rewrite E in Hs. simpl in Hs.
  destruct (Hs H) as [H1 | ->]; [left; assumption|right; left; reflexivity].
Qed.

(* ---------- transport of evidence along engine growth ---------- *)
Lemma world_le_above w w' n nd nd' k x :
  world_le w w' -> w_nodes w !! n = Some nd -> w_nodes w' !! n = Some nd' ->
  above (n_eng nd !! k) x -> above (n_eng nd' !! k) x.
Proof.
  intros L Hn Hn'. apply above_mono. intros d Hd.
  destruct (L _ _ _ _ Hn Hd) as (nd'' & d' & Hn'' & Hk' & Le). rewrite Hn' in Hn''. injection Hn'' as <-.
  exists d'. split; assumption.
Qed.

(* nodes never appear or disappear *)
Lemma upd_lookup w n nd' msgs' fbs' m :
  w_nodes (upd w n nd' msgs' fbs') !! m = if decide (m = n) then Some nd' else w_nodes w !! m.
Proof. simpl. destruct (decide (m = n)) as [->|H]; [apply lookup_insert|apply lookup_insert_ne; congruence]. Qed.

(* ---------- ingestion ---------- *)
Lemma ingest_at_fbs fx w j sender ops :
  w_fbs (ingest_at fx w j sender ops) = w_fbs w \/
  exists nd, w_nodes w !! j = Some nd /\ is_Some (w_nodes w !! sender) /\
    w_fbs (ingest_at fx w j sender ops) = w_fbs w ++ [Fb sender j (map strip (rejected (n_eng nd) ops)) false].
Proof.
  unfold ingest_at. destruct ops as [|o ops]; [left; reflexivity|].
  destruct (w_nodes w !! j) as [nd|] eqn:E; [|left; reflexivity].
  unfold rejected. destruct (ingest (n_eng nd) (o :: ops)) as [[e' acc] rej] eqn:Ei.
  destruct rej as [|r rej]; [left; reflexivity|].
  destruct (w_nodes w !! sender) eqn:Es; [|left; reflexivity].
  right. exists nd. split; [reflexivity|]. split; [eexists; reflexivity|]. rewrite Ei. reflexivity.
Qed.

Lemma Q_ingest_at U A B w j sender ops :
  InvU U w -> Q U A B w -> sender <> j -> (forall o, In o ops -> U o) ->
  Q U A B (ingest_at true w j sender ops).
Proof.
  intros I [qab qn qf qp ql] Hne Hops.
  pose proof (world_le_ingest_at true w j sender ops) as L.
  destruct (ingest_at_shape true w j sender ops) as [E|(nd & fbs' & Hj & E)].
  { rewrite E. constructor; assumption. }
  assert (forall m ndm, w_nodes (ingest_at true w j sender ops) !! m = Some ndm ->
            exists ndm0, w_nodes w !! m = Some ndm0 /\ (m <> j -> ndm = ndm0)) as Back.
  { intros m ndm. rewrite E, upd_lookup. destruct (decide (m = j)) as [->|Hm].
    - intros _. exists nd. split; [exact Hj|congruence].
    - intros H. exists ndm. split; [exact H|reflexivity]. }
  constructor.
  - exact qab.
  - intros m ndm H. destruct (Back _ _ H) as (ndm0 & H0 & _). eapply qn, H0.
  - (* feedback evidence *)
    intros i fb Hi.
    assert (forall fb, (exists i, w_fbs w !! i = Some fb) ->
              fb_from fb <> fb_dest fb /\ exists nd0, w_nodes (ingest_at true w j sender ops) !! fb_from fb = Some nd0 /\
              forall d, In d (fb_digs fb) -> above (n_eng nd0 !! o_key d) d) as Old.
    { intros fb0 (i0 & Hi0). destruct (qf _ _ Hi0) as (Hd & nd0 & Hn0 & Ev). split; [exact Hd|].
      assert (exists nd1, w_nodes (ingest_at true w j sender ops) !! fb_from fb0 = Some nd1) as (nd1 & Hn1).
      { rewrite E, upd_lookup. destruct (decide (fb_from fb0 = j)); eauto. }
      exists nd1. split; [exact Hn1|]. intros d Hd0. eapply world_le_above; [exact L|exact Hn0|exact Hn1|]. apply Ev, Hd0. }
    destruct (ingest_at_fbs true w j sender ops) as [Ef|(nd2 & Hj2 & Hs & Ef)].
    + rewrite Ef in Hi. apply Old. eauto.
    + rewrite Ef in Hi. apply lookup_app_Some in Hi as [Hi|[_ Hi]]; [apply Old; eauto|].
      destruct (i - length (w_fbs w))%nat; simpl in Hi; [|discriminate]. injection Hi as <-. simpl.
      split; [congruence|]. rewrite Hj in Hj2. injection Hj2 as <-.
      eexists. split; [rewrite E, upd_lookup, decide_True by reflexivity; reflexivity|].
      simpl. intros d Hd. apply in_map_iff in Hd as (x & <- & Hx). simpl.
      apply above_strip. change (o_key (strip x)) with (o_key x). apply rejected_above, Hx.
  - (* pairs *)
    intros X Y ndX ndY k d HXY HX HY Hk.
    destruct (Back _ _ HX) as (ndX0 & HX0 & EX). destruct (Back _ _ HY) as (ndY0 & HY0 & EY).
    destruct (decide (X = j)) as [->|HXj].
    + (* the ingesting node *)
      rewrite E, upd_lookup, decide_True in HX by reflexivity. injection HX as <-. simpl in *.
      rewrite HX0 in Hj. injection Hj as ->.
      specialize (EY ltac:(congruence)). subst ndY.
      destruct (ingest_sync true ops (n_eng nd) (n_store nd) k) as [[E1 E2]|(x & E1 & E2 & _ & _)].
      * rewrite E1 in Hk. rewrite E2. eapply qp; eassumption.
      * rewrite E1 in Hk. injection Hk as <-. right. exact E2.
    + specialize (EX HXj). subst ndX.
      destruct (qp X Y ndX0 ndY0 k d HXY HX0 HY0 Hk) as [Ab|St]; [left|right; exact St].
      eapply world_le_above; [exact L|exact HY0|exact HY|exact Ab].
  - intros o ndl Uo Hl. destruct (Back _ _ Hl) as (ndl0 & Hl0 & _).
    eapply world_le_above; [exact L|exact Hl0|exact Hl|]. apply ql; assumption.
Qed.

(* ---------- Q only looks at nodes and feedback messages ---------- *)
Lemma Q_ext U A B w w' : w_nodes w = w_nodes w' -> w_fbs w = w_fbs w' -> Q U A B w -> Q U A B w'.
Proof.
  intros E1 E2 [qab qn qf qp ql]. constructor; try rewrite <- E1; try rewrite <- E2; auto.
Qed.

(* a node update that leaves engine and gossip store alone *)
Lemma Q_upd_same U A B w n nd nd' msgs' :
  w_nodes w !! n = Some nd -> n_eng nd' = n_eng nd -> n_store nd' = n_store nd ->
  Q U A B w -> Q U A B (upd w n nd' msgs' (w_fbs w)).
Proof.
  intros Hn Ee Es [qab qn qf qp ql].
  assert (forall m ndm, w_nodes (upd w n nd' msgs' (w_fbs w)) !! m = Some ndm ->
            exists ndm0, w_nodes w !! m = Some ndm0 /\ n_eng ndm = n_eng ndm0 /\ n_store ndm = n_store ndm0) as Back.
  { intros m ndm. rewrite upd_lookup. destruct (decide (m = n)) as [->|Hm].
    - intros [= <-]. exists nd. auto.
    - intros H. exists ndm. auto. }
  assert (forall m ndm0, w_nodes w !! m = Some ndm0 ->
            exists ndm, w_nodes (upd w n nd' msgs' (w_fbs w)) !! m = Some ndm /\ n_eng ndm = n_eng ndm0) as Fwd.
  { intros m ndm0 H. rewrite upd_lookup. destruct (decide (m = n)) as [->|Hm].
    - rewrite Hn in H. injection H as <-. exists nd'. auto.
    - exists ndm0. auto. }
  constructor.
  - exact qab.
  - intros m ndm H. destruct (Back _ _ H) as (ndm0 & H0 & _). eapply qn, H0.
  - intros i fb Hi. simpl in Hi. destruct (qf _ _ Hi) as (Hd & nd0 & Hn0 & Ev). split; [exact Hd|].
    destruct (Fwd _ _ Hn0) as (nd1 & Hn1 & Ee1). exists nd1. split; [exact Hn1|]. rewrite Ee1. exact Ev.
  - intros X Y ndX ndY k d HXY HX HY Hk.
    destruct (Back _ _ HX) as (ndX0 & HX0 & EX & SX). destruct (Back _ _ HY) as (ndY0 & HY0 & EY & _).
    rewrite EX in Hk. rewrite EY, SX. eapply qp; eassumption.
  - intros o ndl Uo Hl. destruct (Back _ _ Hl) as (ndl0 & Hl0 & El & _). rewrite El. apply ql; assumption.
Qed.

(* ---------- local writes ---------- *)
Lemma Q_write U A B w n k v lease del :
  InvU U w -> Q U A B w ->
  (forall nd, w_nodes w !! n = Some nd -> n_eng nd !! k = None -> fresh_key U k) ->
  Q (grow U (new_write w n k v lease del)) A B (do_write true w n k v lease del).1.
Proof.
  intros I QQ Hfresh.
  destruct (step_write U w true n k v lease del I Hfresh) as [_ L].
  destruct QQ as [qab qn qf qp ql].
  destruct (do_write_shape true w n k v lease del) as [[E1 E2]|(nd & lh & ndl & Hn & Ha & Hl & E2 & E1)].
  { rewrite E1, E2. constructor; auto. intros o ndl [Uo|?]; [apply ql, Uo|discriminate]. }
  rewrite E1 in *. rewrite E2. clear E1 E2.
  assert (store_put true (n_store ndl) (local_op ndl lh k del v, false) =
          <[k := (local_op ndl lh k del v, false)]> (n_store ndl)) as Sp by reflexivity.
  assert (forall m ndm, w_nodes (upd w lh (local_apply true ndl lh k del v) (w_msgs w) (w_fbs w)) !! m = Some ndm ->
            exists ndm0, w_nodes w !! m = Some ndm0 /\ (m <> lh -> ndm = ndm0)) as Back.
  { intros m ndm. rewrite upd_lookup. destruct (decide (m = lh)) as [->|Hm].
    - intros _. exists ndl. split; [exact Hl|congruence].
    - intros H. exists ndm. split; [exact H|reflexivity]. }
  constructor.
  - exact qab.
  - intros m ndm H. destruct (Back _ _ H) as (ndm0 & H0 & _). eapply qn, H0.
  - intros i fb Hi. simpl in Hi. destruct (qf _ _ Hi) as (Hd & nd0 & Hn0 & Ev). split; [exact Hd|].
    assert (exists nd1, w_nodes (upd w lh (local_apply true ndl lh k del v) (w_msgs w) (w_fbs w)) !! fb_from fb = Some nd1) as (nd1 & Hn1).
    { rewrite upd_lookup. destruct (decide (fb_from fb = lh)); eauto. }
    exists nd1. split; [exact Hn1|]. intros d Hd0. eapply world_le_above; [exact L|exact Hn0|exact Hn1|]. apply Ev, Hd0.
  - intros X Y ndX ndY k' d HXY HX HY Hk.
    destruct (Back _ _ HX) as (ndX0 & HX0 & EX). destruct (Back _ _ HY) as (ndY0 & HY0 & EY).
    destruct (decide (X = lh)) as [->|HXl].
    + rewrite upd_lookup, decide_True in HX by reflexivity. injection HX as <-. simpl in *.
      rewrite HX0 in Hl. injection Hl as ->.
      specialize (EY ltac:(congruence)). subst ndY. rewrite Sp.
      destruct (decide (k' = k)) as [->|Hkk].
      * rewrite lookup_insert in Hk. injection Hk as <-. right. apply lookup_insert.
      * rewrite lookup_insert_ne in Hk by congruence. rewrite lookup_insert_ne by congruence.
        exact (qp lh Y ndl ndY0 k' d HXY HX0 HY0 Hk).
    + specialize (EX HXl). subst ndX.
      destruct (qp X Y ndX0 ndY0 k' d HXY HX0 HY0 Hk) as [Ab|St]; [left|right; exact St].
      eapply world_le_above; [exact L|exact HY0|exact HY|exact Ab].
  - intros o ndo [Uo|Eo] Ho.
    + destruct (Back _ _ Ho) as (ndo0 & Ho0 & _).
      eapply world_le_above; [exact L|exact Ho0|exact Ho|]. apply ql; assumption.
    + injection Eo as <-. simpl in Ho. rewrite lookup_insert in Ho. injection Ho as <-. simpl.
      rewrite lookup_insert. simpl. apply op_le_refl.
Qed.

(* ---------- feedback ---------- *)
Lemma Q_fb_deliver U A B T w f : Q U A B w -> Q U A B (fb_deliver true T w f).
Proof.
  intros QQ. unfold fb_deliver.
  destruct (w_fbs w !! f) as [[dest from digs [|]]|] eqn:Ef; try exact QQ.
  pose proof QQ as [qab qn qf qp ql].
  destruct (qf _ _ Ef) as (Hfd & ndf & Hnf & Ev). simpl in *.
  (* the feedback list: same messages, one marked delivered *)
  assert (forall i fb, <[f := Fb dest from digs true]> (w_fbs w) !! i = Some fb ->
            exists fb0, w_fbs w !! i = Some fb0 /\ fb_from fb = fb_from fb0 /\ fb_dest fb = fb_dest fb0 /\ fb_digs fb = fb_digs fb0) as Fbs.
  { intros i fb H. apply list_lookup_insert_Some in H as [(-> & <- & _)|(Hne & H)].
    - eexists. split; [exact Ef|]. auto.
    - exists fb. auto. }
  destruct (w_nodes w !! dest) as [nd|] eqn:Ed.
  2:{ constructor; auto. intros i fb Hi. simpl in Hi. destruct (Fbs _ _ Hi) as (fb0 & H0 & -> & -> & ->). eapply qf, H0. }
  destruct (fb_transform T (n_reps nd) digs) as [r' out] eqn:Et.
  assert (forall x, In x out -> In x digs) as Out.
  { intros x Hx. unfold fb_transform in Et.
    assert (In x (fold_left (fb_step T) digs (n_reps nd, [])).2) as Hx' by (rewrite Et; exact Hx).
    destruct (fb_transform_out T digs (n_reps nd) [] x Hx') as [H0|H]; [destruct H0|exact H]. }
  set (nd' := Node (n_eng nd) (n_ctr nd) (store_apply true (n_store nd) (map (fun o => (o, true)) out)) r' (n_rec nd) (n_log nd) (n_subs nd)).
  assert (forall m ndm, (<[dest := nd']> (w_nodes w)) !! m = Some ndm ->
            exists ndm0, w_nodes w !! m = Some ndm0 /\ n_eng ndm = n_eng ndm0 /\ (m <> dest -> ndm = ndm0)) as Back.
  { intros m ndm. destruct (decide (m = dest)) as [->|Hm].
    - rewrite lookup_insert. intros [= <-]. exists nd. split; [exact Ed|]. split; [reflexivity|congruence].
    - rewrite lookup_insert_ne by congruence. intros H. exists ndm. auto. }
  assert (forall m ndm0, w_nodes w !! m = Some ndm0 ->
            exists ndm, (<[dest := nd']> (w_nodes w)) !! m = Some ndm /\ n_eng ndm = n_eng ndm0) as Fwd.
  { intros m ndm0 H. destruct (decide (m = dest)) as [->|Hm].
    - rewrite lookup_insert. rewrite Ed in H. injection H as <-. exists nd'. auto.
    - rewrite lookup_insert_ne by congruence. exists ndm0. auto. }
  constructor; simpl.
  - exact qab.
  - intros m ndm H. destruct (Back _ _ H) as (ndm0 & H0 & _). eapply qn, H0.
  - intros i fb Hi. destruct (Fbs _ _ Hi) as (fb0 & H0 & -> & -> & ->).
    destruct (qf _ _ H0) as (Hd & nd0 & Hn0 & Ev0). split; [exact Hd|].
    destruct (Fwd _ _ Hn0) as (nd1 & Hn1 & Ee1). exists nd1. split; [exact Hn1|]. rewrite Ee1. exact Ev0.
  - intros X Y ndX ndY k d HXY HX HY Hk.
    destruct (Back _ _ HX) as (ndX0 & HX0 & EX & EX'). destruct (Back _ _ HY) as (ndY0 & HY0 & EY & _).
    rewrite EX in Hk. rewrite EY.
    destruct (qp X Y ndX0 ndY0 k d HXY HX0 HY0 Hk) as [Ab|St]; [left; exact Ab|].
    destruct (decide (X = dest)) as [->|HXd].
    + rewrite lookup_insert in HX. injection HX as <-. simpl.
      rewrite HX0 in Ed. injection Ed as ->.
      destruct (store_apply_recovered out (n_store nd) k d St) as [S'|(x & Hx & Kx & Vx & Lx)]; [right; exact S'|].
      left. (* the sender of the feedback is the other node *)
      assert (from = Y) as ->.
      { destruct (qn _ _ Hnf) as [E1 | E1], (qn _ _ HY0) as [E2 | E2], (qn _ _ HX0) as [E3 | E3]; congruence. }
      rewrite Hnf in HY0. injection HY0 as <-.
      eapply above_same_pos; [exact Vx|exact Lx|]. rewrite <- Kx. apply Ev, Out, Hx.
    + right. rewrite (EX' HXd). exact St.
  - intros o ndl Uo Hl. destruct (Back _ _ Hl) as (ndl0 & Hl0 & El & _). rewrite El. apply ql; assumption.
Qed.

Lemma Q_fball U A B T l : forall w, Q U A B w -> Q U A B (fold_left (fb_deliver true T) l w).
Proof. induction l as [|f l IH]; intros w H; [exact H|]. simpl. apply IH, Q_fb_deliver, H. Qed.

(* ---------- one step ---------- *)
Lemma Q_grow_None U A B w : Q U A B w -> Q (grow U None) A B w.
Proof.
  intros [qab qn qf qp ql]. constructor; auto. intros o nd [Uo|?]; [apply ql, Uo|discriminate].
Qed.

Lemma payload_U U w n o : InvU U w -> In o (payload w n) -> U o.
Proof. apply InvU_payload. Qed.

Theorem Q_step T U A B w s :
  InvU U w -> Q U A B w -> ok_step U w s -> q_step w s ->
  Q (grow U (new_op w s)) A B (step true T w s).1.
Proof.
  intros I QQ Hok Hq.
  destruct s as [n k v lease|n k|n sender b|n|m n|i j late|f| |n|n p|n p|n p|n s filter|fn g|n k lease del|n s]; simpl in *; try destruct Hq.
  - apply Q_write; assumption.
  - apply Q_write; assumption.
  - destruct (w_nodes w !! n); simpl; apply Q_grow_None; [eapply Q_ext; [| |exact QQ]; reflexivity|exact QQ].
  - destruct (w_msgs w !! m) as [[sender ops]|] eqn:Em; simpl; apply Q_grow_None; [|exact QQ].
    apply Q_ingest_at; [exact I|exact QQ|eapply Hq; reflexivity|].
    intros o Ho. eapply iu_sub; [exact I|]. eapply iw_msg; eassumption.
  - apply Q_grow_None. unfold round.
    destruct (w_nodes w !! i); [|exact QQ]. destruct (w_nodes w !! j); [|exact QQ].
    destruct (bool_decide (i = j)) eqn:Eij; [exact QQ|]. apply bool_decide_eq_false in Eij.
    destruct (payload w i) as [|o pl] eqn:Ep; [exact QQ|].
    assert (forall x, In x (o :: pl) -> U x) as Hpl by (intros x Hx; rewrite <- Ep in Hx; exact (InvU_payload U w i x I Hx)).
    pose proof (InvU_ingest_at true U w j i (o :: pl) I Hpl) as I1.
    pose proof (Q_ingest_at U A B w j i (o :: pl) I QQ Eij Hpl) as Q1.
    destruct late.
    + apply Q_ingest_at; [exact I1|exact Q1|congruence|]. intros x Hx. exact (InvU_payload U _ j x I1 Hx).
    + apply Q_ingest_at; [exact I1|exact Q1|congruence|]. intros x Hx. exact (InvU_payload U w j x I Hx).
  - apply Q_grow_None, Q_fb_deliver, QQ.
  - apply Q_grow_None, Q_fball, QQ.
  - apply Q_grow_None. unfold subscribe. destruct (w_nodes w !! n) as [nd|] eqn:En; [|exact QQ].
    destruct (n_subs nd !! s); [exact QQ|]. eapply (Q_upd_same U A B w n nd); [exact En|reflexivity|reflexivity|exact QQ].
  - apply Q_grow_None. unfold stall. destruct (w_nodes w !! n) as [nd|] eqn:En; [|exact QQ].
    eapply (Q_upd_same U A B w n nd); [exact En|reflexivity|reflexivity|exact QQ].
Qed.

(* ---------- runs ---------- *)
Fixpoint q_run (T : N) (w : world) (l : list step_t) : Prop :=
  match l with
  | [] => True
  | s :: r => q_step w s /\ q_run T (step true T w s).1 r
  end.

Lemma Q_run T A B l : forall U w, InvU U w -> Q U A B w -> ok_run true T U w l -> q_run T w l ->
  exists U', InvU U' (run true T w l) /\ Q U' A B (run true T w l).
Proof.
  induction l as [|s r IH]; intros U w I QQ Hok Hq; [exists U; split; assumption|].
  destruct Hok as [H1 H2]. destruct Hq as [G1 G2].
  destruct (step_preserves true T U w s I H1) as [I' _].
  pose proof (Q_step T U A B w s I QQ H1 G1) as Q'.
  unfold run. simpl. exact (IH _ _ I' Q' H2 G2).
Qed.

Lemma Q_world0 A B : A <> B -> Q no_op A B (world0 [A; B]).
Proof.
  intros Hab.
  assert (forall n nd, w_nodes (world0 [A; B]) !! n = Some nd -> (n = A \/ n = B) /\ nd = node0) as Z.
  { intros n nd H. unfold world0 in H. simpl in H.
    destruct (decide (n = A)) as [->|HA]; [rewrite lookup_insert in H; injection H as <-; auto|].
    rewrite lookup_insert_ne in H by congruence.
    destruct (decide (n = B)) as [->|HB]; [rewrite lookup_insert in H; injection H as <-; auto|].
    rewrite lookup_insert_ne, lookup_empty in H by congruence. discriminate. }
  constructor.
  - exact Hab.
  - intros n nd H. apply Z in H. tauto.
  - intros i fb H. simpl in H. discriminate.
  - intros X Y ndX ndY k d _ HX _ Hk. apply Z in HX as [_ ->]. simpl in Hk. rewrite lookup_empty in Hk. discriminate.
  - intros o nd [].
Qed.

(* Two nodes, fixed store, one creator per key, no restart / recovery / forged batches, payloads
   not delivered to their own sender; feedback may be delayed, reordered or lost, payloads delayed,
   duplicated or lost. In every reachable state where no node holds an infected operation: the two
   engines are identical (values, deletions, digests), and a node that leads operations holds an
   entry at least as new as each of them — i.e. both nodes hold the leaseholder's latest write. *)
Theorem quiescent_two_nodes T A B l :
  A <> B ->
  ok_run true T no_op (world0 [A; B]) l -> q_run T (world0 [A; B]) l ->
  let w := run true T (world0 [A; B]) l in
  quiescent w ->
  forall ndA ndB, w_nodes w !! A = Some ndA -> w_nodes w !! B = Some ndB ->
    n_eng ndA = n_eng ndB /\
    exists U : op -> Prop, (forall o, in_world w o -> U o) /\
      (forall o, U o -> o_lh o = A -> above (n_eng ndB !! o_key o) o) /\
      (forall o, U o -> o_lh o = B -> above (n_eng ndA !! o_key o) o).
Proof.
  intros Hab Hok Hq w Hqu ndA ndB HA HB.
  destruct (Q_run T A B l no_op (world0 [A; B]) (InvU_world0 _) (Q_world0 A B Hab) Hok Hq) as (U & I & QQ).
  fold w in I, QQ. destruct QQ as [qab qn qf qp ql].
  assert (forall X Y ndX ndY k d, X <> Y -> w_nodes w !! X = Some ndX -> w_nodes w !! Y = Some ndY ->
            n_eng ndX !! k = Some d -> above (n_eng ndY !! k) d) as P.
  { intros X Y ndX ndY k d HXY HX HY Hk. destruct (qp X Y ndX ndY k d HXY HX HY Hk) as [Ab|St]; [exact Ab|].
    exfalso. exact (Hqu X ndX k d HX St). }
  assert (n_eng ndA = n_eng ndB) as Eq.
  { apply map_eq. intros k.
    destruct (n_eng ndA !! k) as [a|] eqn:Ea; destruct (n_eng ndB !! k) as [b|] eqn:Eb.
    - f_equal.
      pose proof (P A B ndA ndB k a Hab HA HB Ea) as P1. rewrite Eb in P1.
      pose proof (P B A ndB ndA k b (not_eq_sym Hab) HB HA Eb) as P2. rewrite Ea in P2. simpl in P1, P2.
      destruct (op_le_antisym _ _ P1 P2) as [Ev _].
      eapply iu_coh; [exact I| | | |exact Ev].
      + exact (InvU_eng U w A ndA k a I HA Ea).
      + exact (InvU_eng U w B ndB k b I HB Eb).
      + rewrite (iu_key U w I A ndA k a HA Ea), (iu_key U w I B ndB k b HB Eb). reflexivity.
    - pose proof (P A B ndA ndB k a Hab HA HB Ea) as P1. rewrite Eb in P1. destruct P1.
    - pose proof (P B A ndB ndA k b (not_eq_sym Hab) HB HA Eb) as P2. rewrite Ea in P2. destruct P2.
    - reflexivity. }
  split; [exact Eq|]. exists U. split; [apply (iu_sub U w I)|]. split.
  - intros o Uo Lo. rewrite <- Eq. apply ql; [exact Uo|]. rewrite Lo. exact HA.
  - intros o Uo Lo. rewrite Eq. apply ql; [exact Uo|]. rewrite Lo. exact HB.
Qed.

(* ---------- decidable sufficient conditions (for concrete, non-vacuous instances) ---------- *)
Definition has_digest (w : world) (n k : N) : bool :=
  match w_nodes w !! n with
  | Some nd => match n_eng nd !! k with Some _ => true | None => false end
  | None => true
  end.

Definition ok_stepb (ks : list N) (w : world) (s : step_t) : bool :=
  match s with
  | SWrite n k _ _ | SDel n k => has_digest w n k || negb (bool_decide (k ∈ ks))
  | SInject _ _ _ | SRecBegin _ _ | SRecEnd _ _ | SFaulty _ _ => false
  | _ => true
  end.
Definition step_key (s : step_t) : list N :=
  match s with SWrite _ k _ _ | SDel _ k => [k] | _ => [] end.

Fixpoint ok_runb (fx : bool) (T : N) (ks : list N) (w : world) (l : list step_t) : bool :=
  match l with
  | [] => true
  | s :: r => ok_stepb ks w s && ok_runb fx T (step_key s ++ ks) (step fx T w s).1 r
  end.

Lemma new_write_key w n k v lease del o : new_write w n k v lease del = Some o -> o_key o = k.
Proof.
  unfold new_write. destruct (w_nodes w !! n) as [nd|]; [|discriminate].
  destruct (alloc nd n k lease del) as [lh|]; [|discriminate].
  destruct (w_nodes w !! lh); [|discriminate]. intros [= <-]. reflexivity.
Qed.

Lemma ok_runb_sound fx T l : forall ks (U : op -> Prop) w,
  (forall o, U o -> o_key o ∈ ks) -> ok_runb fx T ks w l = true -> ok_run fx T U w l.
Proof.
  induction l as [|s r IH]; intros ks U w HU H; [exact Logic.I|].
  simpl in H. apply andb_true_iff in H as [H1 H2]. split.
  - destruct s; simpl in *; try exact Logic.I; try discriminate.
    + intros nd Hn Hk o Uo Ko. apply orb_true_iff in H1 as [H1|H1].
      * unfold has_digest in H1. rewrite Hn, Hk in H1. discriminate.
      * apply negb_true_iff, bool_decide_eq_false in H1. apply H1. rewrite <- Ko. apply HU, Uo.
    + intros nd Hn Hk o Uo Ko. apply orb_true_iff in H1 as [H1|H1].
      * unfold has_digest in H1. rewrite Hn, Hk in H1. discriminate.
      * apply negb_true_iff, bool_decide_eq_false in H1. apply H1. rewrite <- Ko. apply HU, Uo.
  - apply (IH (step_key s ++ ks)); [|exact H2].
    intros o [Uo|Eo]; [apply elem_of_app; right; apply HU, Uo|].
    destruct s; simpl in Eo; try discriminate; apply new_write_key in Eo; simpl; rewrite Eo; apply elem_of_list_here.
Qed.

Definition q_stepb (w : world) (s : step_t) : bool :=
  match s with
  | SDeliver m n => match w_msgs w !! m with Some (sender, _) => negb (sender =? n) | None => true end
  | SInject _ _ _ | SRestart _ | SRecBegin _ _ | SRecEnd _ _ | SRecover _ _ | SFaulty _ _ | SWriteCF _ _ _ _ => false
  | _ => true
  end.
Fixpoint q_runb (T : N) (w : world) (l : list step_t) : bool :=
  match l with
  | [] => true
  | s :: r => q_stepb w s && q_runb T (step true T w s).1 r
  end.

Lemma q_runb_sound T l : forall w, q_runb T w l = true -> q_run T w l.
Proof.
  induction l as [|s r IH]; intros w H; [exact Logic.I|].
  simpl in H. apply andb_true_iff in H as [H1 H2]. split; [|apply IH, H2].
  destruct s; simpl in *; try exact Logic.I; try discriminate.
  intros sender ops Hm. rewrite Hm in H1. apply negb_true_iff, N.eqb_neq in H1. exact H1.
Qed.

Definition quiescentb (w : world) : bool :=
  forallb (fun kn : N * node => match infected (n_store kn.2) with [] => true | _ => false end)
          (map_to_list (w_nodes w)).

Lemma quiescentb_sound w : quiescentb w = true -> quiescent w.
Proof.
  unfold quiescentb, quiescent. rewrite forallb_forall. intros H n nd k d Hn Hk.
  specialize (H (n, nd)). simpl in H.
  assert (In (n, nd) (map_to_list (w_nodes w))) as Hin by (apply elem_of_list_In, elem_of_map_to_list, Hn).
  specialize (H Hin).
  assert (In d (infected (n_store nd))) as Hd by (apply in_infected; exists k; exact Hk).
  destruct (infected (n_store nd)); [destruct Hd|discriminate].
Qed.
