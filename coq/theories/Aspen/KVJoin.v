(* Aspen/KVJoin.v — proofs: supersedes is the strict lexicographic order on (version, leaseholder);
   ingestion through filterPersist is a last-writer-wins join: idempotent, insensitive to order,
   duplication and batching; it never replaces an entry by an older one. *)
From stdpp Require Import gmap.
From Coq Require Import NArith ZArith Lia.
From Synnax Require Import Aspen.KV.
Local Open Scope N_scope.
Arguments supersedes : simpl never.

(* ---------- the order ---------- *)
Definition op_lt (a b : op) : Prop :=
  (o_ver a < o_ver b)%Z \/ (o_ver a = o_ver b /\ o_lh a < o_lh b).
Definition same_pos (a b : op) : Prop := o_ver a = o_ver b /\ o_lh a = o_lh b.
Definition op_le (a b : op) : Prop := op_lt a b \/ same_pos a b.

Lemma supersedes_some d o : supersedes (Some d) o = true <-> op_lt d o.
Proof.
  unfold supersedes, op_lt.
  destruct (Z.eqb_spec (o_ver o) (o_ver d)) as [E|E].
  - rewrite N.ltb_lt. split; [intros H; right; split; [lia|exact H]|intros [H|[_ H]]; [lia|exact H]].
  - rewrite Z.ltb_lt. split; [intros H; left; exact H|intros [H|[H _]]; [exact H|lia]].
Qed.

Lemma supersedes_none o : supersedes None o = true.
Proof. reflexivity. Qed.

Lemma supersedes_irrefl o : supersedes (Some o) o = false.
Proof. unfold supersedes. rewrite Z.eqb_refl. apply N.ltb_irrefl. Qed.

Lemma op_lt_irrefl a : ~ op_lt a a.
Proof. unfold op_lt. lia. Qed.
Lemma op_lt_trans a b c : op_lt a b -> op_lt b c -> op_lt a c.
Proof. unfold op_lt. lia. Qed.
Lemma op_lt_asym a b : op_lt a b -> ~ op_lt b a.
Proof. unfold op_lt. lia. Qed.
Lemma op_lt_total a b : op_lt a b \/ same_pos a b \/ op_lt b a.
Proof. unfold op_lt, same_pos. lia. Qed.
Lemma op_le_refl a : op_le a a.
Proof. right. split; reflexivity. Qed.
Lemma op_le_trans a b c : op_le a b -> op_le b c -> op_le a c.
Proof. unfold op_le, op_lt, same_pos. lia. Qed.
Lemma op_le_antisym a b : op_le a b -> op_le b a -> same_pos a b.
Proof. unfold op_le, op_lt, same_pos. lia. Qed.
Lemma op_lt_le a b : op_lt a b -> op_le a b.
Proof. left. assumption. Qed.
Lemma not_supersedes_le d o : supersedes (Some d) o = false -> op_le o d.
Proof.
  intros H. destruct (op_lt_total d o) as [L|[S|L]].
  - apply supersedes_some in L. congruence.
  - right. destruct S. split; congruence.
  - left. exact L.
Qed.

(* ---------- one key ---------- *)
Definition best (cur : option op) (o : op) : option op :=
  if supersedes cur o then Some o else cur.

(* [above r o]: the register holds something at least as new as o *)
Definition above (r : option op) (o : op) : Prop :=
  match r with Some m => op_le o m | None => False end.

Lemma best_above cur o : above (best cur o) o.
Proof.
  unfold best. destruct cur as [d|]; simpl.
  - destruct (supersedes (Some d) o) eqn:E; simpl.
    + apply op_le_refl.
    + apply not_supersedes_le. exact E.
  - apply op_le_refl.
Qed.

Lemma best_keeps_above cur o x : above cur x -> above (best cur o) x.
Proof.
  unfold best. destruct cur as [d|]; simpl; [|tauto].
  intros H. destruct (supersedes (Some d) o) eqn:E; simpl; [|exact H].
  apply supersedes_some in E. eapply op_le_trans; [exact H|]. left. exact E.
Qed.

Lemma fold_best_keeps_above l : forall cur x, above cur x -> above (fold_left best l cur) x.
Proof. induction l as [|o l IH]; simpl; intros cur x H; [exact H|]. apply IH, best_keeps_above, H. Qed.

Lemma fold_best_above l : forall cur o, In o l -> above (fold_left best l cur) o.
Proof.
  induction l as [|a l IH]; simpl; intros cur o H; [tauto|].
  destruct H as [->|H]; [|apply IH; exact H].
  apply fold_best_keeps_above, best_above.
Qed.

Lemma fold_best_origin l : forall cur,
  fold_left best l cur = cur \/ exists o, In o l /\ fold_left best l cur = Some o.
Proof.
  induction l as [|a l IH]; simpl; intros cur; [left; reflexivity|].
  destruct (IH (best cur a)) as [E|(o & Hin & E)].
  - rewrite E. unfold best. destruct (supersedes cur a); [right; exists a; split; [left; reflexivity|reflexivity]|left; reflexivity].
  - right. exists o. split; [right; exact Hin|exact E].
Qed.

(* the register only moves up, and keeps its content at an equal position *)
Lemma fold_best_mono l : forall d, exists d', fold_left best l (Some d) = Some d' /\ (d' = d \/ op_lt d d').
Proof.
  induction l as [|a l IH]; simpl; intros d; [exists d; split; [reflexivity|left; reflexivity]|].
  unfold best at 2. destruct (supersedes (Some d) a) eqn:E.
  - destruct (IH a) as (d' & -> & H). exists d'. split; [reflexivity|]. right.
    apply supersedes_some in E. destruct H as [->|H]; [exact E|eapply op_lt_trans; eassumption].
  - apply IH.
Qed.

Lemma fold_best_none_nil l : fold_left best l None = None -> l = [].
Proof.
  destruct l as [|a l]; [reflexivity|]. simpl. unfold best at 2. simpl. intros H.
  destruct (fold_best_mono l a) as (d' & E & _). congruence.
Qed.

Lemma fold_best_app l1 l2 cur : fold_left best (l1 ++ l2) cur = fold_left best l2 (fold_left best l1 cur).
Proof. apply fold_left_app. Qed.

(* a redelivered operation changes nothing *)
Lemma best_id cur o : above cur o -> best cur o = cur.
Proof.
  unfold best, above. destruct cur as [d|]; [|tauto]. intros H.
  destruct (supersedes (Some d) o) eqn:E; [|reflexivity].
  apply supersedes_some in E. exfalso. unfold op_le, op_lt, same_pos in *. lia.
Qed.

Lemma fold_best_id l : forall cur, (forall o, In o l -> above cur o) -> fold_left best l cur = cur.
Proof.
  induction l as [|a l IH]; simpl; intros cur H; [reflexivity|].
  rewrite best_id by (apply H; left; reflexivity). apply IH. intros o Ho. apply H. right. exact Ho.
Qed.

(* ---------- the engine ---------- *)
Definition ingest_eng (e : engine) (b : list op) : engine := (ingest e b).1.1.
Definition accepted (e : engine) (b : list op) : list op := (ingest e b).1.2.
Definition rejected (e : engine) (b : list op) : list op := (ingest e b).2.

Lemma ingest_cons e o r :
  ingest e (o :: r) =
  if supersedes (e !! o_key o) o
  then (ingest_eng (<[o_key o := o]> e) r, o :: accepted (<[o_key o := o]> e) r, rejected (<[o_key o := o]> e) r)
  else (ingest_eng e r, accepted e r, o :: rejected e r).
Proof.
  unfold ingest_eng, accepted, rejected. simpl.
  destruct (supersedes (e !! o_key o) o).
  - destruct (ingest (<[o_key o:=o]> e) r) as [[e' a] j]. reflexivity.
  - destruct (ingest e r) as [[e' a] j]. reflexivity.
Qed.

Lemma ingest_eng_cons e o r :
  ingest_eng e (o :: r) = ingest_eng (if supersedes (e !! o_key o) o then <[o_key o := o]> e else e) r.
Proof. unfold ingest_eng at 1. rewrite ingest_cons. destruct (supersedes (e !! o_key o) o); reflexivity. Qed.

Definition at_key (k : N) (l : list op) : list op := filter (fun o => o_key o = k) l.

Lemma ingest_eng_lookup b : forall e k, ingest_eng e b !! k = fold_left best (at_key k b) (e !! k).
Proof.
  induction b as [|o r IH]; intros e k; [reflexivity|].
  rewrite ingest_eng_cons, IH. unfold at_key. rewrite filter_cons.
  destruct (decide (o_key o = k)) as [<-|Hne]; simpl.
  - unfold best. destruct (supersedes (e !! o_key o) o); [rewrite lookup_insert|]; reflexivity.
  - destruct (supersedes (e !! o_key o) o); [rewrite lookup_insert_ne by exact Hne|]; reflexivity.
Qed.

(* batching does not matter *)
Lemma ingest_eng_app b1 : forall e b2, ingest_eng (ingest_eng e b1) b2 = ingest_eng e (b1 ++ b2).
Proof.
  induction b1 as [|o r IH]; intros e b2; [reflexivity|].
  rewrite <- app_comm_cons, !ingest_eng_cons. apply IH.
Qed.

Definition ingest_all (e : engine) (bs : list (list op)) : engine := fold_left ingest_eng bs e.

Lemma ingest_all_concat bs : forall e, ingest_all e bs = ingest_eng e (concat bs).
Proof.
  induction bs as [|b bs IH]; intros e; [reflexivity|].
  simpl. unfold ingest_all in *. simpl. rewrite IH, ingest_eng_app. reflexivity.
Qed.

Lemma in_at_key k l o : In o (at_key k l) <-> In o l /\ o_key o = k.
Proof. unfold at_key. rewrite <- !elem_of_list_In, elem_of_list_filter. tauto. Qed.

(* never replaced by an older one *)
Lemma ingest_monotone e b k d :
  e !! k = Some d -> exists d', ingest_eng e b !! k = Some d' /\ (d' = d \/ op_lt d d').
Proof. intros H. rewrite ingest_eng_lookup, H. apply fold_best_mono. Qed.

(* every delivered operation is dominated by the entry of its key afterwards *)
Lemma ingest_above e b o : In o b -> above (ingest_eng e b !! o_key o) o.
Proof. intros H. rewrite ingest_eng_lookup. apply fold_best_above, in_at_key. split; [exact H|reflexivity]. Qed.

(* where an entry comes from *)
Lemma ingest_origin e b k x :
  ingest_eng e b !! k = Some x -> e !! k = Some x \/ (In x b /\ o_key x = k).
Proof.
  rewrite ingest_eng_lookup. intros H.
  destruct (fold_best_origin (at_key k b) (e !! k)) as [E|(o & Hin & E)].
  - left. congruence.
  - right. apply in_at_key in Hin. rewrite H in E. injection E as ->. exact Hin.
Qed.

(* idempotence: redelivering a batch changes nothing (no coherence needed) *)
Lemma ingest_redeliver e b :
  (forall o, In o b -> above (e !! o_key o) o) -> ingest_eng e b = e.
Proof.
  intros H. apply map_eq. intros k. rewrite ingest_eng_lookup. apply fold_best_id.
  intros o Ho. apply in_at_key in Ho as [Ho <-]. apply H, Ho.
Qed.

Lemma ingest_idempotent e b : ingest_eng (ingest_eng e b) b = ingest_eng e b.
Proof. apply ingest_redeliver. intros o Ho. apply ingest_above, Ho. Qed.

(* ---------- same set, any order / duplication / batching => same engine ---------- *)
(* coherence: one (key, version, leaseholder) names one operation *)
Definition coherent (P : op -> Prop) : Prop :=
  forall a b, P a -> P b -> o_key a = o_key b -> same_pos a b -> a = b.

Definition eng_op (e : engine) (o : op) : Prop := e !! o_key o = Some o.
Definition keyed (e : engine) : Prop := forall k o, e !! k = Some o -> o_key o = k.

Lemma ingest_keyed e b : keyed e -> keyed (ingest_eng e b).
Proof.
  intros K k o H. apply ingest_origin in H as [H|[_ H]]; [apply K in H|]; exact H.
Qed.

Theorem ingest_same_set e l1 l2 :
  keyed e ->
  (forall o, In o l1 <-> In o l2) ->
  coherent (fun o => eng_op e o \/ In o l1) ->
  ingest_eng e l1 = ingest_eng e l2.
Proof.
  intros K Hset Hcoh. apply map_eq. intros k.
  destruct (ingest_eng e l1 !! k) as [m1|] eqn:E1; destruct (ingest_eng e l2 !! k) as [m2|] eqn:E2.
  - f_equal.
    assert (P1 : eng_op e m1 \/ In m1 l1).
    { apply ingest_origin in E1 as [H|[H _]]; [left|right; exact H]. unfold eng_op. rewrite (K _ _ H). exact H. }
    assert (P2 : eng_op e m2 \/ In m2 l1).
    { apply ingest_origin in E2 as [H|[H _]]; [left|right; apply Hset; exact H]. unfold eng_op. rewrite (K _ _ H). exact H. }
    assert (K1 : o_key m1 = k) by (eapply ingest_keyed; eauto).
    assert (K2 : o_key m2 = k) by (eapply ingest_keyed; eauto).
    apply Hcoh; [exact P1|exact P2|congruence|].
    apply op_le_antisym.
    + (* m1 <= m2: m1 is in e or l2, hence dominated by the result of l2 *)
      rewrite ingest_eng_lookup in E2.
      destruct P1 as [H|H].
      * unfold eng_op in H. rewrite K1 in H. rewrite H in E2.
        pose proof (fold_best_keeps_above (at_key k l2) (Some m1) m1 (op_le_refl m1)) as A. rewrite E2 in A. exact A.
      * pose proof (fold_best_above (at_key k l2) (e !! k) m1) as A.
        rewrite E2 in A. apply A, in_at_key. split; [apply Hset; exact H|exact K1].
    + rewrite ingest_eng_lookup in E1.
      destruct P2 as [H|H].
      * unfold eng_op in H. rewrite K2 in H. rewrite H in E1.
        pose proof (fold_best_keeps_above (at_key k l1) (Some m2) m2 (op_le_refl m2)) as A. rewrite E1 in A. exact A.
      * pose proof (fold_best_above (at_key k l1) (e !! k) m2) as A.
        rewrite E1 in A. apply A, in_at_key. split; [exact H|exact K2].
  - exfalso. rewrite ingest_eng_lookup in E1, E2.
    destruct (e !! k) as [d|] eqn:Ek.
    + destruct (fold_best_mono (at_key k l2) d) as (d' & E & _). congruence.
    + apply fold_best_none_nil in E2.
      destruct (fold_best_origin (at_key k l1) None) as [E|(o & Hin & _)]; [congruence|].
      apply in_at_key in Hin as [Hin Hk].
      assert (In o (at_key k l2)) as X by (apply in_at_key; split; [apply Hset; exact Hin|exact Hk]).
      rewrite E2 in X. exact X.
  - exfalso. rewrite ingest_eng_lookup in E1, E2.
    destruct (e !! k) as [d|] eqn:Ek.
    + destruct (fold_best_mono (at_key k l1) d) as (d' & E & _). congruence.
    + apply fold_best_none_nil in E1.
      destruct (fold_best_origin (at_key k l2) None) as [E|(o & Hin & _)]; [congruence|].
      apply in_at_key in Hin as [Hin Hk].
      assert (In o (at_key k l1)) as X by (apply in_at_key; split; [apply Hset; exact Hin|exact Hk]).
      rewrite E1 in X. exact X.
  - reflexivity.
Qed.

(* the engine entry of a key is THE maximum of what was delivered (plus what was there) *)
Theorem ingest_is_max e l k m :
  ingest_eng e l !! k = Some m ->
  (e !! k = Some m \/ (In m l /\ o_key m = k)) /\
  (forall o, In o l -> o_key o = k -> op_le o m) /\
  (forall d, e !! k = Some d -> op_le d m).
Proof.
  intros H. split; [apply ingest_origin, H|]. rewrite ingest_eng_lookup in H. split.
  - intros o Ho Hk. pose proof (fold_best_above (at_key k l) (e !! k) o) as A. rewrite H in A.
    apply A, in_at_key. split; assumption.
  - intros d Hd. rewrite Hd in H.
    pose proof (fold_best_keeps_above (at_key k l) (Some d) d (op_le_refl d)) as A. rewrite H in A. exact A.
Qed.

(* ---------- interleaving with unconditional applies (local writes, recovered operations) ---------- *)
Inductive event :=
| EBatch (b : list op)     (* a gossip batch through filterPersist *)
| EForce (o : op).         (* persist / recovery: written without consulting the digest *)

Definition ev_apply (e : engine) (ev : event) : engine :=
  match ev with EBatch b => ingest_eng e b | EForce o => <[o_key o := o]> e end.
Definition ev_ops (ev : event) : list op := match ev with EBatch b => b | EForce o => [o] end.
Definition run_events (e : engine) (evs : list event) : engine := fold_left ev_apply evs e.

(* the guard under which an unconditional apply is harmless: the written operation is the stored
   one or supersedes it *)
Definition force_ok (e : engine) (o : op) : Prop :=
  e !! o_key o = Some o \/ supersedes (e !! o_key o) o = true.
Fixpoint forces_ok (e : engine) (evs : list event) : Prop :=
  match evs with
  | [] => True
  | ev :: r => match ev with EForce o => force_ok e o | EBatch _ => True end /\ forces_ok (ev_apply e ev) r
  end.

Lemma force_is_ingest e o : force_ok e o -> <[o_key o := o]> e = ingest_eng e [o].
Proof.
  intros [H|H]; rewrite ingest_eng_cons; unfold ingest_eng; simpl.
  - rewrite H, supersedes_irrefl. apply insert_id, H.
  - rewrite H. reflexivity.
Qed.

Lemma run_events_is_ingest evs : forall e, forces_ok e evs ->
  run_events e evs = ingest_eng e (concat (map ev_ops evs)).
Proof.
  induction evs as [|ev r IH]; intros e H; [reflexivity|].
  destruct H as [H1 H2]. simpl. unfold run_events in *. simpl. rewrite (IH _ H2).
  destruct ev as [b|o]; simpl.
  - apply ingest_eng_app.
  - rewrite (force_is_ingest _ _ H1). apply (ingest_eng_app [o]).
Qed.

Theorem events_same_set e evs1 evs2 :
  keyed e -> forces_ok e evs1 -> forces_ok e evs2 ->
  (forall o, In o (concat (map ev_ops evs1)) <-> In o (concat (map ev_ops evs2))) ->
  coherent (fun o => eng_op e o \/ In o (concat (map ev_ops evs1))) ->
  run_events e evs1 = run_events e evs2.
Proof.
  intros K F1 F2 Hset Hcoh. rewrite !run_events_is_ingest by assumption.
  apply ingest_same_set; assumption.
Qed.

(* an unconditional apply that meets the guard does not move the entry down *)
Lemma force_monotone e o k d :
  force_ok e o -> e !! k = Some d ->
  exists d', <[o_key o := o]> e !! k = Some d' /\ (d' = d \/ op_lt d d').
Proof.
  intros F H. rewrite (force_is_ingest _ _ F). apply ingest_monotone, H.
Qed.

(* ---------- accepted / rejected ---------- *)
Lemma accepted_rejected_split b : forall e o, In o b <-> In o (accepted e b) \/ In o (rejected e b).
Proof.
  induction b as [|a r IH]; intros e o.
  - unfold accepted, rejected. simpl. tauto.
  - unfold accepted, rejected in *. rewrite ingest_cons.
    destruct (supersedes (e !! o_key a) a); simpl.
    + rewrite (IH (<[o_key a:=a]> e) o). unfold accepted, rejected. tauto.
    + rewrite (IH e o). unfold accepted, rejected. tauto.
Qed.

(* a rejected operation lost to what was stored: the node holds at least that *)
Lemma rejected_above b : forall e o, In o (rejected e b) -> above (ingest_eng e b !! o_key o) o.
Proof.
  intros e o H. apply ingest_above. apply (accepted_rejected_split b e o). right. exact H.
Qed.
