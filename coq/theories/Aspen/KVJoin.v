(* Aspen/KVJoin.v — proofs: supersedes is the strict lexicographic order; ingest is an LWW join. *)
From stdpp Require Import gmap.
From Coq Require Import NArith ZArith Lia.
From Synnax Require Import Aspen.KV.
Local Open Scope N_scope.

Lemma supersedes_irrefl o : supersedes (Some o) o = false.
Proof. unfold supersedes. rewrite Z.eqb_refl. apply N.ltb_irrefl. Qed.
