(* Aspen/PledgeWitness.v — concrete event sequences, copied from what the REAL pledge
   code did under the harness (hooks/aspen/verifh/c11), evaluated by the model. *)
From stdpp Require Import gmap.
From Coq Require Import NArith.
From Synnax Require Import Aspen.Pledge Aspen.PledgeQuorum Aspen.PledgeProofs.
Local Open Scope N_scope.

Definition full7 : nview := [(1, 0, 1); (2, 0, 2); (3, 0, 3); (4, 0, 4); (5, 0, 5); (6, 0, 6); (7, 0, 7)].
(* member 1 knows all seven members and suspects 2 and 3 *)
Definition w_view1 : nview := [(1, 0, 1); (2, 1, 2); (3, 1, 3); (4, 0, 4); (5, 0, 5); (6, 0, 6); (7, 0, 7)].
(* member 3 is stale: it only knows 1, 2, 3 (and suspects 1) *)
Definition w_view3 : nview := [(1, 1, 1); (2, 0, 2); (3, 0, 3)].

(* F6: seven members, cluster key 7, MaxProposals 10; member 3 has a stale view *)
Definition w_ms : list member_cfg :=
  [(1, 7, 10%nat, w_view1); (2, 7, 10%nat, full7); (3, 7, 10%nat, w_view3); (4, 7, 10%nat, full7);
   (5, 7, 10%nat, full7); (6, 7, 10%nat, full7); (7, 7, 10%nat, full7)].

(* pledge 101 joins through member 1, then pledge 102 joins through member 3; no
   message is lost, nothing is concurrent *)
Definition w_tr : list ev :=
  [EPStart 101 1 1;
   ESnap 1 w_view1;
   EReq 1 6 8 0 VApprove; EReq 1 7 8 0 VApprove; EReq 1 4 8 0 VApprove; EReq 1 5 8 0 VApprove;
   EREnd 1 8 7 0 false;
   EPEnd 101 true 8 7;
   EPStart 102 3 2;
   ESnap 2 w_view3; EReq 2 3 4 0 VApprove; EReq 2 2 4 0 VReject;
   ESnap 2 w_view3; EReq 2 3 5 0 VApprove; EReq 2 2 5 0 VReject;
   ESnap 2 w_view3; EReq 2 3 6 0 VApprove; EReq 2 2 6 0 VReject;
   ESnap 2 w_view3; EReq 2 2 7 0 VReject; EReq 2 3 7 0 VApprove;
   ESnap 2 w_view3; EReq 2 3 8 0 VApprove; EReq 2 2 8 0 VApprove;
   EREnd 2 8 7 0 false;
   EPEnd 102 true 8 7].

Definition w_pmax : N -> nat := fun _ => 10%nat.

Lemma w_check :
  match exec w_pmax (init w_ms) w_tr with
  | Some s => bool_decide (result_of s 101 = Some (8, 7)) && bool_decide (result_of s 102 = Some (8, 7))
  | None => false
  end = true.
Proof. vm_compute. reflexivity. Qed.

Lemma w_not_compat : compatb w_view1 w_view3 = false.
Proof. vm_compute. reflexivity. Qed.

(* two pledges, both handed key 8 *)
Lemma unique_refuted :
  exists ms tr s p1 p2 k c,
    exec w_pmax (init ms) tr = Some s /\ p1 <> p2 /\
    result_of s p1 = Some (k, c) /\ result_of s p2 = Some (k, c).
Proof.
  exists w_ms, w_tr. pose proof w_check as H.
  destruct (exec w_pmax (init w_ms) w_tr) as [s|]; [|discriminate].
  repeat (apply andb_true_iff in H; destruct H as [H ?]).
  exists s, 101, 102, 8, 7.
  split; [done|]. split; [done|].
  split; eapply bool_decide_eq_true; eauto.
Qed.

(* ---- non-vacuity: what the real code did with two concurrent pledges, a stale
   coordinator (member 1 does not know member 4), one unreachable juror and one lost
   response ---- *)
Definition full4 : nview := [(1, 0, 1); (2, 0, 2); (3, 0, 3); (4, 0, 4)].
Definition stale3 : nview := [(1, 0, 1); (2, 0, 2); (3, 0, 3)].
Definition e_ms : list member_cfg :=
  [(1, 7, 4%nat, stale3); (2, 7, 4%nat, full4); (3, 7, 4%nat, full4); (4, 7, 4%nat, full4)].
Definition e_tr : list ev :=
  [EPStart 102 2 1;
   ESnap 1 full4;
   EPStart 101 1 2;
   EReq 1 4 5 0 VApprove; EReq 1 2 5 0 VApprove; EReq 1 1 5 0 VApprove;
   EREnd 1 5 7 0 false;
   EPEnd 102 true 5 7;
   ESnap 2 stale3; EReq 2 1 4 0 VApprove; EReq 2 2 4 1 VNone;
   ESnap 2 stale3; EReq 2 3 5 0 VApprove; EReq 2 2 5 0 VReject;
   ESnap 2 stale3; EReq 2 1 6 0 VApprove; EReq 2 3 6 0 VApprove;
   EREnd 2 6 7 0 false;
   EPEnd 101 true 6 7].

Lemma e_check :
  match exec w_pmax (init e_ms) e_tr with
  | Some s => bool_decide (result_of s 101 = Some (6, 7)) && bool_decide (result_of s 102 = Some (5, 7))
              && bool_decide (map (fun x => r_snap x.2) (map_to_list (s_runs s)) = [full4; stale3])
  | None => false
  end = true.
Proof. vm_compute. reflexivity. Qed.

Lemma e_compat : compatb full4 stale3 = true.
Proof. vm_compute. reflexivity. Qed.
