(* Aspen/Membership.v — executable model of aspen cluster-membership gossip.
   Copies: x/go/version/heartbeat.go (OlderThan / YoungerThan / Increment / Restart),
           aspen/internal/cluster/store/store.go (Merge, SetNode),
           aspen/internal/cluster/gossip/gossip.go (sync, ack, ack2, GossipOnceWith,
           incrementHostHeartbeat).
   No proofs in this file: it must keep evaluating when a proof breaks. *)
From stdpp Require Import gmap.
From Coq Require Import NArith.
Local Open Scope N_scope.

Record hb := Hb { gen : N; ver : N }.

Global Instance hb_eq_dec : EqDecision hb.
Proof. solve_decision. Defined.

Definition hb_zero : hb := Hb 0 0.

(* Heartbeat.OlderThan: h is *further advanced* than other. *)
Definition older (h other : hb) : bool :=
  (gen other <? gen h) || ((gen h =? gen other) && (ver other <? ver h)).
(* Heartbeat.YoungerThan *)
Definition younger (h other : hb) : bool :=
  (gen h <? gen other) || ((gen h =? gen other) && (ver h <? ver other)).

Definition hb_incr (h : hb) : hb := Hb (gen h) (ver h + 1).
Definition hb_restart (h : hb) : hb := Hb (gen h + 1) 0.

Record member := Member { m_hb : hb; m_state : N; m_addr : N }.

Global Instance member_eq_dec : EqDecision member.
Proof. solve_decision. Defined.

Notation view := (gmap N member).
Notation digests := (gmap N hb).

Definition view_digests (v : view) : digests := m_hb <$> v.

(* store.Merge: take the other's record when we do not have the key or when the
   other's heartbeat is OlderThan (further advanced than) ours. *)
Definition pick (ours theirs : member) : member :=
  if older (m_hb theirs) (m_hb ours) then theirs else ours.
Definition merge (v other : view) : view :=
  union_with (fun ours theirs => Some (pick ours theirs)) v other.

Record msg := Msg { msg_nodes : view; msg_digs : digests }.

(* gossip.sync, executed by the peer on the initiator's digests. *)
Definition sync_keep (d : digests) (kn : N * member) : bool :=
  match d !! kn.1 with
  | Some dh => older (m_hb kn.2) dh
  | None => true
  end.
Definition sync_nodes (snap : view) (d : digests) : view :=
  filter (fun kn => sync_keep d kn = true) snap.

Definition sync_digs (snap : view) (d : digests) : digests :=
  map_imap (fun k dh =>
     match snap !! k with
     | None => Some hb_zero        (* Go: heartbeat of the zero-valued node.Node *)
     | Some n => if younger (m_hb n) dh then Some (m_hb n) else None
     end) d.

Definition sync (snap : view) (d : digests) : msg :=
  Msg (sync_nodes snap d) (sync_digs snap d).

(* gossip.ack, executed by the initiator: merge the peer's nodes into the store and
   build ack2 from the snapshot taken BEFORE the merge.
   [strict] selects the comparison used to decide whether to return a record:
     true  = n.Heartbeat.OlderThan(dig.Heartbeat)         (pinned upstream code)
     false = !n.Heartbeat.YoungerThan(dig.Heartbeat)      (tree after fix F7) *)
Definition ack2_keep (strict : bool) (d : digests) (kn : N * member) : bool :=
  match d !! kn.1 with
  | Some dh => if strict then older (m_hb kn.2) dh else negb (younger (m_hb kn.2) dh)
  | None => false
  end.
Definition ack2_nodes (strict : bool) (snap : view) (d : digests) : view :=
  filter (fun kn => ack2_keep strict d kn = true) snap.

Definition ack (strict : bool) (snap : view) (a : msg) : view * view :=
  (merge snap (msg_nodes a), ack2_nodes strict snap (msg_digs a)).

(* One GossipOnceWith from initiator view [vi] to peer view [vj]:
   sync at peer, ack at initiator, ack2 at peer (only if non-empty: same result). *)
Definition exchange (strict : bool) (vi vj : view) : view * view :=
  let a := sync vj (view_digests vi) in
  let '(vi', ack2) := ack strict vi a in
  (vi', merge vj ack2).

(* ---- cluster of stores ---- *)
Notation cluster := (gmap N (gmap N member)).

Inductive op :=
| Exchange (i j : N)       (* Gossip.GossipOnceWith from i to j's address *)
| Tick (i : N)             (* incrementHostHeartbeat *)
| SetState (i s : N)       (* host changes its own state and ticks *)
| Restart (i : N)          (* cluster.Open on an existing store: Heartbeat.Restart *)
| ExchangeN (i j : N) (inner : list (N * N)).
    (* an exchange from i to j DURING which other operations complete: j has computed its ack from i's digests, then
       [inner] runs — (k, l) with k <> l is a whole exchange from k to l, (k, k) is a heartbeat tick of k — and only
       then does i process the ack (merge into its CURRENT store, ack2 from its CURRENT snapshot) and j merge the
       ack2 into its CURRENT store.  GossipOnceWith takes no lock across the round trip. *)

Global Instance op_eq_dec : EqDecision op.
Proof. solve_decision. Defined.

Definition upd_host (c : cluster) (i : N) (f : member -> member) : cluster :=
  match c !! i with
  | Some v => match v !! i with
              | Some m => <[i := <[i := f m]> v]> c
              | None => c
              end
  | None => c
  end.

Definition bstep (strict : bool) (c : cluster) (o : op) : cluster :=
  match o with
  | Exchange i j =>
      if decide (i = j) then c else
      match c !! i, c !! j with
      | Some vi, Some vj =>
          let '(vi', vj') := exchange strict vi vj in <[j := vj']> (<[i := vi']> c)
      | _, _ => c
      end
  | Tick i => upd_host c i (fun m => Member (hb_incr (m_hb m)) (m_state m) (m_addr m))
  | SetState i s => upd_host c i (fun m => Member (hb_incr (m_hb m)) s (m_addr m))
  | Restart i => upd_host c i (fun m => Member (hb_restart (m_hb m)) (m_state m) (m_addr m))
  | ExchangeN _ _ _ => c
  end.

Definition inner_op (kl : N * N) : op := if decide (kl.1 = kl.2) then Tick kl.1 else Exchange kl.1 kl.2.

Definition step (strict : bool) (c : cluster) (o : op) : cluster :=
  match o with
  | ExchangeN i j inner =>
      if decide (i = j) then c else
      match c !! i, c !! j with
      | Some vi0, Some vj0 =>
          let a := sync vj0 (view_digests vi0) in
          let c1 := fold_left (fun c kl => bstep strict c (inner_op kl)) inner c in
          match c1 !! i with
          | Some vi1 =>
              let '(vi', ack2) := ack strict vi1 a in
              let c2 := <[i := vi']> c1 in
              match c2 !! j with
              | Some vj1 => <[j := merge vj1 ack2]> c2
              | None => c2
              end
          | None => c1
          end
      | _, _ => c
      end
  | _ => bstep strict c o
  end.

Definition run (strict : bool) (c : cluster) (ops : list op) : cluster :=
  fold_left (step strict) ops c.

(* pointwise join of two views: the record with the further advanced heartbeat,
   ties keep the left one. *)
Definition join (v w : view) : view := merge v w.

(* canonical dump used by the correspondence: sorted association lists *)
Definition dump_view (v : view) : list (N * (N * N * N * N)) :=
  (fun kn => (kn.1, (gen (m_hb kn.2), ver (m_hb kn.2), m_state kn.2, m_addr kn.2)))
    <$> map_to_list v.
Definition mk_view (l : list (N * (N * N * N * N))) : view :=
  list_to_map ((fun kx => match kx with (k, (g, v, s, a)) => (k, Member (Hb g v) s a) end) <$> l).
Definition mk_cluster (l : list (N * list (N * (N * N * N * N)))) : cluster :=
  list_to_map ((fun kv => (kv.1, mk_view kv.2)) <$> l).
