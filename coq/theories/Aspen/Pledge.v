(* Aspen/Pledge.v — executable model of the aspen pledge protocol as a labelled
   transition system whose labels are the events observable at the pledge transport
   and at the Candidates() boundary.
   Copies: aspen/internal/cluster/pledge/pledge.go
             responsible.propose / refreshCandidates / idToPropose / buildQuorum /
             consultQuorum, juror.verdict, highestNodeID, Pledge (first successful
             response wins, then the pledge arbitrates with an empty memory),
           aspen/internal/node/group.go  WhereActive / WhereState.
   Quirks kept as they are:
     * juror.verdict appends the key to its approvals on the "id out of range"
       rejection as well as on approval, and does not append on the "already approved"
       rejection;
     * the responsible refreshes its candidate snapshot on every proposal round but the
       proposed key is only incremented, never recomputed from the refreshed snapshot;
     * the key is computed before the quorum is built, so an unreachable quorum still
       returns the key it would have proposed;
     * the quorum is ANY subset of the healthy active candidates of size
       |active|/2+1 (the code picks it at random): the subset is part of the label.
   No proofs in this file: it must keep evaluating when a proof breaks. *)
From stdpp Require Import gmap.
From Coq Require Import NArith.
Local Open Scope N_scope.

(* A membership view as returned by Config.Candidates: node key, node state, address of
   the node (addresses identify physical nodes / jurors). *)
Notation ventry := (N * N * N)%type.
Notation nview := (list ventry).
Definition vkey (e : ventry) : N := e.1.1.
Definition vstate (e : ventry) : N := e.1.2.
Definition vaddr (e : ventry) : N := e.2.

Definition st_healthy : N := 0.   (* node.StateHealthy *)
Definition st_left : N := 3.      (* node.StateLeft *)

(* highestNodeID: lo.Max of the keys, 0 for the empty group *)
Definition max_key (v : nview) : N := foldr N.max 0 (map vkey v).
(* Group.WhereActive *)
Definition active (v : nview) : nview := filter (fun e => vstate e <> st_left) v.
(* presentCandidates.WhereState(StateHealthy) *)
Definition healthy (v : nview) : nview := filter (fun e => vstate e = st_healthy) (active v).
(* size := len(presentCandidates)/2 + 1 *)
Definition qsize (v : nview) : nat := (length (active v) / 2 + 1)%nat.

Inductive verdict := VApprove | VReject | VCtx | VNone.
Global Instance verdict_eq_dec : EqDecision verdict.
Proof. solve_decision. Defined.

(* juror.verdict on a live context: result and the new approvals *)
Definition juror_verdict (appr : list N) (v : nview) (key : N) : verdict * list N :=
  if bool_decide (key ∈ appr) then (VReject, appr)
  else if key <=? max_key v then (VReject, appr ++ [key])
  else (VApprove, appr ++ [key]).

(* an arbitrating node: juror memory + the Config it coordinates with *)
Record jst := Jst {
  j_appr : list N;                  (* juror.approvals *)
  j_granted : list (N * N * N);     (* ghost: (run, key, highest key known at the vote) for every approval returned *)
  j_ck : N;                         (* Config.ClusterKey *)
  j_max : nat                       (* Config.MaxProposals *)
}.

Inductive phase :=
  | PhIdle                 (* between rounds: next is refreshCandidates, or giving up *)
  | PhConsult              (* consultQuorum in flight *)
  | PhEnd (res : N)        (* propose is about to return: 0 ok | 1 failed | 2 quorum unreachable *)
  | PhDone (res : N) (lost : bool).
Global Instance phase_eq_dec : EqDecision phase.
Proof. solve_decision. Defined.

(* one run of responsible.propose *)
Record run := Run {
  r_pledge : N;                (* address of the pledging node *)
  r_member : N;                (* address of the coordinating member *)
  r_prop : N;                  (* _proposedKey, 0 = nothing proposed yet *)
  r_base : N;                  (* ghost: highest key of the first snapshot *)
  r_rounds : nat;              (* proposal rounds started *)
  r_snap : nview;              (* candidateSnapshot of the current round *)
  r_asked : list (N * bool);   (* jurors consulted this round, and whether Send returned nil *)
  r_phase : phase
}.

Record pst := Pst {
  p_result : option (N * N);   (* first successful response (key, cluster key) that reached the pledge *)
  p_done : bool                (* pledge.Pledge has returned *)
}.

Record state := St {
  s_views : gmap N nview;      (* what Candidates() of each node currently returns *)
  s_jur : gmap N jst;          (* arbitrating nodes *)
  s_runs : gmap N run;
  s_pl : gmap N pst;
  s_late : list (N * N * N)    (* juror requests still in the network: (run, juror, key) *)
}.

(* How a juror request fared (decided by the network, observed by the harness):
   0 delivered, verdict returned to the responsible
   1 not delivered (unreachable, lost, timed out); the responsible sees an error
   2 delivered and processed, the response is lost; the responsible sees an error
   3 delivered with a cancelled context; the juror returns the context error
   4 delayed: the responsible sees an error now, the juror may process it later *)
Inductive ev :=
  | EGossip (a : N) (v : nview)
  | EPStart (p a r : N)                          (* pledge p reaches member a: run r starts *)
  | EPFail (p a : N)                             (* pledge request to a not delivered *)
  | ESnap (r : N) (v : nview)                    (* refreshCandidates of run r returned v *)
  | EReq (r j key how : N) (vd : verdict)
  | ELate (r j key : N) (vd : verdict)
  | EProbe (j key : N) (vd : verdict)            (* a proposal from outside any run *)
  | EREnd (r key ck err : N) (lost : bool)       (* propose returned (key, ck, err class) *)
  | EPEnd (p : N) (ok : bool) (key ck : N).      (* pledge.Pledge returned *)

Definition view_of (s : state) (a : N) : nview := default [] (s_views s !! a).

Definition set_jur (s : state) (j : N) (x : jst) : state :=
  St (s_views s) (<[j := x]> (s_jur s)) (s_runs s) (s_pl s) (s_late s).
Definition set_run (s : state) (r : N) (x : run) : state :=
  St (s_views s) (s_jur s) (<[r := x]> (s_runs s)) (s_pl s) (s_late s).
Definition set_pl (s : state) (p : N) (x : pst) : state :=
  St (s_views s) (s_jur s) (s_runs s) (<[p := x]> (s_pl s)) (s_late s).
Definition set_late (s : state) (l : list (N * N * N)) : state :=
  St (s_views s) (s_jur s) (s_runs s) (s_pl s) l.

Definition pl_of (s : state) (p : N) : pst := default (Pst None false) (s_pl s !! p).

(* the juror at address j processes a proposal for [key] made by run r *)
Definition juror_process (s : state) (r j key : N) : option (verdict * state) :=
  match s_jur s !! j with
  | None => None
  | Some js =>
      let '(vd, appr') := juror_verdict (j_appr js) (view_of s j) key in
      let granted' := if bool_decide (vd = VApprove)
                      then j_granted js ++ [(r, key, max_key (view_of s j))]
                      else j_granted js in
      Some (vd, set_jur s j (Jst appr' granted' (j_ck js) (j_max js)))
  end.

Fixpoint remove_first (x : N * N * N) (l : list (N * N * N)) : option (list (N * N * N)) :=
  match l with
  | [] => None
  | y :: l' => if bool_decide (x = y) then Some l'
               else match remove_first x l' with Some l'' => Some (y :: l'') | None => None end
  end.

Definition all_ok (asked : list (N * bool)) : bool := forallb snd asked.

(* bookkeeping of one answered juror request *)
Definition record_answer (s : state) (r : N) (rn : run) (j : N) (ok : bool) : state :=
  let asked := r_asked rn ++ [(j, ok)] in
  let ph := if bool_decide (length asked = qsize (r_snap rn))
            then (if all_ok asked then PhEnd 0 else PhIdle)
            else PhConsult in
  set_run s r (Run (r_pledge rn) (r_member rn) (r_prop rn) (r_base rn) (r_rounds rn) (r_snap rn) asked ph).

Definition err_matches (res err : N) : bool :=
  if bool_decide (res = 0) then bool_decide (err = 0)
  else if bool_decide (res = 2) then bool_decide (err = 2)
  else bool_decide (err = 1) || bool_decide (err = 3) || bool_decide (err = 4).

(* [pmax p] is Config.MaxProposals of pledging node p (used once it arbitrates). *)
Definition step (pmax : N -> nat) (s : state) (e : ev) : option state :=
  match e with
  | EGossip a v =>
      Some (St (<[a := v]> (s_views s)) (s_jur s) (s_runs s) (s_pl s) (s_late s))
  | EPStart p a r =>
      let ps := pl_of s p in
      match s_runs s !! r, s_jur s !! a with
      | None, Some _ =>
          if negb (p_done ps) && bool_decide (p_result ps = None)
          then Some (set_run s r (Run p a 0 0 0 [] [] PhIdle))
          else None
      | _, _ => None
      end
  | EPFail p a =>
      let ps := pl_of s p in
      if negb (p_done ps) && bool_decide (p_result ps = None) then Some s else None
  | ESnap r v =>
      match s_runs s !! r with
      | Some rn =>
          match s_jur s !! r_member rn with
          | Some js =>
              if bool_decide (r_phase rn = PhIdle) && bool_decide (r_rounds rn < j_max js)%nat
                 && bool_decide (v = view_of s (r_member rn))
              then
                let first := bool_decide (r_prop rn = 0) in
                let prop := if first then max_key v + 1 else r_prop rn + 1 in
                let base := if first then max_key v else r_base rn in
                let ph := if bool_decide (length (healthy v) < qsize v)%nat then PhEnd 2 else PhConsult in
                Some (set_run s r (Run (r_pledge rn) (r_member rn) prop base (S (r_rounds rn)) v [] ph))
              else None
          | None => None
          end
      | None => None
      end
  | EReq r j key how vd =>
      match s_runs s !! r with
      | Some rn =>
          if bool_decide (r_phase rn = PhConsult) && bool_decide (key = r_prop rn)
             && bool_decide (j ∈ map vaddr (healthy (r_snap rn)))
             && bool_decide (j ∉ map fst (r_asked rn))
          then
            if bool_decide (how = 0) || bool_decide (how = 2) then
              match juror_process s r j key with
              | Some (vd', s') =>
                  if bool_decide (vd = vd')
                  then Some (record_answer s' r rn j (bool_decide (how = 0) && bool_decide (vd = VApprove)))
                  else None
              | None => None
              end
            else if bool_decide (how = 1) then Some (record_answer s r rn j false)
            else if bool_decide (how = 3) then
              match s_jur s !! j with
              | Some _ => if bool_decide (vd = VCtx) then Some (record_answer s r rn j false) else None
              | None => None
              end
            else if bool_decide (how = 4)
            then Some (record_answer (set_late s (s_late s ++ [(r, j, key)])) r rn j false)
            else None
          else None
      | None => None
      end
  | ELate r j key vd =>
      match remove_first (r, j, key) (s_late s) with
      | Some l' =>
          let s1 := set_late s l' in
          match juror_process s1 r j key with
          | Some (vd', s') => if bool_decide (vd = vd') then Some s' else None
          | None => if bool_decide (vd = VNone) then Some s1 else None
          end
      | None => None
      end
  | EProbe j key vd =>
      match juror_process s 0 j key with
      | Some (vd', s') => if bool_decide (vd = vd') then Some s' else None
      | None => if bool_decide (vd = VNone) then Some s else None
      end
  | EREnd r key ck err lost =>
      match s_runs s !! r with
      | Some rn =>
          match s_jur s !! r_member rn with
          | Some js =>
              let res := match r_phase rn with
                         | PhEnd x => Some x
                         | PhIdle => if bool_decide (r_rounds rn = j_max js) then Some 1 else None
                         | _ => None
                         end in
              match res with
              | Some x =>
                  if bool_decide (key = r_prop rn) && bool_decide (ck = j_ck js) && err_matches x err
                  then
                    let s1 := set_run s r (Run (r_pledge rn) (r_member rn) (r_prop rn) (r_base rn)
                                                (r_rounds rn) (r_snap rn) (r_asked rn) (PhDone x lost)) in
                    let ps := pl_of s (r_pledge rn) in
                    if bool_decide (x = 0) && negb lost && bool_decide (p_result ps = None)
                    then Some (set_pl s1 (r_pledge rn) (Pst (Some (key, ck)) (p_done ps)))
                    else Some s1
                  else None
              | None => None
              end
          | None => None
          end
      | None => None
      end
  | EPEnd p ok key ck =>
      let ps := pl_of s p in
      if p_done ps then None else
      match p_result ps with
      | Some (k, c) =>
          if ok && bool_decide (key = k) && bool_decide (ck = c)
          then match s_jur s !! p with
               | None => Some (set_jur (set_pl s p (Pst (p_result ps) true)) p (Jst [] [] c (pmax p)))
               | Some _ => None
               end
          else None
      | None => if negb ok then Some (set_pl s p (Pst None true)) else None
      end
  end.

Fixpoint exec (pmax : N -> nat) (s : state) (tr : list ev) : option state :=
  match tr with
  | [] => Some s
  | e :: tr' => match step pmax s e with Some s' => exec pmax s' tr' | None => None end
  end.

(* index of the first event the model does not accept, and the state before it *)
Fixpoint exec_idx (pmax : N -> nat) (s : state) (tr : list ev) (i : nat) : option (nat * state) :=
  match tr with
  | [] => None
  | e :: tr' => match step pmax s e with Some s' => exec_idx pmax s' tr' (S i) | None => Some (i, s) end
  end.

(* initial members: (address, cluster key, MaxProposals, initial view), empty juror memory *)
Notation member_cfg := (N * N * nat * nview)%type.
Definition init (ms : list member_cfg) : state :=
  St (list_to_map (map (fun m => (m.1.1.1, m.2)) ms))
     (list_to_map (map (fun m => (m.1.1.1, Jst [] [] m.1.1.2 m.1.2)) ms))
     ∅ ∅ [].

(* ---- what the properties talk about ---- *)
(* run r has decided to admit the pledge with key k *)
Definition admitted_run (rn : run) : bool :=
  match r_phase rn with PhEnd 0 | PhDone 0 _ => true | _ => false end.
Definition quorum_of (rn : run) : list N := map fst (r_asked rn).
Definition admitted_keys (s : state) : list (N * N) :=
  map (fun x => (x.1, r_prop x.2)) (filter (fun x => admitted_run x.2 = true) (map_to_list (s_runs s))).

(* what pledge.Pledge of node p has been handed so far: (node key, cluster key) *)
Definition result_of (s : state) (p : N) : option (N * N) := p_result (pl_of s p).

Definition lookup_pmax (pl : list (N * nat)) (p : N) : nat :=
  match list_find (fun x => x.1 = p) pl with Some (_, x) => x.2 | None => 10%nat end.
