(* Aspen/PledgeQuorum.v — quorum intersection: pure combinatorics on the candidate
   snapshots of two coordinators. *)
From stdpp Require Import gmap.
From Coq Require Import NArith Lia.
From Synnax Require Import Aspen.Pledge.

(* two duplicate-free lists inside a duplicate-free universe that is smaller than their
   lengths together share an element *)
Lemma lists_intersect (Q1 Q2 U : list N) :
  NoDup Q1 -> NoDup Q2 -> NoDup U -> Q1 ⊆ U -> Q2 ⊆ U ->
  length U < length Q1 + length Q2 ->
  exists x, x ∈ Q1 /\ x ∈ Q2.
Proof.
  intros N1 N2 NU S1 S2 Hlen.
  destruct (decide (Exists (fun x => x ∈ Q2) Q1)) as [He|Hne].
  - apply Exists_exists in He. destruct He as (x & H1 & H2). eauto.
  - exfalso.
    assert (Hdisj : forall x, x ∈ Q1 -> x ∈ Q2 -> False).
    { intros x H1 H2. apply Hne. apply Exists_exists. eauto. }
    assert (Hnd : NoDup (Q1 ++ Q2)).
    { apply NoDup_app. split; [done|]. split; [|done]. intros x H1 H2. eauto. }
    assert (Hsub : Q1 ++ Q2 ⊆ U).
    { intros x Hx. apply elem_of_app in Hx. destruct Hx; auto. }
    pose proof (submseteq_length _ _ (NoDup_submseteq _ _ Hnd (fun x Hx => Hsub x Hx))) as Hl.
    rewrite app_length in Hl. lia.
Qed.

(* The condition under which any two quorums built from the snapshots v1 and v2
   intersect: all active addresses of both lie in a duplicate-free universe U that is
   smaller than the two quorum sizes together. *)
Definition compat (v1 v2 : nview) : Prop :=
  exists U, NoDup U /\ map vaddr (active v1) ⊆ U /\ map vaddr (active v2) ⊆ U /\
            length U < qsize v1 + qsize v2.

(* executable sufficient check (the universe is the union of the two address lists) *)
Definition compatb (v1 v2 : nview) : bool :=
  bool_decide (length (remove_dups (map vaddr (active v1) ++ map vaddr (active v2))) < qsize v1 + qsize v2).

Lemma compatb_compat v1 v2 : compatb v1 v2 = true -> compat v1 v2.
Proof.
  unfold compatb. intros H. apply bool_decide_eq_true in H.
  exists (remove_dups (map vaddr (active v1) ++ map vaddr (active v2))).
  split; [apply NoDup_remove_dups|].
  split; [|split; [|done]]; intros x Hx; apply elem_of_remove_dups, elem_of_app; auto.
Qed.

Lemma healthy_sub_active v : map vaddr (healthy v) ⊆ map vaddr (active v).
Proof.
  intros x Hx. apply elem_of_list_fmap in Hx. destruct Hx as (e & -> & He).
  apply elem_of_list_fmap. exists e. split; [done|].
  unfold healthy in He. apply elem_of_list_filter in He. tauto.
Qed.

Lemma quorums_intersect v1 v2 (Q1 Q2 : list N) :
  compat v1 v2 ->
  NoDup Q1 -> NoDup Q2 ->
  Q1 ⊆ map vaddr (healthy v1) -> Q2 ⊆ map vaddr (healthy v2) ->
  length Q1 = qsize v1 -> length Q2 = qsize v2 ->
  exists j, j ∈ Q1 /\ j ∈ Q2.
Proof.
  intros (U & NU & S1 & S2 & Hl) N1 N2 H1 H2 L1 L2.
  apply (lists_intersect Q1 Q2 U); auto.
  - intros x Hx. apply S1, healthy_sub_active, H1, Hx.
  - intros x Hx. apply S2, healthy_sub_active, H2, Hx.
  - lia.
Qed.

(* equal snapshots: two majorities of the same member set always intersect *)
Lemma compat_same_view v :
  NoDup (map vaddr (active v)) -> compat v v.
Proof.
  intros Hnd. exists (map vaddr (active v)). repeat split; auto.
  unfold qsize. rewrite map_length.
  pose proof (Nat.div_mod (length (active v)) 2 ltac:(lia)) as Hd.
  pose proof (Nat.mod_upper_bound (length (active v)) 2 ltac:(lia)). lia.
Qed.

(* bounded staleness: one coordinator is at most one member behind the other *)
Lemma compat_one_behind v1 v2 :
  NoDup (map vaddr (active v2)) ->
  map vaddr (active v1) ⊆ map vaddr (active v2) ->
  length (active v2) <= S (length (active v1)) ->
  compat v1 v2.
Proof.
  intros Hnd Hsub Hlen. exists (map vaddr (active v2)). repeat split; auto.
  unfold qsize. rewrite map_length.
  pose proof (Nat.div_mod (length (active v1)) 2 ltac:(lia)).
  pose proof (Nat.mod_upper_bound (length (active v1)) 2 ltac:(lia)).
  pose proof (Nat.div_mod (length (active v2)) 2 ltac:(lia)).
  pose proof (Nat.mod_upper_bound (length (active v2)) 2 ltac:(lia)). lia.
Qed.

(* the general arithmetic form: it is enough that the union of the two active sets is
   smaller than the two majorities together *)
Lemma compat_arith v1 v2 U :
  NoDup U -> map vaddr (active v1) ⊆ U -> map vaddr (active v2) ⊆ U ->
  length U < length (active v1) / 2 + length (active v2) / 2 + 2 ->
  compat v1 v2.
Proof. intros. exists U. unfold qsize. repeat split; auto. lia. Qed.

Lemma compat_sym v1 v2 : compat v1 v2 -> compat v2 v1.
Proof. intros (U & ? & ? & ? & ?). exists U. repeat split; auto. lia. Qed.
