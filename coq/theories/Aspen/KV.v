(* Aspen/KV.v — executable model of the aspen key-value replication layer.
   Copies (aspen/internal/kv):
     filter_persist.go  supersedes, filterPersist._switch          -> supersedes, ingest
     version.go         versionAssigner.assign                     -> local_apply (ctr+1)
     lease.go           leaseAllocator.allocate, leaseProxy/Sender -> alloc, do_write
     persist.go/tx.go   TxRequest.commitTo (UNCONDITIONAL apply)   -> local_apply
     store.go           kvStore.apply, storeState.toBatchRequest   -> store_put, infected
     gossip.go          operationClient.send / operationServer.handle / feedbackSender /
                        gossipRecoveryTransform.transform          -> round, ingest_at, fb_step
     recovery.go        loadHighWater, recoverPeer, runSingleNodeRecovery (UNCONDITIONAL apply)
                                                                   -> high_water, rec_ops, rec_end
     relay.go/kv.go     persistSplitter -> store sink + observable -> n_log, notifications
   No proofs in this file: it must keep evaluating when a proof breaks. *)
From stdpp Require Import gmap sorting.
From Coq Require Import NArith ZArith.
Local Open Scope N_scope.

(* An operation: key, version (Go int64), leaseholder, variant (delete?), value.
   The value of a delete is normalised to 0. *)
Record op := Op { o_key : N; o_ver : Z; o_lh : N; o_del : bool; o_val : N }.

Global Instance op_eq_dec : EqDecision op.
Proof. solve_decision. Defined.

(* The engine keeps, per key, the value and the digest of the operation applied last; both are
   always written together, so the entry is that operation. *)
Notation engine := (gmap N op).

(* filter_persist.go supersedes: no digest => accept; equal versions => higher leaseholder;
   otherwise strictly newer version. *)
Definition supersedes (cur : option op) (o : op) : bool :=
  match cur with
  | None => true
  | Some d => if (o_ver o =? o_ver d)%Z then (o_lh d <? o_lh o) else (o_ver d <? o_ver o)%Z
  end.

(* filterPersist._switch: one transaction per batch, reads see earlier writes of the batch.
   Returns (engine, accepted, rejected), both lists in batch order. *)
Fixpoint ingest (e : engine) (b : list op) : engine * list op * list op :=
  match b with
  | [] => (e, [], [])
  | o :: r =>
      if supersedes (e !! o_key o) o
      then let '(e', a, j) := ingest (<[o_key o := o]> e) r in (e', o :: a, j)
      else let '(e', a, j) := ingest e r in (e', a, o :: j)
  end.

(* gossip store: key -> (operation, recovered?) *)
Notation gstore := (gmap N (op * bool)).

(* kvStore.apply for one operation.
   [fx = false]: pinned upstream code — unconditional overwrite.
   [fx = true]:  tree after fix F5 — a recovered operation only replaces the entry it is the
                 feedback for (same version and leaseholder). *)
Definition store_put (fx : bool) (s : gstore) (x : op * bool) : gstore :=
  if fx && x.2 then
    match s !! o_key x.1 with
    | Some (c, _) =>
        if (o_ver c =? o_ver x.1)%Z && (o_lh c =? o_lh x.1) then <[o_key x.1 := x]> s else s
    | None => s
    end
  else <[o_key x.1 := x]> s.

Definition store_apply (fx : bool) (s : gstore) (l : list (op * bool)) : gstore :=
  fold_left (store_put fx) l s.

Definition key_le (a b : op) : Prop := o_key a <= o_key b.
Global Instance key_le_dec a b : Decision (key_le a b).
Proof. unfold key_le. apply _. Defined.

(* storeState.toBatchRequest: the infected operations (the harness sorts them by key) *)
Definition infected (s : gstore) : list op :=
  merge_sort key_le (omap (fun kx : N * (op * bool) => if kx.2.2 then None else Some kx.2.1) (map_to_list s)).

(* gossipRecoveryTransform.transform: repetitions per (key, version) *)
Notation reps_t := (gmap (N * Z) N).

Definition fb_step (T : N) (st : reps_t * list op) (d : op) : reps_t * list op :=
  let key := (o_key d, o_ver d) in
  let c := default 0 (st.1 !! key) in
  let st1 := if T <? c then (delete key st.1, st.2 ++ [d]) else st in
  (<[key := default 0 (st1.1 !! key) + 1]> st1.1, st1.2).

Definition fb_transform (T : N) (r : reps_t) (digs : list op) : reps_t * list op :=
  fold_left (fb_step T) digs (r, []).

(* a notification as the persist splitter forwards it: (TxRequest.Leaseholder, operations) *)
Notation note := (N * list op)%type.

Record node := Node {
  n_eng : engine;
  n_ctr : Z;                       (* persisted version counter *)
  n_store : gstore;                (* in-memory gossip store *)
  n_reps : reps_t;                 (* in-memory repetitions of the recovery transform *)
  n_rec : gmap N Z;                (* recoveries that have read their high-water mark: peer -> hw *)
  n_log : list note;               (* everything the persist splitter forwarded, oldest first *)
  n_subs : gmap N (bool * nat)     (* subscriber -> (IgnoreHostLeaseholder?, log length at subscription) *)
}.

Definition node0 : node := Node ∅ 0 ∅ ∅ ∅ [] ∅.

Record fbmsg := Fb { fb_dest : N; fb_from : N; fb_digs : list op; fb_done : bool }.

Record world := World {
  w_nodes : gmap N node;
  w_msgs : list (N * list op);     (* gossip payloads taken so far: (sender, operations) *)
  w_fbs : list fbmsg               (* feedback messages sent so far *)
}.

Definition set_node (w : world) (n : N) (nd : node) : world :=
  World (<[n := nd]> (w_nodes w)) (w_msgs w) (w_fbs w).

(* digests carried by a feedback message: operations without value *)
Definition strip (o : op) : op := Op (o_key o) (o_ver o) (o_lh o) (o_del o) 0.

(* A gossip batch reaches node j's ingress (operationServer.handle or the reply path of
   operationClient.send): filterPersist, accepted -> splitter (gossip store as infected, observers
   with TxRequest.Leaseholder = 0), rejected -> feedbackSender -> the batch's Sender. *)
Definition ingest_at (fx : bool) (w : world) (j sender : N) (ops : list op) : world :=
  match ops, w_nodes w !! j with
  | _ :: _, Some nd =>
      let '(e', acc, rej) := ingest (n_eng nd) ops in
      let nd' := Node e' (n_ctr nd)
                      (store_apply fx (n_store nd) (map (fun o => (o, false)) acc))
                      (n_reps nd) (n_rec nd)
                      (match acc with [] => n_log nd | _ => n_log nd ++ [(0, acc)] end)
                      (n_subs nd) in
      let fbs' := match rej, w_nodes w !! sender with
                  | _ :: _, Some _ => w_fbs w ++ [Fb sender j (map strip rej) false]
                  | _, _ => w_fbs w
                  end in
      World (<[j := nd']> (w_nodes w)) (w_msgs w) fbs'
  | _, _ => w
  end.

(* versionAssigner.assign + persist (commitTo): next counter value, applied without consulting
   the stored digest; then splitter -> gossip store + observers (Leaseholder = this node). *)
Definition local_op (nd : node) (m k : N) (del : bool) (v : N) : op :=
  Op k (n_ctr nd + 1) m del (if del then 0 else v).

Definition local_apply (fx : bool) (nd : node) (m k : N) (del : bool) (v : N) : node :=
  let o := local_op nd m k del v in
  Node (<[k := o]> (n_eng nd)) (o_ver o) (store_put fx (n_store nd) (o, false))
       (n_reps nd) (n_rec nd) (n_log nd ++ [(m, [o])]) (n_subs nd).

(* leaseAllocator.allocate: inl leaseholder | inr error code (1 = lease not transferable) *)
Definition alloc (nd : node) (host k lease : N) (del : bool) : N + N :=
  match n_eng nd !! k with
  | Some d =>
      if del then inl (o_lh d)
      else if lease =? 0 then inl (o_lh d)
      else if o_lh d =? lease then inl lease else inr 1
  | None => if del then inl host else if lease =? 0 then inl host else inl lease
  end.

Definition do_write (fx : bool) (w : world) (n k v lease : N) (del : bool) : world * N :=
  match w_nodes w !! n with
  | None => (w, 0)
  | Some nd =>
      match alloc nd n k lease del with
      | inr e => (w, e)
      | inl lh =>
          match w_nodes w !! lh with
          | None => (w, 2)                          (* leaseSender: Resolve fails *)
          | Some ndl => (set_node w lh (local_apply fx ndl lh k del v), 0)
          end
      end
  end.

(* recovery.go loadHighWater: max version over all digests, starting from 0 *)
Definition high_water (e : engine) : Z := map_fold (fun _ o acc => Z.max acc (o_ver o)) 0%Z e.

(* recoverPeer streams every digest that is not OlderThan the high-water mark;
   runSingleNodeRecovery applies each without consulting the stored digest. *)
Definition rec_ops (ep : engine) (hw : Z) : engine := filter (fun kx => (hw <=? o_ver kx.2)%Z = true) ep.
Definition rec_apply (e ep : engine) (hw : Z) : engine := rec_ops ep hw ∪ e.

Definition rec_begin (w : world) (n p : N) : world :=
  match w_nodes w !! n, w_nodes w !! p with
  | Some nd, Some _ =>
      if bool_decide (n = p) then w else
      match n_rec nd !! p with
      | Some _ => w
      | None => set_node w n (Node (n_eng nd) (n_ctr nd) (n_store nd) (n_reps nd)
                                   (<[p := high_water (n_eng nd)]> (n_rec nd)) (n_log nd) (n_subs nd))
      end
  | _, _ => w
  end.

Definition rec_end (w : world) (n p : N) : world :=
  match w_nodes w !! n, w_nodes w !! p with
  | Some nd, Some ndp =>
      match n_rec nd !! p with
      | None => w
      | Some hw => set_node w n (Node (rec_apply (n_eng nd) (n_eng ndp) hw) (n_ctr nd) (n_store nd)
                                      (n_reps nd) (delete p (n_rec nd)) (n_log nd) (n_subs nd))
      end
  | _, _ => w
  end.

(* feedbackReceiver -> gossipRecoveryTransform -> storeSink *)
Definition fb_deliver (fx : bool) (T : N) (w : world) (f : nat) : world :=
  match w_fbs w !! f with
  | Some (Fb dest from digs false) =>
      let fbs' := <[f := Fb dest from digs true]> (w_fbs w) in
      match w_nodes w !! dest with
      | None => World (w_nodes w) (w_msgs w) fbs'
      | Some nd =>
          let '(r', out) := fb_transform T (n_reps nd) digs in
          let nd' := Node (n_eng nd) (n_ctr nd)
                          (store_apply fx (n_store nd) (map (fun o => (o, true)) out))
                          r' (n_rec nd) (n_log nd) (n_subs nd) in
          World (<[dest := nd']> (w_nodes w)) (w_msgs w) fbs'
      end
  | _ => w
  end.

Definition payload (w : world) (n : N) : list op :=
  match w_nodes w !! n with Some nd => infected (n_store nd) | None => [] end.

(* operationClient.send: nothing is sent when the store holds no infected operation; the peer
   ingests the payload and answers with its own infected operations, read either before ([late =
   false]) or after ([late = true]) its pipeline processed the payload — the real handler reads
   them right after queueing the payload, so both happen. *)
Definition round (fx : bool) (w : world) (i j : N) (late : bool) : world :=
  match w_nodes w !! i, w_nodes w !! j with
  | Some _, Some _ =>
      if bool_decide (i = j) then w else
      match payload w i with
      | [] => w
      | pl =>
          if late then
            let w1 := ingest_at fx w j i pl in ingest_at fx w1 i j (payload w1 j)
          else
            let reply := payload w j in ingest_at fx (ingest_at fx w j i pl) i j reply
      end
  | _, _ => w
  end.

(* A storage fault: the engine refuses to commit the transaction filterPersist opened for this batch
   (xkv.WithTx rolls it back). Only a transaction that wrote something can fail this way, i.e. one
   that accepted at least one operation. Nothing is stored, nothing reaches the splitter (no gossip
   store entry, no observer is told); the rejected operations still go to the feedback sender.
   A fault on one Set of the transaction (the value or the digest of key k — both are written only
   for an accepted operation): filterPersist returns the error from inside the transaction, which
   is rolled back as a whole at the first accepted operation on k; what was rejected before it
   still gets feedback, what comes after it is not looked at. *)
Inductive fault :=
| FCommit (n : N)        (* node n: the commit of the ingress transaction fails *)
| FSet (n k : N).        (* node n: the next write of key k (value or digest) inside it fails *)
Definition f_node (f : fault) : N := match f with FCommit n | FSet n _ => n end.

(* Some (rejected so far) if an operation on k gets accepted, i.e. the faulty Set is reached *)
Fixpoint ingest_abort (k : N) (e : engine) (b : list op) : option (list op) :=
  match b with
  | [] => None
  | o :: r =>
      if supersedes (e !! o_key o) o
      then if o_key o =? k then Some [] else ingest_abort k (<[o_key o := o]> e) r
      else option_map (cons o) (ingest_abort k e r)
  end.

Definition fail_world (w : world) (j sender : N) (rej : list op) : world :=
  World (w_nodes w) (w_msgs w)
        (match rej, w_nodes w !! sender with
         | _ :: _, Some _ => w_fbs w ++ [Fb sender j (map strip rej) false]
         | _, _ => w_fbs w
         end).

Definition ingest_at_fail (fx : bool) (f : fault) (w : world) (j sender : N) (ops : list op) : world :=
  match ops, w_nodes w !! j with
  | _ :: _, Some nd =>
      match f with
      | FCommit _ =>
          match ingest (n_eng nd) ops with
          | (_, [], _) => ingest_at fx w j sender ops
          | (_, _ :: _, rej) => fail_world w j sender rej
          end
      | FSet _ k =>
          match ingest_abort k (n_eng nd) ops with
          | None => ingest_at fx w j sender ops
          | Some rej => fail_world w j sender rej
          end
      end
  | _, _ => w
  end.

(* ingestion at node j while node [fn]'s next ingress commit is set to fail *)
Definition ingest_at_f (fx : bool) (fn : fault) (w : world) (j sender : N) (ops : list op) : world :=
  if bool_decide (f_node fn = j) then ingest_at_fail fx fn w j sender ops else ingest_at fx w j sender ops.

Definition round_f (fx : bool) (fn : fault) (w : world) (i j : N) (late : bool) : world :=
  match w_nodes w !! i, w_nodes w !! j with
  | Some _, Some _ =>
      if bool_decide (i = j) then w else
      match payload w i with
      | [] => w
      | pl =>
          if late then
            let w1 := ingest_at_f fx fn w j i pl in ingest_at_f fx fn w1 i j (payload w1 j)
          else
            let reply := payload w j in ingest_at_f fx fn (ingest_at_f fx fn w j i pl) i j reply
      end
  | _, _ => w
  end.

(* kv.Open on the same engine: counter and engine persist; gossip store, repetitions, pending
   recoveries and subscribers are lost. *)
Definition restart (w : world) (n : N) : world :=
  match w_nodes w !! n with
  | Some nd => set_node w n (Node (n_eng nd) (n_ctr nd) ∅ ∅ ∅ (n_log nd) ∅)
  | None => w
  end.

Definition subscribe (w : world) (n s : N) (filter : bool) : world :=
  match w_nodes w !! n with
  | Some nd =>
      match n_subs nd !! s with
      | Some _ => w
      | None => set_node w n (Node (n_eng nd) (n_ctr nd) (n_store nd) (n_reps nd) (n_rec nd) (n_log nd)
                                   (<[s := (filter, length (n_log nd))]> (n_subs nd)))
      end
  | None => w
  end.

(* a subscriber that no longer keeps up is outside the property: forget it *)
Definition stall (w : world) (n s : N) : world :=
  match w_nodes w !! n with
  | Some nd => set_node w n (Node (n_eng nd) (n_ctr nd) (n_store nd) (n_reps nd) (n_rec nd) (n_log nd)
                               (delete s (n_subs nd)))
  | None => w
  end.

(* DB.Set / DB.Delete during which the leaseholder cannot flush its version counter (the engine
   refuses the Set of the counter key): versionAssigner drops the request — no version is assigned,
   nothing is written, the call is never acknowledged (return code 3 = "did not return"). The
   in-memory counter is then ahead of the persisted one until the node's kv layer is reopened; this
   step includes that reopening (kv.Open on the same engine) of the leaseholder, so the model needs
   no separate in-memory counter. *)
Definition write_cf (w : world) (n k lease : N) (del : bool) : world * N :=
  match w_nodes w !! n with
  | None => (w, 0)
  | Some nd =>
      match alloc nd n k lease del with
      | inr e => (w, e)
      | inl lh =>
          match w_nodes w !! lh with
          | None => (w, 2)
          | Some _ => (restart w lh, 3)
          end
      end
  end.

(* the steps during which a gossip batch is ingested *)
Inductive gstep :=
| GInject (n sender : N) (b : list op)
| GDeliver (m : nat) (n : N)
| GRound (i j : N) (late : bool).

Inductive step_t :=
| SWrite (n k v lease : N)          (* DB.Set on node n (lease 0 = no option) *)
| SDel (n k : N)                    (* DB.Delete on node n *)
| SInject (n sender : N) (b : list op)   (* an arbitrary gossip batch reaches node n *)
| SSnap (n : N)                     (* node n's current gossip payload is put on the wire *)
| SDeliver (m : nat) (n : N)        (* payload m reaches node n (any number of times, any order) *)
| SRound (i j : N) (late : bool)    (* one operationClient.send from i to j *)
| SFb (f : nat)                     (* feedback message f reaches its destination (at most once) *)
| SFbAll                            (* every feedback message not yet delivered, oldest first *)
| SRestart (n : N)
| SRecBegin (n p : N)               (* runSingleNodeRecovery: loadHighWater *)
| SRecEnd (n p : N)                 (* runSingleNodeRecovery: stream + apply + commit *)
| SRecover (n p : N)                (* both, back to back *)
| SSub (n s : N) (filter : bool)    (* DB.OnChange / NewObservable(IgnoreHostLeaseholder).OnChange *)
| SFaulty (f : fault) (g : gstep)   (* step g, during which a storage fault hits node (f_node f)'s ingress transaction *)
| SWriteCF (n k lease : N) (del : bool)   (* Set/Delete whose version-counter flush fails, then reopen *)
| SStall (n s : N).                 (* subscriber s stops keeping up (its handler blocks and its buffers overflow):
                                       from here on what it is handed is unspecified — the drop hypothesis *)

Definition step (fx : bool) (T : N) (w : world) (s : step_t) : world * N :=
  match s with
  | SWrite n k v lease => do_write fx w n k v lease false
  | SDel n k => do_write fx w n k 0 0 true
  | SInject n sender b => (ingest_at fx w n sender b, 0)
  | SSnap n =>
      match w_nodes w !! n with
      | Some nd => (World (w_nodes w) (w_msgs w ++ [(n, infected (n_store nd))]) (w_fbs w), 0)
      | None => (w, 0)
      end
  | SDeliver m n =>
      match w_msgs w !! m with
      | Some (sender, ops) => (ingest_at fx w n sender ops, 0)
      | None => (w, 0)
      end
  | SRound i j late => (round fx w i j late, 0)
  | SFb f => (fb_deliver fx T w f, 0)
  | SFbAll => (fold_left (fb_deliver fx T) (seq 0 (length (w_fbs w))) w, 0)
  | SRestart n => (restart w n, 0)
  | SRecBegin n p => (rec_begin w n p, 0)
  | SRecEnd n p => (rec_end w n p, 0)
  | SRecover n p => (rec_end (rec_begin w n p) n p, 0)
  | SSub n s filter => (subscribe w n s filter, 0)
  | SFaulty fn (GInject n sender b) => (ingest_at_f fx fn w n sender b, 0)
  | SFaulty fn (GDeliver m n) =>
      match w_msgs w !! m with
      | Some (sender, ops) => (ingest_at_f fx fn w n sender ops, 0)
      | None => (w, 0)
      end
  | SFaulty fn (GRound i j late) => (round_f fx fn w i j late, 0)
  | SWriteCF n k lease del => write_cf w n k lease del
  | SStall n s => (stall w n s, 0)
  end.

Definition run (fx : bool) (T : N) (w : world) (l : list step_t) : world :=
  fold_left (fun w s => (step fx T w s).1) l w.

Definition world0 (ns : list N) : world :=
  World (list_to_map (map (fun n => (n, node0)) ns)) [] [].

(* states (and return codes) after each step *)
Fixpoint trace (fx : bool) (T : N) (w : world) (l : list step_t) : list (world * N) :=
  match l with
  | [] => []
  | s :: r => let x := step fx T w s in x :: trace fx T x.1 r
  end.

(* what a subscriber has been handed so far: the forwarded batches after its subscription point,
   minus (with IgnoreHostLeaseholder) those whose TxRequest.Leaseholder is the host *)
Definition sub_view (host : N) (nd : node) (s : bool * nat) : list (list op) :=
  map snd (filter (fun x : note => negb (s.1 && (x.1 =? host)) = true) (drop s.2 (n_log nd))).
