(* Cluster-level theorems for C12: monotonicity of every step and convergence. *)
From stdpp Require Import gmap.
From Coq Require Import NArith Lia.
From Synnax Require Import Aspen.Membership Aspen.MembershipProofs.
Local Open Scope N_scope.

Definition cle (c c' : cluster) : Prop :=
  forall i v, c !! i = Some v -> exists v', c' !! i = Some v' /\ vle v v'.

Lemma cle_refl c : cle c c.
Proof. intros i v H. exists v. split; [assumption|apply vle_refl]. Qed.

Lemma cle_trans a b c : cle a b -> cle b c -> cle a c.
Proof.
  intros H1 H2 i v Hi. destruct (H1 _ _ Hi) as (v' & Hi' & Hle).
  destruct (H2 _ _ Hi') as (v'' & Hi'' & Hle'). exists v''. split; [assumption|].
  eapply vle_trans; eauto.
Qed.

Lemma vle_insert_host (v : view) i m m' :
  v !! i = Some m -> rec_le m m' -> vle v (<[i := m']> v).
Proof.
  intros Hm Hle k n Hk. destruct (decide (k = i)) as [->|Hne].
  - rewrite lookup_insert. exists m'. split; [reflexivity|]. congruence.
  - rewrite lookup_insert_ne by congruence. exists n. split; [assumption|apply rec_le_refl].
Qed.

Lemma upd_host_grows c i f :
  (forall m, rec_le m (f m)) -> cle c (upd_host c i f).
Proof.
  intros Hf j v Hj. unfold upd_host.
  destruct (c !! i) as [vi|] eqn:Ei; [|exists v; split; [assumption|apply vle_refl]].
  destruct (vi !! i) as [m|] eqn:Em; [|exists v; split; [assumption|apply vle_refl]].
  destruct (decide (j = i)) as [->|Hne].
  - rewrite lookup_insert. exists (<[i := f m]> vi). split; [reflexivity|].
    rewrite Ei in Hj. inversion Hj; subst. eapply vle_insert_host; eauto.
  - rewrite lookup_insert_ne by congruence. exists v. split; [assumption|apply vle_refl].
Qed.

Lemma step_exchange_lookup strict c i j vi vj :
  i <> j -> c !! i = Some vi -> c !! j = Some vj ->
  step strict c (Exchange i j) !! i = Some (exchange strict vi vj).1 /\
  step strict c (Exchange i j) !! j = Some (exchange strict vi vj).2 /\
  (forall l, l <> i -> l <> j -> step strict c (Exchange i j) !! l = c !! l).
Proof.
  intros Hne Hi Hj. simpl. destruct (decide (i = j)); [contradiction|].
  rewrite Hi, Hj. destruct (exchange strict vi vj) as [vi' vj'] eqn:E. simpl.
  repeat split.
  - rewrite lookup_insert_ne by congruence. apply lookup_insert.
  - apply lookup_insert.
  - intros l H1 H2. rewrite !lookup_insert_ne by congruence. reflexivity.
Qed.

Lemma step_exchange_noop strict c i j :
  (i = j \/ c !! i = None \/ c !! j = None) -> step strict c (Exchange i j) = c.
Proof.
  intros H. simpl. destruct (decide (i = j)); [reflexivity|].
  destruct H as [?|[H|H]]; [contradiction| |]; rewrite H; [reflexivity|].
  destruct (c !! i); reflexivity.
Qed.

Lemma cle_insert_grow (c : cluster) i v v' : c !! i = Some v -> vle v v' -> cle c (<[i := v']> c).
Proof.
  intros Hi Hle l w Hl. destruct (decide (l = i)) as [->|Hne].
  - rewrite lookup_insert. exists v'. split; [reflexivity|]. rewrite Hi in Hl. inversion Hl; subst. exact Hle.
  - rewrite lookup_insert_ne by congruence. exists w. split; [assumption|apply vle_refl].
Qed.

Lemma bstep_step strict c o : (forall i j inner, o <> ExchangeN i j inner) -> step strict c o = bstep strict c o.
Proof. destruct o; try reflexivity. intros H. exfalso. eapply H. reflexivity. Qed.

(* C12, first clause: no step of any kind makes any node's record of any member older. *)
Lemma bstep_grows strict c o : cle c (bstep strict c o).
Proof.
  destruct o as [i j|i|i s|i|i j inner]; [| | | |apply cle_refl].
  all: rewrite <- bstep_step by (intros; discriminate).
  - destruct (decide (i = j)) as [->|Hne]; [rewrite step_exchange_noop by auto; apply cle_refl|].
    destruct (c !! i) as [vi|] eqn:Ei; [|rewrite step_exchange_noop by auto; apply cle_refl].
    destruct (c !! j) as [vj|] eqn:Ej; [|rewrite step_exchange_noop by auto; apply cle_refl].
    destruct (step_exchange_lookup strict c i j vi vj Hne Ei Ej) as (Hi & Hj & Hl).
    intros l v Hv. destruct (decide (l = i)) as [->|Hli].
    + rewrite Hi. eexists; split; [reflexivity|]. rewrite Ei in Hv. inversion Hv; subst.
      apply exchange_fst_vle.
    + destruct (decide (l = j)) as [->|Hlj].
      * rewrite Hj. eexists; split; [reflexivity|]. rewrite Ej in Hv. inversion Hv; subst.
        apply exchange_snd_vle.
      * rewrite Hl by assumption. exists v. split; [assumption|apply vle_refl].
  - apply upd_host_grows. intros m. right. simpl. apply hb_incr_older.
  - apply upd_host_grows. intros m. right. simpl. apply hb_incr_older.
  - apply upd_host_grows. intros m. right. simpl. apply hb_restart_older. lia.
Qed.

Lemma inner_grows strict inner : forall c,
  cle c (fold_left (fun c kl => bstep strict c (inner_op kl)) inner c).
Proof.
  induction inner as [|kl r IH]; intros c; cbn [fold_left]; [apply cle_refl|].
  eapply cle_trans; [apply bstep_grows|apply IH].
Qed.

Lemma step_grows strict c o : cle c (step strict c o).
Proof.
  destruct o as [i j|i|i s|i|i j inner]; try apply bstep_grows.
  cbn [step]. destruct (decide (i = j)); [apply cle_refl|].
  destruct (c !! i) as [vi0|]; [|apply cle_refl]. destruct (c !! j) as [vj0|]; [|apply cle_refl].
  set (c1 := fold_left (fun c kl => bstep strict c (inner_op kl)) inner c).
  eapply cle_trans; [apply inner_grows|]. fold c1.
  destruct (c1 !! i) as [vi1|] eqn:Ei1; [|apply cle_refl].
  unfold ack. set (vi' := merge vi1 (msg_nodes (sync vj0 (view_digests vi0)))).
  set (c2 := <[i := vi']> c1).
  assert (H12 : cle c1 c2) by (apply (cle_insert_grow c1 i vi1 vi' Ei1), merge_vle_l).
  destruct (c2 !! j) as [vj1|] eqn:Ej2; [|exact H12].
  eapply cle_trans; [exact H12|]. apply (cle_insert_grow c2 j vj1); [assumption|apply merge_vle_l].
Qed.


Lemma run_grows strict ops : forall c, cle c (run strict c ops).
Proof.
  induction ops as [|o ops IH]; intros c; simpl.
  - apply cle_refl.
  - eapply cle_trans; [apply step_grows|apply IH].
Qed.

(* ---------- provenance and coherence ---------- *)
Definition prov (c c' : cluster) : Prop :=
  forall i v k n, c' !! i = Some v -> v !! k = Some n ->
    exists j vj, c !! j = Some vj /\ vj !! k = Some n.

Lemma prov_refl c : prov c c.
Proof. intros i v k n H1 H2. eauto. Qed.

Lemma prov_trans a b c : prov a b -> prov b c -> prov a c.
Proof.
  intros H1 H2 i v k n Hi Hk. destruct (H2 _ _ _ _ Hi Hk) as (j & vj & Hj & Hjk).
  eapply H1; eauto.
Qed.

Lemma step_exchange_prov strict c i j : prov c (step strict c (Exchange i j)).
Proof.
  destruct (decide (i = j)) as [->|Hne]; [rewrite step_exchange_noop by auto; apply prov_refl|].
  destruct (c !! i) as [vi|] eqn:Ei; [|rewrite step_exchange_noop by auto; apply prov_refl].
  destruct (c !! j) as [vj|] eqn:Ej; [|rewrite step_exchange_noop by auto; apply prov_refl].
  destruct (step_exchange_lookup strict c i j vi vj Hne Ei Ej) as (Hi & Hj & Hl).
  intros l v k n Hv Hk. destruct (decide (l = i)) as [->|Hli].
  - rewrite Hi in Hv. apply (inj Some) in Hv. subst v. rewrite exchange_fst in Hk.
    apply merge_provenance in Hk. destruct Hk; eauto.
  - destruct (decide (l = j)) as [->|Hlj].
    + rewrite Hj in Hv. apply (inj Some) in Hv. subst v.
      destruct (exchange_snd_any strict vi vj) as (sub & Heq & Hsub). rewrite Heq in Hk.
      apply merge_provenance in Hk. destruct Hk as [Hk|Hk]; eauto.
    + rewrite Hl in Hv by assumption. eauto.
Qed.

Definition Coh (c : cluster) : Prop :=
  forall i j vi vj, c !! i = Some vi -> c !! j = Some vj -> coherent vi vj.

Lemma Coh_prov c c' : Coh c -> prov c c' -> Coh c'.
Proof.
  intros HC HP i j vi vj Hi Hj k a b Ha Hb Heq.
  destruct (HP _ _ _ _ Hi Ha) as (i0 & vi0 & Hi0 & Ha0).
  destruct (HP _ _ _ _ Hj Hb) as (j0 & vj0 & Hj0 & Hb0).
  eapply (HC i0 j0); eauto.
Qed.

Definition is_exchange (o : op) : Prop := exists i j, o = Exchange i j.

Lemma run_exchanges_prov strict ops :
  Forall is_exchange ops -> forall c, prov c (run strict c ops).
Proof.
  induction 1 as [|o ops (i & j & ->) _ IH]; intros c; simpl.
  - apply prov_refl.
  - eapply prov_trans; [apply step_exchange_prov|apply IH].
Qed.

(* ---------- learning through a direct exchange ---------- *)
Lemma step_exchange_learn c i j vi vj :
  Coh c -> i <> j -> c !! i = Some vi -> c !! j = Some vj ->
  exists vi' vj', step false c (Exchange i j) !! i = Some vi' /\
                  step false c (Exchange i j) !! j = Some vj' /\
                  vle vj vi' /\ vle vi vj'.
Proof.
  intros HC Hne Hi Hj.
  destruct (step_exchange_lookup false c i j vi vj Hne Hi Hj) as (Hi' & Hj' & _).
  eexists _, _. split; [exact Hi'|]. split; [exact Hj'|].
  rewrite exchange_fst, exchange_snd. split; apply join_vle_r.
  - eapply HC; eauto.
  - eapply HC; eauto.
Qed.

Lemma learn ops : Forall is_exchange ops -> forall c i j vi0 vj0,
  Coh c -> c !! i = Some vi0 -> c !! j = Some vj0 ->
  (i = j \/ In (Exchange i j) ops \/ In (Exchange j i) ops) ->
  exists vi', run false c ops !! i = Some vi' /\ vle vj0 vi'.
Proof.
  induction 1 as [|o ops Ho Hall IH]; intros c i j vi0 vj0 HC Hi Hj Hex.
  - destruct Hex as [->|[[]|[]]]. simpl. exists vi0. split; [assumption|].
    rewrite Hi in Hj. inversion Hj; subst. apply vle_refl.
  - destruct (decide (i = j)) as [->|Hne].
    { rewrite Hi in Hj. inversion Hj; subst. apply (run_grows false (o :: ops) c _ _ Hi). }
    simpl.
    assert (HC1 : Coh (step false c o)).
    { destruct Ho as (a & b & ->). eapply Coh_prov; [exact HC|apply step_exchange_prov]. }
    destruct (decide (o = Exchange i j)) as [->|Hn1].
    { destruct (step_exchange_learn c i j vi0 vj0 HC Hne Hi Hj) as (vi' & vj' & Hi' & _ & Hle & _).
      destruct (run_grows false ops _ _ _ Hi') as (vi'' & Hf & Hle'').
      exists vi''. split; [assumption|]. eapply vle_trans; eauto. }
    destruct (decide (o = Exchange j i)) as [->|Hn2].
    { destruct (step_exchange_learn c j i vj0 vi0 HC (not_eq_sym Hne) Hj Hi)
        as (vj' & vi' & _ & Hi' & _ & Hle).
      destruct (run_grows false ops _ _ _ Hi') as (vi'' & Hf & Hle'').
      exists vi''. split; [assumption|]. eapply vle_trans; eauto. }
    destruct (step_grows false c o _ _ Hi) as (vi1 & Hi1 & _).
    destruct (step_grows false c o _ _ Hj) as (vj1 & Hj1 & Hlej).
    destruct (IH (step false c o) i j vi1 vj1 HC1 Hi1 Hj1) as (vi' & Hf & Hle).
    { right. destruct Hex as [?|[[?|?]|[?|?]]]; try congruence; auto. }
    exists vi'. split; [assumption|]. eapply vle_trans; eauto.
Qed.

Definition covers (c : cluster) (ops : list op) : Prop :=
  forall i j, is_Some (c !! i) -> is_Some (c !! j) -> i <> j ->
    In (Exchange i j) ops \/ In (Exchange j i) ops.

(* C12, second clause. *)
Theorem converge c ops :
  Coh c -> Forall is_exchange ops -> covers c ops ->
  let c' := run false c ops in
  (forall i j vi vj, c' !! i = Some vi -> c' !! j = Some vj -> vi = vj) /\
  (forall i j vj0 vi, c !! j = Some vj0 -> c' !! i = Some vi -> vle vj0 vi) /\
  (forall i, is_Some (c' !! i) <-> is_Some (c !! i)).
Proof.
  intros HC Hex Hcov c'.
  assert (Hdom : forall i, is_Some (c' !! i) <-> is_Some (c !! i)).
  { intros i. subst c'. clear Hcov HC. revert c. induction Hex as [|o ops (a & b & ->) _ IH]; intros c.
    - reflexivity.
    - change (run false c (Exchange a b :: ops)) with (run false (step false c (Exchange a b)) ops).
      rewrite IH. clear IH.
      destruct (decide (a = b)) as [->|Hne]; [rewrite step_exchange_noop by auto; reflexivity|].
      destruct (c !! a) as [va|] eqn:Ea; [|rewrite step_exchange_noop by auto; reflexivity].
      destruct (c !! b) as [vb|] eqn:Eb; [|rewrite step_exchange_noop by auto; reflexivity].
      destruct (step_exchange_lookup false c a b va vb Hne Ea Eb) as (Hi & Hj & Hl).
      destruct (decide (i = a)) as [->|H1]; [rewrite Hi, Ea; split; eauto|].
      destruct (decide (i = b)) as [->|H2]; [rewrite Hj, Eb; split; eauto|].
      rewrite Hl by assumption. reflexivity. }
  assert (Hsup : forall i j vj0 vi, c !! j = Some vj0 -> c' !! i = Some vi -> vle vj0 vi).
  { intros i j vj0 vi Hj Hi.
    assert (Hi0 : is_Some (c !! i)) by (apply Hdom; eauto).
    destruct Hi0 as (vi0 & Hi0).
    destruct (learn ops Hex c i j vi0 vj0 HC Hi0 Hj) as (vi' & Hf & Hle).
    { destruct (decide (i = j)); [auto|right; apply Hcov; eauto]. }
    unfold c' in Hi. rewrite Hf in Hi. inversion Hi; subst. assumption. }
  split; [|split; assumption].
  assert (Hle : forall i j vi vj, c' !! i = Some vi -> c' !! j = Some vj -> vle vi vj).
  { intros i j vi vj Hi Hj k n Hk.
    destruct (run_exchanges_prov false ops Hex c _ _ _ _ Hi Hk) as (l & vl & Hl & Hlk).
    exact (Hsup j l vl vj Hl Hj k n Hlk). }
  intros i j vi vj Hi Hj. apply vle_antisym; eauto.
Qed.

(* every member that knows itself is known to everybody after convergence *)
Corollary converge_all_members c ops :
  Coh c -> Forall is_exchange ops -> covers c ops ->
  (forall j vj, c !! j = Some vj -> is_Some (vj !! j)) ->
  forall i vi j, run false c ops !! i = Some vi -> is_Some (c !! j) -> is_Some (vi !! j).
Proof.
  intros HC Hex Hcov Hself i vi j Hi (vj & Hj).
  destruct (converge c ops HC Hex Hcov) as (_ & Hsup & _).
  destruct (Hself _ _ Hj) as (m & Hm).
  destruct (Hsup i j vj vi Hj Hi j m Hm) as (m' & Hm' & _). eauto.
Qed.

(* C12, third clause: a record from the restarted generation replaces any record of the
   previous run in every merge, and is never replaced by one. *)
Lemma restart_supersedes (old new : member) :
  gen (m_hb old) < gen (m_hb new) -> pick old new = new /\ pick new old = new.
Proof.
  intros H. unfold pick.
  assert (E : older (m_hb new) (m_hb old) = true) by (apply older_spec; lia).
  rewrite E, (older_asym _ _ E). auto.
Qed.

(* The pinned upstream comparison (strict) loses a record that only the initiator knows
   and whose heartbeat is zero: F7. *)
Definition f7_vi : view := mk_view [(1, (0, 0, 0, 1)); (2, (0, 3, 0, 2))].
Definition f7_vj : view := mk_view [(2, (0, 3, 0, 2))].
Lemma strict_exchange_refuted :
  (exchange true f7_vi f7_vj).2 <> join f7_vj f7_vi.
Proof. vm_compute. discriminate. Qed.
