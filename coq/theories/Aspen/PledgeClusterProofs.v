(* Aspen/PledgeClusterProofs.v — every node of the cluster, however it got in and however
   often it was closed and reopened, holds the bootstrapper's cluster key. *)
From stdpp Require Import gmap.
From Coq Require Import NArith.
From Synnax Require Import Aspen.PledgeCluster.
Local Open Scope N_scope.

Definition ck_uniform (ck0 : N) (s : cstate) : Prop := forall i n, s !! i = Some n -> cn_ck n = ck0.

Lemma cstep_uniform ck0 s o k :
  ck_uniform ck0 s ->
  ck_uniform ck0 (cstep ck0 s o k).1 /\
  ((cstep ck0 s o k).2.1.1 = true -> (cstep ck0 s o k).2.2 = ck0).
Proof.
  intros Hu.
  assert (Hins : forall i n, cn_ck n = ck0 -> ck_uniform ck0 (<[i := n]> s)).
  { intros i n Hn j nj Hj. destruct (decide (j = i)) as [->|Hne].
    - rewrite lookup_insert in Hj. inversion Hj; subst. done.
    - rewrite lookup_insert_ne in Hj by done. eauto. }
  destruct o as [i|i m|i|i]; simpl.
  - destruct (bool_decide (s = ∅)); simpl; split; auto; discriminate.
  - destruct (s !! i) eqn:Ei; [simpl; split; auto; discriminate|].
    destruct (s !! m) as [nm|] eqn:Em; [|simpl; split; auto; discriminate].
    destruct (all_open s); simpl; [|split; auto; discriminate].
    pose proof (Hu m nm Em). split; auto.
  - destruct (s !! i) as [n|] eqn:Ei; [|simpl; split; auto; discriminate].
    destruct (cn_open n); simpl; split; auto; try discriminate. apply Hins. simpl. eauto.
  - destruct (s !! i) as [n|] eqn:Ei; [|simpl; split; auto; discriminate].
    destruct (cn_open n); simpl; [split; auto; discriminate|].
    pose proof (Hu i n Ei). split; auto.
Qed.

Lemma crun_uniform ck0 sc : forall s,
  ck_uniform ck0 s ->
  Forall (fun ob : cobs => ob.1.1 = true -> ob.2 = ck0) (crun ck0 s sc) /\ ck_uniform ck0 (cfinal ck0 s sc).
Proof.
  induction sc as [|[o ob] sc IH]; simpl; intros s Hu; [split; [constructor|done]|].
  destruct (cstep_uniform ck0 s o ob.1.2 Hu) as [H1 H2].
  destruct (cstep ck0 s o ob.1.2) as [s' out] eqn:E. simpl in *.
  destruct (IH s' H1) as [I1 I2]. split; [constructor; auto|done].
Qed.

Lemma cluster_key_lifecycle ck0 sc :
  Forall (fun ob : cobs => ob.1.1 = true -> ob.2 = ck0) (crun ck0 ∅ sc) /\ ck_uniform ck0 (cfinal ck0 ∅ sc).
Proof. apply crun_uniform. intros i n H. rewrite lookup_empty in H. discriminate. Qed.
