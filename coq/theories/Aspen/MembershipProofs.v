(* Proofs about Aspen/Membership.v (C12). *)
From stdpp Require Import gmap.
From Coq Require Import NArith Lia.
From Synnax Require Import Aspen.Membership.
Local Open Scope N_scope.

(* ---------- heartbeat order ---------- *)
Lemma older_irrefl h : older h h = false.
Proof. unfold older. destruct (N.ltb_spec (gen h) (gen h)), (N.ltb_spec (ver h) (ver h)),
  (N.eqb_spec (gen h) (gen h)); simpl; try lia; reflexivity. Qed.

Lemma older_spec a b :
  older a b = true <-> (gen b < gen a \/ (gen a = gen b /\ ver b < ver a)).
Proof.
  unfold older. rewrite orb_true_iff, andb_true_iff, !N.ltb_lt, N.eqb_eq. tauto.
Qed.

Lemma younger_older a b : younger a b = older b a.
Proof.
  unfold younger, older. f_equal. f_equal. apply eq_true_iff_eq.
  rewrite !N.eqb_eq. split; congruence.
Qed.

Lemma older_trans a b c : older a b = true -> older b c = true -> older a c = true.
Proof. rewrite !older_spec. lia. Qed.

Lemma older_asym a b : older a b = true -> older b a = false.
Proof.
  intros H. destruct (older b a) eqn:E; [|reflexivity].
  apply older_spec in H. apply older_spec in E. lia.
Qed.

Lemma hb_eq a b : gen a = gen b -> ver a = ver b -> a = b.
Proof. destruct a, b; simpl; congruence. Qed.

Lemma older_total a b : older a b = true \/ a = b \/ older b a = true.
Proof.
  rewrite !older_spec.
  destruct (N.lt_trichotomy (gen a) (gen b)) as [?|[?|?]];
  destruct (N.lt_trichotomy (ver a) (ver b)) as [?|[?|?]];
  try (left; lia); try (right; right; lia).
  right; left. apply hb_eq; assumption.
Qed.

(* a <= b : b is at least as advanced as a *)
Definition hb_le (a b : hb) : Prop := older a b = false.

Lemma hb_le_refl a : hb_le a a.
Proof. apply older_irrefl. Qed.

Lemma hb_le_trans a b c : hb_le a b -> hb_le b c -> hb_le a c.
Proof.
  unfold hb_le. intros H1 H2.
  destruct (older a c) eqn:E; [|reflexivity].
  destruct (older_total b a) as [H|[H|H]].
  - (* b > a > c  => b > c : contradiction with H2 *)
    rewrite (older_trans _ _ _ H E) in H2. discriminate.
  - subst. congruence.
  - congruence.
Qed.

Lemma hb_le_antisym a b : hb_le a b -> hb_le b a -> a = b.
Proof.
  unfold hb_le. intros. destruct (older_total a b) as [H1|[H1|H1]]; congruence.
Qed.

Lemma hb_incr_older h : older (hb_incr h) h = true.
Proof. apply older_spec. simpl. lia. Qed.

Lemma hb_restart_older h h' : gen h' <= gen h -> older (hb_restart h) h' = true.
Proof. intros. apply older_spec. simpl. lia. Qed.

(* ---------- merge ---------- *)
Lemma lookup_merge v o k :
  merge v o !! k =
  match v !! k, o !! k with
  | Some a, Some b => Some (pick a b)
  | Some a, None => Some a
  | None, Some b => Some b
  | None, None => None
  end.
Proof.
  unfold merge. rewrite lookup_union_with.
  destruct (v !! k), (o !! k); reflexivity.
Qed.

(* view order: w knows at least as much as v *)
Definition rec_le (n n' : member) : Prop := n' = n \/ older (m_hb n') (m_hb n) = true.
Definition vle (v w : view) : Prop :=
  forall k n, v !! k = Some n -> exists n', w !! k = Some n' /\ rec_le n n'.

Lemma rec_le_refl n : rec_le n n.
Proof. left; reflexivity. Qed.

Lemma rec_le_trans a b c : rec_le a b -> rec_le b c -> rec_le a c.
Proof.
  unfold rec_le. intros [->|H1] [->|H2]; auto.
  right. eapply older_trans; eauto.
Qed.

Lemma rec_le_antisym a b : rec_le a b -> rec_le b a -> a = b.
Proof.
  unfold rec_le. intros [->|H1] [E|H2]; auto.
  apply older_asym in H1. congruence.
Qed.

Lemma rec_le_hb a b : rec_le a b -> hb_le (m_hb a) (m_hb b).
Proof.
  unfold rec_le, hb_le. intros [->|H]. apply older_irrefl. apply older_asym; assumption.
Qed.

Lemma vle_refl v : vle v v.
Proof. intros k n H. exists n. split; [assumption|apply rec_le_refl]. Qed.

Lemma vle_trans u v w : vle u v -> vle v w -> vle u w.
Proof.
  intros H1 H2 k n Hk. destruct (H1 _ _ Hk) as (n' & Hk' & Hle).
  destruct (H2 _ _ Hk') as (n'' & Hk'' & Hle'). exists n''. split; [assumption|].
  eapply rec_le_trans; eauto.
Qed.

Lemma vle_antisym v w : vle v w -> vle w v -> v = w.
Proof.
  intros H1 H2. apply map_eq. intros k.
  destruct (v !! k) as [n|] eqn:Ev.
  - destruct (H1 _ _ Ev) as (n' & Ew & Hle). rewrite Ew.
    destruct (H2 _ _ Ew) as (n'' & Ev' & Hle'). rewrite Ev in Ev'. inversion Ev'; subst.
    f_equal. apply rec_le_antisym; assumption.
  - destruct (w !! k) as [n'|] eqn:Ew; [|reflexivity].
    destruct (H2 _ _ Ew) as (n'' & Ev' & _). congruence.
Qed.

Lemma pick_rec_le_l a b : rec_le a (pick a b).
Proof. unfold pick, rec_le. destruct (older (m_hb b) (m_hb a)) eqn:E; auto. Qed.

Lemma pick_cases a b : pick a b = a \/ pick a b = b.
Proof. unfold pick. destruct (older _ _); auto. Qed.

(* The merged record is at least as advanced as theirs, except that on a heartbeat
   tie ours is kept. *)
Lemma pick_hb_le_r a b : hb_le (m_hb b) (m_hb (pick a b)).
Proof.
  unfold pick, hb_le. destruct (older (m_hb b) (m_hb a)) eqn:E.
  - apply older_irrefl.
  - assumption.
Qed.

Lemma merge_vle_l v o : vle v (merge v o).
Proof.
  intros k n Hk. rewrite lookup_merge, Hk.
  destruct (o !! k) as [b|].
  - exists (pick n b). split; [reflexivity|apply pick_rec_le_l].
  - exists n. split; [reflexivity|apply rec_le_refl].
Qed.

(* merge never regresses a heartbeat, never overwrites newer state with older state,
   and on equal heartbeats keeps what the node had. *)
Lemma merge_monotone v o k n :
  v !! k = Some n ->
  exists n', merge v o !! k = Some n' /\ hb_le (m_hb n) (m_hb n') /\
             (m_hb n' = m_hb n -> n' = n).
Proof.
  intros Hk. destruct (merge_vle_l v o _ _ Hk) as (n' & Hk' & Hle).
  exists n'. split; [assumption|]. split; [apply rec_le_hb; assumption|].
  intros Heq. destruct Hle as [->|Hold]; [reflexivity|].
  rewrite Heq, older_irrefl in Hold. discriminate.
Qed.

(* every record of a merge comes from one of the two arguments *)
Lemma merge_provenance v o k n :
  merge v o !! k = Some n -> v !! k = Some n \/ o !! k = Some n.
Proof.
  rewrite lookup_merge. destruct (v !! k) as [a|], (o !! k) as [b|]; intros H;
    inversion H; subst; auto.
  destruct (pick_cases a b) as [->| ->]; auto.
Qed.

(* ---------- exchange ---------- *)
Lemma lookup_sync_nodes snap d k :
  sync_nodes snap d !! k =
  match snap !! k with
  | Some n => if sync_keep d (k, n) then Some n else None
  | None => None
  end.
Proof.
  unfold sync_nodes. destruct (snap !! k) as [n|] eqn:Es.
  - destruct (sync_keep d (k, n)) eqn:E.
    + apply map_filter_lookup_Some. auto.
    + apply map_filter_lookup_None. right. intros x Hx. rewrite Es in Hx.
      inversion Hx; subst. simpl. congruence.
  - apply map_filter_lookup_None. left; assumption.
Qed.

Lemma lookup_ack2_nodes strict snap d k :
  ack2_nodes strict snap d !! k =
  match snap !! k with
  | Some n => if ack2_keep strict d (k, n) then Some n else None
  | None => None
  end.
Proof.
  unfold ack2_nodes. destruct (snap !! k) as [n|] eqn:Es.
  - destruct (ack2_keep strict d (k, n)) eqn:E.
    + apply map_filter_lookup_Some. auto.
    + apply map_filter_lookup_None. right. intros x Hx. rewrite Es in Hx.
      inversion Hx; subst. simpl. congruence.
  - apply map_filter_lookup_None. left; assumption.
Qed.

Lemma lookup_sync_digs snap d k :
  sync_digs snap d !! k =
  match d !! k with
  | Some dh => match snap !! k with
               | None => Some hb_zero
               | Some n => if younger (m_hb n) dh then Some (m_hb n) else None
               end
  | None => None
  end.
Proof.
  unfold sync_digs. rewrite map_lookup_imap. destruct (d !! k); reflexivity.
Qed.

Lemma lookup_view_digests v k : view_digests v !! k = m_hb <$> (v !! k).
Proof. unfold view_digests. apply lookup_fmap. Qed.

(* The initiator always ends with the join, whichever comparison ack uses. *)
Lemma exchange_fst strict vi vj : (exchange strict vi vj).1 = join vi vj.
Proof.
  unfold exchange, ack, join. simpl. apply map_eq. intros k.
  rewrite !lookup_merge, lookup_sync_nodes.
  destruct (vi !! k) as [a|] eqn:Ea, (vj !! k) as [b|] eqn:Eb; try reflexivity.
  - unfold sync_keep. simpl. rewrite lookup_view_digests, Ea. simpl.
    destruct (older (m_hb b) (m_hb a)) eqn:E; simpl; unfold pick; rewrite ?E; reflexivity.
  - unfold sync_keep. simpl. rewrite lookup_view_digests, Ea. reflexivity.
Qed.

(* With the non-strict comparison (tree after fix F7) the peer ends with the join too. *)
Lemma exchange_snd vi vj : (exchange false vi vj).2 = join vj vi.
Proof.
  unfold exchange, ack, join. simpl. apply map_eq. intros k.
  rewrite !lookup_merge, lookup_ack2_nodes.
  destruct (vj !! k) as [b|] eqn:Eb, (vi !! k) as [a|] eqn:Ea; try reflexivity.
  - unfold ack2_keep. simpl. rewrite lookup_sync_digs, lookup_view_digests, Ea, Eb. simpl.
    destruct (younger (m_hb b) (m_hb a)) eqn:Ey; simpl.
    + rewrite younger_older in Ey. rewrite younger_older, (older_asym _ _ Ey). reflexivity.
    + unfold pick. rewrite younger_older in Ey. rewrite Ey. reflexivity.
  - unfold ack2_keep. simpl. rewrite lookup_sync_digs, lookup_view_digests, Ea, Eb. simpl.
    rewrite younger_older. unfold hb_zero, older. simpl.
    destruct (gen (m_hb a)), (ver (m_hb a)); reflexivity.
Qed.

(* With the strict comparison the peer's result is still a merge of a sub-view of vi. *)
Lemma exchange_snd_any strict vi vj :
  exists sub, (exchange strict vi vj).2 = merge vj sub /\
              (forall k n, sub !! k = Some n -> vi !! k = Some n).
Proof.
  exists (ack2_nodes strict vi (sync_digs vj (view_digests vi))). split.
  - reflexivity.
  - intros k n. rewrite lookup_ack2_nodes. destruct (vi !! k) as [a|]; [|discriminate].
    destruct (ack2_keep _ _ _); [auto|discriminate].
Qed.

Lemma exchange_fst_vle strict vi vj : vle vi (exchange strict vi vj).1.
Proof. rewrite exchange_fst. apply merge_vle_l. Qed.

Lemma exchange_snd_vle strict vi vj : vle vj (exchange strict vi vj).2.
Proof.
  destruct (exchange_snd_any strict vi vj) as (sub & -> & _). apply merge_vle_l.
Qed.

Lemma join_vle_r v w : vle w (join v w).
Proof.
  intros k n Hk. unfold join. rewrite lookup_merge, Hk.
  destruct (v !! k) as [a|].
  - exists (pick a n). split; [reflexivity|].
    unfold pick, rec_le. destruct (older (m_hb n) (m_hb a)) eqn:E; [auto|].
    destruct (older_total (m_hb a) (m_hb n)) as [H|[H|H]]; [auto| |congruence].
    (* equal heartbeats but possibly different records: only when coherent *)
    destruct (decide (a = n)) as [->|Hne]; [auto|].
    (* this branch is genuinely not rec_le without coherence *)
Abort.

(* Coherence: one heartbeat of one member identifies one record. *)
Definition coherent (v w : view) : Prop :=
  forall k a b, v !! k = Some a -> w !! k = Some b -> m_hb a = m_hb b -> a = b.

Lemma join_vle_r v w : coherent v w -> vle w (join v w).
Proof.
  intros Hc k n Hk. unfold join. rewrite lookup_merge, Hk.
  destruct (v !! k) as [a|] eqn:Ea.
  - exists (pick a n). split; [reflexivity|].
    unfold pick, rec_le. destruct (older (m_hb n) (m_hb a)) eqn:E; [auto|].
    destruct (older_total (m_hb a) (m_hb n)) as [H|[H|H]]; [auto| |congruence].
    left. eapply Hc; eauto.
  - exists n. split; [reflexivity|apply rec_le_refl].
Qed.

Lemma join_comm v w : coherent v w -> join v w = join w v.
Proof.
  intros Hc. apply map_eq. intros k. unfold join. rewrite !lookup_merge.
  destruct (v !! k) as [a|] eqn:Ea, (w !! k) as [b|] eqn:Eb; try reflexivity.
  f_equal. unfold pick.
  destruct (older (m_hb b) (m_hb a)) eqn:E1, (older (m_hb a) (m_hb b)) eqn:E2; try reflexivity.
  - apply older_asym in E1. congruence.
  - destruct (older_total (m_hb a) (m_hb b)) as [H|[H|H]]; try congruence.
    eapply Hc; eauto.
Qed.
