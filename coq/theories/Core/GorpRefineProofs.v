(* Core/GorpRefineProofs.v — the index machinery refines the table + write-set specification:
   for every history whose commits are not crossed, the abstraction of the model state follows
   the specification step by step, and every query (indexed form, scan form, ordered walk)
   answers what the specification answers. *)
From Coq Require Import NArith ZArith List Lia.
From stdpp Require Import gmap.
From Synnax Require Import Core.Gorp Core.GorpSpec Core.GorpListProofs Core.GorpLookupProofs
     Core.GorpSortedProofs Core.GorpDeltaProofs Core.GorpFilterProofs Core.GorpSystemProofs.
Import ListNotations.
Local Open Scope Z_scope.

(* abstraction: forget the indexes and deltas, keep each batch's write set *)
Definition abs (s : st) : sst := SSt (rows s) (wmap <$> txs s).

Lemma abs_lookup s t : default ∅ (sp_txs (abs s) !! t) = wmap (default [] (txs s !! t)).
Proof. simpl. rewrite lookup_fmap. by destruct (txs s !! t). Qed.
Lemma view_abs s t : view s t = sp_view (abs s) t.
Proof. rewrite view_wmap. unfold sp_view. destruct t; [done|]. by rewrite abs_lookup. Qed.
Lemma open_abs s t : is_open s t = sp_open (abs s) t.
Proof.
  unfold is_open, sp_open. destruct t; [done|]. simpl. rewrite lookup_fmap.
  apply bool_decide_ext. destruct (txs s !! S t); simpl; split; intros [x Hx]; try done; by eexists.
Qed.

(* ---- writes ---- *)
Lemma abs_w_set s t r : abs (w_set t r s) = sp_write t (rk r) (Some r) (abs s).
Proof.
  unfold abs. destruct t as [|t]; simpl.
  - by destruct (mode1 s).
  - f_equal. rewrite fmap_insert, wmap_snoc. simpl. f_equal. f_equal.
    rewrite lookup_fmap. by destruct (txs s !! S t).
Qed.
Lemma abs_w_del s t k : abs (w_del t k s) = sp_write t k None (abs s).
Proof.
  unfold abs. destruct t as [|t]; simpl.
  - by destruct (mode1 s).
  - f_equal. rewrite fmap_insert, wmap_snoc. simpl. f_equal. f_equal.
    rewrite lookup_fmap. by destruct (txs s !! S t).
Qed.
Lemma abs_fold_w_set {A} (g : A -> row) t l : forall s,
  abs (fold_left (fun acc x => w_set t (g x) acc) l s) =
  fold_left (fun acc x => sp_write t (rk (g x)) (Some (g x)) acc) l (abs s).
Proof. induction l as [|x l IH]; intros s; simpl; [done|]. by rewrite IH, abs_w_set. Qed.
Lemma abs_fold_w_del {A} (g : A -> N) t l : forall s,
  abs (fold_left (fun acc x => w_del t (g x) acc) l s) =
  fold_left (fun acc x => sp_write t (g x) None acc) l (abs s).
Proof. induction l as [|x l IH]; intros s; simpl; [done|]. by rewrite IH, abs_w_del. Qed.

(* writes to different keys commute *)
Lemma sp_write_comm t k1 w1 k2 w2 s :
  k1 ≠ k2 -> sp_write t k1 w1 (sp_write t k2 w2 s) = sp_write t k2 w2 (sp_write t k1 w1 s).
Proof.
  intros Hne. destruct t as [|t]; simpl.
  - f_equal. destruct w1, w2; simpl.
    + by apply insert_commute.
    + by rewrite delete_insert_ne.
    + by rewrite delete_insert_ne.
    + apply delete_commute.
  - f_equal. rewrite !lookup_insert. simpl. rewrite !insert_insert. f_equal. by apply insert_commute.
Qed.
Lemma fold_left_perm {A S} (F : S -> A -> S) (l1 l2 : list A) :
  l1 ≡ₚ l2 ->
  (forall a b s, a ∈ l1 -> b ∈ l1 -> F (F s a) b = F (F s b) a) ->
  forall s, fold_left F l1 s = fold_left F l2 s.
Proof.
  intros Hp. induction Hp as [|x l l' Hp IH|x y l|l l' l'' Hp1 IH1 Hp2 IH2]; intros Hc s; simpl.
  - done.
  - apply IH. intros a b s' Ha Hb. apply Hc; by right.
  - f_equal. apply Hc; [by left|right; by left].
  - rewrite IH1 by done. apply IH2. intros a b s' Ha Hb. apply Hc; by rewrite Hp1.
Qed.
Lemma sp_fold_perm (g : row -> option row) t (l1 l2 : list row) s :
  l1 ≡ₚ l2 -> NoDup (map rk l1) ->
  fold_left (fun acc r => sp_write t (rk r) (g r) acc) l1 s =
  fold_left (fun acc r => sp_write t (rk r) (g r) acc) l2 s.
Proof.
  intros Hp Hnd. apply fold_left_perm; [done|]. intros a b s' Ha Hb.
  destruct (decide (a = b)) as [->|Hne]; [done|].
  apply sp_write_comm. intros E. apply Hne.
  apply (NoDup_fmap_1 rk) in Hnd as Hnd'.
  apply elem_of_list_lookup in Ha as [i Hi]. apply elem_of_list_lookup in Hb as [j Hj].
  assert (i = j).
  { eapply NoDup_lookup; [exact Hnd| |].
    - rewrite list_lookup_fmap. unfold fmap. by rewrite Hi.
    - rewrite list_lookup_fmap. unfold fmap. rewrite Hj. simpl. by rewrite E. }
  subst. congruence.
Qed.

(* ---- queries ---- *)
Section queries.
  Context (s : st) (t : nat) (Hc : coh s).

  Lemma select_view p : sp_select (abs s) t p = List.filter p (sorted_rows (view s t)).
  Proof. unfold sp_select. by rewrite view_abs. Qed.

  (* indexed form *)
  Theorem query_rows f r :
    r ∈ q_rows (run_query s t (build f)) <-> r ∈ sp_select (abs s) t (holds f).
  Proof.
    rewrite select_view. unfold run_query.
    apply exec_query_rows; [by apply view_key_ok|by apply coh_env_ok].
  Qed.
  Theorem query_perm f :
    nodup_keys f = true -> q_rows (run_query s t (build f)) ≡ₚ sp_select (abs s) t (holds f).
  Proof.
    intros Hn. rewrite select_view. unfold run_query.
    apply exec_query_perm; [by apply view_key_ok|by apply coh_env_ok|by apply coh_env_nodup|done].
  Qed.
  Theorem query_shape f :
    q_cnt (run_query s t (build f)) = length (q_rows (run_query s t (build f))) /\
    (has_idx f = true ->
     q_err (run_query s t (build f)) = 0%N /\
     q_ex (run_query s t (build f)) = negb (Nat.eqb (length (q_rows (run_query s t (build f)))) 0)).
  Proof.
    split; [apply exec_query_cnt|]. intros Hi. by apply exec_query_idx_shape.
  Qed.
  (* scan form: gorp.Match with the denotation *)
  Theorem scan_query p :
    run_query s t (mk_pred p) =
    let rs := sp_select (abs s) t p in QOut 0 rs (length rs) (negb (Nat.eqb (length rs) 0)).
  Proof. cbv zeta. rewrite select_view. reflexivity. Qed.

  (* MatchKeys(k) as used by Update/Delete by key *)
  Lemma keys_query ks :
    run_query s t (mk_keys ks) =
    let '(rs, nf) := exec_keys (mk_keys ks) (view s t) ks in
    QOut (if negb (Nat.eqb (length nf) 0) then 1%N else 0%N) rs (length rs)
         (match ks with [] => false | _ => Nat.eqb (length rs) (length ks) end).
  Proof. unfold run_query, exec_query. simpl. by destruct (exec_keys _ _ _). Qed.
  Lemma rmatch_keys ks r : rmatch (mk_keys ks) r = inN (rk r) ks.
  Proof. unfold rmatch. simpl. by destruct (inN _ _). Qed.
End queries.

(* ---- Delete by keys: rows found, in request order ---- *)
Lemma delete_keys_refines t (v : table) all : key_ok v ->
  forall ks s0, (forall k, k ∈ ks -> k ∈ all) ->
  abs (fold_left (fun acc r => w_del t (rk r) acc) (exec_keys (mk_keys all) v ks).1 s0) =
  fold_left (fun acc k => match v !! k with Some _ => sp_write t k None acc | None => acc end) ks (abs s0).
Proof.
  intros Hk. induction ks as [|k tl IH]; intros s0 Hsub; simpl; [done|].
  destruct (exec_keys (mk_keys all) v tl) as [rs nf] eqn:E. simpl in IH.
  destruct (v !! k) as [r|] eqn:Ev; simpl.
  - rewrite rmatch_keys. rewrite (Hk _ _ Ev).
    assert (inN k all = true) as -> by (apply inN_spec, Hsub; by left).
    simpl. rewrite (Hk _ _ Ev). rewrite <- abs_w_del. rewrite <- IH; [(done || by rewrite E)|].
    intros k' Hk'. apply Hsub. by right.
  - rewrite <- IH; [(done || by rewrite E)|]. intros k' Hk'. apply Hsub. by right.
Qed.

(* ---- transaction end ---- *)
Lemma observe_rows b s : rows (observe b s) = rows s /\ txs (observe b s) = txs s.
Proof.
  revert s. induction b as [|[k [r|]] b IH]; intros s; simpl; [done| |];
    destruct (IH (obs1 s (k, Some r))) as [? ?] || destruct (IH (obs1 s (k, None))) as [? ?];
    unfold observe in *; simpl in *; done.
Qed.
Lemma abs_commit s t : abs (commit (S t) s) = sp_commit (S t) (abs s).
Proof.
  unfold abs, commit, cleanups, sp_commit. simpl. unfold kv_commit.
  destruct (mode1 s).
  - destruct (observe_rows (default [] (txs s !! S t))
       (St (apply_batch (default [] (txs s !! S t)) (rows s)) (li s) (si s) (lov s) (sov s) (txs s) true (dedup s) (lbad s) (sbad s)))
      as [-> ->]. simpl.
    rewrite apply_batch_wmap, fmap_delete, lookup_fmap. f_equal. f_equal. by destruct (txs s !! S t).
  - simpl. rewrite apply_batch_wmap, fmap_delete, lookup_fmap. f_equal. f_equal. by destruct (txs s !! S t).
Qed.
Lemma abs_abort s t : abs (abort t s) = SSt (rows s) (delete t (sp_txs (abs s))).
Proof. unfold abs, abort, cleanups. simpl. by rewrite fmap_delete. Qed.
Lemma abs_replicate b s : abs (replicate b s) = SSt (apply_batch b (rows s)) (sp_txs (abs s)).
Proof.
  unfold abs, replicate.
  destruct (observe_rows b (St (apply_batch b (rows s)) (li s) (si s) (lov s) (sov s) (txs s) (mode1 s) (dedup s) (lbad s) (sbad s))) as [-> ->].
  done.
Qed.

(* ---- the refinement ---- *)
(* scope of the step-wise refinement: commits not crossed (F22); a filter-driven write lists no
   key twice in a MatchKeys leaf; a filter-driven Update goes through an index leaf (otherwise it may
   be the bare-keys form with its all-or-nothing NotFound contract) *)
Definition op_in_scope (o : op) : Prop :=
  op_ok o /\
  match o with
  | UpdateF _ f _ _ _ => has_idx f = true /\ nodup_keys f = true
  | DeleteF _ f => nodup_keys f = true
  | _ => True
  end.

Lemma uses_bad_false f : uses_bad false false f = false.
Proof.
  induction f as [ks|c m v|i vs|fs IH|fs IH|f IH] using ftree_ind'; simpl; try done.
  - by destruct i.
  - apply existsb_false_elem. intros x Hx. rewrite Forall_forall in IH. by apply IH.
  - apply existsb_false_elem. intros x Hx. rewrite Forall_forall in IH. by apply IH.
Qed.
(* with both indexes valid the filter handed to Retrieve is the built one *)
Lemma qbuild_valid s f : coh s -> qbuild s f = build f.
Proof.
  intros Hc. unfold qbuild. destruct (coh_valid _ Hc) as [-> ->]. by rewrite uses_bad_false.
Qed.

Theorem step_refines s o : coh s -> op_in_scope o -> abs (step s o).1 = sp_step (abs s) o.
Proof.
  intros Hc [Hok Hsc]. destruct o; simpl in *.
  - destruct t as [|t]; [done|]. rewrite <- open_abs. destruct (is_open s (S t)); [done|].
    unfold abs. simpl. by rewrite fmap_insert.
  - rewrite <- open_abs. destruct (is_open s t); [|done]. simpl. apply (abs_fold_w_set (fun r => r)).
  - (* update by key *)
    rewrite <- open_abs. destruct (is_open s t) eqn:Eo; [|done].
    rewrite keys_query. simpl. rewrite <- view_abs.
    destruct (view s t !! k) as [r|] eqn:Ev; simpl.
    + rewrite rmatch_keys. rewrite (view_key_ok s t Hc _ _ Ev). simpl. rewrite N.eqb_refl. simpl.
      rewrite abs_w_set. simpl. by rewrite (view_key_ok s t Hc _ _ Ev).
    + done.
  - (* update by filter *)
    rewrite <- open_abs. destruct (is_open s t) eqn:Eo; [|done]. destruct Hsc as [Hi Hn].
    rewrite (qbuild_valid s f Hc).
    destruct (query_shape s t f) as [_ Hsh]. destruct (Hsh Hi) as [-> _]. simpl.
    rewrite (abs_fold_w_set (upd a b c)).
    assert (E : forall l acc, fold_left (fun acc x => sp_write t (rk (upd a b c x)) (Some (upd a b c x)) acc) l acc =
                         fold_left (fun acc r => sp_write t (rk r) (Some (upd a b c r)) acc) l acc) by done.
    rewrite E. apply (sp_fold_perm (fun r => Some (upd a b c r))); [by apply query_perm|].
    assert (P : map rk (q_rows (run_query s t (build f))) ≡ₚ map rk (sp_select (abs s) t (holds f)))
      by (apply Permutation_map; by apply query_perm).
    rewrite P. rewrite select_view. clear E P.
    assert (Hnd := sorted_rows_keys_nodup (view s t) (view_key_ok s t Hc)).
    revert Hnd. generalize (sorted_rows (view s t)). intros l. induction l as [|x l IH]; simpl; intros Hnd; [constructor|].
    apply NoDup_cons in Hnd as [Hx Hnd]. destruct (holds f x); simpl; [|by apply IH].
    apply NoDup_cons. split; [|by apply IH]. intros Hin. apply Hx.
    apply elem_of_list_fmap in Hin as (y & -> & Hy). apply elem_of_lfilter in Hy as [Hy _].
    apply elem_of_list_fmap. by exists y.
  - (* delete by keys *)
    rewrite <- open_abs. destruct (is_open s t) eqn:Eo; [|done]. simpl.
    rewrite keys_query. rewrite <- view_abs.
    pose proof (delete_keys_refines t (view s t) ks (view_key_ok s t Hc) ks s (fun k H => H)) as H.
    destruct (exec_keys (mk_keys ks) (view s t) ks) as [rs nf]. simpl in *. exact H.
  - (* delete by filter *)
    rewrite <- open_abs. destruct (is_open s t) eqn:Eo; [|done]. simpl.
    rewrite (qbuild_valid s f Hc). rewrite (abs_fold_w_del rk).
    apply (sp_fold_perm (fun _ => None)); [by apply query_perm|].
    assert (P : map rk (q_rows (run_query s t (build f))) ≡ₚ map rk (sp_select (abs s) t (holds f)))
      by (apply Permutation_map; by apply query_perm).
    rewrite P. rewrite select_view. clear P.
    assert (Hnd := sorted_rows_keys_nodup (view s t) (view_key_ok s t Hc)).
    revert Hnd. generalize (sorted_rows (view s t)). intros l. induction l as [|x l IH]; simpl; intros Hnd; [constructor|].
    apply NoDup_cons in Hnd as [Hx Hnd]. destruct (holds f x); simpl; [|by apply IH].
    apply NoDup_cons. split; [|by apply IH]. intros Hin. apply Hx.
    apply elem_of_list_fmap in Hin as (y & -> & Hy). apply elem_of_lfilter in Hy as [Hy _].
    apply elem_of_list_fmap. by exists y.
  - by destruct (is_open s t).
  - by destruct (is_open s t).
  - destruct t as [|t]; [done|]. rewrite <- open_abs. destruct (is_open s (S t)); [|done]. simpl. apply abs_commit.
  - done.
  - destruct t as [|t]; [done|]. destruct (is_open s (S t)) eqn:Eo; simpl.
    + apply abs_abort.
    + unfold abs. simpl. f_equal. rewrite delete_notin; [done|]. rewrite lookup_fmap.
      unfold is_open in Eo. apply bool_decide_eq_false in Eo. apply eq_None_not_Some in Eo. by rewrite Eo.
  - unfold abs. simpl. by rewrite fmap_empty.
  - apply abs_replicate.
  - by destruct (is_open s t).
  - destruct t as [|t]; [done|]. destruct (is_open s (S t)) eqn:Eo; simpl.
    + apply abs_abort.
    + unfold abs. simpl. f_equal. rewrite delete_notin; [done|]. rewrite lookup_fmap.
      unfold is_open in Eo. apply bool_decide_eq_false in Eo. apply eq_None_not_Some in Eo. by rewrite Eo.
  - done.
Qed.

Theorem run_refines ops : forall s,
  coh s -> Forall op_in_scope ops -> coh (run s ops) /\ abs (run s ops) = sp_run (abs s) ops.
Proof.
  induction ops as [|o ops IH]; intros s Hc Ho; simpl; [done|].
  apply Forall_cons in Ho as [Ho Hos].
  destruct (IH (step s o).1) as [H1 H2]; [apply coh_step; [done|apply Ho]|done|].
  split; [done|]. by rewrite H2, step_refines.
Qed.
