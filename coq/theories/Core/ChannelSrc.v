(* Core/ChannelSrc.v — the channel-key arithmetic of Core/Channel.v (new_key / leaseholder / local_key / free) is
   EQUAL to the Gallina that translator/go2coq regenerates from core/pkg/distribution/channel/channel.go (NewKey,
   Key.Leaseholder, Key.LocalKey, Key.Free), aspen/internal/node/node.go (KeyFree), x/go/math and x/go/types on
   every run (Generated/Src_ChanKey.v). *)
From Coq Require Import ZArith NArith Bool Lia.
From Synnax Require Import Generated.Consts_C15 Core.Channel.
From Synnax Require Generated.Src_ChanKey.
Module S := Generated.Src_ChanKey.

Lemma lor_N2Z a b : Z.lor (Z.of_N a) (Z.of_N b) = Z.of_N (N.lor a b).
Proof. destruct a, b; reflexivity. Qed.
Lemma land_N2Z a b : Z.land (Z.of_N a) (Z.of_N b) = Z.of_N (N.land a b).
Proof. destruct a, b; reflexivity. Qed.
Lemma shiftl_N2Z a n : Z.shiftl (Z.of_N a) (Z.of_N n) = Z.of_N (N.shiftl a n).
Proof. rewrite Z.shiftl_mul_pow2 by lia. rewrite N.shiftl_mul_pow2, N2Z.inj_mul, N2Z.inj_pow. reflexivity. Qed.
Lemma shiftr_N2Z a n : Z.shiftr (Z.of_N a) (Z.of_N n) = Z.of_N (N.shiftr a n).
Proof. rewrite Z.shiftr_div_pow2 by lia. rewrite N.shiftr_div_pow2, N2Z.inj_div, N2Z.inj_pow. reflexivity. Qed.
Lemma wrap_u_N2Z w a : S.wrap_u (Z.of_N w) (Z.of_N a) = Z.of_N (a mod 2 ^ w).
Proof. unfold S.wrap_u. rewrite N2Z.inj_mod, N2Z.inj_pow. reflexivity. Qed.

Lemma lor_lt_pow2 a b n : (a < 2 ^ n -> b < 2 ^ n -> N.lor a b < 2 ^ n)%N.
Proof.
  intros Ha Hb. destruct (N.eq_dec a 0) as [->|Hna]; [now rewrite N.lor_0_l|].
  destruct (N.eq_dec b 0) as [->|Hnb]; [now rewrite N.lor_0_r|].
  assert (Hl : (N.lor a b <> 0)%N).
  { intros H0. apply N.lor_eq_0_iff in H0. tauto. }
  apply N.log2_lt_pow2; [lia|]. rewrite N.log2_lor.
  apply N.log2_lt_pow2 in Ha; [|lia]. apply N.log2_lt_pow2 in Hb; [|lia]. lia.
Qed.

(* NewKey: for every pair of arguments *)
Lemma new_key_from_source lease lkey :
  S.channel_NewKey (Z.of_N lease) (Z.of_N lkey) = Z.of_N (new_key lease lkey).
Proof.
  unfold S.channel_NewKey, new_key, key_shift, two32. cbv zeta.
  change 32%Z with (Z.of_N 32). change 20%Z with (Z.of_N 20).
  rewrite !wrap_u_N2Z, shiftl_N2Z, wrap_u_N2Z, lor_N2Z, wrap_u_N2Z. f_equal.
  change (2 ^ 32)%N with 4294967296%N.
  rewrite (N.shiftl_mul_pow2 (lease mod 4294967296)), (N.shiftl_mul_pow2 lease).
  rewrite N.mul_mod_idemp_l by lia.
  apply N.mod_small. apply (lor_lt_pow2 _ _ 32); apply N.mod_upper_bound; lia.
Qed.

(* Key.Leaseholder / Key.LocalKey: for every uint32 key *)
Lemma leaseholder_from_source k :
  (k < 2 ^ 32)%N -> S.Key_Leaseholder (Z.of_N k) = Z.of_N (leaseholder k).
Proof.
  intros Hk. unfold S.Key_Leaseholder, leaseholder, leaseholder_shift.
  change 16%Z with (Z.of_N 16). change 20%Z with (Z.of_N 20).
  rewrite shiftr_N2Z, wrap_u_N2Z. f_equal. apply N.mod_small.
  rewrite N.shiftr_div_pow2. apply N.div_lt_upper_bound; [lia|].
  change (2 ^ 20 * 2 ^ 16)%N with (2 ^ 36)%N. change (2 ^ 32)%N with 4294967296%N in Hk.
  change (2 ^ 36)%N with 68719476736%N. lia.
Qed.

Lemma local_key_from_source k :
  (k < 2 ^ 32)%N -> S.Key_LocalKey (Z.of_N k) = Z.of_N (local_key k).
Proof.
  intros Hk. unfold S.Key_LocalKey, local_key, local_mask.
  change 0xFFFFF%Z with (Z.of_N 1048575). change 32%Z with (Z.of_N 32).
  rewrite land_N2Z, wrap_u_N2Z. f_equal. apply N.mod_small.
  assert (H : (N.land k 1048575 <= 1048575)%N).
  { change 1048575%N with (N.ones 20) at 1. rewrite N.land_ones.
    pose proof (N.mod_upper_bound k (2 ^ 20) ltac:(lia)) as Hm.
    change (2 ^ 20)%N with 1048576%N in *. lia. }
  change (2 ^ 32)%N with 4294967296%N. lia.
Qed.

Lemma free_from_source k :
  (k < 2 ^ 32)%N -> S.Key_Free (Z.of_N k) = (leaseholder k =? node_free)%N.
Proof.
  intros Hk. unfold S.Key_Free. rewrite leaseholder_from_source by assumption.
  change S.node_KeyFree with (Z.of_N node_free).
  destruct (Z.eqb_spec (Z.of_N (leaseholder k)) (Z.of_N node_free)), (N.eqb_spec (leaseholder k) node_free);
    try reflexivity; lia.
Qed.

Theorem channel_keys_from_source :
  (forall lease lkey, S.channel_NewKey (Z.of_N lease) (Z.of_N lkey) = Z.of_N (new_key lease lkey)) /\
  (forall k, (k < 2 ^ 32)%N -> S.Key_Leaseholder (Z.of_N k) = Z.of_N (leaseholder k)) /\
  (forall k, (k < 2 ^ 32)%N -> S.Key_LocalKey (Z.of_N k) = Z.of_N (local_key k)) /\
  (forall k, (k < 2 ^ 32)%N -> S.Key_Free (Z.of_N k) = (leaseholder k =? node_free)%N) /\
  S.math_MaxUint20 = Z.of_N max_local /\ S.node_KeyBootstrapper = Z.of_N node_boot.
Proof.
  repeat split; auto using new_key_from_source, leaseholder_from_source, local_key_from_source, free_from_source.
Qed.
