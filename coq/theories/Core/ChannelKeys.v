(* Core/ChannelKeys.v — arithmetic of channel keys (NewKey / Leaseholder / LocalKey). *)
From stdpp Require Import gmap.
From Coq Require Import NArith Lia.
From Synnax Require Import Generated.Consts_C15 Core.Channel.
Local Open Scope N_scope.

(* the constants regenerated from the Go source fit together: the same split position is used to
   build and to take apart a key, the mask covers exactly the local part, the counter limit is the
   largest local key, the free node is the largest node key that fits above the split *)
Lemma consts_coherent :
  leaseholder_shift = key_shift /\ local_mask = N.ones key_shift /\ max_local = N.ones key_shift /\
  node_free = N.ones (32 - key_shift) /\ key_shift < 32.
Proof. vm_compute. repeat split; reflexivity. Qed.

Lemma small_bits_high b n j : b < 2 ^ n -> n <= j -> N.testbit b j = false.
Proof.
  intros Hb Hj. destruct (N.eq_dec b 0) as [->|Hne]; [apply N.bits_0|].
  apply N.bits_above_log2. eapply N.lt_le_trans; [|exact Hj].
  apply N.log2_lt_pow2; lia.
Qed.

Lemma land_shiftl_small a b n : b < 2 ^ n -> N.land (N.shiftl a n) b = 0.
Proof.
  intros Hb. apply N.bits_inj; intros j. rewrite N.land_spec, N.bits_0.
  destruct (N.lt_ge_cases j n) as [Hj|Hj].
  - rewrite N.shiftl_spec_low by assumption. reflexivity.
  - rewrite (small_bits_high b n j Hb Hj). apply andb_false_r.
Qed.

Lemma lor_shiftl_small a b n : b < 2 ^ n -> N.lor (N.shiftl a n) b = a * 2 ^ n + b.
Proof.
  intros Hb. rewrite <- N.lxor_lor by (apply land_shiftl_small; assumption).
  rewrite <- N.add_nocarry_lxor by (apply land_shiftl_small; assumption).
  rewrite N.shiftl_mul_pow2. reflexivity.
Qed.

Definition pow_shift : N := 2 ^ key_shift.
Lemma pow_shift_pos : 0 < pow_shift.
Proof. vm_compute. reflexivity. Qed.

Lemma new_key_val lease lkey :
  lease <= node_free -> lkey <= max_local ->
  new_key lease lkey = lease * pow_shift + lkey.
Proof.
  intros Hl Hk. unfold new_key, pow_shift.
  destruct consts_coherent as (_ & _ & Hm & Hf & Hs).
  rewrite Hm in Hk. rewrite Hf in Hl. rewrite N.ones_equiv in Hk, Hl.
  assert (H20 : 0 < 2 ^ key_shift) by exact pow_shift_pos.
  assert (H12 : 0 < 2 ^ (32 - key_shift)) by (vm_compute; reflexivity).
  assert (Hpow : 2 ^ (32 - key_shift) * 2 ^ key_shift = two32) by (vm_compute; reflexivity).
  rewrite (N.mod_small (N.shiftl lease key_shift)) by (rewrite N.shiftl_mul_pow2; nia).
  rewrite (N.mod_small lkey) by nia.
  apply lor_shiftl_small. lia.
Qed.

Lemma leaseholder_new_key lease lkey :
  lease <= node_free -> lkey <= max_local -> leaseholder (new_key lease lkey) = lease.
Proof.
  intros Hl Hk. rewrite new_key_val by assumption. unfold leaseholder.
  destruct consts_coherent as (-> & _ & Hm & _ & _).
  rewrite Hm, N.ones_equiv in Hk. pose proof pow_shift_pos.
  rewrite N.shiftr_div_pow2. fold pow_shift. unfold pow_shift in *.
  rewrite N.div_add_l by lia. rewrite N.div_small by lia. lia.
Qed.

Lemma local_key_new_key lease lkey :
  lease <= node_free -> lkey <= max_local -> local_key (new_key lease lkey) = lkey.
Proof.
  intros Hl Hk. rewrite new_key_val by assumption. unfold local_key.
  destruct consts_coherent as (_ & -> & Hm & _ & _).
  rewrite Hm, N.ones_equiv in Hk. pose proof pow_shift_pos. unfold pow_shift in *.
  rewrite N.land_ones. rewrite N.add_comm, N.mod_add by lia. apply N.mod_small. lia.
Qed.

Lemma new_key_inj l1 k1 l2 k2 :
  l1 <= node_free -> k1 <= max_local -> l2 <= node_free -> k2 <= max_local ->
  new_key l1 k1 = new_key l2 k2 -> l1 = l2 /\ k1 = k2.
Proof.
  intros H1 H2 H3 H4 He. split.
  - rewrite <- (leaseholder_new_key l1 k1), <- (leaseholder_new_key l2 k2) by assumption. congruence.
  - rewrite <- (local_key_new_key l1 k1), <- (local_key_new_key l2 k2) by assumption. congruence.
Qed.

(* a key whose local part is beyond 20 bits bleeds into the leaseholder bits: this is why
   counter.add refuses to go past MaxUint20 *)
Lemma new_key_overflow_refuted :
  new_key 2 (max_local + 1) = new_key 3 0 /\ leaseholder (new_key 2 (max_local + 1)) = 3 /\
  new_key 1 (max_local + 2) = new_key 1 1.
Proof. vm_compute. repeat split; reflexivity. Qed.
