(* Core/ChannelAssign.v — key assignment (retrieveExistingAndAssignKeys): every new channel gets a
   local key strictly above the old counter value and at most the new one, all different. *)
From stdpp Require Import gmap strings sorting.
From Coq Require Import NArith Lia.
From Synnax Require Import Generated.Consts_C15 Core.Channel.
Local Open Scope N_scope.
Notation length := List.length.

Definition zero_key (c : chan) : bool := c_lkey c =? 0.
Definition zeros (l : list chan) : nat := length (filter (fun c => zero_key c = true) l).

Lemma zeros_cons c l : zeros (c :: l) = ((if zero_key c then 1 else 0) + zeros l)%nat.
Proof. unfold zeros. rewrite filter_cons. destruct (zero_key c); simpl; [|reflexivity].
  destruct (decide (true = true)); [reflexivity|congruence]. Qed.
Lemma zeros_cons_false c l : zero_key c = false -> zeros (c :: l) = zeros l.
Proof. intros H. rewrite zeros_cons, H. reflexivity. Qed.
Lemma zeros_nil : zeros [] = 0%nat.
Proof. reflexivity. Qed.

(* pigeonhole: positions listed in R (no repetition) hold non-zero keys *)
Lemma zeros_le (l : list chan) : forall R : list nat,
  NoDup R -> (forall i, i ∈ R -> exists c, l !! i = Some c /\ zero_key c = false) ->
  (zeros l + length R <= length l)%nat.
Proof.
  induction l as [|c l IH]; intros R Hnd HR.
  - destruct R as [|i R]; [simpl; lia|].
    destruct (HR i) as (c & Hc & _); [left|]. discriminate.
  - set (R0 := filter (fun i => i <> 0%nat) R).
    set (R' := pred <$> R0).
    assert (HndR0 : NoDup R0) by (apply NoDup_filter; assumption).
    assert (HR' : NoDup R').
    { apply NoDup_fmap_2_strong; [|assumption].
      intros x y Hx Hy Hp. apply elem_of_list_filter in Hx as [Hx _]. apply elem_of_list_filter in Hy as [Hy _]. lia. }
    assert (Hin' : forall j, j ∈ R' -> exists c0, l !! j = Some c0 /\ zero_key c0 = false).
    { intros j Hj. apply elem_of_list_fmap in Hj as (i & -> & Hi).
      apply elem_of_list_filter in Hi as [Hi0 Hi]. destruct (HR i Hi) as (c0 & Hc0 & Hz).
      destruct i; [congruence|]. simpl in *. eauto. }
    specialize (IH R' HR' Hin'). unfold R' in IH. rewrite fmap_length in IH.
    assert (HlenR : (length R <= length R0 + (if zero_key c then 0 else 1))%nat).
    { clear IH Hin' HR' R'. subst R0. induction Hnd as [|i R Hni Hnd IHR]; [simpl; lia|].
      rewrite filter_cons. destruct (decide (i <> 0%nat)) as [Hi|Hi].
      - simpl. assert (forall i0, i0 ∈ R -> exists c0, (c :: l) !! i0 = Some c0 /\ zero_key c0 = false)
          by (intros; apply HR; right; assumption).
        assert (NoDup (filter (fun i0 => i0 <> 0%nat) R)) by (apply NoDup_filter; assumption).
        specialize (IHR H H0). lia.
      - assert (i = 0%nat) by lia. subst i.
        destruct (HR 0%nat) as (c0 & Hc0 & Hz); [left|]. simpl in Hc0. injection Hc0 as <-. rewrite Hz.
        assert (filter (fun i0 => i0 <> 0%nat) R = R) as ->.
        { clear -Hni. induction R as [|a R IHR]; [reflexivity|].
          rewrite filter_cons. destruct (decide (a <> 0%nat)).
          - f_equal. apply IHR. intros H. apply Hni. right. assumption.
          - exfalso. apply Hni. assert (a = 0%nat) by lia. subst. left. }
        simpl. lia. }
    rewrite zeros_cons. simpl. destruct (zero_key c); simpl in *; lia.
Qed.

(* ---- apply_existing (tree with fix F44) *)
Lemma index_where_lt {A} (p : A -> bool) (l : list A) i : index_where p l = Some i -> (i < length l)%nat.
Proof.
  revert i; induction l as [|x l IH]; intros i; simpl; [discriminate|].
  destruct (p x); [intros [= <-]; lia|].
  destruct (index_where p l) as [j|] eqn:E; simpl; [|discriminate].
  intros [= <-]. specialize (IH j eq_refl). lia.
Qed.
Lemma index_where_Some {A} (p : A -> bool) (l : list A) i :
  index_where p l = Some i -> exists x, l !! i = Some x /\ p x = true.
Proof.
  revert i; induction l as [|x l IH]; intros i; simpl; [discriminate|].
  destruct (p x) eqn:Hp; [intros [= <-]; eauto|].
  destruct (index_where p l) as [j|] eqn:E; simpl; [|discriminate].
  intros [= <-]. apply (IH j eq_refl).
Qed.

Lemma in_snd_cons {A B} (k : A) (e : B) ex c :
  c = e \/ c ∈ (snd <$> ex) -> c ∈ (snd <$> ((k, e) :: ex)).
Proof. rewrite fmap_cons. simpl. intros [->|H]; [left|right; assumption]. Qed.

Lemma apply_existing_inv names : forall existing chs inc R chs' inc',
  length names = length chs ->
  Forall (fun kc => zero_key kc.2 = false) existing ->
  NoDup R -> (forall i, i ∈ R -> exists c, chs !! i = Some c /\ zero_key c = false) ->
  (N.of_nat (length chs) <= inc + N.of_nat (length R)) ->
  apply_existing true names existing chs inc R = (chs', inc') ->
  length chs' = length chs /\ N.of_nat (zeros chs') <= inc' /\ inc' <= inc /\
  (forall c, c ∈ chs' -> c ∈ chs \/ c ∈ (snd <$> existing)).
Proof.
  induction existing as [|[k e] ex IH]; intros chs inc R chs' inc' Hlen Hall Hnd HR Hinc; simpl.
  - intros [= <- <-]. split; [reflexivity|]. split; [|split; [lia|auto]].
    pose proof (zeros_le chs R Hnd HR). lia.
  - inversion Hall as [|? ? He Hall']; subst. simpl in He.
    destruct (index_where (name_eqb (c_name e)) names) as [i|] eqn:Ei.
    + assert (Hi : (i < length chs)%nat) by (rewrite <- Hlen; eapply index_where_lt; eassumption).
      assert (Hins : forall j, j ∈ i :: R -> exists c, <[i:=e]> chs !! j = Some c /\ zero_key c = false).
      { intros j Hj. destruct (decide (j = i)) as [->|Hne].
        - exists e. rewrite list_lookup_insert by assumption. auto.
        - rewrite list_lookup_insert_ne by congruence. apply HR.
          apply elem_of_cons in Hj as [?|?]; [congruence|assumption]. }
      simpl. destruct (decide (i ∈ R)) as [HiR|HiR].
      * rewrite bool_decide_true by assumption. intros Happ.
        assert (Hlen' : length names = length (<[i:=e]> chs)) by (rewrite insert_length; assumption).
        assert (HR' : forall j, j ∈ R -> exists c, <[i:=e]> chs !! j = Some c /\ zero_key c = false)
          by (intros j Hj; apply Hins; right; assumption).
        assert (Hinc' : N.of_nat (length (<[i:=e]> chs)) <= inc + N.of_nat (length R))
          by (rewrite insert_length; assumption).
        destruct (IH _ _ _ _ _ Hlen' Hall' Hnd HR' Hinc' Happ) as (H1 & H2 & H3 & H4).
        rewrite insert_length in H1. repeat split; try assumption.
        intros c Hc. destruct (H4 c Hc) as [Hin|Hin]; [|right; apply (in_snd_cons k); right; assumption].
        apply elem_of_list_lookup in Hin as (j & Hj). destruct (decide (j = i)) as [->|Hne].
        -- rewrite list_lookup_insert in Hj by assumption. injection Hj as <-. right. apply (in_snd_cons k). left. reflexivity.
        -- rewrite list_lookup_insert_ne in Hj by congruence. left. eapply elem_of_list_lookup_2; eassumption.
      * rewrite bool_decide_false by assumption. intros Happ.
        assert (Hnd' : NoDup (i :: R)) by (constructor; assumption).
        assert (Hlen' : length names = length (<[i:=e]> chs)) by (rewrite insert_length; assumption).
        assert (Hinc' : N.of_nat (length (<[i:=e]> chs)) <=
                        (if inc =? 0 then 0 else inc - 1) + N.of_nat (length (i :: R))).
        { rewrite insert_length. simpl length.
          destruct (inc =? 0) eqn:E0; [apply N.eqb_eq in E0|apply N.eqb_neq in E0]; lia. }
        destruct (IH _ _ _ _ _ Hlen' Hall' Hnd' Hins Hinc' Happ) as (H1 & H2 & H3 & H4).
        rewrite insert_length in H1. repeat split; try assumption.
        -- destruct (inc =? 0) eqn:E0; [apply N.eqb_eq in E0|]; lia.
        -- intros c Hc. destruct (H4 c Hc) as [Hin|Hin]; [|right; apply (in_snd_cons k); right; assumption].
           apply elem_of_list_lookup in Hin as (j & Hj). destruct (decide (j = i)) as [->|Hne].
           ++ rewrite list_lookup_insert in Hj by assumption. injection Hj as <-. right. apply (in_snd_cons k). left. reflexivity.
           ++ rewrite list_lookup_insert_ne in Hj by congruence. left. eapply elem_of_list_lookup_2; eassumption.
    + intros Happ. apply IH in Happ; try assumption.
      destruct Happ as (H1 & H2 & H3 & H4). repeat split; try assumption.
      intros c Hc. destruct (H4 c Hc); [left; assumption|right; apply (in_snd_cons k); right; assumption].
Qed.

(* ---- assign_keys *)
(* [c] was built from request entry [c0] by giving it local key k *)
Definition keyed_from (c0 c : chan) (k : N) : Prop :=
  c_lkey c0 = 0 /\ c_lkey c = k /\ c_lease c = c_lease c0 /\ c_name c = c_name c0 /\ c_dt c = c_dt c0 /\
  c_isidx c = c_isidx c0 /\ c_virt c = c_virt c0 /\ c_int c = c_int c0 /\ c_expr c = c_expr c0 /\
  c_lidx c = (if c_isidx c0 then k else c_lidx c0).

Lemma assign_keys_spec orig : forall chs acc chs' created,
  assign_keys orig chs acc = (chs', created) ->
  exists new, created = acc ++ new /\ length new = zeros chs /\ length chs' = length chs /\
    (forall j c, new !! j = Some c ->
       exists c0, c0 ∈ chs /\ keyed_from c0 c (orig + N.of_nat (length acc + j) + 1) /\ c ∈ chs') /\
    (forall c, c ∈ chs' -> c ∈ new \/ (zero_key c = false /\ exists c0, c0 ∈ chs /\ c_lkey c0 = c_lkey c /\
                                          c_lease c0 = c_lease c /\ c_name c0 = c_name c)).
Proof.
  induction chs as [|c chs IH]; intros acc chs' created; simpl.
  - intros [= <- <-]. exists []. rewrite app_nil_r. repeat split; try reflexivity.
    + intros j c H; discriminate.
    + intros c H. inversion H.
  - destruct (c_lkey c =? 0) eqn:Ez.
    + destruct (assign_keys orig chs (acc ++ [_])) as [r' cr] eqn:Er. intros [= <- <-].
      apply IH in Er as (new & -> & Hlen & Hlen' & Hnew & Hold).
      set (k := orig + N.of_nat (length acc) + 1) in *.
      set (c2 := if c_isidx (set_lkey c k) then set_lidx (set_lkey c k) k else set_lkey c k) in *.
      exists (c2 :: new). rewrite <- app_assoc. simpl. split; [reflexivity|].
      split; [rewrite zeros_cons; unfold zero_key; rewrite Ez; simpl; lia|].
      split; [simpl; lia|]. split.
      * intros [|j] c' Hj; simpl in Hj.
        -- injection Hj as <-. exists c. split; [left|]. split; [|left].
           replace (length acc + 0)%nat with (length acc) by lia. fold k.
           apply N.eqb_eq in Ez. unfold keyed_from, c2. destruct c; simpl in *. destruct c_isidx; simpl; repeat split; auto.
        -- destruct (Hnew j c' Hj) as (c0 & Hc0 & Hk & Hin). exists c0. split; [right; assumption|].
           split; [|right; assumption]. rewrite app_length in Hk. simpl in Hk.
           replace (length acc + S j)%nat with (length acc + 1 + j)%nat by lia. assumption.
      * intros c' Hc'. apply elem_of_cons in Hc' as [->|Hc']; [left; left|].
        destruct (Hold c' Hc') as [?|(Hz & c0 & Hc0 & ?)]; [left; right; assumption|].
        right. split; [assumption|]. exists c0. split; [right; assumption|assumption].
    + destruct (assign_keys orig chs acc) as [r' cr] eqn:Er. intros [= <- <-].
      apply IH in Er as (new & -> & Hlen & Hlen' & Hnew & Hold).
      exists new. split; [reflexivity|].
      split; [rewrite zeros_cons_false by exact Ez; assumption|]. split; [simpl; lia|]. split.
      * intros j c' Hj. destruct (Hnew j c' Hj) as (c0 & Hc0 & Hk & Hin). exists c0.
        split; [right; assumption|]. split; [assumption|right; assumption].
      * intros c' Hc'. apply elem_of_cons in Hc' as [->|Hc'].
        -- right. split.
           ++ unfold zero_key. destruct (c_isidx c); simpl; assumption.
           ++ exists c. split; [left|]. destruct (c_isidx c); simpl; auto.
        -- destruct (Hold c' Hc') as [?|(Hz & c0 & Hc0 & ?)]; [left; assumption|].
           right. split; [assumption|]. exists c0. split; [right; assumption|assumption].
Qed.

(* ---- name lookups return rows of the table *)
Lemma sorted_tab_elem (t : table) k c : (k, c) ∈ sorted_tab t <-> t !! k = Some c.
Proof.
  unfold sorted_tab. rewrite merge_sort_Permutation. apply elem_of_map_to_list.
Qed.
Lemma holders_elem t n k c : (k, c) ∈ holders t n -> t !! k = Some c /\ c_name c = n.
Proof.
  unfold holders. rewrite elem_of_list_filter. intros [Hn Hin]. split; [|exact Hn].
  apply sorted_tab_elem. exact Hin.
Qed.
Lemma lookup_names_sound t names ex amb :
  lookup_names t names = (ex, amb) -> forall k c, (k, c) ∈ ex -> t !! k = Some c.
Proof.
  unfold lookup_names. destruct (_ && forallb valid_name names); intros [= <- _] k c Hin.
  - apply elem_of_list_In, in_flat_map in Hin as (n & _ & Hin). apply elem_of_list_In in Hin.
    apply holders_elem in Hin. tauto.
  - apply elem_of_list_filter in Hin as [_ Hin]. apply sorted_tab_elem. exact Hin.
Qed.

Definition tab_pos (t : table) : Prop := forall k c, t !! k = Some c -> zero_key c = false.

Lemma ctr_add_spec v d v' : ctr_add v d = Some v' -> v' = v + d /\ v' <= max_local.
Proof.
  unfold ctr_add. destruct (max_local <? v + d) eqn:E; [discriminate|].
  intros [= <-]. apply N.ltb_ge in E. auto.
Qed.

(* retrieveExistingAndAssignKeys on the tree with fix F44 *)
Lemma retrieve_assign_spec t ctr chs retr er ctr' chs2 created amb :
  tab_pos t ->
  retrieve_assign true t ctr chs retr = (er, ctr', chs2, created, amb) ->
  (er <> EOk -> created = [] /\ ctr' = ctr) /\
  (er = EOk -> ctr <= ctr' /\ ctr' <= max_local /\
     forall j c, created !! j = Some c ->
       exists c0, c0 ∈ chs /\ keyed_from c0 c (ctr + N.of_nat j + 1) /\ ctr + N.of_nat j + 1 <= ctr').
Proof.
  intros Hpos. unfold retrieve_assign.
  set (names := c_name <$> chs).
  destruct (if retr then _ else _) as [[chs1 inc] amb0] eqn:E1.
  assert (H1 : N.of_nat (zeros chs1) <= inc /\ inc <= N.of_nat (length chs) /\
               forall c, c ∈ chs1 -> zero_key c = true -> c ∈ chs).
  { destruct retr.
    - destruct (lookup_names t names) as [ex amb1] eqn:El.
      destruct (apply_existing true names ex chs (N.of_nat (length chs)) []) as [c1 i1] eqn:Ea.
      injection E1 as <- <- <-.
      assert (Hex : Forall (fun kc => zero_key kc.2 = false) ex).
      { apply Forall_forall. intros [k c] Hin. simpl. eapply Hpos, lookup_names_sound; eassumption. }
      eapply apply_existing_inv in Ea as (Hl & Hz & Hle & Hfrom); try eassumption.
      + split; [assumption|]. split; [assumption|].
        intros c Hc Hzero. destruct (Hfrom c Hc) as [?|Hin]; [assumption|].
        apply elem_of_list_fmap in Hin as ([k c'] & -> & Hin). simpl in Hzero.
        rewrite Forall_forall in Hex. specialize (Hex _ Hin). simpl in Hex. congruence.
      + unfold names. rewrite fmap_length. reflexivity.
      + constructor.
      + intros i Hi. inversion Hi.
      + simpl. lia.
    - injection E1 as <- <- <-. split; [|split; [lia|auto]].
      pose proof (zeros_le chs [] (NoDup_nil_2) (fun i Hi => match (not_elem_of_nil i) Hi with end)).
      simpl in H. lia. }
  destruct H1 as (Hz & Hinc & Hfrom).
  destruct (ctr_add ctr inc) as [next|] eqn:Ec.
  - destruct (assign_keys (next - inc) chs1 []) as [c2 cr] eqn:Ea. intros [= <- <- <- <- <-].
    apply ctr_add_spec in Ec as [-> Hmax].
    split; [congruence|]. intros _. split; [lia|]. split; [assumption|].
    apply assign_keys_spec in Ea as (new & -> & Hlen & _ & Hnew & _). simpl.
    intros j c Hj. destruct (Hnew j c Hj) as (c0 & Hc0 & Hk & _).
    replace (ctr + inc - inc) with ctr in Hk by lia. simpl in Hk.
    exists c0. split; [apply Hfrom; [assumption|]; unfold zero_key; destruct Hk as [-> _]; reflexivity|].
    split; [assumption|].
    apply lookup_lt_Some in Hj. rewrite Hlen in Hj. lia.
  - intros [= <- <- <- <- <-]. split; [auto|congruence].
Qed.

(* the pinned upstream code (before fix F44): two existing channels of one requested name make
   the counter advance by less than the number of keys handed out *)
Definition f44_tab : table :=
  list_to_map [(new_key node_free 5, Chan "x" node_free 2 false 5 0 true false 0);
               (new_key node_free 6, Chan "x" node_free 2 false 6 0 true false 0)].
Definition f44_req : list chan :=
  [Chan "x" node_free 2 false 0 0 true false 0; Chan "y" node_free 2 false 0 0 true false 0].
Lemma retrieve_assign_unfixed_refuted :
  match retrieve_assign false f44_tab 6 f44_req true with
  | (er, ctr', _, created, _) => er = EOk /\ ctr' = 6 /\ (c_lkey <$> created) = [7]
  end.
Proof. vm_compute. repeat split; reflexivity. Qed.
